"""C18 — a format string maps columns by position, and inspect's suggestion round-trips.

Proof: Props/C18.lean over `Fmt.Impl.parseFormat` / `detect` / `suggest` (Model/Fmt.lean, hand models) and the
REGENERATED constant tables Gen/FmtTables.lean (reserved names, required fields, default date formats, the four
header keyword tables; the translator also pins the two regular expressions textually).
Tie: the translator (every run) + differential correspondence
  * `parse_format_string`          vs `Impl.parseFormat`  (every arrangement <= W wide x spellings, wide random
                                                          arrangements, malformed / edited strings, templates)
  * `auto_detect_csv_format(file)` vs `Impl.detect`       (header rows from the keyword tables + adversarial)
  * cmd_inspect's `format:` line   vs `Impl.suggest`      (real CSV files, and arbitrary specs injected in place
                                                          of auto_detect_csv_format)
  * str.split/strip/lower/isspace, `\\w`, the two regexes vs the native matchers (primitive stream)
Oracle on the implementation alone: render an arrangement -> parse -> the positions / date format / sign mode
are the arrangement's (or ValueError when it is ill-formed); run cmd_inspect on generated CSV files -> parse the
suggested `format:` string -> the same date / description / amount columns inspect reported.
Statement files (dates in 36 shapes: numeric, month names with and without comma, weekdays, 2-digit years, ISO / US / European with a
time of day; documented header keywords, one role per header): the suggestion is accepted, gives back the date format AND the columns
inspect reported, selects the statement's own date / description / amount cells from every row, and - when it names the format the dates
were written with - parse_generic_csv reads exactly the statement's transactions with it.  Props/C18 `accepted_date_format_has_no_comma`,
`comma_date_format_never_roundtrips`: a reported date format with a comma can never round-trip.
Custom column names that look reserved (NEAR_POOL: desc, amt, loc, dates, description2, amount_usd, field1, look-alikes ...): ordinary captures
at their written positions in both modes (`gen_near_miss` + the pool of every arrangement stream; Props/C18
`nonreserved_name_is_captured_at_its_position`).  Headers carrying keywords of several roles (Payment Date, Debit Description, City Name ...):
`gen_multirole`; `oracle_detection` = pairwise distinct columns + the first fit stated role by role (`first_fit`; Props/C18
`detect_first_fit`, `detect_header_fills_at_most_one_role`, `detect_fails_only_when_a_required_role_is_unserved`), on every header row.
"""
import contextlib
import csv
import io
import itertools
import json
import os
import re
import shutil
import tempfile
import types

from .. import common, regen
from ..translate import fmt_tables

FIELD_RE = re.compile(fmt_tables.FIELD_RE)          # the harness's own copies: used to RECORD what Python's
REF_RE = re.compile(fmt_tables.TEMPLATE_REF_RE)     # re / str.lower answer for a case (oracle tables), never the model
DEFAULT_FMT = '%m/%d/%Y'
KINDS = ['date', 'desc', 'amount', 'loc', 'custom', 'skip']
CANON = {'date': 'date', 'desc': 'description', 'amount': 'amount', 'loc': 'location'}
CUSTOM_POOL = ['merchant', 'type', 'memo', 'ref_no', 'x1', '_a', '__', 'a', 'payee2', 'ünï', 'ΑΣ', 'naïve_1']
# Names a user gives a CUSTOM column that merely LOOK like a reserved word (date, description, amount, location, field, _): prefixes,
# abbreviations, plurals, numbered / suffixed / prefixed variants, compounds, and Unicode look-alikes (long s, fullwidth letters, a
# Cyrillic a, dotless i, the fi ligature) - and names that are prefixes / plurals of EACH OTHER.  None of them is reserved: each is an
# ordinary capture at the position where it is written, in any letter case.
NEAR_POOL = ['desc', 'descr', 'descript', 'descriptio', 'descriptions', 'description2', 'description_', '_description', 'desc_2', 'des', 'd',
             'amt', 'amnt', 'amoun', 'amounts', 'amount_usd', 'amount2', 'amount_', '_amount', 'amt2', 'am',
             'loc', 'locn', 'locat', 'locations', 'location2', 'location_', '_location', 'lo', 'l',
             'dt', 'dat', 'dates', 'date2', 'date_', '_date', 'posted_date', 'trans_date', 'datetime',
             'field1', 'fields', 'fiel', 'field_', '_field', 'f',
             '_1', '_x', 'x_', '___', '_0',
             'name', 'category', 'note', 'notes', 'ref', 'payee', 'vendor', 'acct',
             'de\u017fcription', '\uff41\uff4d\uff4f\uff55\uff4e\uff54', 'd\u0430te', 'locat\u0131on', '\ufb01eld']
NEAR_SET = {n.lower() for n in NEAR_POOL}
DATE_FMTS = [None, None, '%m/%d/%Y', '%Y-%m-%d', '%d.%m.%Y', '%d %b %Y', '%m/%d/%y %H:%M', ' %Y', '{%Y', '%d %m', ':', 'x']
PRES = ['', '', ' ', ' ', '  ', '\t', ' \t ', '\n', '\x0b\x0c', '\x1c\x1f', ' ', '  ', '　']
RESTS = ['', '', '', '', ' ', '  \t', ' x', 'junk', '}', '{', ' {amount}', ' ', '  ', ':x']
SPECS = [None, None, None, 'x', '%Y', ' ', '{', 'a:b', 'é']


# ------------------------------------------------------------------ what Python answers (oracle tables)

def ext_of(texts, lower_keys):
    chars = {c for s in texts for c in s if ord(c) >= 128}
    return {'space': sorted(ord(c) for c in chars if c.isspace()),
            'word': sorted(ord(c) for c in chars if re.match(r'\w', c)),
            'lower': sorted([k, k.lower()] for k in set(lower_keys) if not k.isascii())}


def fmt_case(fmt, tmpl):
    names = []
    for part in fmt.split(','):
        m = FIELD_RE.match(part.strip())
        if m:
            names.append(m.group(2))
    return {'op': 'fmt', 'format': fmt, 'template': tmpl, 'ext': ext_of([fmt, tmpl or ''], names)}


# ------------------------------------------------------------------ arrangements, spellings, the spec answer

def rand_case(r, s):
    mode = r.random()
    if mode < 0.4:
        v = s
    elif mode < 0.55:
        v = s.upper()
    elif mode < 0.7:
        v = s.capitalize()
    else:
        v = ''.join(c.upper() if r.random() < 0.5 else c for c in s)
    # a letter-case variant is a spelling of the SAME name only when it lower-cases back to it (long s, dotless i and the fi ligature
    # upper-case to plain S / I / FI: 'DESCRIPTION' is not a spelling of the custom name with a long s in it)
    return v if v.lower() == s.lower() else s


BLANKS = ['', '', ' ', ' ', '  ', '\t', ' \t ']


def spell(r, col, canonical=False, wide=True):
    """attach a spelling to an abstract column (in place).
    canonical = the plain documented spelling;
    wide=False = the spellings the property statement lists ({_}/{*}, letter case, blanks around the token, date
                 formats, +/- on the amount) — the class the implementation-only oracle is entitled to demand;
    wide=True  = the whole class `SpOK` of the Lean theorem (ignored +/- and :spec on any column, Unicode blanks,
                 arbitrary comma-free text after the closing brace) — used for the model correspondence only."""
    k = col['k']
    if not canonical and not wide:
        sp = {'pre': r.choice(BLANKS), 'sign': '', 'spec': None, 'rest': r.choice(BLANKS)}
        sp['name'] = r.choice(['_', '*']) if k == 'skip' else rand_case(r, col['name'] if k == 'custom' else CANON[k])
    elif canonical:
        sp = {'pre': '', 'sign': '', 'spec': None, 'rest': ''}
        sp['name'] = {'skip': '_', 'custom': col.get('name', '')}.get(k) or CANON.get(k, '')
        if k == 'custom':
            sp['name'] = col['name']
    else:
        sp = {'pre': r.choice(PRES), 'sign': r.choice(['', '', '', '-', '+']), 'spec': r.choice(SPECS), 'rest': r.choice(RESTS)}
        if k == 'skip':
            sp['name'] = r.choice(['_', '*', '_', '*'])
        elif k == 'custom':
            sp['name'] = rand_case(r, col['name'])
        else:
            sp['name'] = rand_case(r, CANON[k])
    if k == 'date':
        sp['spec'] = col.get('fmt')
    if k == 'amount':
        sp['sign'] = col.get('mode', '')
    col['sp'] = sp
    return col


def render_tok(col):
    sp = col['sp']
    return sp['pre'] + '{' + sp['sign'] + sp['name'] + (':' + sp['spec'] if sp['spec'] is not None else '') + '}' + sp['rest']


def render(cols):
    return ','.join(render_tok(c) for c in cols)


def expected(cols, tmpl):
    """The property's answer for the format string that lists `cols` in order: ('ok', spec) or ('err', reason).
    Positions are indices in the arrangement — nothing here looks at the rendered text."""
    pos, customs = {}, {}
    for i, c in enumerate(cols):
        k = c['k']
        if k == 'skip':
            continue
        if k == 'custom':
            n = c['sp']['name'].lower()
            if n in customs:
                return ('err', 'duplicate')
            customs[n] = i
        else:
            if k in pos:
                return ('err', 'duplicate')
            pos[k] = i
    has_desc = 'desc' in pos
    if 'date' not in pos or 'amount' not in pos:
        return ('err', 'missing-required')
    if not has_desc and not customs:
        return ('err', 'no-description')
    if not has_desc and not tmpl:
        return ('err', 'custom-without-template')
    refs = REF_RE.findall(tmpl) if tmpl else []
    allowed = set() if has_desc else set(customs)
    if any(x not in allowed for x in refs):
        return ('err', 'uncaptured-ref')
    d, a = cols[pos['date']], cols[pos['amount']]
    cl = [[k, v] for k, v in customs.items()]
    return ('ok', {
        'date_column': pos['date'], 'date_format': d.get('fmt') or DEFAULT_FMT, 'amount_column': pos['amount'],
        'description_column': pos.get('desc'), 'custom_captures': None if (has_desc or not cl) else cl,
        'description_template': tmpl, 'extra_fields': cl if (has_desc and cl) else None,
        'location_column': pos.get('loc'), 'negate_amount': a.get('mode') == '-', 'abs_amount': a.get('mode') == '+'})


def fill(r, kinds, dup_custom=False):
    """abstract columns for a sequence of kinds: random date format / sign mode, distinct custom names"""
    pool = CUSTOM_POOL + NEAR_POOL
    r.shuffle(pool)
    cols, used = [], []
    for k in kinds:
        c = {'k': k}
        if k == 'date':
            c['fmt'] = r.choice(DATE_FMTS)
        elif k == 'amount':
            c['mode'] = r.choice(['', '', '-', '+'])
        elif k == 'custom':
            if dup_custom and used and r.random() < 0.5:
                c['name'] = r.choice(used)
            else:
                c['name'] = pool[len(used) % len(pool)] + ('' if len(used) < len(pool) else str(len(used)))
            used.append(c['name'])
        cols.append(c)
    return cols


def template_for(r, cols, variant=None):
    names = [c['sp']['name'].lower() for c in cols if c['k'] == 'custom']
    has_desc = any(c['k'] == 'desc' for c in cols)
    v = variant if variant is not None else r.random()
    if not names:
        return None if v < 0.8 else r.choice(['', 'plain text', '{nothing}', '{} {a b}'])
    if has_desc:
        return None if v < 0.7 else r.choice(['', 'no refs { } {a-b}', '{' + names[0] + '}'])
    if v < 0.62:
        pick = [n for n in names if r.random() < 0.7] or names[:1]
        return ' - '.join('{' + n + '}' for n in pick) + r.choice(['', ' {', ' {}', ' {a b}', '}{'])
    if v < 0.72:
        return None
    if v < 0.8:
        return ''
    if v < 0.9:
        return '{' + names[0] + '} {' + r.choice(['other', names[0].upper() if names[0].upper() != names[0] else 'zz', 'date', 'description']) + '}'
    return '{{' + names[0] + '}} {' + names[-1] + '}x{' + names[0]


# arrangement shapes for one near-miss name N and a partner capture P: (kinds, template, what the property says)
NEAR_SHAPES = [
    (['date', 'N', 'amount'], '{N}'),                                               # Mode 2, the template names it
    (['date', 'N', 'P', 'amount'], '{P} ({N})'),
    (['N', 'skip', 'date', 'amount', 'loc', 'P'], '{N} - {P}'),
    (['amount', 'date', 'P', 'N'], '{N}'),                                          # P captured, not referenced
    (['date', 'desc', 'N', 'amount'], None),                                        # Mode 1: an extra field
    (['N', 'date', 'desc', 'amount', 'loc', 'P'], None),
    (['date', 'desc', 'amount', 'loc', 'N'], None),                                 # next to all four reserved columns
    (['loc', 'N', 'amount', 'desc', 'P', 'date'], None),
    (['date', 'desc', 'N', 'amount'], '{N}'),                                       # extra fields are not template captures: rejected
    (['date', 'N', 'amount'], None),                                                # capture without template: rejected
    (['date', 'N', 'amount', 'N'], '{N}'),                                          # the same name twice (other letter case): rejected
    (['date', 'N', 'amount'], '{N} {description}'),                                 # template names a reserved word: rejected
    (['date', 'N', 'amount'], '{N} {P}'),                                           # template names an uncaptured relative: rejected
]


def gen_near_miss(r):
    """every near-miss name as a custom capture (Mode 2, referenced by the description template) and as an extra field (Mode 1, next to
    {description}), alone / with a partner capture drawn from the same pool (often a prefix or plural of it) / next to the real
    reserved columns; canonical spelling and the property's spelling class (letter case, blanks, {_}/{*}).  yields (cols, fmt, tmpl, tag)"""
    for n in NEAR_POOL:
        family = [m for m in NEAR_POOL if m != n and (m.startswith(n[:2]) or n.startswith(m[:2]))] or NEAR_POOL
        for kinds, tmpl in NEAR_SHAPES:
            for canonical in (True, False):
                partner = r.choice([m for m in (family if r.random() < 0.6 else CUSTOM_POOL + NEAR_POOL) if m.lower() != n.lower()])
                cols = []
                for k in kinds:
                    c = {'k': 'custom', 'name': n if k == 'N' else partner} if k in ('N', 'P') else {'k': k}
                    if k == 'date':
                        c['fmt'] = r.choice(DATE_FMTS[:6])
                    elif k == 'amount':
                        c['mode'] = r.choice(['', '', '-', '+'])
                    cols.append(spell(r, c, canonical=canonical, wide=False))
                t = None if tmpl is None else tmpl.replace('{N}', '{' + n.lower() + '}').replace('{P}', '{' + partner.lower() + '}')
                yield cols, render(cols), t, 'near-miss-names'


def spec_of_impl(s):
    def d(x):
        return None if x is None else [[k, v] for k, v in x.items()]
    return {'date_column': s.date_column, 'date_format': s.date_format, 'amount_column': s.amount_column,
            'description_column': s.description_column, 'custom_captures': d(s.custom_captures),
            'description_template': s.description_template, 'extra_fields': d(s.extra_fields),
            'location_column': s.location_column, 'negate_amount': s.negate_amount, 'abs_amount': s.abs_amount}


def impl_parse(fmt, tmpl):
    from tally import format_parser
    try:
        s = format_parser.parse_format_string(fmt, tmpl)
    except ValueError:
        return {'err': 'ValueError'}
    except Exception as e:  # noqa: BLE001 - any other exception class is itself an observable outcome
        return {'err': type(e).__name__}
    return {'ok': spec_of_impl(s), 'const': [s.has_header, s.delimiter, s.source_name]}


def model_parse_canon(m):
    if 'ok' in m:
        return {'ok': m['ok'], 'const': [True, None, None]}
    return {'err': m.get('err')}


REASON_CLASS = {'duplicate': 'accepts-duplicate', 'missing-required': 'accepts-missing-required',
                'no-description': 'accepts-no-description', 'custom-without-template': 'accepts-custom-without-template',
                'uncaptured-ref': 'accepts-uncaptured-template-ref'}


def oracle_arrangement(cols, tmpl):
    """the property on the implementation alone, for one spelled arrangement; returns a failure dict or None"""
    fmt = render(cols)
    want = expected(cols, tmpl)
    got = impl_parse(fmt, tmpl)
    base = {'format': fmt, 'template': tmpl, 'arrangement': [[c['k'], c.get('fmt'), c.get('mode'), c['sp']['name']] for c in cols],
            'observed': got}
    if want[0] == 'err':
        if got.get('err') != 'ValueError':
            return dict(base, **{'class': REASON_CLASS[want[1]] if 'ok' in got else 'wrong-exception',
                                 'required': 'ValueError (' + want[1] + ')'})
        return None
    if 'ok' not in got:
        return dict(base, **{'class': 'rejects-wellformed', 'required': {'ok': want[1]}})
    if got['ok'] != want[1]:
        diff = [k for k in want[1] if got['ok'].get(k) != want[1][k]]
        cls = 'wrong-positions' if any(k.endswith('_column') or k in ('custom_captures', 'extra_fields') for k in diff) else \
            'wrong-date-format' if 'date_format' in diff else 'wrong-sign-mode' if any('amount' in k for k in diff) else 'wrong-spec'
        return dict(base, **{'class': cls, 'differs_in': diff, 'required': {'ok': want[1]}})
    return None


def replay_arrangement(ce):
    """re-execute a stored arrangement counterexample against the current code"""
    got = impl_parse(ce['format'], ce['template'])
    req = ce['required']
    ok = (got.get('err') == 'ValueError') if isinstance(req, str) else (got.get('ok') == req['ok'])
    return None if ok else dict(ce, observed=got)


# ------------------------------------------------------------------ malformed / edited format strings

BAD_TOKENS = ['', ' ', '{}', '{date:}', '{-}', '{+}', '{da te}', 'date', '{date', 'date}', '{date}}', '{{date}}', '{date:%Y}x',
              '{*x}', '{**}', '{_x}', '{__}', '{-_}', '{+*}', '{*:x}', '{field}', '{FIELD}', '{Field:1}', '{-date}', '{+date:%Y}',
              '{--amount}', '{-+amount}', '{ amount}', '{amount }', '{amount:}', '{amount:x}', '{+Amount}', '{-AMOUNT} trailing',
              '{daté}', '{İ}', '{K}', '{ſ}', '{ª1}', '{á}', '{٣}', '{date:é}', '{date:a}b}',
              '{date:%b %d', ' %Y}', '{description', '{location}{amount}', 'x{date}', '{date:{}', '{date::}', '{:x}', '{-:x}',
              '{a-b}', '{a.b}', '{1}', '{1a:}}', '{_:}', '{ }', ' {date} ', '\x1f{amount}\x1c', '{amount}\x00', '\x00{amount}']
EDIT_ALPHABET = list('{}:,-+*_ \t') + list('adeDT1') + ['é', ' ', 'İ']


def edit(r, s):
    for _ in range(r.choice([1, 1, 2, 3])):
        op = r.random()
        i = r.randint(0, len(s))
        if op < 0.35 and s:
            i = min(i, len(s) - 1)
            s = s[:i] + s[i + 1:]
        elif op < 0.7:
            s = s[:i] + r.choice(EDIT_ALPHABET) + s[i:]
        elif s:
            i = min(i, len(s) - 1)
            s = s[:i] + r.choice(EDIT_ALPHABET) + s[i + 1:]
    return s


def rand_kinds(r, n):
    """mostly well-formed kind sequences of width n"""
    ks = ['date', 'amount', r.choice(['desc', 'custom', 'desc', 'custom', 'skip'])]
    while len(ks) < n:
        ks.append(r.choice(['skip', 'skip', 'custom', 'custom', 'loc', 'desc', 'date', 'amount'])
                  if r.random() < 0.25 else r.choice(['skip', 'skip', 'custom']))
    ks = ks[:max(n, 1)]
    r.shuffle(ks)
    return ks


# ------------------------------------------------------------------ headers, CSV files, inspect

class Bench:
    """scratch directory for generated CSV files (outside /repo and /verif), removed at the end"""
    def __init__(self):
        self.dir = tempfile.mkdtemp(prefix='c18_')
        self.path = os.path.join(self.dir, 'stmt.csv')

    def close(self):
        shutil.rmtree(self.dir, ignore_errors=True)

    def write(self, headers, rows, raw=None):
        with open(self.path, 'w', encoding='utf-8', newline='') as f:
            if raw is not None:
                f.write(raw)
                return
            w = csv.writer(f)
            w.writerow(headers)
            for row in rows:
                w.writerow(row)

    def read_headers(self):
        """what csv.reader (trusted) yields for the first record, opened the way the implementation opens it"""
        with open(self.path, 'r', encoding='utf-8') as f:
            return next(csv.reader(f), None)


def impl_detect(path):
    from tally import parsers
    try:
        s = parsers.auto_detect_csv_format(path)
    except ValueError:
        return {'err': 'ValueError'}
    except Exception as e:  # noqa: BLE001
        return {'err': type(e).__name__}
    out = {'ok': {'date': s.date_column, 'date_format': s.date_format, 'desc': s.description_column,
                  'amount': s.amount_column, 'location': s.location_column}}
    rest = [s.custom_captures, s.description_template, s.extra_fields, s.has_header, s.source_name,
            s.negate_amount, s.abs_amount, s.delimiter]
    if rest != [None, None, None, True, None, False, False, None]:
        out['unexpected_fields'] = repr(rest)
    return out


RE_DATE = re.compile(r'^  - Date column: (\d+) \(format: (.*)\)$', re.M)
RE_DESC = re.compile(r'^  - Description column: (\d+)$', re.M)
RE_AMT = re.compile(r'^  - Amount column: (\d+)$', re.M)
RE_LOC = re.compile(r'^  - Location column: (\d+)$', re.M)
RE_FMT = re.compile(r'^  Suggested format string:\n    format: "(.*)"$', re.M)


def run_inspect(path, inject=None):
    """cmd_inspect in-process, stdout captured. inject = a FormatSpec to return instead of auto-detecting."""
    from tally.commands import inspect as insp
    buf, err = io.StringIO(), io.StringIO()
    saved = insp.auto_detect_csv_format
    if inject is not None:
        insp.auto_detect_csv_format = lambda fp: inject
    try:
        with contextlib.redirect_stdout(buf), contextlib.redirect_stderr(err):
            try:
                insp.cmd_inspect(types.SimpleNamespace(file=path, rows=2))
            except SystemExit as e:
                return {'exit': e.code}
            except Exception as e:  # noqa: BLE001
                return {'crash': type(e).__name__}
    finally:
        insp.auto_detect_csv_format = saved
    out = buf.getvalue()
    if 'Successfully detected format!' not in out:
        return {'detected': False, 'attempted': 'Auto-Detection Results:' in out}
    d, s, a, l, f = RE_DATE.search(out), RE_DESC.search(out), RE_AMT.search(out), RE_LOC.search(out), RE_FMT.search(out)
    if not (d and s and a and f):
        return {'detected': True, 'unparsed': True}
    return {'detected': True, 'date': int(d.group(1)), 'date_format': d.group(2), 'desc': int(s.group(1)),
            'amount': int(a.group(1)), 'location': int(l.group(1)) if l else None, 'format': f.group(1)}


def oracle_inspect(bench, headers, rows, raw=None):
    """property clause 2 on the implementation alone"""
    bench.write(headers, rows, raw)
    rep = run_inspect(bench.path)
    base = {'headers': headers, 'rows': rows, 'raw': raw, 'inspect': rep}
    if 'crash' in rep or 'exit' in rep or rep.get('unparsed'):
        return rep, dict(base, **{'class': 'inspect-crashes', 'required': 'inspect prints a report'})
    if not rep.get('detected'):
        return rep, None
    got = impl_parse(rep['format'], None)
    if 'ok' not in got:
        return rep, dict(base, **{'class': 'suggestion-rejected', 'observed': got,
                                  'required': 'parse_format_string accepts the suggested format string'})
    sel = {k: got['ok'][k + '_column'] for k in ('date', 'description', 'amount')}
    want = {'date': rep['date'], 'description': rep['desc'], 'amount': rep['amount']}
    if sel != want:
        return rep, dict(base, **{'class': 'suggestion-selects-other-columns', 'observed': sel, 'required': want})
    return rep, None


# ------------------------------------------------------------------ statement files: the DATA decides nothing about the round trip
# Bank, card and brokerage exports spell dates in many ways.  Whatever inspect learns from the data rows and puts into its report,
# the suggested format string must still be a format string: accepted by parse_format_string, giving back the date format and the
# columns inspect reported, and selecting from every data row the cells the statement has in its date / description / amount columns.
# Header keywords are the ones the documentation of auto_detect_csv_format lists, one role per header, so which column is which is
# generator truth.  (fmt, how the cell is written)  — `None` = strftime(fmt)
DATE_SHAPES = [
    ('%m/%d/%Y', None), ('%m/%d/%Y', 'nopad'), ('%m/%d/%y', None), ('%Y-%m-%d', None), ('%m-%d-%Y', None), ('%d.%m.%Y', None), ('%d/%m/%Y', None),
    ('%d-%m-%Y', None), ('%d.%m.%y', None), ('%Y/%m/%d', None), ('%Y%m%d', None), ('%Y.%m.%d', None),
    ('%b %d, %Y', None), ('%b %d, %Y', 'nopad'), ('%B %d, %Y', None), ('%b %d %Y', None), ('%d %b %Y', None), ('%d %b %Y', 'nopad'), ('%d-%b-%Y', None),
    ('%d %B %Y', None), ('%d-%b-%y', None), ('%d %b %y', None), ('%b-%d-%Y', None), ('%a, %b %d, %Y', None), ('%A, %B %d, %Y', None), ('%a %d %b %Y', None),
    ('%b. %d, %Y', None), ('%d. %B %Y', None), ('%Y-%m-%d %H:%M:%S', None), ('%Y-%m-%dT%H:%M:%S', None), ('%Y-%m-%dT%H:%M:%SZ', None),
    ('%m/%d/%Y %H:%M', None), ('%m/%d/%Y %I:%M %p', None), ('%d.%m.%Y %H:%M', None), ('%d/%m/%Y, %H:%M', None), ('%Y-%m-%d, %H:%M', None)]
ST_DATE_H = ['Date', 'Transaction Date', 'Posting Date', 'Trans Date', 'date', 'DATE', 'Post Date']
ST_DESC_H = ['Description', 'Merchant', 'Payee', 'Memo', 'Name', 'Merchant Name', 'DESCRIPTION', 'Original Description']
ST_AMT_H = ['Amount', 'Debit', 'Charge', 'Transaction Amount', 'AMOUNT', 'Amount (USD)']
ST_LOC_H = ['Location', 'City', 'State', 'City/State']
ST_NEUTRAL_H = ['Balance', 'Reference', 'Type', 'Check No', 'Category', 'Notes', 'Currency', 'Card', 'Id', '']
ST_DESCS = ['COFFEE SHOP 1', 'AMAZON MKTPL*2A', 'ACME, INC. PAYROLL', 'UBER *TRIP', 'Whole Foods #123', 'RENT "MAIN ST"', 'Café Zoë', 'TRANSFER TO SAVINGS']


def gen_statement(r):
    """-> dict(headers, rows, truth): a statement export with one date, one description and one amount column (optionally a location
    column and neutral columns, any order), 5-40 data rows whose date cells follow ONE shape of DATE_SHAPES (a few cells blank or
    'pending'), descriptions with commas / quotes, signed decimal amounts"""
    import datetime
    fmt, how = r.choice(DATE_SHAPES) if r.random() < 0.8 else r.choice(DATE_SHAPES[:4])     # the four commonest a little more often
    roles = ['date', 'desc', 'amount'] + (['loc'] if r.random() < 0.3 else []) + ['n'] * r.choice([0, 0, 1, 2, 3])
    r.shuffle(roles)
    pools = {'date': ST_DATE_H, 'desc': ST_DESC_H, 'amount': ST_AMT_H, 'loc': ST_LOC_H}
    neutral = r.sample(ST_NEUTRAL_H, len(ST_NEUTRAL_H))
    headers = [r.choice(pools[x]) if x != 'n' else neutral.pop() for x in roles]
    col = {x: roles.index(x) for x in ('date', 'desc', 'amount')}
    rows, truth = [], []
    d0 = datetime.datetime(r.choice([2023, 2024, 2025]), r.randint(1, 12), r.randint(1, 28), r.randint(0, 23), r.randint(0, 59), r.randint(0, 59))
    for i in range(r.choice([5, 8, 12, 20, 40])):
        d = d0 + datetime.timedelta(days=r.randint(0, 300), minutes=r.randint(0, 1440))
        cell = d.strftime(fmt)
        if how == 'nopad':        # 1/5/2025, Jan 5, 2025, 5 Jan 2025: day and month numbers without the leading zero
            cell = re.sub(r'(?<![0-9])0([1-9])(?![0-9])', r'\1', cell)
        odd = r.random()
        if odd < 0.05:
            cell = ''
        elif odd < 0.1:
            cell = r.choice(['pending', 'n/a', 'PENDING'])
        cents = r.choice([1, -1]) * r.randint(1, 250000)
        amount = ('-' if cents < 0 else '') + '%d.%02d' % divmod(abs(cents), 100)
        desc = r.choice(ST_DESCS) + ('' if r.random() < 0.5 else ' %d' % i)
        row = []
        for x in roles:
            row.append({'date': cell, 'desc': desc, 'amount': amount, 'loc': r.choice(['Seattle, WA', 'WA', '', 'NEW YORK NY']),
                        'n': r.choice(['', '1,024.00', 'debit', 'x', '12'])}[x])
        rows.append(row)
        truth.append({'date_cell': cell, 'description': desc, 'amount_cell': amount, 'cents': cents,
                      'date': d.strftime('%Y-%m-%d') if odd >= 0.1 else None})
    return {'headers': headers, 'rows': rows, 'date_format': fmt, 'written': how or 'strftime', 'columns': col, 'truth': truth}


def oracle_statement(bench, st):
    """the round trip of inspect's suggestion on a statement file whose columns and cells are generator truth"""
    rep, f = oracle_inspect(bench, st['headers'], st['rows'])
    base = {'headers': st['headers'], 'rows': st['rows'], 'raw': None, 'statement': st, 'inspect': rep}
    if f:
        return rep, dict(f, statement=st), None
    if not rep.get('detected'):
        return rep, None, None
    from tally import format_parser, parsers
    spec = format_parser.parse_format_string(rep['format'], None)
    if spec.date_format != rep['date_format']:
        return rep, dict(base, **{'class': 'suggestion-loses-the-date-format', 'observed': spec.date_format, 'required': rep['date_format']}), None
    # the cells the suggestion selects from every data row (csv.reader, trusted, as the implementation opens the file)
    with open(bench.path, 'r', encoding='utf-8') as fh:
        data = list(csv.reader(fh))[1:]
    sel = [[row[spec.date_column], row[spec.description_column], row[spec.amount_column]] for row in data]
    want = [[t['date_cell'], t['description'], t['amount_cell']] for t in st['truth']]
    if sel != want:
        i = next(k for k in range(max(len(sel), len(want))) if k >= len(sel) or k >= len(want) or sel[k] != want[k])
        return rep, dict(base, **{'class': 'suggestion-selects-other-cells-than-the-statement-has', 'row': i, 'observed': sel[i] if i < len(sel) else None,
                                  'required': want[i] if i < len(want) else None}), None
    # when the suggestion names the format the dates were written with, reading the file with it yields the statement's transactions
    reads = spec.date_format == st['date_format']
    if reads:
        try:
            txns = parsers.parse_generic_csv(bench.path, spec, [])
            got = [[t['date'].strftime('%Y-%m-%d'), t['raw_description'], round(t['amount'] * 100)] for t in txns]
        except Exception as e:  # noqa: BLE001
            got = {'crash': type(e).__name__}
        wantt = [[t['date'], t['description'], t['cents']] for t in st['truth'] if t['date'] is not None]
        if got != wantt:
            return rep, dict(base, **{'class': 'suggestion-does-not-read-the-statement', 'observed': got if isinstance(got, dict) else got[:5],
                                      'required': wantt[:5], 'rows_required': len(wantt)}), reads
    return rep, None, reads


# the header keywords of auto_detect_csv_format as documented / as of the tree this check was written against.  The check reads the four
# lists from the source on every run (the translator's extractor); this copy is used only when the extractor refuses the source (the
# lists are no longer four literal assignments), so that the header streams and their oracle still run - a refused translator is a
# broken obligation, never a reason for the check to stop.
FROZEN_TABLES = {
    'DATE_PATTERNS': ['date', 'trans date', 'transaction date', 'posting date', 'trans_date'],
    'DESC_PATTERNS': ['description', 'merchant', 'payee', 'memo', 'name', 'merchant name'],
    'AMOUNT_PATTERNS': ['amount', 'debit', 'charge', 'transaction amount', 'payment'],
    'LOCATION_PATTERNS': ['location', 'city', 'state', 'city/state', 'region']}
ROLE_ORDER = [('date', 'DATE_PATTERNS'), ('desc', 'DESC_PATTERNS'), ('amount', 'AMOUNT_PATTERNS'), ('location', 'LOCATION_PATTERNS')]


def table_words():
    """-> (the four keyword lists, where they come from)"""
    try:
        t = fmt_tables.extract(common.read(os.path.join(common.SRC, 'format_parser.py')),
                               common.read(os.path.join(common.SRC, 'parsers.py')))
        return {k: t[k] for k in fmt_tables.TABLES}, 'read from parsers.py'
    except Exception as e:  # noqa: BLE001 - Untranslatable, SyntaxError, OSError: all mean "not readable as four literal lists"
        return {k: list(v) for k, v in FROZEN_TABLES.items()}, f'frozen copy (extractor refused the source: {type(e).__name__}: {str(e)[:160]})'


def roles_of(header, tables):
    """the roles whose keyword list has a keyword inside the header (case-insensitive, surrounding blanks ignored)"""
    h = header.lower().strip()
    return [role for role, t in ROLE_ORDER if any(k in h for k in tables[t])]


def first_fit(headers, tables):
    """What header detection is REQUIRED to answer, stated role by role (never header by header, as the code does): the date column is
    the first header with a date keyword; the description column is the first header with a description keyword that is not the date
    column; the amount column the first header with an amount keyword that is neither of those; the location column likewise.  Every
    header therefore serves at most one role, and which one does not depend on what stands to its right.  Date, description and amount
    are required.  (Props/C18 `detect_first_fit` proves this characterisation for Impl.detect, for every header row.)"""
    if not headers:
        return {'err': 'ValueError'}
    matched = [roles_of(h, tables) for h in headers]
    col, used = {}, set()
    for role, _ in ROLE_ORDER:
        col[role] = next((i for i in range(len(headers)) if i not in used and role in matched[i]), None)
        if col[role] is not None:
            used.add(col[role])
    if col['date'] is None or col['desc'] is None or col['amount'] is None:
        return {'err': 'ValueError'}
    return {'ok': {'date': col['date'], 'date_format': DEFAULT_FMT, 'desc': col['desc'], 'amount': col['amount'], 'location': col['location']}}


def oracle_detection(headers_read, observed, tables):
    """detection on the implementation alone: what auto_detect_csv_format answered for the header row csv.reader (trusted) yields vs the
    first fit; and, whatever the keyword lists are, no column may serve two roles.  -> (class, required) or None"""
    o = observed.get('ok')
    if o:
        cols = [o['date'], o['desc'], o['amount']] + ([o['location']] if o['location'] is not None else [])
        if len(set(cols)) != len(cols):
            return 'one-header-detected-for-two-roles', 'date / description / amount / location columns pairwise distinct'
    want = first_fit(headers_read, tables)
    if ('ok' in want) != ('ok' in observed) or ('err' in want and observed.get('err') != 'ValueError'):
        return ('detects-a-format-where-a-required-role-has-no-header' if 'ok' in observed else 'detection-fails-though-every-role-has-a-header'
                if 'ok' in want else 'wrong-exception'), want
    if 'ok' in want and {k: o[k] for k in want['ok']} != want['ok']:
        return 'detects-other-columns-than-the-first-fit', want
    return None


def gen_multirole(r, tables):
    """header rows in which some headers carry keywords of SEVERAL roles ('Payment Date', 'Debit Description', 'Merchant Name Date',
    'City Name', 'Transaction Amount Date' ...), placed before the plain headers (the roles involved still unfilled), after them (already
    filled) or anywhere, among plain one-role headers and neutral columns; sometimes a required role has no plain header, so that it is
    served by a several-role header or by nothing (detection then has to fail, not crash).  -> (headers, info)"""
    tn = [t for _, t in ROLE_ORDER]

    def case(w):
        return r.choice([w.title(), w.title(), w, w.upper()])

    def multi():
        rs = r.sample(tn, r.choice([2, 2, 2, 3]))
        ws = [r.choice(tables[t]) for t in rs]
        return case(r.choice([' ', ' ', ' ', '/', '_', ' of ', ' - ', '']).join(ws))

    multis = [multi() for _ in range(r.choice([1, 1, 2, 3]))]
    plain = []
    drop = r.choice(tn[:3]) if r.random() < 0.35 else None
    for t in tn:
        if t == drop or (t == 'LOCATION_PATTERNS' and r.random() < 0.6):
            continue
        plain.append(case(r.choice(tables[t])))
        if r.random() < 0.15:
            plain.append(case(r.choice(tables[t])))
    plain += [r.choice(NEUTRAL).title() for _ in range(r.choice([0, 0, 1, 2]))]
    r.shuffle(plain)
    layout = r.choice(['several-role headers first', 'several-role headers last', 'anywhere'])
    if layout == 'several-role headers first':
        hs = multis + plain
    elif layout == 'several-role headers last':
        hs = plain + multis
    else:
        hs = multis + plain
        r.shuffle(hs)
    return hs, layout


def multirole_stat(headers, tables, stat):
    """counts for the evidence: for every header that matches the keyword lists of two or more roles, whether the roles it matches were
    still unfilled when it was reached (by the first fit)"""
    want = first_fit(headers, tables).get('ok')
    matched = [roles_of(h, tables) for h in headers]
    # the first-fit assignment also when a required role is missing
    col, used = {}, set()
    for role, _ in ROLE_ORDER:
        col[role] = next((i for i in range(len(headers)) if i not in used and role in matched[i]), None)
        if col[role] is not None:
            used.add(col[role])
    for i, m in enumerate(matched):
        if len(m) < 2:
            continue
        stat['headers_matching_%d_roles' % min(len(m), 3)] += 1
        stat['pairs'][' + '.join(m)] = stat['pairs'].get(' + '.join(m), 0) + 1
        filled = [x for x in m if col[x] is not None and col[x] < i]
        stat['reached_with_all_its_roles_unfilled' if not filled else
             'reached_with_all_its_roles_filled' if len(filled) == len(m) else 'reached_with_some_of_its_roles_filled'] += 1
        stat['serves_a_role'] += i in used
    stat['rows'] += 1
    stat['required_detected' if want else 'required_to_fail_a_required_role_has_no_header'] += 1


NEUTRAL = ['', 'id', 'balance', 'reference', 'type', 'check no', 'category', 'notes', '#', 'currency', 'ccy', 'état', 'Betrag']


def decorate(r, w):
    m = r.random()
    if m < 0.3:
        return w
    if m < 0.45:
        return w.upper()
    if m < 0.6:
        return w.title()
    if m < 0.7:
        return r.choice([' ', '  ', '\t', ' ']) + w + r.choice([' ', '\n', ''])
    if m < 0.8:
        return r.choice(['Trans. ', 'Orig ', 'x', '(', 'Card ']) + w + r.choice([' (USD)', 's', ' 2', '', '_col'])
    if m < 0.87:
        return w.replace(' ', r.choice(['  ', '_', '-', ' ']))
    if m < 0.94:
        return w[:-1] if len(w) > 3 else w
    return ''.join(c.upper() if r.random() < 0.5 else c for c in w)


def gen_headers(r, tables):
    """header rows: mostly detectable (one keyword per role, shuffled among neutral columns), plus adversarial
    rows (keywords of two roles in one header, a role missing, repeated roles, non-ASCII, empty cells)"""
    roles = list(tables)
    mode = r.random()
    hs = []
    if mode < 0.55:
        for role in roles:
            if role == 'LOCATION_PATTERNS' and r.random() < 0.5:
                continue
            hs.append(decorate(r, r.choice(tables[role])))
        for _ in range(r.choice([0, 0, 1, 2, 3, 5])):
            hs.append(r.choice(NEUTRAL))
        r.shuffle(hs)
    elif mode < 0.8:
        for _ in range(r.randint(1, 7)):
            k = r.random()
            if k < 0.5:
                hs.append(decorate(r, r.choice(tables[r.choice(roles)])))
            elif k < 0.75:
                a, b = r.choice(tables[r.choice(roles)]), r.choice(tables[r.choice(roles)])
                hs.append(decorate(r, a + r.choice([' ', '/', '', ' of ']) + b))
            else:
                hs.append(r.choice(NEUTRAL))
    elif mode < 0.92:
        present = [x for x in roles if r.random() < 0.7]
        for role in present:
            for _ in range(r.choice([1, 1, 2])):
                hs.append(decorate(r, r.choice(tables[role])))
        hs += [r.choice(NEUTRAL) for _ in range(r.choice([0, 1, 2]))]
        r.shuffle(hs)
    else:
        alphabet = 'adetmounscriplyhgb /_,"\néİ DATE'
        hs = [''.join(r.choice(alphabet) for _ in range(r.randint(0, 12))) for _ in range(r.randint(0, 6))]
    return hs


def gen_rows(r, n_cols):
    rows = []
    for _ in range(r.choice([0, 1, 2, 3])):
        row = []
        for _ in range(max(n_cols + r.choice([0, 0, 0, -1, 1]), 0)):
            row.append(r.choice(['01/02/2024', '12.50', '-3.00', 'COFFEE SHOP', '', 'Seattle, WA', '(4.00)', '$1,200.00']))
        rows.append(row)
    return rows


# ------------------------------------------------------------------ primitive stream

def prim_cases(r, n):
    ss = [''.join(chr(i) for i in range(128)), ''.join(chr(i) for i in range(127, -1, -1)), '', ',', ',,', ' a , b ,',
          '{a}{b} {c_1}} {{d}} {} {e f} {é}{g', '   x  ', '\x1c\x1d\x1e\x1f x \x1f', 'ABCxyz[]@`{}~İKẞΣ',
          'ΑΣ', 'ΑΣ Σ']
    ss += ['{' + t for t in BAD_TOKENS] + BAD_TOKENS
    alpha = list('{}:,-+*_ \t\nabzAZ09') + ['é', ' ', 'İ', ' ', '٣', 'ª', '́']
    for _ in range(n):
        ss.append(''.join(r.choice(alpha) for _ in range(r.randint(0, 14))))
    out = []
    for s in ss:
        out.append({'op': 'fmtprim', 's': s, 'ext': ext_of([s], [s, (FIELD_RE.match(s).group(2) if FIELD_RE.match(s) else s)])})
    return out


def prim_impl(s):
    m = FIELD_RE.match(s)
    return {'split': s.split(','), 'strip': s.strip(), 'lower': s.lower(), 'space': [c.isspace() for c in s],
            'word': [bool(re.match(r'\w', c)) for c in s], 'refs': REF_RE.findall(s),
            'tok': None if not m else [m.group(1), m.group(2), m.group(3)]}


# ------------------------------------------------------------------ the check

def gen_fmt_stream(r, quick):
    """yield (cols|None, fmt, tmpl, tag)"""
    W = 5 if quick else 7
    for n in range(0, W + 1):
        for kinds in itertools.product(KINDS, repeat=n):
            if n == 0:
                yield None, '', None, 'empty'
                continue
            cols = [spell(r, c, canonical=True) for c in fill(r, kinds)]
            yield cols, render(cols), template_for(r, cols, variant=0.0), 'exhaustive-canonical'
            cols = [spell(r, c, wide=False) for c in fill(r, kinds, dup_custom=True)]
            yield cols, render(cols), template_for(r, cols), 'exhaustive-spelled'
            if quick or n < 7:
                cols = [spell(r, c) for c in fill(r, kinds, dup_custom=True)]
                yield cols, render(cols), template_for(r, cols), 'exhaustive-spelled-wide'
    for i in range(1500 if quick else 40000):
        n = r.choice([3, 4, 6, 8, 8, 12, 20, 40])
        cols = [spell(r, c, wide=(i % 2 == 1)) for c in fill(r, rand_kinds(r, n), dup_custom=r.random() < 0.15)]
        yield cols, render(cols), template_for(r, cols), 'random-wide' if i % 2 else 'random'
    yield from gen_near_miss(r)
    for a in BAD_TOKENS:
        yield None, a, None, 'bad-token'
        yield None, '{date}, {description}, {amount}, ' + a, None, 'bad-token'
        yield None, a + ',{date},{amount},{merchant}', '{merchant}', 'bad-token'
    for _ in range(1500 if quick else 40000):
        cols = [spell(r, c, canonical=r.random() < 0.5) for c in fill(r, rand_kinds(r, r.choice([3, 4, 5, 6])))]
        yield None, edit(r, render(cols)), template_for(r, cols), 'edited'


def run(ctx):
    r = ctx.rng
    lo = common.lean_phase(ctx, 'TallyVerif.Props.C18', regen.regen_fmt_tables)  # noqa: F841
    bench = Bench()
    try:
        return _run(ctx, r, bench)
    finally:
        bench.close()


def _run(ctx, r, bench):
    from tally.format_parser import FormatSpec
    quick = ctx.quick
    prop_fail = []
    if ctx.replay:
        rp = json.loads(common.read(ctx.replay))
        ce = rp.get('counterexample') or {}
        if 'format' in ce:
            f = replay_arrangement(ce)
        elif 'statement' in ce:
            _, f, _ = oracle_statement(bench, ce['statement'])
        elif 'headers' in ce:
            _, f = oracle_inspect(bench, ce['headers'], ce['rows'], ce.get('raw'))       # (writes the file)
            if not f:
                hl = bench.read_headers() or []
                got = impl_detect(bench.path)
                bad = oracle_detection(hl, got, table_words()[0])
                if bad:
                    f = dict(ce, **{'class': bad[0], 'observed': got, 'required': bad[1], 'headers_read': hl})
        else:
            f = None
            print(f'[C18] replay file holds no counterexample (kind={rp.get("kind")}); re-running the check instead')
        if f or 'format' in ce or 'headers' in ce:
            print(f'[C18] replay: {"still fails: " + json.dumps(f, default=str)[:600] if f else "passes on the current code"}')
            common.conclude(ctx, [f] if f else [], classify=classify, search=None, required=REQUIRED)
            return ctx.finish(extra_trusted=EXTRA_TRUSTED)

    drv = common.Driver()
    hist = {}

    # ---- stream 0: primitives (native ASCII tables and the two hand-written regex matchers)
    pc = prim_cases(r, 600 if quick else 20000)
    corr = []
    try:
        for c, m in zip(pc, drv.batch(pc)):
            m = {k: v for k, v in m.items() if k != 'id'}
            im = prim_impl(c['s'])
            if m != im:
                diff = [k for k in im if m.get(k) != im[k]]
                corr.append({'s': c['s'], 'differs_in': diff, 'model': {k: m.get(k) for k in diff}, 'python': {k: im[k] for k in diff}})
    except Exception as e:  # noqa: BLE001
        corr.append({'driver_error': str(e)[:500]})
    ctx.obligation('correspondence:str.split/strip/lower/isspace,\\w,field-regex,findall-vs-Fmt-primitives', 'correspondence',
                   not corr, cases=len(pc), error=json.dumps(corr[0])[:1500] if corr else None)

    # ---- stream 1: parse_format_string vs Impl.parseFormat  (+ oracle on the arrangements)
    cases, metas = [], []
    for cols, fmt, tmpl, tag in gen_fmt_stream(r, quick):
        cases.append(fmt_case(fmt, tmpl))
        metas.append((cols, tmpl, tag))
    corr = []
    nontrivial = set()
    n_ok = 0
    near_names = set()
    near_stat = {'arrangements_with_a_near_miss_name': 0, 'in_the_systematic_stream': 0, 'required_custom_capture_mode2': 0,
                 'required_extra_field_mode1': 0, 'next_to_the_reserved_column_it_resembles': 0}
    try:
        model = drv.batch(cases)
    except Exception as e:  # noqa: BLE001
        model = None
        corr.append({'driver_error': str(e)[:500]})
    for i, c in enumerate(cases):
        cols, tmpl, tag = metas[i]
        im = impl_parse(c['format'], c['template'])
        if model is not None:
            m = model[i]
            kind = 'ok' if 'ok' in m else m.get('kind')
            hist[kind] = hist.get(kind, 0) + 1
            if model_parse_canon(m) != im:
                corr.append({'case': {k: c[k] for k in ('format', 'template')}, 'stream': tag, 'model': m, 'implementation': im})
            o = m.get('ok')
            if o and (o['date_column'] > 0 and (o['custom_captures'] or o['extra_fields'] or o['location_column'] is not None
                                                or max(o['date_column'], o['amount_column']) > 2)):
                nontrivial.add(c['format'] + '\x00' + str(c['template']))
            elif kind in ('dup_field', 'dup_custom', 'need_template', 'uncaptured_ref', 'missing_required', 'no_description') \
                    and tag != 'empty' and m.get('idx', 1) > 0:
                nontrivial.add(c['format'] + '\x00' + str(c['template']))
        if 'ok' in im:
            n_ok += 1
        if cols is not None and not tag.endswith('-wide'):
            # the oracle only demands what the property statement lists; the wider spelling class of the Lean
            # theorem (text after the brace, ignored prefixes/specs, Unicode blanks) is tied by correspondence only
            f = oracle_arrangement(cols, tmpl)
            if f:
                prop_fail.append(f)
            near_here = {x['sp']['name'].lower() for x in cols if x['k'] == 'custom'} & NEAR_SET
            if near_here:
                want = expected(cols, tmpl)
                near_stat['arrangements_with_a_near_miss_name'] += 1
                near_stat['in_the_systematic_stream'] += tag == 'near-miss-names'
                if want[0] == 'ok':
                    near_stat['required_custom_capture_mode2' if want[1]['custom_captures'] else 'required_extra_field_mode1'] += 1
                    near_stat['next_to_the_reserved_column_it_resembles'] += any(
                        CANON[y['k']].startswith(n[:2]) or n.lstrip('_').startswith(CANON[y['k']][:2])
                        for n in near_here for y in cols if y['k'] in CANON)
                else:
                    near_stat['required_rejected:' + want[1]] = near_stat.get('required_rejected:' + want[1], 0) + 1
                near_names.update(near_here)
    ctx.obligation('correspondence:parse_format_string-vs-Impl.parseFormat', 'correspondence', not corr, cases=len(cases),
                   error=json.dumps(corr[0], default=str)[:1500] if corr else None)
    n_fmt = len(cases)
    ctx.notes['fmt_outcome_histogram'] = hist
    ctx.notes['fmt_accepted'] = n_ok
    ctx.notes['near_miss_custom_names'] = dict(near_stat, names_in_the_pool=len(NEAR_POOL), names_exercised=len(near_names))
    for c in cases[40:44]:
        ctx.sample({'format': c['format'], 'template': c['template']})

    # ---- the excluded date formats (contain ',' or '}'): run on the real code, outcome recorded
    excl = {}
    for f in ['%b %d, %Y', '%d,%m', 'a}b', '%Y}']:
        excl[f] = impl_parse('{date:' + f + '}, {description}, {amount}', None)
    ctx.notes['excluded_date_formats_on_real_code'] = excl

    # ---- stream 2: auto_detect_csv_format + cmd_inspect on real files vs Impl.detect / Impl.suggest
    tables, tables_origin = table_words()
    ctx.notes['header_keyword_lists'] = tables_origin
    rows_h = []
    for role, ws in tables.items():          # every keyword alone, and with the other roles filled in
        for w in ws:
            others = [tables[x][0] for x in tables if x != role]
            rows_h.append([w])
            rows_h.append([w.upper()] + others)
            rows_h.append(others + ['x', decorate(r, w)])
    rows_h += [[], ['date', 'description', 'amount'], ['Amount', 'Description', 'Date', 'City'], ['date', 'date', 'date'],
               ['transaction amount', 'date', 'name'], ['Transaction Date', 'Merchant Name', 'State', 'Payment'],
               ['posting date', 'trans date', 'memo', 'debit', 'charge', 'region', 'city/state']]
    for _ in range(350 if quick else 50000):
        rows_h.append(gen_headers(r, tables))
    dcases, dimpl, dinsp, dmeta = [], [], [], []
    n_insp_budget = 250 if quick else 6000
    for i, hs in enumerate(rows_h):
        data = gen_rows(r, len(hs))
        raw = None
        if not hs:
            raw = r.choice(['', '\n', '\n1,2,3\n'])
        bench.write(hs, data, raw)
        read_back = bench.read_headers()
        dimpl.append(impl_detect(bench.path))
        hl = read_back or []
        dcases.append({'op': 'detect', 'headers': hl, 'ext': ext_of(hl, hl)})
        if i < n_insp_budget or i % 7 == 0:
            rep, f = oracle_inspect(bench, hs, data, raw)
            if f:
                prop_fail.append(f)
            dinsp.append(rep)
        else:
            dinsp.append(None)
        dmeta.append((hs, data, raw))
    # ---- stream 2b: statement files (date cells in every shape an export uses); oracle + the same two correspondences
    st_stat = {'files': 0, 'detected': 0, 'suggestion_names_the_format_the_dates_were_written_with': 0, 'transactions_read_back': 0,
               'suggested_date_formats': {}, 'date_shapes': {}}
    date_cells = {}      # (date format, date cell as parse_generic_csv hands it to strptime) of every statement: for the model of strptime
    for i in range(150 if quick else 4000):
        st = gen_statement(r)
        rep, f, reads = oracle_statement(bench, st)
        for fmt_ in {st['date_format'], rep.get('date_format') or st['date_format']}:
            for t_ in st['truth']:
                c_ = t_['date_cell'].strip()
                if c_:
                    date_cells[(fmt_, c_ if any(ch.isspace() for ch in fmt_) else c_.split()[0])] = t_['date']
        if f:
            prop_fail.append(f)
        read_back = bench.read_headers()
        dimpl.append(impl_detect(bench.path))
        hl = read_back or []
        dcases.append({'op': 'detect', 'headers': hl, 'ext': ext_of(hl, hl)})
        dinsp.append(rep)
        dmeta.append((st['headers'], st['rows'], None))
        st_stat['files'] += 1
        st_stat['detected'] += bool(rep.get('detected'))
        key = st['date_format'] + (' (no leading zeros)' if st['written'] == 'nopad' else '')
        st_stat['date_shapes'][key] = st_stat['date_shapes'].get(key, 0) + 1
        if rep.get('detected'):
            st_stat['suggested_date_formats'][rep['date_format']] = st_stat['suggested_date_formats'].get(rep['date_format'], 0) + 1
        if reads:
            st_stat['suggestion_names_the_format_the_dates_were_written_with'] += 1
            st_stat['transactions_read_back'] += sum(1 for t in st['truth'] if t['date'] is not None)
    ctx.notes['statement_files'] = st_stat
    # the date cells of the statements through the Lean model of datetime.strptime (Model/Strptime.lean; theorems in Props/C05):
    # the model and CPython agree on every (format, cell), and a cell written with the statement's own format reads back as its date
    try:
        from . import strptime_corr
        keys = sorted(date_cells, key=lambda k: (k[0], k[1]))
        outs = common.Driver().batch([strptime_corr.model_line(f_, c_) for f_, c_ in keys])
        sfail = []
        for (f_, c_), m_ in zip(keys, outs):
            py_ = strptime_corr.py_strptime(c_, f_)
            if m_.get('err') == 'unsupported':
                continue
            if ({'ok': m_['ok']} if 'ok' in m_ else {'err': m_.get('err')}) != ({'ok': py_['ok']} if 'ok' in py_ else {'err': py_['err']}):
                sfail.append({'format': f_, 'cell': c_, 'datetime.strptime': py_, 'Strptime.strptime': {k: v for k, v in m_.items() if k not in ('id', 'pattern')}})
        ctx.obligation('correspondence:datetime.strptime-vs-Strptime.strptime(statement date cells)', 'correspondence', not sfail, cases=len(keys),
                       error=json.dumps(sfail[0], default=str)[:1200] if sfail else None)
        ctx.notes['statement_date_cells_through_strptime_model'] = {'pairs': len(keys), 'read_as_a_date_by_the_model': sum('ok' in m_ for m_ in outs)}
    except Exception as e:
        ctx.obligation('correspondence:datetime.strptime-vs-Strptime.strptime(statement date cells)', 'correspondence', False,
                       error=f'{type(e).__name__}: {e}'[:400])
    # ---- stream 2c: headers with keywords of SEVERAL roles, where the roles are still unfilled / already filled, among plain headers
    mr_stat = {'rows': 0, 'headers_matching_2_roles': 0, 'headers_matching_3_roles': 0, 'reached_with_all_its_roles_unfilled': 0,
               'reached_with_some_of_its_roles_filled': 0, 'reached_with_all_its_roles_filled': 0, 'serves_a_role': 0,
               'required_detected': 0, 'required_to_fail_a_required_role_has_no_header': 0, 'inspect_suggestions_roundtripped': 0,
               'inspect_reports_no_format': 0, 'layouts': {}, 'pairs': {}}
    for i in range(260 if quick else 8000):
        hs, layout = gen_multirole(r, tables)
        data = gen_rows(r, len(hs))
        rep, f = oracle_inspect(bench, hs, data)
        if f:
            prop_fail.append(f)
        hl = bench.read_headers() or []
        dimpl.append(impl_detect(bench.path))
        dcases.append({'op': 'detect', 'headers': hl, 'ext': ext_of(hl, hl)})
        dinsp.append(rep)
        dmeta.append((hs, data, None))
        multirole_stat(hl, tables, mr_stat)
        mr_stat['layouts'][layout] = mr_stat['layouts'].get(layout, 0) + 1
        mr_stat['inspect_suggestions_roundtripped'] += bool(rep.get('detected'))
        mr_stat['inspect_reports_no_format'] += rep.get('detected') is False
    ctx.notes['headers_with_keywords_of_several_roles'] = mr_stat
    # ---- detection on the implementation alone, every header row of streams 2 / 2b / 2c: the first fit, one role per header
    det_stat = {'rows': len(dcases), 'required_detected': 0, 'required_to_fail': 0, 'rows_with_a_header_matching_several_roles': 0}
    for i, c in enumerate(dcases):
        bad = oracle_detection(c['headers'], dimpl[i], tables)
        want = first_fit(c['headers'], tables)
        det_stat['required_detected' if 'ok' in want else 'required_to_fail'] += 1
        det_stat['rows_with_a_header_matching_several_roles'] += any(len(roles_of(h, tables)) > 1 for h in c['headers'])
        if bad:
            hs, data, raw = dmeta[i]
            prop_fail.append({'class': bad[0], 'headers': hs, 'rows': data, 'raw': raw, 'headers_read': c['headers'],
                              'observed': dimpl[i], 'required': bad[1], 'keyword_lists': tables_origin})
    ctx.notes['detection_oracle'] = det_stat
    corr, corr_s = [], []
    n_detected = n_inspected = n_roundtrip = 0
    det_nontrivial = set()
    try:
        dmodel = drv.batch(dcases)
    except Exception as e:  # noqa: BLE001
        dmodel = None
        corr.append({'driver_error': str(e)[:500]})
    for i, c in enumerate(dcases):
        if dmodel is None:
            break
        m, im, rep = dmodel[i], dimpl[i], dinsp[i]
        mc = {'ok': m['ok']} if 'ok' in m else {'err': m.get('err')}
        if mc != im:
            corr.append({'headers': c['headers'], 'model': m, 'implementation': im})
        if 'ok' in m:
            n_detected += 1
            o = m['ok']
            if o['date'] > 0 or sorted([o['date'], o['desc'], o['amount']]) != [o['date'], o['desc'], o['amount']]:
                det_nontrivial.add(json.dumps(c['headers']))
        if rep is not None and 'crash' not in rep and 'exit' not in rep and rep.get('attempted', True):
            n_inspected += 1
            if rep.get('detected'):
                n_roundtrip += 1
                want = dict(m.get('ok') or {}, format=m.get('suggest'))
                got = {k: rep.get(k) for k in ('amount', 'date', 'date_format', 'desc', 'location', 'format')}
                if 'ok' not in m or want != got:
                    corr_s.append({'headers': c['headers'], 'model': m, 'inspect': rep})
            elif 'ok' in m:
                corr_s.append({'headers': c['headers'], 'model': m, 'inspect': rep})
    ctx.obligation('correspondence:auto_detect_csv_format-vs-Impl.detect', 'correspondence', not corr, cases=len(dcases),
                   error=json.dumps(corr[0], default=str)[:1500] if corr else None)

    # ---- stream 3: the suggestion builder on arbitrary specs (auto_detect_csv_format replaced by a stub)
    scases, simpl = [], []
    bench.write(['a', 'b', 'c'], [['01/02/2024', 'x', '1.00']])
    combos = list(itertools.product(range(4), repeat=3))
    r.shuffle(combos)
    picks = [(d, s, a, l, DEFAULT_FMT) for (d, s, a) in combos[:64 if quick else 64] for l in (None, 0, 2, 5)]
    for _ in range(150 if quick else 3000):
        picks.append((r.randint(0, 9), r.randint(0, 9), r.randint(0, 9), r.choice([None, None, r.randint(0, 12)]),
                      r.choice(['%m/%d/%Y', '%Y-%m-%d', '%d.%m.%Y', 'x', '%d %b', 'é%Y'])))
    for d, s, a, l, f in picks[:(330 if quick else 10 ** 9)]:
        spec = FormatSpec(date_column=d, date_format=f, description_column=s, amount_column=a, location_column=l)
        rep = run_inspect(bench.path, inject=spec)
        scases.append({'op': 'suggest', 'date': d, 'desc': s, 'amount': a, 'location': l, 'date_format': f, 'ext': ext_of([f], [])})
        simpl.append(rep)
    try:
        for c, m, rep in zip(scases, drv.batch(scases), simpl):
            if rep.get('format') != m.get('suggest'):
                corr_s.append({'spec': {k: c[k] for k in ('date', 'desc', 'amount', 'location', 'date_format')},
                               'model': m.get('suggest'), 'inspect': rep})
            elif rep.get('format') is not None:
                # the model's parse of the model's suggestion must also be what the real parser says
                im = impl_parse(rep['format'], None)
                if model_parse_canon(m['reparse']) != im:
                    corr_s.append({'spec': c, 'model_reparse': m['reparse'], 'implementation': im})
    except Exception as e:  # noqa: BLE001
        corr_s.append({'driver_error': str(e)[:500]})
    # ---- the real command line (`python -m tally inspect FILE`) prints the same suggestion as the in-process call
    import subprocess
    import sys
    n_cli = 0
    for hs in rows_h[2:2 + (3 if quick else 25)]:
        bench.write(hs, [['01/02/2024', 'COFFEE', '4.50', 'Seattle WA']])
        inproc = run_inspect(bench.path)
        p = subprocess.run([sys.executable, '-m', 'tally', 'inspect', bench.path], capture_output=True, text=True, timeout=120)
        m = RE_FMT.search(p.stdout)
        n_cli += 1
        if (m.group(1) if m and 'Successfully detected format!' in p.stdout else None) != inproc.get('format'):
            corr_s.append({'headers': hs, 'cli_stdout_tail': p.stdout[-400:], 'in_process': inproc})
    ctx.notes['cli_inspect_runs'] = n_cli
    ctx.obligation('correspondence:cmd_inspect-format-line-vs-Impl.suggest', 'correspondence', not corr_s,
                   cases=n_inspected + len(scases), error=json.dumps(corr_s[0], default=str)[:1500] if corr_s else None)

    ctx.notes['detect'] = {'header_rows': len(dcases), 'detected': n_detected, 'inspect_runs': n_inspected,
                           'inspect_suggestions_roundtripped': n_roundtrip, 'injected_specs': len(scases)}
    ctx.cov['evaluations'] = len(pc) + n_fmt + len(dcases) + len(scases)
    ctx.cov['traces_validated_against_impl'] = ctx.cov['evaluations']
    ctx.cov['distinct_nontrivial'] = len(nontrivial) + len(det_nontrivial)
    ctx.cov['rule'] = (
        f'format strings: every sequence over {{date, description, amount, location, custom, skip}} up to width '
        f'{5 if quick else 7} (canonical spelling + random spelling: blanks incl. \\x1c-\\x1f and Unicode spaces, letter case, '
        '{_}/{*}, ignored +/- prefixes and :specs, text after the closing brace), random arrangements up to 40 wide, '
        'a table of malformed tokens, and 1-3 character edits of valid strings; templates valid / missing / empty / '
        'wrong-case / uncaptured. header rows: every keyword of the four regenerated tables alone and in context, '
        'decorated keywords shuffled among neutral columns, two-role headers, missing / repeated roles, random text; '
        'each written to a real CSV file and read by auto_detect_csv_format and cmd_inspect. statement files: the documented header '
        'keywords, one role per header, in any order among neutral columns, 5-40 data rows whose date cells follow one of '
        f'{len(DATE_SHAPES)} shapes (numeric with / - . and no separator, 2- and 4-digit years, day or month first, without leading zeros, '
        'month names short / long with and without comma, weekday names, ISO and US dates with a time of day), a few blank / pending '
        'cells, descriptions with commas and quotes; required: the suggestion is accepted, gives back the date format and the columns '
        'inspect reported, selects from every data row the statement\'s own date / description / amount cells, and - when it names '
        'the format the dates were written with - parse_generic_csv reads exactly the statement\'s transactions with it '
        '(counts in coverage.statement_files). custom column names that LOOK reserved: '
        f'{len(NEAR_POOL)} prefixes / abbreviations / plurals / numbered, suffixed and prefixed variants / compounds / Unicode look-alikes of '
        'date, description, amount, location, field and _ (desc, descr, descriptions, description2, amt, amounts, amount_usd, loc, locations, '
        'dt, dates, posted_date, field1, fields, _1, ___, long-s / fullwidth / Cyrillic / dotless-i / ligature spellings ...) and of each '
        f'other, drawn for {near_stat["arrangements_with_a_near_miss_name"]} oracle-checked arrangements of every stream and each used '
        f'systematically ({near_stat["in_the_systematic_stream"]} arrangements: Mode 2 with a description template that references it, '
        'Mode 1 as an extra field, next to the real reserved columns, with a partner capture that is a prefix / plural of it, any letter '
        'case; and the rejections: capture without template, template on extra fields, the name twice in two letter cases, template naming '
        'the reserved word or an uncaptured relative); required: an ordinary capture at its written position '
        f'(Mode 2 captures {near_stat["required_custom_capture_mode2"]}, Mode 1 extra fields {near_stat["required_extra_field_mode1"]}, '
        f'{near_stat["next_to_the_reserved_column_it_resembles"]} of them next to the reserved column they resemble), mode unchanged, template '
        'accepted, reserved columns where written (counts in coverage.near_miss_custom_names; Props/C18 '
        'nonreserved_name_is_captured_at_its_position). headers with keywords of SEVERAL roles: '
        f'{mr_stat["rows"]} rows with {mr_stat["headers_matching_2_roles"]} two-role and {mr_stat["headers_matching_3_roles"]} three-role '
        'headers (Payment Date, Debit Description, Merchant Name Date, City Name, Transaction Amount/Date ...: every pair and triple of '
        f'roles), reached with all their roles unfilled ({mr_stat["reached_with_all_its_roles_unfilled"]}), some filled '
        f'({mr_stat["reached_with_some_of_its_roles_filled"]}) or all filled ({mr_stat["reached_with_all_its_roles_filled"]}), among plain '
        f'one-role and neutral headers; {mr_stat["required_to_fail_a_required_role_has_no_header"]} rows where a required role has no '
        'header left (detection must fail with ValueError / inspect must say so, not crash). detection oracle on ALL '
        f'{det_stat["rows"]} header rows of the file streams ({det_stat["rows_with_a_header_matching_several_roles"]} with a several-role '
        'header): the detected columns are pairwise distinct and are the FIRST FIT stated role by role (date = first header with a date '
        'keyword; description = first other header with a description keyword; amount, location likewise; Props/C18 detect_first_fit), '
        f'keyword lists {tables_origin} (counts in coverage.headers_with_keywords_of_several_roles / detection_oracle). '
        'non-trivial (format) = '
        'accepted with the date not in column 0 and a custom / extra / location column or a required column beyond '
        'index 2, or rejected for a duplicate / missing field / template reason at a column > 0; non-trivial (headers) = '
        'detected with the date not first or the three roles out of order')
    ctx.sample({'headers': dcases[30]['headers'], 'model': dmodel[30] if dmodel else None})

    def search():
        out = []
        rr = ctx.rng
        for n in range(1, 7):
            for kinds in itertools.product(KINDS, repeat=n):
                for canonical in (True, False):
                    cols = [spell(rr, c, canonical=canonical, wide=False) for c in fill(rr, kinds, dup_custom=not canonical)]
                    f = oracle_arrangement(cols, template_for(rr, cols, variant=0.0 if canonical else None))
                    if f:
                        out.append(f)
            if out:
                break
        cnt = 0
        for i in range(3000):
            hs = gen_headers(rr, tables) if i % 2 else gen_multirole(rr, tables)[0]
            rows = gen_rows(rr, len(hs))
            _, f = oracle_inspect(bench, hs, rows)
            cnt += 1
            if not f:
                hl = bench.read_headers() or []
                got = impl_detect(bench.path)
                bad = oracle_detection(hl, got, tables)
                if bad:
                    f = {'class': bad[0], 'headers': hs, 'rows': rows, 'raw': None, 'headers_read': hl, 'observed': got, 'required': bad[1]}
            if f:
                out.append(f)
                break
        for _ in range(0 if out else 3000):
            _, f, _ = oracle_statement(bench, gen_statement(rr))
            cnt += 1
            if f:
                out.append(f)
                break
        ctx.cov['evaluations'] += cnt + 2 * sum(6 ** n for n in range(1, 7))
        return out

    common.conclude(ctx, prop_fail, classify=classify, search=search, required=REQUIRED)
    return ctx.finish(extra_trusted=EXTRA_TRUSTED)


def classify(failure):
    return None     # no known findings for C18: the property is expected to hold


REQUIRED = ('the format string listing an arrangement in order parses to exactly those column positions, date format and '
            'sign mode; a missing required field, a duplicate, a custom capture without template or a template naming an '
            'uncaptured column raises ValueError; the format string inspect suggests is accepted and selects the same '
            'date / description / amount columns (and gives back the date format) inspect reported, whatever the data rows look like; '
            'a custom column is a capture at its written position whatever its name resembles (only the reserved names are special); '
            'header detection gives every header at most one role - the first fit, role by role - so the reported columns are pairwise '
            'distinct, and fails with ValueError (inspect: no suggestion) when a required role has no header')
EXTRA_TRUSTED = [
    'table translator harness/translate/fmt_tables.py (reserved names, required fields, default date formats, header keyword '
    'tables; pins the two regular expressions textually)',
    'hand models Impl.parseFormat / Impl.detect / Impl.suggest, tied by differential correspondence only',
    "Python's re (\\w, the two patterns), str.lower/isspace on non-ASCII text: parameters (`Ext`) of every theorem; "
    'csv.reader/csv.writer tokenisation of the header row',
    'cmd_inspect is observed through its stdout (the `format:` line and the four `- … column:` lines)']
