"""C17 — rule files are read by structure alone; malformed ones are rejected, not trimmed.

Proof: Props/C17.lean over `Impl.parseRulesFile` / `Impl.parseViewsFile` (Model/RulesFile.lean: hand models
of MerchantEngine.parse + _add_rule and section_engine.parse_sections; expression validity and non-ASCII `\\w`
are parameters).
Tie: correspondence of parse_merchants / parse_sections (in-process) against the compiled model on
  * abstract files (1-8 sections, tag-only rules, lets/fields/priorities/variables/transforms) rendered
    several ways by a separate renderer (comments, blanks, indentation, CRLF, key case, spacing, order),
  * single-point corruptions of valid renderings (delete / duplicate a line, alter a token, delete /
    insert a character),
  plus the 29-code-point white-space table and the lower-casing assumption re-checked against CPython.
Oracle on the implementation alone:
  * every rendering of an abstract file parses to the canonical content of that abstract file
    (⇒ layout edits are neutral, one rule per section with exactly the stated properties, file order);
  * tags: a list of CLOSED tags (parentheses balance, no comma outside them; dynamic {expression} tags with calls nested to
    depth 3, commas at any depth, string literals holding commas / parentheses / braces) joined by commas parses to exactly
    those tags (in abstract files and in a dedicated stream of one-rule files; Props/C17 `tags_exactly_the_stated`);
  * expressions whose TEXT does not balance: 30 % of all match / let / field / variable / filter expressions hold a string literal with a
    lone parenthesis / bracket / brace / quote (`contains("PAYPAL (")`, `regex("\\(REFUND")`, `contains(":(")`); an order stream renders
    1-3-section files once for every position the match / filter line can take in its section - each must parse to the same content;
  * the rejection list: missing match / filter, unknown property, malformed let / field / priority,
    syntactically invalid expression ⇒ ParseError carrying the expected line number;
  * command level: `python -m tally up` on a budget whose merchants.rules does not parse must tell the
    user (non-zero exit or an error message) instead of "Loaded 0 categorization rules"  (defect D17).
"""
import ast
import json
import os
import re
import shutil
import subprocess
import sys
import tempfile
import warnings

from .. import common

# ------------------------------------------------------------------ pools

M_OK = ['contains("NETFLIX")', 'amount > 500', 'regex("UBER\\s*EATS") and month == 12', 'anyof("A, B", "C")',
        'is_large', 'field.memo == "x: y"', 'contains("a=b")', '"#1" in description', 'contains("[x]")',
        'amount >= 10 and amount <= 20', 'not contains("HULU")', 'startswith("AMZN") or contains("AMAZON")',
        'extract("REF:(\\d+)")', 'amount * 2', 'payments[0] == 1', 'any(r.x == 1 for r in rows)', "contains('SQ *')",
        'contains("Café")', 'normalized("WHOLE FOODS") and weekday < 5']
V_OK = ['months >= 6', 'category == "Food"', 'sum(payments) / 12', 'total > 1000 and cv < 0.3', '"business" in tags',
        'count(by("month")) >= 1', 'is_frequent', 'max(payments) > 2 * avg(payments)', 'subcategory == "a: b"',
        'category == "x=y"', 'months == payments[0]']
SYNTAX_BAD = ['contains("NETFLIX"', 'amount >', '1 +* 2', 'x = 3', '"unterminated', 'a b', 'contains("A"))', 'import os',
              'amount > 5 and', ')(']
# well-formed Python that is NOT in the expression language (a node kind outside the whitelist): rejected at load like a syntax error,
# with the line - the loader's two failure paths (cannot be parsed / parses but is not allowed) are one clause of the property
UNSAFE_BAD = ['amount ** 2 > 10000', 'lambda: 1', '{1: 2} == 1', 'amount | 1 == 1', 'amount is None', 'f"{amount}" == "1"', '{1, 2} == 1',
              'amount @ 2 == 1', 'amount << 1 == 2', '~amount == 1', 'amount // 2 == 1', 'description[1:2] == "a"', '(1, 2) == 1', 'amount & 1 == 1',
              '[*description] == 1', '... == 1', 'amount ^ 1 == 1', 'amount >> 1 == 1', 'b"x" == 1' if False else 'not amount is 5']
_OUTSIDE = {}


def outside_language(e):
    """e parses as a Python expression AND contains a node kind that is not in ALLOWED_NODES (table read from the source text)"""
    if e not in _OUTSIDE:
        import ast
        from ..translate import expr_tables
        try:
            src = common.read(os.path.join(common.SRC, 'expr_parser.py'))
            tree = ast.parse(src)
            allowed = None
            for n in ast.walk(tree):
                if isinstance(n, ast.Assign) and any(isinstance(t, ast.Name) and t.id == 'ALLOWED_NODES' for t in n.targets) and isinstance(n.value, ast.Set):
                    allowed = {x.attr for x in n.value.elts if isinstance(x, ast.Attribute)}
            with warnings.catch_warnings():
                warnings.simplefilter('ignore')
                t = ast.parse(e, mode='eval')
            _OUTSIDE[e] = bool(allowed) and any(type(x).__name__ not in allowed for x in ast.walk(t))
        except Exception:                                                # noqa
            _OUTSIDE[e] = False
    return _OUTSIDE[e]


OTHER_BAD = ['lambda: 1', 'f"{amount}"', '{1: 2}', 'x if y else', '__import__("os").system("x")', 'a.b.c', '[x for x in y]']
M_NAMES = ['Netflix', 'Large Purchase', 'Uber Eats', 'A&B [x]', 'Café Zoë', 'amazon', 'X', 'Costco #12', 'a: b',
           'k = v', 'Tag-Only', '7-Eleven', 'Big Box', 'match']
V_NAMES = ['Every Month', 'Big Ones', 'Café', 'A [x', 'x=y', 'filter: z', 'Rare', 'V8', 'one-off', '# not a comment']
CATS = ['Subscriptions', 'Food', 'Food: Fast', 'Shopping & Stuff', 'Transport', 'x=y', 'Income']
SUBCATS = ['Streaming', 'Grocery', 'Ride share', '', 'a:b']
MERCHS = ['Netflix Inc', 'UBER', '', 'M & M']
TAGS = ['entertainment', 'recurring', 'large', 'Business', 'tax(a, b)', 'x y', '#hash', 'reimb(1,2)', 'income']
PRIOS = ['50', '100', '0', '-5', '+7', '007', '1_000']
LET_NAMES = ['is_large', 'x', 'Total', '_t1', 'v2']
FIELD_NAMES = ['memo', 'Ref', 'code_2', 'note']
VAR_NAMES = ['is_large', 'THRESH', 'x1', 'field', 'cutoff']
TR_NAMES = ['field.description', 'field.memo', 'field.Desc2']
VVAR_NAMES = ['is_frequent', 'avg_pay', 'X2', 'cv2', '_h']
DESCS = ['Things that recur', 'a: b = c', '#1 stuff', 'filter: not one']
SPACES = [' ', '\t', '  ', ' \t ', ' ', '  ', '\x0c']
COMMENTS = ['# comment', '#', '   # indented comment', '\t#x: y', '# [Not A Header]', '#match: z', '# a = b']
BLANKS = ['', '   ', '\t', ' ', ' \x0b ']
FEATURES_M = ['comments', 'blanks', 'indent', 'hindent', 'trailing', 'crlf', 'keycase', 'permute', 'spacing', 'hpad']
FEATURES_V = ['comments', 'blanks', 'indent', 'trailing', 'crlf', 'permute', 'spacing', 'hpad']

# ------------------------------------------------------------------ tags: static and dynamic, with nested calls
# `tags:` is a comma-separated list in which a comma INSIDE parentheses belongs to the tag (dynamic tags are `{expression}`, and
# an expression may call functions with several arguments, nest calls to any depth, and contain string literals that themselves
# hold commas, parentheses - regex groups -, braces, brackets, colons).  Quotes, braces and brackets do NOT protect a comma; only
# parentheses do.  Every tag generated here is "closed": its parentheses balance (never below 0) and it has no comma outside them,
# so the stated tags of a line are unambiguous: the tags that were joined.  `split_tags_spec` is the harness's own reading of that
# rule (used to cross-check the generator and as the oracle on free-form values).
TAG_STRS = ['" "', '"REF (\\d+)"', '"PROJ:(\\w+)"', '"a, b"', '"(x), (y)"', '"{k}"', '"}"', '"{"', '"[,]"', '"#1, #2"', "'SQ *, (INC)'",
            '"a=b: c"', '"((a)|(b)),c"', '","', '"()"', '"-"', '"(?:X|Y)+,\\s*(\\d{1,3})"', "', '"]
TAG_ATOMS = ['field.memo', 'field.holder', 'field.txn_type', 'description', 'source', 'amount', '0', '1', '-1', 'trade[0][\'term\']',
             'merchant', 'x']
TAG_FUNCS = [('extract', 2), ('split', 3), ('lowercase', 1), ('uppercase', 1), ('lower', 1), ('replace', 3), ('regex_replace', 3),
             ('trim', 1), ('substring', 3), ('concat', 2), ('f', 4), ('strip_prefix', 2)]


REF_TAGS = ['{field.txn_type}', '{source}', '{extract(field.memo, "PROJ:(\\w+)")}', "{trade[0]['term']}",
            '{split(field.holder, lowercase(" "), 0)}', '{extract(field.memo, "REF (\\d+)")}', '{lower(split(field.holder, " ", 0))}',
            '{extract(description, "#(\\d+), (\\w+)")}', '{regex_replace(field.memo, "\\s*\\(.*\\)", "")}']


def gen_tag_expr(r, depth):
    k = r.random()
    if depth <= 0 or k < 0.25:
        return r.choice(TAG_ATOMS) if r.random() < 0.5 else r.choice(TAG_STRS)
    if k < 0.33:
        return f'({gen_tag_expr(r, depth - 1)} {r.choice(["+", "or", "if x else"])} {gen_tag_expr(r, depth - 1)})'
    fn, n = r.choice(TAG_FUNCS)
    sep = r.choice([', ', ', ', ',', ' , '])
    return f'{fn}(' + sep.join(gen_tag_expr(r, depth - 1) for _ in range(n)) + ')'


def gen_tag(r):
    """one closed tag: a plain word, a static tag with (nested) parentheses, or a dynamic {expression} tag"""
    k = r.random()
    if k < 0.25:
        return r.choice(TAGS)
    if k < 0.4:          # the reference's own examples and their neighbours
        return r.choice(REF_TAGS)
    if k < 0.5:
        return r.choice(['tax(a, (b, c))', 'reimb((1,2),(3,(4,5)))', 'a(b)(c, d)', 'x (y, (z)) w', '((,))', 'f(",", g(1, 2))'])
    e = gen_tag_expr(r, r.choice([1, 1, 2, 2, 3]))
    for _ in range(20):
        if len(e) <= 160:
            break
        e = gen_tag_expr(r, 2)
    if '(' not in e and r.random() < 0.7:
        fn, n = r.choice(TAG_FUNCS)
        e = f'{fn}(' + ', '.join([e] + [gen_tag_expr(r, 2) for _ in range(n - 1)]) + ')'
    return r.choice(['{%s}', '{%s}', '{ %s }', '%s']) % e


def split_tags_spec(value):
    """the documented rule, written from the documentation: tags are separated by the commas that are not inside parentheses; each is
    trimmed; empty ones do not count; a set"""
    depth, start, parts = 0, 0, []
    for i, ch in enumerate(value):
        depth += (ch == '(') - (ch == ')')
        if ch == ',' and depth == 0:
            parts.append(value[start:i])
            start = i + 1
    parts.append(value[start:])
    return sorted({p.strip() for p in parts} - {''})


def closed_tag(t):
    depth = 0
    for ch in t:
        depth += (ch == '(') - (ch == ')')
        if depth < 0 or (ch == ',' and depth == 0):
            return False
    return depth == 0 and t == t.strip() and t != ''


def gen_tags_list(r):
    """1-4 distinct closed tags; at least one has a comma inside parentheses that is followed by a further '(' (a nested call or a
    parenthesis inside a string literal in a LATER argument) in half of the lists"""
    for _ in range(50):
        tags = []
        for _ in range(r.choice([1, 2, 2, 3, 4])):
            t = gen_tag(r)
            if t not in tags:
                tags.append(t)
        if all(closed_tag(t) for t in tags) and split_tags_spec(', '.join(tags)) == sorted(set(tags)):
            return tags
    return ['recurring']


def tag_features(tags):
    """what a list of closed tags exercises (for the evidence)"""
    f = set()
    for t in tags:
        depth, maxd, in_args_comma = 0, 0, False
        for i, ch in enumerate(t):
            depth += (ch == '(') - (ch == ')')
            maxd = max(maxd, depth)
            if ch == ',' and depth > 0:
                f.add('comma-inside-parentheses')
                rest = t[i + 1:]
                j, k = rest.find('('), rest.find(')')
                if j != -1 and (k == -1 or j < k):
                    f.add('comma-followed-by-a-deeper-parenthesis')
                if depth >= 2:
                    f.add('comma-at-depth>=2')
        if maxd >= 2:
            f.add('nested-parentheses')
        if maxd >= 3:
            f.add('depth>=3')
        if re.search(r'''["'][^"']*[(),][^"']*["']''', t):
            f.add('comma-or-parenthesis-inside-a-string-literal')
        if re.search(r'''["'][^"']*[{}\[\]][^"']*["']''', t):
            f.add('brace-or-bracket-inside-a-string-literal')
        if t.startswith('{') and t.endswith('}'):
            f.add('dynamic')
    if len(tags) >= 3:
        f.add('>=3-tags-on-the-line')
    return f


def tags_line_case(r):
    """a one-rule file whose tags: value is a list of closed tags joined in various ways -> (text, required outcome, features)"""
    tags = gen_tags_list(r)
    sep = r.choice([', ', ',', ' , ', ',  ', '\t,'])
    value = sep.join(tags)
    k = r.random()
    if k < 0.15:
        value = value + r.choice([',', ' ,', ', ,'])
    elif k < 0.3:
        value = r.choice([',', ', ']) + value
    elif k < 0.4 and len(tags) >= 2:
        value = (sep + r.choice([',', ' , '])).join(tags)             # an empty item between two tags
    name = r.choice(M_NAMES)
    cat = r.choice([None, None, 'Food'])
    lines = [f'[{name}]', 'match: ' + M_OK[0]] + ([f'category: {cat}'] if cat else []) + [r.choice(['tags: ', 'tags:', 'Tags : ', 'TAGS:\t']) + value]
    if r.random() < 0.3:
        lines.insert(1, lines.pop())                                    # tags before match
    text = '\n'.join(lines) + '\n'
    want = {'ok': {'rules': [{'name': name.strip(), 'merchant': name.strip(), 'category': cat or '', 'subcategory': '',
                              'tags': sorted(set(tags)), 'priority': 50, 'match': M_OK[0], 'lets': [], 'fields': []}],
                   'vars': [], 'transforms': []}}
    assert split_tags_spec(value) == sorted(set(tags)), value        # the generator's own consistency: the two readings agree
    return text, want, tag_features(tags)


def wild_tags_value(r):
    """a tags value that is NOT a list of closed tags (a parenthesis dropped, doubled or turned round, a comma or a quote at depth 0):
    what the stated tags are is then a matter of the loop's exact behaviour - correspondence with the model only, no oracle"""
    v = ', '.join(gen_tags_list(r))
    for _ in range(r.choice([1, 1, 2])):
        pos = [i for i, ch in enumerate(v) if ch in '(),"{}']
        if not pos:
            break
        i = r.choice(pos)
        v = r.choice([v[:i] + v[i + 1:], v[:i] + v[i] + v[i:], v[:i] + {'(': ')', ')': '(', ',': ';'}.get(v[i], ',') + v[i + 1:]])
    return v


# ------------------------------------------------------------------ expressions whose TEXT does not balance
# An expression is one line, and where it ends is decided by the line, not by what is inside it: a string literal may hold an opening
# parenthesis without its partner (a merchant text `PAYPAL (`, an escaped regex parenthesis `\\(REFUND`, a smiley), brackets, braces,
# the other kind of quote, an escaped quote, `#`, `:` and `=`.  All of these are valid expressions (CPython's own grammar, checked on
# every run in `pool_selfcheck`); counted naively their delimiters do not balance, in either direction.
UNBAL_STRS = ['"PAYPAL ("', '"\\\\(REFUND"', '"\\(REFUND"', '":("', '")"', '"a) or (b"', '"SQ *("', '"(("', '"))("', '"["', '"]"', '"[x"', '"{"', '"}"',
              '"{k"', '"it\'s"', "'say \"hi'", '"a\\"b("', "'('", "')'", '"(\'"', '"x (1 of 2"', '":)"', '"=("', '"# ("', '"\\\\"', '"(" ")"',
              '"((((("', '")))"', '"[[("', '"}])"', '", ("', "'\"('"]
M_UNBAL_TMPL = ['contains(%s)', 'regex(%s)', 'startswith(%s)', 'anyof("A", %s)', 'field.memo == %s', '%s in description', 'contains(%s) and amount > 5',
                'contains(%s) or contains("SAD")', 'not contains(%s)', 'extract(%s)', 'anyof(%s, "B")', 'contains(%s) and contains(%s)']
V_UNBAL_TMPL = ['category == %s', 'subcategory == %s', 'merchant == %s and months >= 2', '%s in tags', 'category == %s or category == %s',
                'total > 10 and category != %s']


def delimiter_balance(e):
    """(parentheses, brackets, braces, double quotes, single quotes) counted naively over the text"""
    return (e.count('(') - e.count(')'), e.count('[') - e.count(']'), e.count('{') - e.count('}'), e.count('"') % 2, e.count("'") % 2)


def gen_expr(r, kind, share=0.3):
    """an expression for a match / let / field / variable / filter line: from the plain pool, or (30 %) one with a string literal
    whose delimiters do not balance"""
    pool, tmpls = (M_OK, M_UNBAL_TMPL) if kind == 'm' else (V_OK, V_UNBAL_TMPL)
    a, b, t, plain, u = r.choice(UNBAL_STRS), r.choice(UNBAL_STRS), r.choice(tmpls), r.choice(pool), r.random()
    if u >= share:
        return plain
    return t % ((a, b) if t.count('%s') == 2 else a)


def pool_selfcheck():
    """every expression the generator can produce is an expression of CPython's grammar (judged without tally's code)"""
    bad = []
    for kind, pool, tmpls in (('m', M_OK, M_UNBAL_TMPL), ('v', V_OK, V_UNBAL_TMPL)):
        for t in tmpls:
            for a in UNBAL_STRS:
                e = t % ((a, a) if t.count('%s') == 2 else a)
                try:
                    ast.parse(e, mode='eval')
                except SyntaxError:
                    bad.append(e)
    return bad


# ------------------------------------------------------------------ abstract files


def gen_mfile(r, nsec=None, rich_tags=0.5, unbal=0.3):
    top = []
    vn = r.sample(VAR_NAMES, r.choice([0, 0, 1, 2, 3]))
    for n in vn:
        top.append(('var', n, gen_expr(r, 'm', unbal)))
    for n in r.sample(TR_NAMES, r.choice([0, 0, 1, 2])):
        top.insert(r.randint(0, len(top)), ('tr', n, r.choice(['regex_replace(field.description, "^SQ \\*", "")',
                                                               'uppercase(description)', 'trim(field.memo)'])))
    rules = []
    for _ in range(nsec or r.randint(1, 8)):
        props = [('match', gen_expr(r, 'm', unbal))]
        tag_only = r.random() < 0.3
        tags = r.sample(TAGS, r.choice([1, 2, 3])) if (tag_only or r.random() < 0.5) else None
        if tags is not None and r.random() < rich_tags:
            tags = gen_tags_list(r)
        if not tag_only:
            props.append(('category', r.choice(CATS)))
            if r.random() < 0.6:
                props.append(('subcategory', r.choice(SUBCATS)))
        elif r.random() < 0.15:
            props.append(('category', ''))
        if r.random() < 0.3:
            props.append(('merchant', r.choice(MERCHS)))
        if tags is not None:
            props.append(('tags', tags))
        elif r.random() < 0.1:
            props.append(('tags', []))
        if r.random() < 0.35:
            props.append(('priority', r.choice(PRIOS)))
        for n in r.sample(LET_NAMES, r.choice([0, 0, 0, 1, 2, 3])):
            props.append(('let', n, gen_expr(r, 'm', unbal)))
        for n in r.sample(FIELD_NAMES, r.choice([0, 0, 0, 1, 2])):
            props.append(('field', n, gen_expr(r, 'm', unbal)))
        head, rest = props[:1], props[1:]
        r.shuffle(rest)
        props = rest[:]
        props.insert(r.randint(0, len(props)), head[0])
        rules.append({'name': r.choice(M_NAMES), 'props': props})
    return {'kind': 'm', 'top': top, 'rules': rules}


def gen_vfile(r, nsec=None, unbal=0.3):
    top = [('var', n, gen_expr(r, 'v', unbal)) for n in r.sample(VVAR_NAMES, r.choice([0, 0, 1, 2, 3]))]
    secs = []
    for _ in range(nsec or r.randint(1, 8)):
        props = [('filter', gen_expr(r, 'v', unbal))]
        if r.random() < 0.4:
            props.append(('description', r.choice(DESCS)))
        for n in r.sample(VVAR_NAMES, r.choice([0, 0, 1, 2])):
            props.append(('var', n, gen_expr(r, 'v', unbal)))
        head, rest = props[:1], props[1:]
        r.shuffle(rest)
        rest.insert(r.randint(0, len(rest)), head[0])
        secs.append({'name': r.choice(V_NAMES), 'props': rest})
    return {'kind': 'v', 'top': top, 'rules': secs}


def order_cases(r):
    """the relative order of a section's distinct properties never changes the result - for files whose match / filter / let / field
    expressions hold string literals with unbalanced delimiters: one abstract file of 1-3 sections, rendered once for every position
    the match (filter) line can take among the other properties of its section (everything else in place, so lets stay in their
    order).  -> (F, [texts])"""
    kind = 'm' if r.random() < 0.7 else 'v'
    F = gen_mfile(r, nsec=r.choice([1, 2, 3]), rich_tags=0.2, unbal=0.9) if kind == 'm' else gen_vfile(r, nsec=r.choice([1, 2, 3]), unbal=0.9)
    head = 'match' if kind == 'm' else 'filter'
    longest = max(len(R['props']) for R in F['rules'])
    texts = []
    for k in range(longest):
        G = dict(F, rules=[])
        for R in F['rules']:
            rest = [p for p in R['props'] if p[0] != head]
            hp = [p for p in R['props'] if p[0] == head]
            at = min(k, len(rest))
            G['rules'].append({'name': R['name'], 'props': rest[:at] + hp + rest[at:]})
        texts.append(render(G, [], r)[0])
    return F, texts


def expected(F):
    """The canonical content of an abstract file — what every rendering of it must parse to."""
    if F['kind'] == 'm':
        vars_, trs = {}, []
        for t, n, e in F['top']:
            if t == 'var':
                vars_[n.lower()] = e
            else:
                trs.append([n, e])
        rules = []
        for R in F['rules']:
            d = {'name': R['name'], 'merchant': '', 'category': '', 'subcategory': '', 'tags': [], 'priority': 50,
                 'match': None, 'lets': [], 'fields': []}
            for p in R['props']:
                if p[0] == 'let':
                    d['lets'].append([p[1].lower(), p[2]])
                elif p[0] == 'field':
                    d['fields'].append([p[1].lower(), p[2]])
                elif p[0] == 'tags':
                    d['tags'] = sorted(set(p[1]))
                elif p[0] == 'priority':
                    d['priority'] = int(p[1])
                else:
                    d[p[0]] = p[1]
            d['merchant'] = d['merchant'] or R['name'].strip()
            d['name'] = R['name'].strip()
            rules.append(d)
        return {'ok': {'rules': rules, 'vars': [[k, v] for k, v in vars_.items()], 'transforms': trs}}
    glob = {}
    for _, n, e in F['top']:
        glob[n] = e
    secs = []
    for S in F['rules']:
        d = {'name': S['name'].strip(), 'filter': None, 'description': None, 'vars': {}}
        for p in S['props']:
            if p[0] == 'var':
                d['vars'][p[1]] = p[2]
            else:
                d[p[0]] = p[1]
        d['vars'] = [[k, v] for k, v in d['vars'].items()]
        secs.append(d)
    return {'ok': {'globals': [[k, v] for k, v in glob.items()], 'sections': secs}}


# ------------------------------------------------------------------ renderer (independent of the parsers)

def _case(r, key):
    return r.choice([key.upper(), key.capitalize(), ''.join(c.upper() if r.random() < 0.5 else c for c in key)])


def _permute(r, props):
    """shuffle, but sequences keep their relative order: lets among lets, fields among fields, vars among vars"""
    idx = list(range(len(props)))
    r.shuffle(idx)
    shuffled = [props[i] for i in idx]
    for seqkey in ('let', 'field', 'var'):
        orig = [p for p in props if p[0] == seqkey]
        it = iter(orig)
        shuffled = [next(it) if p[0] == seqkey else p for p in shuffled]
    return shuffled


def render(F, feats, r):
    """-> (text, meta) ; meta[i] describes physical line i+1: ('top', j) | ('header', s) | ('prop', s, key, k) | ('noise',)"""
    kind = F['kind']
    f = set(feats)
    sp = (lambda: r.choice(['', ' ', '  ', '\t'])) if 'spacing' in f else None
    lines = []

    def assign(n, e):
        return f'{n}{sp()}={sp()}{e}' if sp else f'{n} = {e}'

    def decorate(text, is_header):
        pre = ''
        if not is_header and 'indent' in f:
            pre = r.choice(SPACES[:4] + ['    ', '  '])
        if is_header and 'hindent' in f and kind == 'm':
            pre = r.choice(['  ', '\t', ' '])
        post = r.choice(SPACES) if 'trailing' in f and r.random() < 0.8 else ''
        return pre + text + post

    for j, (t, n, e) in enumerate(F['top']):
        lines.append((decorate(assign(n, e), False), ('top', j)))
    for s, R in enumerate(F['rules']):
        nm = R['name']
        if 'hpad' in f:
            nm = r.choice([' ', '  ', '\t']) + nm + r.choice([' ', ''])
        lines.append((decorate(f'[{nm}]', True), ('header', s)))
        props = _permute(r, R['props']) if 'permute' in f else R['props']
        for p in props:
            key = p[0]
            if key == 'var':
                lines.append((decorate(assign(p[1], p[2]), False), ('prop', s, 'var', p[1])))
                continue
            if key in ('let', 'field'):
                val = assign(p[1], p[2])
            elif key == 'tags':
                val = r.choice([', ', ',', ' , ']).join(p[1])
                if p[1] and 'spacing' in f and r.random() < 0.3:
                    val = r.choice([val + ',', ', ' + val, val.replace(',', ',,', 1) if '(' not in val else val])
            else:
                val = p[1]
            ktxt = _case(r, key) if ('keycase' in f and kind == 'm') else key
            if kind == 'v':
                colon = ':' + (sp() if sp else ' ')                 # `^filter:\s*` — nothing may precede the colon
            else:
                colon = ((sp() + ':' + sp()) if sp else ': ')
            lines.append((decorate((ktxt + colon + val).rstrip(' \t') if not val else ktxt + colon + val, False),
                          ('prop', s, key, p[1] if key in ('let', 'field') else None)))
    out = []
    for ln in lines:
        while ('comments' in f and r.random() < 0.3) or ('blanks' in f and r.random() < 0.3):
            out.append((r.choice(COMMENTS) if ('comments' in f and (r.random() < 0.5 or 'blanks' not in f)) else r.choice(BLANKS),
                        ('noise',)))
        out.append(ln)
    if 'comments' in f and r.random() < 0.5:
        out.append((r.choice(COMMENTS), ('noise',)))
    eol = '\r\n' if 'crlf' in f else '\n'
    text = eol.join(t for t, _ in out)
    if r.random() < 0.6:
        text += eol
    return text, [m for _, m in out]


# ------------------------------------------------------------------ the implementation and the model

def impl_parse(kind, text):
    if kind == 'm':
        from tally import merchant_engine as ME
        try:
            eng = ME.parse_merchants(text)
        except ME.MerchantParseError as e:
            return {'err': 'parse', 'line': e.line_number}
        except Exception as e:                                           # noqa
            return {'err': 'py', 'cls': type(e).__name__}
        return {'ok': {'rules': [{'name': x.name, 'merchant': x.merchant, 'category': x.category,
                                  'subcategory': x.subcategory, 'tags': sorted(x.tags), 'priority': x.priority,
                                  'match': x.match_expr, 'lets': [list(p) for p in x.let_bindings],
                                  'fields': [[k, v] for k, v in x.fields.items()]} for x in eng.rules],
                       'vars': [[k, v] for k, v in eng.variables.items()],
                       'transforms': [list(t) for t in eng.transforms]}}
    from tally import section_engine as SE
    try:
        cfg = SE.parse_sections(text)
    except SE.SectionParseError as e:
        return {'err': 'parse', 'line': e.line_number}
    except Exception as e:                                               # noqa
        return {'err': 'py', 'cls': type(e).__name__}
    return {'ok': {'globals': [[k, v] for k, v in cfg.global_variables.items()],
                   'sections': [{'name': s.name, 'filter': s.filter_expr, 'description': s.description,
                                 'vars': [[k, v] for k, v in s.variables.items()]} for s in cfg.sections]}}


_VALID = {}


def valid_expr(e):
    """True / False = parse_expression accepts / raises ExpressionError; None = some other exception (unmodelled)."""
    if e not in _VALID:
        from tally import expr_parser
        try:
            expr_parser.parse_expression(e)
            _VALID[e] = True
        except expr_parser.ExpressionError:
            _VALID[e] = False
        except Exception:                                                # noqa
            _VALID[e] = None
    return _VALID[e]


def cps(s):
    return [ord(c) for c in s]


def uncps(j):
    if isinstance(j, list) and j and all(isinstance(x, int) for x in j):
        return ''.join(map(chr, j))
    if isinstance(j, list):
        return [uncps(x) for x in j] if j else j
    if isinstance(j, dict):
        return {k: uncps(v) for k, v in j.items()}
    return j


STR_KEYS = {'name', 'merchant', 'category', 'subcategory', 'match', 'filter', 'description'}


def model_canon(kind, ans):
    """driver answer (code-point lists) -> the same shape impl_parse produces"""
    if 'err' in ans:
        return {'err': ans['err'], 'line': ans.get('line')}

    def s(x):
        return None if x is None else ''.join(map(chr, x))

    def pairs(l):
        return [[s(a), s(b)] for a, b in l]
    ok = ans['ok']
    if kind == 'm':
        return {'ok': {'rules': [{'name': s(x['name']), 'merchant': s(x['merchant']), 'category': s(x['category']),
                                  'subcategory': s(x['subcategory']), 'tags': [s(t) for t in x['tags']],
                                  'priority': x['priority'], 'match': s(x['match']), 'lets': pairs(x['lets']),
                                  'fields': pairs(x['fields'])} for x in ok['rules']],
                       'vars': pairs(ok['vars']), 'transforms': pairs(ok['transforms'])}}
    return {'ok': {'globals': pairs(ok['globals']),
                   'sections': [{'name': s(x['name']), 'filter': s(x['filter']), 'description': s(x['description']),
                                 'vars': pairs(x['vars'])} for x in ok['sections']]}}


def driver_case(kind, text):
    cands = set()
    for line in text.split('\n'):
        for i, ch in enumerate(line):
            if ch in ':=':
                cands.add(line[i + 1:].strip())
    table, unmodelled = [], False
    for e in sorted(cands):
        v = valid_expr(e)
        if v is None:
            unmodelled = True
            v = False
        table.append([cps(e), v])
    c = {'op': 'rulesfile' if kind == 'm' else 'viewsfile', 'text': cps(text), 'valid': table}
    if kind == 'v':
        c['word'] = sorted({ord(ch) for ch in text if ord(ch) >= 128 and re.match(r'\w', ch)})
    return c, unmodelled


# ------------------------------------------------------------------ corruptions

def join(lines, eol='\n'):
    return eol.join(lines) + eol


def targeted(F, r):
    """Single-point corruptions with a KNOWN required outcome (the rejection list of the property).
    -> list of (class, text, required_line)"""
    kind = F['kind']
    text, meta = render(F, ['comments', 'blanks'] if r.random() < 0.7 else [], r)
    L = text.split('\n')
    if L and L[-1] == '':
        L = L[:-1]
    out = []
    hdr = {m[1]: i for i, m in enumerate(meta) if m[0] == 'header'}

    def where(pred):
        return [i for i, m in enumerate(meta) if m[0] == 'prop' and pred(m)]

    def replace(i, new):
        return join(L[:i] + [new] + L[i + 1:])

    def insert_after(i, new):
        return join(L[:i + 1] + [new] + L[i + 1:])

    def delete(i):
        return join(L[:i] + L[i + 1:])
    s = r.randrange(len(F['rules']))
    h = hdr[s]
    need = 'match' if kind == 'm' else 'filter'
    # a section lacking its match / filter -> error at the header line of that section
    i = where(lambda m: m[1] == s and m[2] == need)[0]
    out.append((f'reject:missing-{need}', delete(i), h + 1 if i > h else h))
    # unknown property
    cand = where(lambda m: m[1] == s and m[2] not in ('var',))
    i = r.choice(cand)
    k, _, v = L[i].partition(':')
    bad_key = r.choice(['categry', 'note', 'matches', 'tag', 'Filters', 'lets', 'prio rity', 'filter '] if kind == 'm'
                       else ['Filter', 'filters', 'note', 'FILTER', 'descr', 'match'])
    if r.random() < 0.5:
        out.append(('reject:unknown-property', replace(i, bad_key + ':' + v), i + 1))
    else:
        j = r.choice([h] + where(lambda m: m[1] == s))
        out.append(('reject:unknown-property', insert_after(j, r.choice(['', '  ']) + bad_key + ': hello'), j + 2))
    j = r.choice([h] + where(lambda m: m[1] == s))
    if kind == 'v':
        out.append(('reject:orphan-line', insert_after(j, r.choice(['hello world', 'filter', 'x y = 3', ': x', '= 3', '[x] y'])), j + 2))
    if kind == 'm':
        for key in ('let', 'field'):
            bad = r.choice(['3x = 1', 'x', '= 5', 'x =', 'a b = 1', 'x: 1', 'x.y = 1', ''])
            have = where(lambda m: m[1] == s and m[2] == key)
            if have and r.random() < 0.5:
                i = r.choice(have)
                out.append((f'reject:bad-{key}', replace(i, f'{key}: {bad}'), i + 1))
            else:
                out.append((f'reject:bad-{key}', insert_after(j, f'{key}: {bad}'), j + 2))
        badp = r.choice(['high', '1.5', '', '1e3', '0x10', '5 0', '--1', '1_', 'fifty', '+'])
        have = where(lambda m: m[1] == s and m[2] == 'priority')
        if have:
            out.append(('reject:bad-priority', replace(have[0], f'priority: {badp}'), have[0] + 1))
        else:
            out.append(('reject:bad-priority', insert_after(j, f'priority: {badp}'), j + 2))
    # syntactically invalid expression, or a well-formed one outside the language
    bad = r.choice(SYNTAX_BAD)
    unsafe = [e for e in UNSAFE_BAD if outside_language(e)]
    if unsafe and r.random() < 0.5:
        bad = r.choice(unsafe)
    ex = where(lambda m: m[1] == s and m[2] in ('match', 'let', 'field', 'filter', 'var'))
    i = r.choice(ex)
    key = meta[i][2]
    if key in ('match', 'filter'):
        new = f'{key}: {bad}'
    elif key == 'var':
        new = f'{meta[i][3]} = {bad}'
    else:
        new = f'{key}: {meta[i][3]} = {bad}'
    out.append(('reject:invalid-expr', replace(i, new), (h + 1) if kind == 'm' else (i + 1)))
    return out


ALPHABET = list(' \t:=[]#(),."\'x1_-\r') + [' ', 'é', ' ', '€']


def generic(F, r, exhaustive):
    """Single-point corruptions without a pre-computed verdict (correspondence only)."""
    text, meta = render(F, r.sample(['comments', 'blanks', 'indent', 'spacing'], r.randint(0, 2)), r)
    L = text.split('\n')
    out = []
    idxs = range(len(L)) if exhaustive else r.sample(range(len(L)), min(len(L), 4))
    for i in idxs:
        out.append('\n'.join(L[:i] + L[i + 1:]))
        out.append('\n'.join(L[:i + 1] + L[i:]))
    n = len(text)
    for _ in range(n if exhaustive else 6):
        p = r.randrange(n)
        out.append(text[:p] + text[p + 1:])
        out.append(text[:p] + r.choice(ALPHABET) + text[p:])
    toks = ['match', 'category', 'tags', 'filter', 'let', 'field', 'priority', '=', ':', '[', ']', 'description']
    for _ in range(8 if exhaustive else 3):
        t = r.choice(toks)
        pos = [m.start() for m in re.finditer(re.escape(t), text)]
        if pos:
            p = r.choice(pos)
            out.append(text[:p] + r.choice(['', t.upper(), t + t, ' ' + t, t[:-1], 'x']) + text[p + len(t):])
    # orphan / observation material: property lines and junk before the first header
    out.append(r.choice(['match: x\n', 'hello world\n', 'category: Food\n', '[]\n', '[ ]\n', 'x = \n', 'field. = 3\n',
                         'field.a.b = 3\n', 'x == 3\n', 'filter: months > 1\n', 'description: d\n', '﻿# bom\n']) + text)
    out.append(text + r.choice(['[Last]', '[Last]\nmatch: amount > 1', '[', ']', '[]', '  [ ]  ', '[Last]\nfilter: ',
                                'priority: 5', 'tags: a', '[L]\nmatch: x\ntags: ,', '[L]\nmatch: x\ncategory:',
                                '[L]\nmatch: x\ntags: a\nfield: m = 1\nfield: M = 2\nlet: a = 1\nLET: A = 2']))
    out.append(text.replace(r.choice(M_OK + V_OK), r.choice(OTHER_BAD + SYNTAX_BAD), 1))
    return out


# ------------------------------------------------------------------ command level (D17)

SETTINGS = ('year: 2025\ndata_sources:\n  - name: Bank\n    file: data/bank.csv\n'
            '    format: "{date:%Y-%m-%d},{description},{amount}"\nmerchants_file: config/merchants.rules\n')
BANK = 'Date,Description,Amount\n2025-01-05,NETFLIX.COM,15.99\n2025-01-06,COSTCO WHOLESALE,100.00\n'
D17_WITNESS = '[Netflix]\nmatch: contains("NETFLIX"\ncategory: Subscriptions\n'
CMD_CORRUPT = [
    ('invalid-expr', D17_WITNESS),
    ('unknown-property', '[Netflix]\nmatch: contains("NETFLIX")\ncategry: Subscriptions\ncategory: Subscriptions\n'),
    ('missing-match', '[Netflix]\ncategory: Subscriptions\n\n[Costco]\nmatch: contains("COSTCO")\ncategory: Shopping\n'),
    ('bad-priority', '[Netflix]\nmatch: contains("NETFLIX")\ncategory: Subscriptions\npriority: high\n'),
    ('bad-let', '[Netflix]\nlet: 3x = 1\nmatch: contains("NETFLIX")\ncategory: Subscriptions\n'),
    ('bad-field', '[Costco]\nmatch: contains("COSTCO")\ncategory: Shopping\nfield: = 1\n'),
    ('unexpected-content', '[Netflix]\nmatch: contains("NETFLIX")\ncategory: Subscriptions\nthis line is junk\n'),
    ('empty-name', '[]\nmatch: contains("NETFLIX")\ncategory: Subscriptions\n'),
]
CMD_VALID = '[Netflix]\nmatch: contains("NETFLIX")\ncategory: Subscriptions\n\n[Costco]\nmatch: contains("COSTCO")\ncategory: Shopping\n'
TOLD = re.compile(r'(?i)\berrors?\b|\binvalid\b|\bwarnings?\b|cannot (load|parse)|could not|failed to|\bline \d+\b')


def run_cmd(rules_text, cmd=('up', 'config', '--format', 'summary'), views_text=None):
    d = tempfile.mkdtemp(prefix='tally-c17-')
    try:
        os.makedirs(os.path.join(d, 'config'))
        os.makedirs(os.path.join(d, 'data'))
        st = SETTINGS + ('views_file: config/views.rules\n' if views_text is not None else '')
        for rel, txt in (('config/settings.yaml', st), ('data/bank.csv', BANK), ('config/merchants.rules', rules_text)):
            with open(os.path.join(d, rel), 'w', encoding='utf-8', newline='') as f:
                f.write(txt)
        if views_text is not None:
            with open(os.path.join(d, 'config/views.rules'), 'w', encoding='utf-8', newline='') as f:
                f.write(views_text)
        env = dict(os.environ)
        env['PYTHONPATH'] = os.path.join(common.REPO, 'src')
        env['NO_COLOR'] = '1'
        env['PYTHONDONTWRITEBYTECODE'] = '1'
        p = subprocess.run([sys.executable, '-m', 'tally'] + list(cmd), cwd=d, env=env, stdin=subprocess.DEVNULL,
                           stdout=subprocess.PIPE, stderr=subprocess.STDOUT, text=True, timeout=120)
        return p.returncode, p.stdout
    finally:
        shutil.rmtree(d, ignore_errors=True)


def cmd_oracle(label, rules_text, cmd=('up', 'config', '--format', 'summary')):
    """a .rules file that does not parse must be reported: non-zero exit or an error / warning in the output"""
    rc, out = run_cmd(rules_text, cmd)
    told = rc != 0 or bool(TOLD.search(out))
    if told:
        return None
    m = re.search(r'Loaded \d+ categorization rules', out)
    return {'class': 'cmd:load-failure-not-reported', 'kind': 'cmd', 'label': label, 'rules_text': rules_text,
            'cmd': list(cmd), 'exit': rc, 'observed': (m.group(0) if m else out[:300]),
            'output_head': out[:600],
            'required': 'non-zero exit status or an error/warning that names the problem in merchants.rules'}


# ------------------------------------------------------------------ check

def nontrivial(F, feats):
    secs = F['rules']
    rich = any(p[0] in ('let', 'field', 'priority', 'var', 'description') for S in secs for p in S['props']) or F['top']
    return len(secs) >= 2 and bool(rich) and len(feats) >= 2


def oracle_file(F, r, renderings):
    """property oracle on the implementation alone for one abstract file; -> (failures, evaluations)"""
    fails, n = [], 0
    kind = F['kind']
    want = expected(F)
    feats_all = FEATURES_M if kind == 'm' else FEATURES_V
    plans = [[]] + [[f] for f in feats_all] + [r.sample(feats_all, r.randint(2, len(feats_all))) for _ in range(renderings)]
    for feats in plans:
        text, _ = render(F, feats, r)
        got = impl_parse(kind, text)
        n += 1
        if got != want:
            fails.append({'class': 'layout:' + ('+'.join(sorted(feats)) if len(feats) <= 1 else 'combined') if feats else 'layout:plain',
                          'kind': kind, 'text': text, 'features': feats, 'observed': got, 'required': want})
            break
    for cls, text, line in targeted(F, r):
        got = impl_parse(kind, text)
        n += 1
        if got != {'err': 'parse', 'line': line}:
            fails.append({'class': cls, 'kind': kind, 'text': text, 'observed': got,
                          'required': {'err': 'parse', 'line': line}})
    return fails, n


def _canon_rules(eng):
    return [{'name': x.name, 'merchant': x.merchant, 'category': x.category, 'subcategory': x.subcategory, 'tags': sorted(x.tags),
             'priority': x.priority, 'match': x.match_expr} for x in eng.rules]


def file_loader_failures(r, n):
    """The FILE-level readers (load_merchants_file, get_all_rules, get_transforms, load_sections) read what the file SAYS NOW: one path
    is rewritten several times - other valid content, the first content again, a malformed revision - every revision padded with inert
    comment lines to the same byte length and given the same (pinned) modification time, in one process; after every write each reader
    must answer exactly what parsing that text answers (`parse_merchants` / `parse_sections`: the same rules, or the same rejection)."""
    import shutil
    import tempfile
    from pathlib import Path
    from tally import merchant_engine as ME, merchant_utils as MU, section_engine as SE
    fails = []
    d = tempfile.mkdtemp(prefix='tvc17f_')
    try:
        for i in range(n):
            kind = 'm' if i % 3 else 'v'
            gen = gen_mfile if kind == 'm' else gen_vfile
            texts = []
            for _ in range(3):
                F = gen(r, nsec=r.choice([1, 2, 3]))
                texts.append(render(F, [], r)[0])
            bad = texts[1].replace('match:', 'mtch:', 1) if kind == 'm' else texts[1].replace('filter:', 'fltr:', 1)
            revs = [texts[0], texts[1], texts[0], bad, texts[2]]
            size = max(len(t.encode('utf-8')) for t in revs) + 4
            padded = []
            for t in revs:
                gap = size - len(t.encode('utf-8'))
                padded.append(t + ('\n#' + 'x' * (gap - 3) + '\n' if gap >= 3 else ' ' * gap))
            path = os.path.join(d, f'f{i % 4}.rules')
            mode = r.choice(['first_match', 'most_specific'])
            for k, text in enumerate(padded):
                with open(path, 'w', encoding='utf-8', newline='') as fh:
                    fh.write(text)
                os.utime(path, (1700000000, 1700000000))
                want = impl_parse(kind, text)
                got = {}
                if kind == 'm':
                    want_rules = _canon_rules(ME.parse_merchants(text, mode)) if 'ok' in want else None
                    try:
                        got['load_merchants_file'] = {'ok': _canon_rules(ME.load_merchants_file(Path(path), mode))}
                    except ME.MerchantParseError as e:
                        got['load_merchants_file'] = {'err': 'parse', 'line': e.line_number}
                    try:
                        rules = MU.get_all_rules(path, match_mode=mode)
                        eng = MU.get_cached_engine()
                        got['get_all_rules'] = {'ok': _canon_rules(eng)} if eng is not None else {'ok': None, 'tuples': len(rules)}
                    except ME.MerchantParseError as e:
                        got['get_all_rules'] = {'err': 'parse', 'line': e.line_number}
                    finally:
                        MU.clear_engine_cache()
                    exp = {'ok': want_rules} if 'ok' in want else {'err': 'parse', 'line': want.get('line')}
                    if 'ok' in want:
                        try:
                            tr = MU.get_transforms(path, match_mode=mode)
                            if [list(x) for x in tr] != want['ok']['transforms']:
                                got['get_transforms'] = [list(x) for x in tr]
                        except Exception as e:            # noqa
                            got['get_transforms'] = type(e).__name__
                        finally:
                            MU.clear_engine_cache()
                    wrong = {k2: v for k2, v in got.items() if k2 == 'get_transforms' or v != exp}
                else:
                    try:
                        cfg = SE.load_sections(path)
                        got['load_sections'] = {'ok': [[s.name, s.filter_expr] for s in cfg.sections]}
                    except SE.SectionParseError as e:
                        got['load_sections'] = {'err': 'parse', 'line': e.line_number}
                    exp = {'ok': [[s['name'], s['filter']] for s in want['ok']['sections']]} if 'ok' in want else {'err': 'parse', 'line': want.get('line')}
                    wrong = {k2: v for k2, v in got.items() if v != exp}
                if wrong:
                    fails.append({'class': 'file:reader-answers-something-other-than-the-file-says', 'kind': 'file', 'file_kind': kind, 'mode': mode,
                                  'revisions': padded[:k + 1], 'revision': k, 'observed': wrong, 'required (what parsing this revision gives)': exp})
                    return fails
    finally:
        shutil.rmtree(d, ignore_errors=True)
    return fails


def table_checks(ctx):
    """the hand-written character tables against CPython (all code points)"""
    py_space = [c for c in range(0x110000) if chr(c).isspace()]
    re_space = [c for c in range(0x110000) if re.match(r'\s', chr(c))]
    strip_space = [c for c in range(0x110000) if ('a' + chr(c)).strip() != 'a' + chr(c)]
    try:
        lean_space = common.Driver().batch([{'op': 'spacetable', 'hi': 0x110000}])[0].get('spaces')
    except Exception as e:                                               # noqa
        lean_space = str(e)[:200]
    ok = py_space == re_space == strip_space == lean_space
    ctx.obligation('table:isSpace-vs-str.isspace/re.\\s/str.strip', 'correspondence', ok, cases=0x110000,
                   error=None if ok else f'lean={str(lean_space)[:200]} python={py_space}')
    odd = [c for c in range(128, 0x110000) if any(ord(x) < 128 and x.isalpha() for x in chr(c).lower())]
    ok2 = odd == [0x130, 0x212a] and all(chr(c).lower() == (chr(c + 32) if 65 <= c <= 90 else chr(c)) for c in range(128))
    ctx.obligation('table:ascii-lower-suffices-for-keywords', 'correspondence', ok2, cases=0x110000,
                   error=None if ok2 else f'non-ASCII code points lowering to ASCII letters: {odd[:10]}')
    ints = ['5', '+5', '-5', '05', '1_0', '_1', '1_', '1__0', '', '0x10', '1.0', '+', '--1', '+-1', '1e3', '1_000', '007', '-0', '5 0']
    return ints


def run(ctx):
    warnings.simplefilter('ignore', SyntaxWarning)   # ast.parse on corrupted expressions
    lo = common.lean_phase(ctx, 'TallyVerif.Props.C17')
    r = ctx.rng
    required = ('every rendering of a rule/views file parses to the same rules (one per section, exactly the stated properties, '
                'file order); malformed files are rejected with the line number; a rules file that cannot be loaded is reported')

    # ---- replay
    if ctx.replay:
        rp = json.loads(common.read(ctx.replay))
        ce = rp.get('counterexample') or {}
        fails = []
        if ce.get('kind') == 'cmd':
            f = cmd_oracle(ce.get('label', 'replay'), ce['rules_text'], tuple(ce.get('cmd') or ('up', 'config', '--format', 'summary')))
            if f:
                fails.append(f)
        elif ce.get('kind') == 'file':
            import tempfile, shutil
            from pathlib import Path
            from tally import merchant_engine as ME, merchant_utils as MU, section_engine as SE
            d = tempfile.mkdtemp(prefix='tvc17r_')
            try:
                path = os.path.join(d, 'f.rules')
                last = None
                for text in ce['revisions']:
                    with open(path, 'w', encoding='utf-8', newline='') as fh:
                        fh.write(text)
                    os.utime(path, (1700000000, 1700000000))
                    want = impl_parse(ce['file_kind'], text)
                    try:
                        if ce['file_kind'] == 'm':
                            MU.get_transforms(path, match_mode=ce.get('mode', 'first_match')); MU.clear_engine_cache()
                            MU.get_all_rules(path, match_mode=ce.get('mode', 'first_match')); MU.clear_engine_cache()
                            last = {'ok': _canon_rules(ME.load_merchants_file(Path(path), ce.get('mode', 'first_match')))}
                            exp = {'ok': _canon_rules(ME.parse_merchants(text, ce.get('mode', 'first_match')))} if 'ok' in want else {'err': 'parse', 'line': want.get('line')}
                        else:
                            last = {'ok': [[x.name, x.filter_expr] for x in SE.load_sections(path).sections]}
                            exp = {'ok': [[x['name'], x['filter']] for x in want['ok']['sections']]} if 'ok' in want else {'err': 'parse', 'line': want.get('line')}
                    except (ME.MerchantParseError, SE.SectionParseError) as e:
                        last = {'err': 'parse', 'line': e.line_number}
                        exp = {'err': 'parse', 'line': want.get('line')} if 'err' in want else {'ok': '...'}
                if last != exp:
                    fails.append(dict(ce, observed=last))
            finally:
                shutil.rmtree(d, ignore_errors=True)
        elif 'text' in ce:
            got = impl_parse(ce['kind'], ce['text'])
            if got != ce['required']:
                fails.append(dict(ce, observed=got))
        else:
            print(f'[{ctx.prop}] replay file carries no counterexample (broken-obligation replay): re-running the full check')
            ctx.replay = None
            return run(ctx)
        print(f'[{ctx.prop}] replay: {"still fails" if fails else "passes now"}')
        common.conclude(ctx, fails, classify=classify, required=required)
        return ctx.finish()

    ints = table_checks(ctx)
    file_fails = file_loader_failures(r, 40 if ctx.quick else 1500)
    nfiles = 300 if ctx.quick else 4000
    files = []
    # corpus first: the D17 witness file and the reading-note observations
    corpus = [('m', D17_WITNESS), ('m', 'category: Food\n[A]\nmatch: x\ncategory: c\n'), ('m', CMD_VALID),
              ('v', '[A]\nfilter: months > 1\n  [B]\nfilter: x\n'), ('v', 'hello\n'), ('v', '[ ]\nfilter: total > 1\n'),
              ('m', '[A]\nmatch: x\ntags: a,(b,c),d),e,(f\n'), ('m', 'X = 1\nx = 2\nfield.a = 3\nfield = 4\n[A]\nmatch: x\ntags: t\nx = 5\n'),
              ('v', 'a = 1\na = 2\n[S]\nb = 1\nfilter: a\nfilter: b\ndescription: d\ndescription: e\n'),
              ('m', ''), ('v', ''), ('m', '\n\n'), ('m', '[A]\r\nmatch: x\r\ncategory: c\r\n'), ('v', '[A]\r\nfilter: x\r\n')]
    corpus += [('m', f'[A]\nmatch: x\ncategory: c\npriority: {p}\n') for p in ints]
    corpus += [('m', f'[A]\nmatch: x\ntags: {v}\n') for v in REF_TAGS + ['a, {"b,c"}, d', '{f(")")}, x, (y', '{[a, b]}, {c: (d, e), f}', 'a(,),(,)b,,(', ')a,b(']]
    cases, kinds, labels = [], [], []
    for k, t in corpus:
        cases.append(t); kinds.append(k); labels.append('corpus')
    prop_fail, evals, nontriv, feat_hist = list(file_fails), 0, set(), {}
    ctx.notes['file_level_reader_revisions (same path, same size, same mtime)'] = (40 if ctx.quick else 1500) * 5
    # ---- tags lines: closed tags with nested calls / string literals (oracle + correspondence), wild values (correspondence only)
    tag_hist, n_tag_lines = {}, (300 if ctx.quick else 6000)
    for _ in range(n_tag_lines):
        text, want, tf = tags_line_case(r)
        for f in tf:
            tag_hist[f] = tag_hist.get(f, 0) + 1
        got = impl_parse('m', text)
        evals += 1
        if got != want:
            prop_fail.append({'class': 'tags:not-the-stated-tags', 'kind': 'm', 'text': text, 'observed': got, 'required': want})
        cases.append(text); kinds.append('m'); labels.append('tags')
        if len(want['ok']['rules'][0]['tags']) >= 2 and 'comma-inside-parentheses' in tf:
            nontriv.add(text)
    for _ in range(n_tag_lines // 3):
        cases.append(f'[W]\nmatch: x\ntags: {wild_tags_value(r)}\n'); kinds.append('m'); labels.append('tags-wild')
    # ---- order of a section's properties, with expressions whose text does not balance (oracle + correspondence)
    bad_pool = pool_selfcheck()
    ctx.obligation('generator:every-pool-expression-is-an-expression-of-CPython', 'correspondence', not bad_pool, cases=len(UNBAL_STRS),
                   error=None if not bad_pool else str(bad_pool[:3]))
    order_stat = {'files': 0, 'texts': 0, 'texts_with_a_property_line_after_a_line_whose_text_does_not_balance': 0}
    for _ in range(60 if ctx.quick else 1500):
        F, texts = order_cases(r)
        want = expected(F)
        order_stat['files'] += 1
        for text in texts:
            order_stat['texts'] += 1
            L = [l for l in text.split('\n') if l.strip()]
            order_stat['texts_with_a_property_line_after_a_line_whose_text_does_not_balance'] += any(
                any(delimiter_balance(a)) and not b.lstrip().startswith('[') for a, b in zip(L, L[1:]) if not a.lstrip().startswith('['))
            got = impl_parse(F['kind'], text)
            evals += 1
            if got != want:
                prop_fail.append({'class': 'layout:order-of-properties', 'kind': F['kind'], 'text': text, 'observed': got, 'required': want})
            cases.append(text); kinds.append(F['kind']); labels.append('order')
            nontriv.add(text)
    unbal_hist = {}
    for i in range(nfiles):
        F = gen_mfile(r) if i % 2 == 0 else gen_vfile(r)
        kind = F['kind']
        fa = FEATURES_M if kind == 'm' else FEATURES_V
        for e in [p[-1] for R in F['rules'] for p in R['props'] if p[0] in ('match', 'filter', 'let', 'field', 'var')] + [t[2] for t in F['top']]:
            bal = delimiter_balance(e)
            for nm, v in zip(('parentheses', 'brackets', 'braces', 'double-quotes', 'single-quotes'), bal):
                if v:
                    unbal_hist[nm] = unbal_hist.get(nm, 0) + 1
            unbal_hist['expressions'] = unbal_hist.get('expressions', 0) + 1
        pf, n = oracle_file(F, r, 2 if ctx.quick else 4)
        prop_fail.extend(pf)
        evals += n
        for feats in [[]] + [[f] for f in fa] + [r.sample(fa, r.randint(2, len(fa))) for _ in range(3)]:
            text, _ = render(F, feats, r)
            cases.append(text); kinds.append(kind); labels.append('render')
            for f in feats:
                feat_hist[f] = feat_hist.get(f, 0) + 1
            if nontrivial(F, feats):
                nontriv.add(text)
        for cls, text, _ in targeted(F, r):
            cases.append(text); kinds.append(kind); labels.append(cls)
        for text in generic(F, r, exhaustive=(not ctx.quick and i % 25 == 0 and len(F['rules']) <= 3)):
            cases.append(text); kinds.append(kind); labels.append('corrupt')

    # ---- correspondence
    corr_fail, err_kinds, unmodelled, outcomes = [], {}, 0, {'ok': 0, 'err': 0}
    try:
        dcs = []
        for k, t in zip(kinds, cases):
            c, um = driver_case(k, t)
            dcs.append(c)
            unmodelled += um
        model = common.Driver().batch(dcs)
        for k, t, lab, m in zip(kinds, cases, labels, model):
            im = impl_parse(k, t)
            mc = model_canon(k, m) if ('ok' in m or 'err' in m) else {'driver': m}
            if 'kind' in m:
                err_kinds[k + ':' + m['kind']] = err_kinds.get(k + ':' + m['kind'], 0) + 1
            outcomes['ok' if 'ok' in im else 'err'] += 1
            if mc != im or m.get('miss'):
                corr_fail.append({'kind': k, 'stream': lab, 'text': t, 'model': mc, 'model_err_kind': m.get('kind'),
                                  'implementation': im, 'table_miss': m.get('miss')})
    except Exception as e:                                               # noqa
        corr_fail.append({'driver_error': str(e)[:500]})
    ctx.obligation('correspondence:parse_merchants/parse_sections-vs-Impl.parseRulesFile/parseViewsFile', 'correspondence',
                   not corr_fail, cases=len(cases), error=json.dumps(corr_fail[0])[:1500] if corr_fail else None)
    if corr_fail:
        ctx.notes['correspondence_failures'] = len(corr_fail)

    # ---- command level
    cmd_runs = 0
    rc, out = run_cmd(CMD_VALID)
    cmd_runs += 1
    control_ok = rc == 0 and 'Loaded 2 categorization rules' in out
    ctx.obligation('command:control-budget-loads-2-rules', 'correspondence', control_ok,
                   error=None if control_ok else f'exit {rc}: {out[:400]}')
    todo = CMD_CORRUPT[:4] if ctx.quick else CMD_CORRUPT
    for label, txt in todo:
        f = cmd_oracle(label, txt)
        cmd_runs += 1
        if f:
            prop_fail.append(f)
    if not ctx.quick:
        for sub in (('discover', 'config'), ('explain', 'config', 'NETFLIX')):
            f = cmd_oracle('invalid-expr', D17_WITNESS, sub)
            cmd_runs += 1
            if f:
                prop_fail.append(f)
    # a views file that does not parse is reported too (config warning)
    rc, out = run_cmd(CMD_VALID, views_text='[Every Month]\nfilter: months >= 6 and\n')
    cmd_runs += 1
    if not (rc != 0 or TOLD.search(out)):
        prop_fail.append({'class': 'cmd:views-load-failure-not-reported', 'kind': 'cmd-views', 'exit': rc,
                          'output_head': out[:600], 'required': 'error or warning naming views.rules'})

    ctx.cov['evaluations'] = len(cases) + evals + cmd_runs
    ctx.cov['traces_validated_against_impl'] = len(cases)
    ctx.cov['distinct_nontrivial'] = len(nontriv) + sum(1 for l in labels if l.startswith('reject:'))
    ctx.cov['rule'] = ('abstract merchants/views files (1–8 sections, 30 % tag-only, lets/fields/priorities/variables/transforms) rendered '
                       'plain, with each single layout feature and with random feature combinations by a renderer that shares no code with '
                       'the parsers; targeted single-point corruptions with a known verdict (rejection list) and untargeted ones (line '
                       'delete/duplicate, character delete/insert, token alteration); non-trivial = rendering of a file with ≥ 2 sections, '
                       'at least one let/field/priority/variable and ≥ 2 layout features, or a targeted corruption (error line ≠ trivial). '
                       'tags: half of the rules that carry tags, and a stream of one-rule files, take 1–4 CLOSED tags (parentheses balance, no comma '
                       'outside them) from a generator of static tags with nested parentheses and dynamic {expression} tags: calls of 1–4 arguments '
                       'nested to depth 3, commas at any depth, a nested call or a parenthesised string literal AFTER an argument comma, string '
                       'literals holding commas / parentheses (regex groups) / braces / brackets / colons, the reference\'s own examples; joined with '
                       'varying separators, empty items, leading / trailing commas; required = the tags that were joined (cross-checked against the '
                       'harness\'s own depth-0 splitter); values that are not lists of closed tags (a parenthesis dropped / doubled / reversed) go '
                       'through the model correspondence only; tags non-trivial = ≥ 2 tags and a comma inside parentheses. '
                       'Expressions: 30 % of the match / let / field / variable / filter expressions of the abstract files hold a string literal whose '
                       'delimiters do not balance when counted over the text (an opening or closing parenthesis alone, an escaped regex parenthesis, '
                       'brackets, braces, the other kind of quote, an escaped quote, #, :, =; all valid by CPython\'s grammar), so every layout feature, '
                       'corruption and the correspondence meets them; order stream: 1–3-section files (90 % such expressions) rendered once for every '
                       'position the match / filter line can take among its section\'s properties, each must parse to the same content '
                       '(counts in coverage.order_of_properties_stream, coverage.expressions_in_abstract_files_whose_text_does_not_balance)')
    ctx.notes['streams'] = {l: labels.count(l) for l in sorted(set(labels))}
    ctx.notes['model_error_kinds'] = err_kinds
    ctx.notes['impl_outcomes'] = outcomes
    ctx.notes['layout_features_rendered'] = feat_hist
    ctx.notes['tags_lines'] = {'closed_tag_lines(oracle + correspondence)': n_tag_lines, 'wild_values(correspondence only)': n_tag_lines // 3,
                               'lines_with_feature': dict(sorted(tag_hist.items()))}
    ctx.notes['unmodelled_expression_exceptions'] = unmodelled
    ctx.notes['order_of_properties_stream'] = order_stat
    ctx.notes['expressions_in_abstract_files_whose_text_does_not_balance'] = dict(sorted(unbal_hist.items()))
    ctx.notes['command_runs'] = cmd_runs
    for t, k, l in list(zip(cases, kinds, labels))[len(corpus):len(corpus) + 400:97]:
        ctx.sample({'kind': k, 'stream': l, 'text': t[:400]})

    def search():
        out, n = [], 0
        for i in range(1500 if ctx.quick else 6000):
            F = gen_mfile(r) if i % 2 == 0 else gen_vfile(r)
            pf, k = oracle_file(F, r, 4)
            n += k
            out.extend(pf)
            text, want, _ = tags_line_case(r)
            got = impl_parse('m', text)
            if got != want:
                out.append({'class': 'tags:not-the-stated-tags', 'kind': 'm', 'text': text, 'observed': got, 'required': want})
            F, texts = order_cases(r)
            for text in texts:
                got = impl_parse(F['kind'], text)
                if got != expected(F):
                    out.append({'class': 'layout:order-of-properties', 'kind': F['kind'], 'text': text, 'observed': got, 'required': expected(F)})
                    break
            if len(out) >= 3:
                break
        for label, txt in CMD_CORRUPT:
            f = cmd_oracle(label, txt)
            if f:
                out.append(f)
                break
        ctx.cov['evaluations'] += n
        return out

    common.conclude(ctx, prop_fail, classify=classify, search=search, required=required)
    return ctx.finish(extra_trusted=[
        'hand models Impl.parseRulesFile / Impl.parseViewsFile (incl. the regex matchers, int(), tag splitting), tied by correspondence only',
        'expression validity (expr_parser.parse_expression) and non-ASCII \\w are parameters of the model: theorems hold for every such function; '
        'the harness ships the real outcomes as a table (over-approximated: every stripped suffix after a ":" or "=")',
        'isSpace (29 code points) and ASCII lower-casing are hand-written; both re-checked against CPython over all code points on every run',
        'int(): only ASCII digit strings are modelled (Unicode decimal digits in `priority:` are outside the model)',
        'the renderer and the expected-content function of the harness (the oracle\'s own reading of an abstract file)',
        'command level: only `tally up` (thorough: also discover/explain) on a small set of corrupt files; "told" = non-zero exit or an '
        'error/warning/invalid/line-N word in the output'])


def classify(pf):
    # narrow: the CLI command path loading a .rules file whose parse raises MerchantParseError
    if pf.get('class') == 'cmd:load-failure-not-reported' and pf.get('kind') == 'cmd':
        return 'D17'
    return None
