"""Tie of the Lean model of `datetime.strptime` (lean/TallyVerif/Model/Strptime.lean, driver op `strptime`) to CPython's
`_strptime` - used by C05 (and C18), which read statement dates with `datetime.strptime(cell, format_spec.date_format)`.

* `names_check`  : the C-locale names and every directive's regular expression, printed back by the model in `TimeRE`'s own
                   syntax, against `_strptime._TimeRE_cache` (and the locale `_strptime` sees is the one assumed);
* `pairs_check`  : dense differential run `datetime.strptime(text, fmt)` vs `Strptime.strptime` over generated (format, text)
                   pairs: outcome class (date-time to the microsecond | ValueError | re.error) and - as a second, finer
                   obligation - the kind of ValueError with the unconverted remainder (= where the first match in priority
                   order ended), plus the pattern text `TimeRE.pattern(fmt)`;
* `tables_for`   : CPython's character tables (`\\d`/int(), IGNORECASE literal matching, str.lower) for the non-ASCII characters
                   of one case - the `Tables` parameter of the model.
"""
import calendar
import datetime
import json
import re

from .. import common

ASCII_LETTERS = 'abcdefghijklmnopqrstuvwxyz'
SUPPORTED = 'dmYyHMSfjbBaApIwu'
UNSUPPORTED = 'cxXUWGVzZ'
A_MONTH = ['Jan', 'Feb', 'Mar', 'Apr', 'May', 'Jun', 'Jul', 'Aug', 'Sep', 'Oct', 'Nov', 'Dec']
F_MONTH = ['January', 'February', 'March', 'April', 'May', 'June', 'July', 'August', 'September', 'October', 'November', 'December']
A_WDAY = ['Mon', 'Tue', 'Wed', 'Thu', 'Fri', 'Sat', 'Sun']
F_WDAY = ['Monday', 'Tuesday', 'Wednesday', 'Thursday', 'Friday', 'Saturday', 'Sunday']

# formats people write for bank exports (+ literal text, %%)
BANK_FORMATS = ['%m/%d/%Y', '%d.%m.%Y', '%Y-%m-%d', '%d %b %y', '%b %d, %Y', '%m/%d/%y', '%Y%m%d', '%d-%b-%Y', '%Y-%m-%dT%H:%M:%S',
                '%d/%m/%Y', '%d-%m-%y', '%Y/%m/%d', '%d %B %Y', '%B %d, %Y', '%a %d %b %Y', '%A, %d %B %Y', '%m/%d/%Y %H:%M', '%m/%d/%Y %I:%M %p',
                '%d.%m.%y', '%y%m%d', '%m%d%Y', '%d%m%Y', '%Y-%m-%d %H:%M:%S.%f', 'Posted %m/%d/%Y', '%d de %b de %Y', '%Y-%j', '%j/%y',
                '%m/%d', '%d %b', '%b %d', '%Y.%m.%d.', '(%d) %m [%Y]', '%d%%%m%%%Y', 'on %d/%m/%Y at %H:%M', '%H:%M:%S', '%I%p', '%m-%d-%Y',
                '%d\t%m\t%Y', '%Y  %m  %d', '%d\xa0%b\xa0%Y', '%e', '%-d/%-m/%Y', '%d/%m/%Y%', '%', '%d/%d/%Y', '%Y-%m-%d %Y', '%b %B %d', '%y %Y',
                '%m %b', '%z', '%Y-%m-%d %Z', '%c', '%x', '%X', '%U %w %Y', '%G-%V-%u', '%d% m', '%d%.m', '', ' ', '%p', '%w %u', '%A %a',
                '%d/%m/%Y %H', '%S', '%f', '%M:%S.%f', '%dD%mM%YY', 'K%d', 's%dS', 'é%d', 'Ä%mä', 'ß%d', 'ſ%d', 'İ%d', 'i%dI', '%d.%m.%Y r.',
                '%Y年%m月%d日']
SEPS = ['/', '-', '.', ' ', ', ', '', '', 'T', ':', '  ', '\t', ' de ', 'x', 'D', '%%', 'é', 'K', 's', '(', ')', '[', ']', '+', '*', '\\', '^', '$',
        '|', '?', '{', '}', '#', '\xa0', ' ', ' \t ', 'of ', "'", '"', '0', '1', '9', '年', 'K', 'ſ', 'ı']
UNI_DIGITS = ['٠', '۰', '०', '０', '๐', '\U0001d7ce', '০']      # zeros of other decimal scripts
FOLDS = {'s': 'ſ', 'S': 'ſ', 'k': 'K', 'K': 'K', 'i': 'ı', 'I': 'İ'}
BLANKS = [' ', '  ', '\t', '\xa0', ' ', '\n', ' \t', '\x1f', '　', '\x0b']
JUNK = ['', ' ', 'x', 'Date', 'yesterday', 'N/A', '--', '0', '00/00/0000', '99/99/9999', '13/45/2024', '2024-13-45', '1', '12', '123', '1234',
        '12345', '123456', '1234567', '12345678', '31/12', 'Jan', 'jan 1', '1 jan', 'marzo', 'sept', 'Sept 5 2024', 'mon', 'am', 'pm', '%d', '%',
        '١٢/٠٣/٢٠٢٤', '١', '1/2/2024', '01/02/2024', '2024-01-02', '20240102', '2.1.2024', '02.01.24',
        '1 Jan 24', 'Jan 2, 2024', '2024-01-02T03:04:05', '2024-01-02 03:04:05.678', ' 1/2/2024', '1/2/2024 ', '1 /2/2024', '٣/٤/٢٠٢٤']


def names_check(ctx):
    """the locale `_strptime` works in is the C / English one the model's names are written for, and the model's directive
    tables print back to exactly the regular expressions of `TimeRE`"""
    import _strptime
    out = common.Driver().batch([{'op': 'strptime_names'}])[0]
    lt = _strptime._TimeRE_cache.locale_time
    bad = []

    def want(name, got, exp):
        if got != exp:
            bad.append({name: {'model': got, 'cpython': exp}})
    want('a_month', out['a_month'], [s.lower() for s in A_MONTH])
    want('locale a_month', lt.a_month[1:], [s.lower() for s in A_MONTH])
    want('f_month', out['f_month'], lt.f_month[1:])
    want('a_weekday', out['a_weekday'], lt.a_weekday)
    want('f_weekday', out['f_weekday'], lt.f_weekday)
    want('am_pm', out['am_pm'], lt.am_pm)
    want('calendar.month_abbr', list(calendar.month_abbr)[1:], A_MONTH)
    want('calendar.month_name', list(calendar.month_name)[1:], F_MONTH)
    want('calendar.day_abbr', list(calendar.day_abbr), A_WDAY)
    want('calendar.day_name', list(calendar.day_name), F_WDAY)
    want('_getlang', _strptime._getlang() in ((None, None), ('en_US', 'UTF-8'), ('en_US', 'ISO8859-1'), ('C', 'UTF-8')), True)
    tre = _strptime._TimeRE_cache
    for k, text in out['directives']:
        want('directive %' + k, text, tre[k])
    keys = set(tre.keys())
    want('unsupported directives', set(out['unsupported']), keys - set(SUPPORTED) - {'%'})
    want('supported directives', {k for k, _ in out['directives']}, set(SUPPORTED))
    # every character that is not a key of TimeRE is a bad directive (characters `pattern` escapes are handled before the lookup)
    want('bad directives', set(out['bad']), {chr(i) for i in range(128)} - keys)
    ctx.obligation('correspondence:_strptime.TimeRE+LocaleTime-vs-Strptime.directive+names', 'correspondence', not bad,
                   cases=len(out['directives']) + 9, error=json.dumps(bad[0], default=str)[:800] if bad else None)
    return not bad


_CI_CACHE = {}


def ci_match(c, t):
    k = (c, t)
    v = _CI_CACHE.get(k)
    if v is None:
        v = _CI_CACHE[k] = re.match(re.escape(c), t, re.IGNORECASE) is not None
    return v


_DIGIT = re.compile(r'\d')


def supported_format(fmt):
    """every directive of the format is one the model implements (the others are an explicit `unsupported` outcome of the model)"""
    import re
    return all(d in 'dmYyHIMSfjbBaApwu%' for d in re.findall(r'%(.)', fmt)) and not fmt.endswith('%') or False


def tables_for(fmt, text):
    """CPython's answers for every question the model can ask about a non-ASCII character of this case"""
    digits, lower, ci = [], [], []
    tx = set(text)
    for t in tx:
        if ord(t) >= 128:
            if _DIGIT.fullmatch(t):
                digits.append([t, int(t)])
            lower.append([t, t.lower()])
    if not fmt.isascii() or not text.isascii():
        for c in set(fmt) | set(ASCII_LETTERS):
            for t in tx:
                if (ord(c) >= 128 or ord(t) >= 128) and ci_match(c, t):
                    ci.append([c, t])
    if not (digits or lower or ci):
        return None
    return {'digits': sorted(digits), 'lower': sorted(lower), 'ci': sorted(ci)}


def py_strptime(text, fmt):
    """canonical outcome of the real `datetime.strptime`"""
    try:
        v = datetime.datetime.strptime(text, fmt)
    except ValueError as e:
        m = str(e)
        if m.startswith('unconverted data remains: '):
            return {'err': 'ValueError', 'kind': 'unconverted', 'rest': m[len('unconverted data remains: '):]}
        if m.startswith('time data ') and 'does not match format' in m:
            return {'err': 'ValueError', 'kind': 'noMatch'}
        if m.startswith('stray % in format'):
            return {'err': 'ValueError', 'kind': 'stray'}
        if ' is a bad directive in format ' in m:
            return {'err': 'ValueError', 'kind': 'badDirective'}
        if m.endswith(' is not in list'):
            return {'err': 'ValueError', 'kind': 'notInList'}
        return {'err': 'ValueError', 'kind': 'outOfRange'}
    except re.error:
        return {'err': 'error', 'kind': 'reError'}
    except Exception as e:      # noqa: anything else is an outcome class of its own
        return {'err': type(e).__name__, 'kind': type(e).__name__}
    if v.tzinfo is not None:
        return {'ok': v.isoformat(), 'aware': True}
    return {'ok': v.isoformat()}


def py_pattern(fmt):
    import _strptime
    try:
        return _strptime._TimeRE_cache.pattern(fmt)
    except (KeyError, IndexError):
        return None


def model_line(fmt, text):
    d = {'op': 'strptime', 'fmt': fmt, 'text': text}
    t = tables_for(fmt, text)
    if t:
        d['tables'] = t
    return d


# ------------------------------------------------------------------ generator

def tokens(fmt):
    """format → [('dir', k) | ('ws', run) | ('lit', c)] the way TimeRE.pattern reads it (None if it does not compile to a pattern)"""
    out, i = [], 0
    while i < len(fmt):
        c = fmt[i]
        if c == '%':
            if i + 1 >= len(fmt):
                return None
            out.append(('dir', fmt[i + 1]) if fmt[i + 1] != '%' else ('lit', '%'))
            i += 2
        elif c.isspace():
            j = i
            while j < len(fmt) and fmt[j].isspace():
                j += 1
            out.append(('ws', fmt[i:j]))
            i = j
        else:
            out.append(('lit', c))
            i += 1
    return out


def render_field(r, k, dt, loose):
    """one directive's text for the datetime `dt` = (y, m, d, H, M, S, us): strict = what strftime writes (zero padded, names
    capitalised); loose = another spelling strptime accepts (no padding, other letter case)"""
    y, m, d, H, M, S, us = dt

    def num(v, width):
        if loose and r.random() < 0.7:
            return str(v)
        return str(v).zfill(width)

    def name(s):
        if not loose:
            return s
        return r.choice([s.lower(), s.upper(), s.swapcase(), s, ''.join(ch.upper() if r.random() < 0.5 else ch.lower() for ch in s)])
    wd = datetime.date(y, m, d).weekday() if 1 <= y <= 9999 else 0
    if k == 'd':
        return num(d, 2) if not (loose and d < 10 and r.random() < 0.15) else ' ' + str(d)
    if k == 'm':
        return num(m, 2)
    if k == 'Y':
        return str(y).zfill(4)
    if k == 'y':
        return str(y % 100).zfill(2)
    if k == 'H':
        return num(H, 2)
    if k == 'I':
        return num((H % 12) or 12, 2)
    if k == 'M':
        return num(M, 2)
    if k == 'S':
        return num(S, 2)
    if k == 'f':
        s = str(us).zfill(6)
        return s.rstrip('0') or '0' if loose and r.random() < 0.6 else s
    if k == 'j':
        return num((datetime.date(y, m, d) - datetime.date(y, 1, 1)).days + 1, 3)
    if k == 'b':
        return name(A_MONTH[m - 1])
    if k == 'B':
        return name(F_MONTH[m - 1])
    if k == 'a':
        return name(A_WDAY[wd])
    if k == 'A':
        return name(F_WDAY[wd])
    if k == 'p':
        return name('AM' if H < 12 else 'PM')
    if k == 'w':
        return str((wd + 1) % 7)
    if k == 'u':
        return str(wd + 1)
    return '%' + k      # unsupported / bad directive: something


def render(r, fmt, dt, loose=False):
    tk = tokens(fmt)
    if tk is None:
        tk = tokens(fmt[:-1]) or []
    out = []
    for kind, v in tk:
        if kind == 'dir':
            out.append(render_field(r, v, dt, loose))
        elif kind == 'ws':
            out.append(r.choice(BLANKS) if loose and r.random() < 0.4 else v)
        else:
            out.append(v if not (loose and r.random() < 0.2) else v.swapcase())
    return ''.join(out)


BOUNDARY_DATES = [(2024, 2, 29), (2023, 2, 28), (1900, 2, 28), (2000, 2, 29), (1904, 2, 29), (2024, 12, 31), (2023, 12, 31), (2024, 1, 1), (1, 1, 1),
                  (9999, 12, 31), (999, 12, 31), (1000, 1, 1), (1968, 12, 31), (1969, 1, 1), (2068, 12, 31), (2069, 1, 1), (1999, 12, 31), (2000, 1, 1),
                  (2024, 1, 31), (2024, 3, 31), (2024, 4, 30), (2024, 5, 31), (2024, 6, 30), (2024, 7, 31), (2024, 8, 31), (2024, 9, 30),
                  (2024, 10, 31), (2024, 11, 30), (2024, 11, 1), (2024, 1, 11), (2024, 10, 10), (2024, 1, 2), (2024, 2, 1), (2025, 3, 9), (1970, 1, 1)]
BOUNDARY_TIMES = [(0, 0, 0, 0), (23, 59, 59, 999999), (12, 0, 0, 0), (0, 30, 0, 0), (11, 59, 59, 0), (12, 30, 0, 500000), (9, 5, 7, 1), (1, 2, 3, 120000),
                  (13, 0, 0, 0), (10, 10, 10, 100000)]


def gen_datetime(r):
    if r.random() < 0.45:
        ymd = r.choice(BOUNDARY_DATES)
    else:
        y = r.choice([r.randint(1, 9999), r.randint(1950, 2080), r.randint(2015, 2026)])
        m = r.randint(1, 12)
        ymd = (y, m, r.randint(1, calendar.monthrange(y, m)[1] if y >= 1 else 28))
    hms = r.choice(BOUNDARY_TIMES) if r.random() < 0.5 else (r.randint(0, 23), r.randint(0, 59), r.randint(0, 59), r.choice([0, r.randint(0, 999999)]))
    return ymd + hms


def gen_format(r):
    k = r.random()
    if k < 0.5:
        return r.choice(BANK_FORMATS)
    # composed: directives with separators between them
    n = r.choice([1, 2, 3, 3, 3, 4, 5, 6])
    pool = SUPPORTED if r.random() < 0.9 else SUPPORTED + UNSUPPORTED + 'QeEOkls-#'
    dirs = [r.choice(pool) for _ in range(n)]
    if r.random() < 0.75:      # no repeated directive (a repeated one is re.error)
        seen, d2 = set(), []
        for d in dirs:
            if d not in seen:
                seen.add(d); d2.append(d)
        dirs = d2
    out = r.choice(['', '', '', 'on ', ' ', '(']) if r.random() < 0.2 else ''
    for i, d in enumerate(dirs):
        if i:
            out += r.choice(SEPS) if r.random() < 0.35 else r.choice(['/', '-', '.', ' ', ''])
        out += '%' + d
    if r.random() < 0.12:
        out += r.choice(['%', ' ', '.', ')', '%%', ' h', '% ', '%.'])
    return out


def perturb(r, s, fmt):
    """one edit of a rendered text"""
    k = r.choice(['change', 'drop', 'double', 'swap', 'blank+', 'tab', 'nbsp', 'unidigit', 'unidigits', 'case', 'fold', 'trail', 'lead', 'sep', 'trunc',
                  'inc'])
    if not s:
        return r.choice(JUNK)
    i = r.randrange(len(s))
    if k == 'change':
        return s[:i] + r.choice('0123456789/-. :xA,') + s[i + 1:]
    if k == 'drop':
        return s[:i] + s[i + 1:]
    if k == 'double':
        return s[:i] + s[i] + s[i:]
    if k == 'swap':
        parts = re.split(r'([/\-. :,]+)', s)
        if len(parts) >= 3:
            a, b = r.sample(range(0, len(parts), 2), 2) if len(parts) >= 3 else (0, 0)
            parts[a], parts[b] = parts[b], parts[a]
        return ''.join(parts)
    if k == 'blank+':
        return s[:i] + r.choice(BLANKS) + s[i:]
    if k == 'tab':
        return s.replace(' ', '\t') if ' ' in s else s[:i] + '\t' + s[i:]
    if k == 'nbsp':
        return s.replace(' ', '\xa0') if ' ' in s else s[:i] + '\xa0' + s[i:]
    if k in ('unidigit', 'unidigits'):
        z = r.choice(UNI_DIGITS)
        idx = [j for j, ch in enumerate(s) if ch in '0123456789']
        if not idx:
            return s + chr(ord(z) + 3)
        pick = idx if k == 'unidigits' else [r.choice(idx)]
        return ''.join(chr(ord(z) + int(ch)) if j in pick else ch for j, ch in enumerate(s))
    if k == 'case':
        return r.choice([s.upper(), s.lower(), s.swapcase(), s.title()])
    if k == 'fold':
        idx = [j for j, ch in enumerate(s) if ch in FOLDS]
        if not idx:
            return s + r.choice(list(FOLDS.values()))
        j = r.choice(idx)
        return s[:j] + FOLDS[s[j]] + s[j + 1:]
    if k == 'trail':
        return s + r.choice([' ', '  Mon', ' 10:30', 'x', '0', '.', '\n', '\t', ' AM', '7', ' 2024', 'th'])
    if k == 'lead':
        return r.choice([' ', '0', 'x', '\t', '-', '+', '00']) + s
    if k == 'sep':
        for a in '/-.:':
            if a in s:
                return s.replace(a, r.choice('/-.: ,'), r.choice([1, 9]))
        return s
    if k == 'trunc':
        return s[:i]
    # 'inc': a field one beyond its range (month 13, day 32, Feb 30 …): bump the first digit run
    m = re.search(r'\d+', s)
    if m:
        return s[:m.start()] + str(int(m.group()) + r.choice([1, 10, 12, 20, 30])).zfill(len(m.group())) + s[m.end():]
    return s


def gen_pairs(r, n):
    out = []
    for _ in range(n):
        fmt = gen_format(r)
        k = r.random()
        dt = gen_datetime(r)
        if k < 0.30:
            text, tag = render(r, fmt, dt), 'strict'
        elif k < 0.50:
            text, tag = render(r, fmt, dt, loose=True), 'loose'
        elif k < 0.86:
            text, tag = perturb(r, render(r, fmt, dt, loose=r.random() < 0.4), fmt), 'perturbed'
            if r.random() < 0.2:
                text = perturb(r, text, fmt)
        elif k < 0.93:
            text, tag = render(r, r.choice(BANK_FORMATS[:30]), dt, loose=r.random() < 0.4), 'other-format'
        else:
            text, tag = r.choice(JUNK) if r.random() < 0.6 else ''.join(r.choice('0123456789/-. :janFEBmarchPM\t٣') for _ in range(r.randint(0, 12))), 'garbage'
        out.append((fmt, text, tag))
    return out


def small_enumeration():
    """exhaustive small spaces: every day-of-year × leap/common year for %j; every value 0..99 of the two-digit fields in both
    spellings; every month and weekday name in three letter cases; every two-character text for the one-directive formats"""
    out = []
    for y in ('2023', '2024', '1900', '9999', '0001', ''):
        for j in list(range(0, 370)):
            for s in {str(j), str(j).zfill(3), str(j).zfill(2)}:
                out.append(('%j %Y' if y else '%j', (s + ' ' + y) if y else s, 'enum-j'))
    for k in 'dmHIMSyuw':
        for v in range(0, 100):
            for s in {str(v), str(v).zfill(2)}:
                out.append(('%' + k, s, 'enum-2digit'))
                out.append(('%' + k + '%Y', s + '2024', 'enum-2digit+Y'))
    for k, names in (('b', A_MONTH), ('B', F_MONTH), ('a', A_WDAY), ('A', F_WDAY), ('p', ['AM', 'PM'])):
        for nm in names:
            for s in (nm, nm.lower(), nm.upper(), nm[:-1], nm + 'x'):
                out.append(('%' + k, s, 'enum-name'))
    for m in range(0, 14):
        for d in range(0, 33):
            out.append(('%m/%d/%Y', '%d/%d/2023' % (m, d), 'enum-md'))
            out.append(('%m/%d/%Y', '%02d/%02d/2024' % (m, d), 'enum-md'))
            out.append(('%m%d%Y', '%d%d2024' % (m, d), 'enum-md-nosep'))
            out.append(('%m/%d', '%d/%d' % (m, d), 'enum-md-noyear'))
    for v in range(0, 100):
        out.append(('%d/%m/%y', '01/01/%02d' % v, 'enum-pivot'))
    for us in ('0', '1', '12', '123', '1234', '12345', '123456', '1234567', '000001', '999999', '9', ''):
        out.append(('%S.%f', '5.' + us, 'enum-f'))
    return out


RENDER_DIRS = 'YymdbBHMS'
RENDER_SEPS = ['/', '-', '.', ' ', '', '', ', ', 'T', ':', '  ', ' de ', 'x', '%%', '\xa0', '\t', '. ', 'é', '0', '#']


def gen_fmtok_format(r):
    """a format the round-trip theorem speaks about: directives among %Y %y %m %d %b %B %H %M %S, year + month + day present, none twice"""
    dirs = [r.choice('Yy'), r.choice('mbB'), 'd'] + r.sample('HMS', r.choice([0, 0, 0, 1, 2, 3]))
    if r.random() < 0.15:
        dirs.append(r.choice([d for d in 'YymbB' if d not in dirs]))      # a second year / month directive (consistent by construction)
    r.shuffle(dirs)
    out = r.choice(['', '', '', 'Posted ', '('])
    for i, d in enumerate(dirs):
        if i:
            out += r.choice(RENDER_SEPS) if r.random() < 0.5 else r.choice(['/', '-', '.', ' ', ''])
        out += '%' + d
    return out + r.choice(['', '', '', ')', ' h', '.'])


def gen_spells(r, fmt, dt):
    """a spelling per item of the compiled format: one-digit fields, other white space, other letter case of the month name"""
    y, m = dt[0], dt[1]
    sp = []
    for kind, v in tokens(fmt):
        if kind == 'dir' and v in 'mdHMS':
            sp.append({'unpad': r.random() < 0.6})
        elif kind == 'dir' and v in 'bB':
            nm = (A_MONTH if v == 'b' else F_MONTH)[m - 1]
            sp.append({'name': r.choice([nm.upper(), nm.lower(), nm.swapcase(), nm, nm[:-1], nm + 's'])} if r.random() < 0.6 else {})
        elif kind == 'ws':
            sp.append({'blanks': r.choice(BLANKS + ['', 'x'])} if r.random() < 0.5 else {})
        else:
            sp.append({})
    return sp


def render_check(ctx, r, n):
    """`Strptime.strftimeWith` writes what `datetime.strftime` writes (strict spelling, year ≥ 1000), and executed instances of the
    round-trip theorem: whenever the model says its hypotheses hold (FmtOk, valid, YearFits, SpellsOk), the model AND CPython read the
    written text back as the date"""
    cases, meta = [], []
    for _ in range(n):
        fmt = gen_fmtok_format(r) if r.random() < 0.8 else r.choice(BANK_FORMATS[:40])
        dt = gen_datetime(r)
        dirs = [v for k, v in (tokens(fmt) or []) if k == 'dir']
        if 'y' in dirs and r.random() < 0.85:
            dt = (r.randint(1969, 2068),) + dt[1:]
            if dt[1] == 2 and dt[2] == 29 and not calendar.isleap(dt[0]):
                dt = dt[:2] + (28,) + dt[3:]
        strict = r.random() < 0.45
        spells = [] if strict else gen_spells(r, fmt, dt)
        line = {'op': 'strptime', 'fmt': fmt, 'render': {'y': dt[0], 'm': dt[1], 'd': dt[2], 'H': dt[3], 'M': dt[4], 'S': dt[5], 'spells': spells}}
        tb = tables_for(fmt, ''.join(sp.get('blanks') or '' for sp in spells) + fmt)
        if tb:
            line['tables'] = tb
        cases.append(line); meta.append((fmt, dt, strict, spells))
    fails, stats = [], {'cases': 0, 'strict_texts_equal_datetime.strftime': 0, 'theorem_hypotheses_hold': 0, 'read_back_as_the_date': 0,
                        'spelling_refused_by_SpellsOk': 0, 'refused_and_cpython_reads_another_date': 0, 'format_not_FmtOk': 0}
    try:
        out = common.Driver().batch(cases)
    except Exception as e:
        ctx.obligation('correspondence:datetime.strftime/strptime-vs-Strptime.strftimeWith+round-trip-instances', 'correspondence', False, error=str(e)[:400])
        return stats
    for (fmt, dt, strict, spells), m in zip(meta, out):
        stats['cases'] += 1
        if not m.get('fmtok'):
            stats['format_not_FmtOk'] += 1
            continue
        truth = datetime.datetime(dt[0], dt[1], dt[2], *(dt[3 + i] if '%' + k in fmt else 0 for i, k in enumerate('HMS')))
        py = py_strptime(m['text'], fmt)
        if strict and dt[0] >= 1000:
            want = datetime.datetime(*dt[:6]).strftime(fmt)
            if m['text'] != want:
                fails.append({'format': fmt, 'date': dt, 'datetime.strftime': want, 'Strptime.strftime': m['text']})
                continue
            stats['strict_texts_equal_datetime.strftime'] += 1
        if m.get('valid') and m.get('yearfits') and m.get('spellsok'):
            stats['theorem_hypotheses_hold'] += 1
            if m.get('back') != truth.isoformat() or m.get('expect') != truth.isoformat() or py.get('ok') != truth.isoformat():
                fails.append({'format': fmt, 'date': dt, 'spells': spells, 'text': m['text'], 'model_reads': m.get('back') or m.get('back_err'),
                              'theorem_says': m.get('expect'), 'datetime.strptime': py, 'truth': truth.isoformat()})
            else:
                stats['read_back_as_the_date'] += 1
        elif not m.get('spellsok'):
            stats['spelling_refused_by_SpellsOk'] += 1
            stats['refused_and_cpython_reads_another_date'] += ('ok' in py and py['ok'] != truth.isoformat())
            if ('ok' in py) != ('back' in m) or py.get('ok') != m.get('back'):
                fails.append({'format': fmt, 'text': m['text'], 'model_reads': m.get('back') or m.get('back_err'), 'datetime.strptime': py})
    ctx.obligation('correspondence:datetime.strftime/strptime-vs-Strptime.strftimeWith+round-trip-instances', 'correspondence', not fails,
                   cases=stats['cases'], error=json.dumps(fails[0], default=str)[:1500] if fails else None)
    return stats


def pairs_check(ctx, r, n, extra=()):
    """run the model and CPython on the pairs; registers the obligations; returns statistics"""
    pairs = list(extra) + gen_pairs(r, n)
    lines = [model_line(f, t) for f, t, _ in pairs]
    try:
        out = common.Driver().batch(lines)
    except Exception as e:
        ctx.obligation('correspondence:datetime.strptime-vs-Strptime.strptime', 'correspondence', False, error=f'driver: {e}'[:500])
        return {'pairs': 0}
    cls_fail, kind_fail, pat_fail = [], [], []
    hist, tags, unsupported, nontrivial, with_tables = {}, {}, 0, set(), 0
    pats = {}
    for (fmt, text, tag), ln, m in zip(pairs, lines, out):
        py = py_strptime(text, fmt)
        tags[tag] = tags.get(tag, 0) + 1
        with_tables += 'tables' in ln
        if fmt not in pats:
            pats[fmt] = py_pattern(fmt)
            if m.get('kind') != 'unsupported' and pats[fmt] != m.get('pattern'):
                pat_fail.append({'format': fmt, 'TimeRE.pattern': pats[fmt], 'model': m.get('pattern')})
        if m.get('err') == 'unsupported':
            unsupported += 1
            continue
        mk = 'ok' if 'ok' in m else m.get('kind')
        hist[mk] = hist.get(mk, 0) + 1
        if mk not in ('noMatch', 'stray', 'badDirective', 'reError'):
            nontrivial.add((fmt, text))
        mc = {'ok': m['ok']} if 'ok' in m else {'err': m.get('err')}
        pc = {'ok': py['ok']} if 'ok' in py else {'err': py['err']}
        if mc != pc:
            cls_fail.append({'format': fmt, 'text': text, 'datetime.strptime': py, 'Strptime.strptime': {k: v for k, v in m.items() if k not in ('id', 'pattern')},
                             'tables': ln.get('tables'), 'generated_as': tag})
        elif 'err' in py and (py.get('kind'), py.get('rest')) != (m.get('kind'), m.get('rest')):
            kind_fail.append({'format': fmt, 'text': text, 'datetime.strptime': py, 'Strptime.strptime': {k: v for k, v in m.items() if k not in ('id', 'pattern')},
                              'tables': ln.get('tables'), 'generated_as': tag})
    ctx.obligation('correspondence:datetime.strptime-vs-Strptime.strptime', 'correspondence', not cls_fail, cases=len(pairs) - unsupported,
                   error=json.dumps(cls_fail[0], default=str)[:1500] if cls_fail else None)
    ctx.obligation('correspondence:_strptime-ValueError-kind+unconverted-remainder-vs-Strptime.StrpErr', 'correspondence', not kind_fail,
                   cases=sum(v for k, v in hist.items() if k != 'ok'), error=json.dumps(kind_fail[0], default=str)[:1500] if kind_fail else None)
    ctx.obligation('correspondence:TimeRE.pattern-vs-Strptime.scan(printed back)', 'correspondence', not pat_fail, cases=len(pats),
                   error=json.dumps(pat_fail[0], default=str)[:1500] if pat_fail else None)
    return {'pairs': len(pairs), 'distinct_formats': len(pats), 'model_outcomes': dict(sorted(hist.items())), 'generated_as': dict(sorted(tags.items())),
            'skipped_unsupported_directive': unsupported, 'nontrivial': len(nontrivial), 'pairs_with_non_ascii_tables': with_tables,
            'class_disagreements': cls_fail[:3], 'kind_disagreements': kind_fail[:3]}
