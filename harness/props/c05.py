"""C05 — every well-formed statement row becomes exactly one transaction, faithfully.

Proof: Props/C05.lean over `Csv.parseRow` / `Csv.parseFile` / `Csv.parseAmountExact` (hand model of
`parse_generic_csv` with rules=[] and of `parse_amount`; `float()` and `strptime` are oracle parameters).
Tie: differential correspondence.  Generated tables are written with csv.writer (or as regex lines) to a
temp file outside /verif and /repo; the implementation reads it in-process while `float` / `strptime`
calls are recorded; the model runs on the rows `_iter_rows_with_delimiter` produced, with the recorded
oracle answers.  Oracle on the implementation alone: (a) the accepted rows are exactly those the
statement describes (computed independently from the abstract table: own tokenisation, Decimal amounts),
with the stated fields; (b) parse(table) = concatenation of parse(single row) and removing /
duplicating / corrupting a row leaves every other row's transaction unchanged.
"""
import csv
import datetime
import json
import math
import os
import re
import shutil
import tempfile
from decimal import Decimal, InvalidOperation
from fractions import Fraction

from .. import common
from ..common import float_bits

REQUIRED = ('the transactions read are exactly the rows with enough columns, a date matching the format, a non-empty '
            'description and a finite non-zero amount, one per row in file order, carrying date / description / source / '
            'fields / amount (number in the cell, sign mode applied); a malformed row never affects another row')

DATE_FORMATS = ['%m/%d/%Y', '%Y-%m-%d', '%d.%m.%Y', '%m/%d/%y', '%d %b %y', '%Y%m%d']
CURRENCY = '$€£¥'
CAP_NAMES = ['merchant', 'type', 'memo', 'cardholder', 'ref', 'payee', 'naïve', 'x1']
LIT_SEGS = [' - ', ' (', ')', ' ', '', ' {{#}} ', ' → ', ': ', '/']
DESCS = ['STARBUCKS STORE 123 SEATTLE WA', 'AMAZON.COM*AB12 AMZN.COM/BILL', 'Coffee, large', 'He said "hi"', 'line1\nline2',
         'Café Zürich 東京', '  padded  ', ' nbsp ', '', '   ', 'X', 'SHOP {a} }', 'PAYMENT THANK YOU  CA  ',
         'tab\there', "O'Brien; pub", 'WHOLEFDS #10 NY', 'ends lower ca', 'UBER *TRIP\n', 'a|b', 'Ünïcödé ŞTORE TX', '0', '"', ',',
         'NETFLIX.COM', 'x' * 60]
LOCS = ['', 'NY', ' Seattle ', 'WA', '  ', 'São Paulo']
JUNK_AMOUNTS = ['nan', 'NaN', '-nan', 'inf', '-inf', 'Infinity', '+infinity', ' nan ', '(inf)', '$nan', '1e5', '1E-2', '2.5e3', '1_000',
                '1__0', '_1', '1_', '', ' ', 'abc', '12abc', '--5', '1.2.3', '$', '()', '(', ')', '١٢', '１２.５',
                '0', '0.00', '-0.0', '(0.00)', '$0', '0,00', '+5', '+ 5', '- 5', '-', '.', '.5', '5.', '1e400', '1e-400', 'N/A', '12 34',
                '1.234,56', '1,234.56', '1 234,56', '1,2,3', '(5', '5)', '((5))', '(-5)', '-(5)', '€ 12', '12 €', '1 234,56', '∞',
                '0x10', 'infinit', 'in f', '1e', 'Infinity1']


# ------------------------------------------------------------------ generator

def render_amount(r, cents, eu):
    """(text, exact value as Fraction): money the way banks print it"""
    neg = cents < 0
    whole, frac = divmod(abs(cents), 100)
    w = f'{whole:,}' if r.random() < 0.5 else str(whole)
    if eu:
        w = w.replace(',', ' ' if r.random() < 0.25 else '.')
    dec = r.choice([2, 2, 2, 2, 1, 0, 3])
    val = Fraction(abs(cents), 100)
    if dec == 2:
        body = w + (',' if eu else '.') + f'{frac:02d}'
    elif dec == 1:
        body = w + (',' if eu else '.') + f'{frac // 10}'
        val = Fraction(whole * 10 + frac // 10, 10)
    elif dec == 0:
        body = w
        val = Fraction(whole)
    else:
        body = w + (',' if eu else '.') + f'{frac:02d}7'
        val = Fraction(abs(cents) * 10 + 7, 1000)
    k = r.random()
    if k < 0.35:
        sym = r.choice(CURRENCY)
        p = r.random()
        body = sym + body if p < 0.6 else (body + sym if p < 0.8 else body + ' ' + sym)
    if neg:
        val = -val
        body = '(' + body + ')' if r.random() < 0.35 else '-' + body
    if r.random() < 0.15:
        body = r.choice([' ', '  ', '\t']) + body + r.choice([' ', '', ' '])
    return body, val


def gen_amount(r, eu):
    k = r.random()
    if k < 0.72:
        c = r.choice([r.randint(-500000, 500000), r.randint(-99, 99), r.randint(-10 ** 9, 10 ** 9), r.choice([100, -100, 1, 5, 123456789])])
        if c == 0:
            c = 1234
        t, v = render_amount(r, c, eu)
        return t, str(v)
    if k < 0.8:
        # the other convention's rendering (still a number, or junk, under this one)
        t, _ = render_amount(r, r.randint(-500000, 500000), not eu)
        return t, None
    return r.choice(JUNK_AMOUNTS), None


def gen_date(r, fmt):
    d = datetime.datetime(r.choice([1999, 2017, 2024, 2025]), r.randint(1, 12), r.randint(1, 28))
    k = r.random()
    if k < 0.7:
        return d.strftime(fmt)
    if k < 0.78:
        return d.strftime(fmt) + r.choice(['  Mon', ' Tue', '\tx', ' 10:30'])
    if k < 0.84:
        return r.choice([' ', '  ']) + d.strftime(fmt) + r.choice([' ', ' '])
    if k < 0.92:
        return d.strftime(r.choice([f for f in DATE_FORMATS if f != fmt]))
    return r.choice(['', '  ', '13/45/2024', '2024-13-45', 'yesterday', 'Date', '00/00/0000', '02/30/2024', ' ', '1/2/2024', '٠١/٠٢/٢٠٢٤'])


def gen_layout(r):
    n = r.choice([3, 3, 4, 4, 5, 6, 7])
    mode2 = r.random() < 0.35
    roles = ['date', 'amount']
    caps = []
    if mode2:
        caps = r.sample(CAP_NAMES, r.choice([1, 2, 2, 3]))
    else:
        roles.append('description')
        if r.random() < 0.3:
            caps = r.sample(CAP_NAMES, r.choice([1, 2]))
    caps = caps[:max(1 if mode2 else 0, n - len(roles))]
    roles += [('capture', c) for c in caps]
    if len(roles) < n and r.random() < 0.4:
        roles.append('location')
    while len(roles) < n:
        roles.append(r.choice(['_', '_', '*']))
    r.shuffle(roles)
    # trailing skip columns may be dropped from the format string (then rows are "long")
    while roles and roles[-1] in ('_', '*') and r.random() < 0.5:
        roles.pop()
    fmt = r.choice(DATE_FORMATS)
    sign = r.choice(['', '', '-', '+'])
    segs = None
    template_kind = None
    if mode2:
        k = r.random()
        segs = []
        use = list(caps)
        r.shuffle(use)
        if r.random() < 0.3:
            use = use[:max(1, len(use) - 1)]
        if r.random() < 0.15:
            use = use + [use[0]]
        segs.append(['lit', r.choice(['', '', ' ', 'POS '])])
        for c in use:
            segs.append(['ref', c])
            segs.append(['lit', r.choice(LIT_SEGS)])
        if k < 0.06:
            template_kind = r.choice(['{%s' % caps[0], '{%s} }' % caps[0], '{%s} {}' % caps[0], '}{%s}' % caps[0], '{%s}{' % caps[0]])
    return {'roles': [list(x) if isinstance(x, tuple) else x for x in roles], 'date_format': fmt, 'sign': sign,
            'segs': segs, 'bad_template': template_kind, 'upper': r.random() < 0.15}


def layout_cols(layout):
    roles = layout['roles']
    L = {'date': roles.index('date'), 'amount': roles.index('amount'),
         'description': roles.index('description') if 'description' in roles else None,
         'location': roles.index('location') if 'location' in roles else None,
         'captures': [(x[1], i) for i, x in enumerate(roles) if isinstance(x, list)]}
    used = [L['date'], L['amount']] + [i for _, i in L['captures']]
    used += [L[k] for k in ('description', 'location') if L[k] is not None]
    L['max_col'] = max(used)
    return L


def format_string(layout):
    parts = []
    for x in layout['roles']:
        if x == 'date':
            parts.append('{%s:%s}' % ('Date' if layout['upper'] else 'date', layout['date_format']))
        elif x == 'amount':
            parts.append('{%samount}' % layout['sign'])
        elif x == 'description':
            parts.append('{DESCRIPTION}' if layout['upper'] else '{description}')
        elif x == 'location':
            parts.append('{location}')
        elif isinstance(x, list):
            parts.append('{%s}' % (x[1].upper() if layout['upper'] and x[1].isascii() else x[1]))
        else:
            parts.append('{%s}' % x)
    return ', '.join(parts)


def template_string(layout):
    if layout['segs'] is None:
        return None
    if layout['bad_template']:
        return layout['bad_template']
    return ''.join(('{%s}' % v) if k == 'ref' else v for k, v in layout['segs'])


def gen_case(r):
    layout = gen_layout(r)
    L = layout_cols(layout)
    eu = r.random() < 0.45
    width = len(layout['roles'])
    dk = r.random()
    delimiter = None if dk < 0.3 else ',' if dk < 0.4 else ';' if dk < 0.55 else 'tab' if dk < 0.7 else '|' if dk < 0.78 else 'regex'
    rows, known = [], {}
    for _ in range(r.choice([1, 2, 3, 4, 6, 8, 12])):
        k = r.random()
        if k < 0.05:
            rows.append([])
            continue
        w = width if k < 0.7 else max(0, width - r.randint(1, 3)) if k < 0.85 else width + r.randint(1, 3)
        row = []
        for j in range(w):
            role = layout['roles'][j] if j < width else '_'
            if role == 'date':
                row.append(gen_date(r, layout['date_format']))
            elif role == 'amount':
                t, v = gen_amount(r, eu)
                if v is not None:
                    known[f'{len(rows)},{j}'] = v
                row.append(t)
            elif role == 'location':
                row.append(r.choice(LOCS))
            else:
                row.append(r.choice(DESCS))
        rows.append(row)
    has_header = r.random() < 0.6
    if has_header and r.random() < 0.8:
        hdr = [x[1].title() if isinstance(x, list) else {'_': 'Skip', '*': 'Other'}.get(x, x.title()) for x in layout['roles']]
        rows.insert(0, hdr)
        known = {f'{int(k.split(",")[0]) + 1},{k.split(",")[1]}': v for k, v in known.items()}
    if delimiter == 'regex':
        for i, row in enumerate(rows):
            rows[i] = [c.replace('|', '/').replace('\n', ' ') for c in row]
    case = {'layout': layout, 'eu': eu, 'delimiter': delimiter, 'has_header': has_header, 'rows': rows, 'known': known,
            'source': r.choice(['Bank', 'CSV', 'my card', 'Ünï']), 'spec_source': r.choice([None, None, None, 'Override', '']),
            'negate_override': r.choice([None, None, None, None, True, False]),
            'via_config': r.random() < 0.85}
    if not case['via_config']:
        case['negate_override'] = None
    if layout['segs'] is not None and r.random() < 0.08:
        # FormatSpec states that parse_format_string refuses (built by hand): the exception is not caught per row
        case['tamper'] = r.choice(['missing_ref', 'no_captures', 'no_template', 'empty_captures'])
    return case


CORPUS = [
    # D5 witnesses (DESIGN.md §6): non-finite cells must not become transactions
    {'layout': {'roles': ['date', 'description', 'amount'], 'date_format': '%m/%d/%Y', 'sign': '', 'segs': None, 'bad_template': None, 'upper': False},
     'eu': False, 'delimiter': None, 'has_header': True,
     'rows': [['Date', 'Description', 'Amount'], ['01/15/2025', 'COFFEE', 'nan'], ['01/16/2025', 'TEA', '12.50'], ['01/17/2025', 'MILK', 'inf'],
              ['01/18/2025', 'BREAD', '-Infinity'], ['01/19/2025', 'JAM', '(NaN)']],
     'known': {'2,2': '25/2'}, 'source': 'Bank', 'spec_source': None, 'negate_override': None, 'via_config': True},
    {'layout': {'roles': ['date', ['capture', 'merchant'], 'amount', ['capture', 'type']], 'date_format': '%Y-%m-%d', 'sign': '+',
                'segs': [['lit', ''], ['ref', 'merchant'], ['lit', ' ('], ['ref', 'type'], ['lit', ')']], 'bad_template': None, 'upper': False},
     'eu': True, 'delimiter': ';', 'has_header': False,
     'rows': [['2025-01-15', ' Bäckerei ', '-1.234,56 €', 'card'], ['2025-01-16', 'x', 'inf', 'card'], [], ['2025-01-17', 'Markt', '(3,10)', '']],
     'known': {'0,2': '-30864/25', '3,2': '-31/10'}, 'source': 'EU', 'spec_source': None, 'negate_override': None, 'via_config': True},
]


# ------------------------------------------------------------------ running the implementation

class Workdir:
    def __enter__(self):
        self.d = tempfile.mkdtemp(prefix='tally-c05-')
        self.path = os.path.join(self.d, 'statement.csv')
        return self

    def __exit__(self, *a):
        shutil.rmtree(self.d, ignore_errors=True)


def regex_for(width):
    return 'regex:' + r'\|'.join([r'([^|]*)'] * width)


def impl_delimiter(case):
    if case['delimiter'] == 'regex':
        return regex_for(len(case['layout']['roles']))
    return case['delimiter']


def write_table(path, case, rows):
    d = case['delimiter']
    with open(path, 'w', encoding='utf-8', newline='') as f:
        if d == 'regex':
            for row in rows:
                f.write('|'.join(row) + '\n')
        else:
            w = csv.writer(f, delimiter={'tab': '\t', None: ','}.get(d, d), lineterminator='\n')
            for row in rows:
                w.writerow(row)


def build_spec(case):
    """FormatSpec the way tally builds it: format string (+ template) → resolve_source_format → overrides."""
    from tally import config_loader, format_parser
    layout = case['layout']
    fs, tpl = format_string(layout), template_string(layout)
    if case['via_config']:
        src = {'name': case['source'], 'file': 'statement.csv', 'format': fs}
        if tpl is not None:
            src['columns'] = {'description': tpl}
        d = impl_delimiter(case)
        if d is not None:
            src['delimiter'] = d
        src['has_header'] = case['has_header']
        if case['negate_override'] is not None:
            src['negate_amount'] = case['negate_override']
        spec = config_loader.resolve_source_format(src)['_format_spec']
    else:
        spec = format_parser.parse_format_string(fs, tpl)
        spec.delimiter = impl_delimiter(case)
        spec.has_header = case['has_header']
    if case['spec_source'] is not None:
        spec.source_name = case['spec_source']
    t = case.get('tamper')
    if t == 'missing_ref':
        spec.description_template = (spec.description_template or '') + ' {nosuch}'
    elif t == 'no_captures':
        spec.custom_captures = None
    elif t == 'no_template':
        spec.description_template = None
    elif t == 'empty_captures':
        spec.custom_captures = {}
        spec.description_template = 'fixed text'
    return spec


def canon_txn(t):
    fld = t.get('field')
    return {'date': t['date'].isoformat(), 'raw_description': t['raw_description'], 'amount': float_bits(t['amount']),
            'source': t['source'], 'location': t['location'], 'is_credit': bool(t['is_credit']),
            'field': None if fld is None else [[k, v] for k, v in fld.items()]}


def run_impl(wd, case, rows, record=None):
    """parse_generic_csv on the table `rows`; returns {'txns': [...]} or {'fatal': exception class}."""
    from tally import parsers, merchant_utils
    merchant_utils._cached_engine = None
    write_table(wd.path, case, rows)
    try:
        spec = build_spec(case)
    except ValueError as e:
        return {'config_error': str(e)[:200]}
    real_dt = datetime.datetime
    if record is not None:
        class DT:
            @staticmethod
            def strptime(s, f):
                try:
                    v = real_dt.strptime(s, f)
                except ValueError:
                    record['dates'][s] = None
                    raise
                record['dates'][s] = v.isoformat()
                return v

        def rec_float(s):
            try:
                v = float(s)
            except ValueError:
                if isinstance(s, str):
                    record['floats'][s] = None
                raise
            if isinstance(s, str):
                record['floats'][s] = float_bits(v)
            return v
        parsers.datetime = DT
        parsers.float = rec_float
    try:
        txns = parsers.parse_generic_csv(wd.path, spec, [], source_name=case['source'],
                                         decimal_separator=',' if case['eu'] else '.')
        return {'txns': [canon_txn(t) for t in txns]}
    except Exception as e:  # an exception escaping the row loop aborts the whole file
        return {'fatal': type(e).__name__}
    finally:
        if record is not None:
            parsers.datetime = real_dt
            try:
                del parsers.float
            except AttributeError:
                pass


def model_case(wd, case):
    """protocol line for tvdrv: rows as the implementation's tokeniser yields them + recorded oracle answers"""
    from tally import parsers
    rec = {'dates': {}, 'floats': {}}
    impl = run_impl(wd, case, case['rows'], rec)
    if 'config_error' in impl:
        return None, impl
    spec = build_spec(case)
    rows = [list(r) for r in parsers._iter_rows_with_delimiter(wd.path, spec.delimiter, spec.has_header)]

    def pairs(d):
        return None if d is None else [[k, v] for k, v in d.items()]
    js = {'date_col': spec.date_column, 'date_format': spec.date_format, 'amount_col': spec.amount_column,
          'desc_col': spec.description_column, 'custom': pairs(spec.custom_captures), 'template': spec.description_template,
          'extra': pairs(spec.extra_fields), 'loc_col': spec.location_column, 'source_name': spec.source_name,
          'negate': bool(spec.negate_amount), 'abs': bool(spec.abs_amount)}
    line = {'op': 'csv', 'spec': js, 'cfg': {'eu': case['eu'], 'source': case['source'], 'fixed': True}, 'rows': rows,
            'floats': [[k, v] for k, v in rec['floats'].items()], 'dates': [[k, v] for k, v in rec['dates'].items()]}
    return line, impl


# ------------------------------------------------------------------ the property as an oracle on the implementation

PLAIN_NUM = re.compile(r'[+-]?(\d+\.?\d*|\.\d+)([eE][+-]?\d+)?', re.ASCII)
NONFINITE = re.compile(r'[+-]?(nan|inf|infinity)', re.I)


def spec_amount(cell, eu):
    """What number does the cell spell?  → ('num', Fraction) | ('skip',) | ('grey', Fraction)
    'grey': spellings only float() understands (digit-group underscores, non-ASCII digits): accepting them with
    that value or skipping them are both within the statement."""
    s = cell.strip()
    neg = False
    if len(s) >= 2 and s[0] == '(' and s[-1] == ')':
        neg, s = True, s[1:-1]
    for c in CURRENCY:
        s = s.replace(c, '')
    s = s.strip()
    if eu:
        s = s.replace('.', '').replace(' ', '').replace(',', '.')
    else:
        s = s.replace(',', '')
    if NONFINITE.fullmatch(s):
        return ('skip',)
    try:
        d = Decimal(s.replace('_', '')) if '_' in s else Decimal(s)
    except InvalidOperation:
        return ('skip',)
    if not d.is_finite():
        return ('skip',)
    v = Fraction(d)
    if neg:
        v = -v
    return ('num' if PLAIN_NUM.fullmatch(s) else 'grey', v)


def to_float(fr):
    try:
        return fr.numerator / fr.denominator      # correctly rounded
    except OverflowError:
        return math.inf if fr > 0 else -math.inf


def spec_row(case, row, known=None):
    """Expected transaction for one abstract row, or None (row must be skipped).  ('grey', txn) when either is fine."""
    layout = case['layout']
    L = layout_cols(layout)
    if len(row) <= L['max_col']:
        return None
    date_s = row[L['date']].strip()
    if not date_s:
        return None
    tok = date_s if ' ' in layout['date_format'] else date_s.split()[0]
    try:
        dt = datetime.datetime.strptime(tok, layout['date_format'])
    except ValueError:
        return None
    caps = {n: row[i].strip() for n, i in L['captures']}
    if L['description'] is not None:
        desc = row[L['description']].strip()
    else:
        desc = ''.join(caps[v] if k == 'ref' else v.replace('{{', '{').replace('}}', '}') for k, v in layout['segs'])
    if not desc:
        return None
    am = spec_amount(row[L['amount']], case['eu'])
    if am[0] == 'skip':
        return None
    q = to_float(am[1])
    if known is not None and to_float(Fraction(known)) != q:
        return ('generator', known, str(am[1]))
    if not math.isfinite(q) or q == 0:
        return None
    negate = case['negate_override'] if case['negate_override'] is not None else layout['sign'] == '-'
    a = abs(q) if layout['sign'] == '+' else (-q if negate else q)
    t = {'date': dt.isoformat(), 'raw_description': desc, 'amount': float_bits(a),
         'source': case['spec_source'] or case['source'], 'is_credit': a < 0,
         'field': [[n, caps[n]] for n, _ in sorted(L['captures'], key=lambda p: p[1])] or None}
    return ('grey', t) if am[0] == 'grey' else t


OBS = ('date', 'raw_description', 'amount', 'source', 'is_credit', 'field')


def strip_loc(t):
    return {k: t[k] for k in OBS}


def data_rows(case):
    return case['rows'][1:] if case['has_header'] else case['rows']


def is_record(case, row):
    """regex delimiter: a line that does not match the user's pattern (here: fewer cells than groups) is not a row"""
    return case['delimiter'] != 'regex' or len(row) >= len(case['layout']['roles'])


def header_rows(case):
    return case['rows'][:1] if case['has_header'] else []


def oracle_spec(case, impl):
    """(a) accepted rows ⇔ the statement's predicate; fields as stated."""
    if case['layout']['bad_template'] or case.get('tamper'):
        return []      # no well-formed format: nothing the statement says applies (correspondence only)
    if 'fatal' in impl:
        return [{'class': 'file-aborted', 'case': case, 'observed': impl, 'required': 'no exception escapes the row loop'}]
    got = [strip_loc(t) for t in impl['txns']]
    off = 1 if case['has_header'] else 0
    # align greedily: expected list with optional (grey) entries
    exp = []
    for i, row in enumerate(data_rows(case)):
        e = spec_row(case, row, case['known'].get(f'{i + off},{layout_cols(case["layout"])["amount"]}')) if is_record(case, row) else None
        if isinstance(e, tuple) and e[0] == 'generator':
            return [{'class': 'harness-generator-inconsistent', 'case': case, 'row': row, 'detail': list(e)}]
        exp.append((i + off, row, e))
    L = layout_cols(case['layout'])

    def nonfinite_witness(upto):
        """the skipped-by-spec row with a nan/inf cell that the observed non-finite transaction must come from"""
        cands = [row for idx, row, e in exp if e is None and idx <= upto and len(row) > L['max_col']
                 and NONFINITE.search(row[L['amount']])]
        return cands[-1] if cands else None
    gi = 0
    for idx, row, e in exp:
        if e is None:
            continue
        grey = isinstance(e, tuple)
        want = e[1] if grey else e
        if gi < len(got) and got[gi] == want:
            gi += 1
            continue
        if grey:
            continue
        # mismatch: say what kind
        obs = got[gi] if gi < len(got) else None
        if obs is not None and not math.isfinite(common.bits_float(obs['amount'])):
            return [{'class': 'accepts-nonfinite', 'case': case, 'row': nonfinite_witness(idx), 'observed': obs, 'observed_all': got,
                     'required': 'no transaction for this row: its amount is not a finite number'}]
        return [{'class': 'row-dropped-or-altered', 'case': case, 'row_index': idx, 'row': row, 'required': want, 'observed': obs,
                 'observed_all': got}]
    if gi < len(got):
        obs = got[gi]
        cls = 'accepts-nonfinite' if not math.isfinite(common.bits_float(obs['amount'])) else 'extra-transaction'
        witness = nonfinite_witness(10 ** 9) if cls == 'accepts-nonfinite' else None
        return [{'class': cls, 'case': case, 'row': witness, 'required': 'no transaction for this row (amount not a finite non-zero number)'
                 if witness else 'no further transaction', 'observed': obs, 'observed_all': got}]
    return []


def corrupt_row(r, case, row):
    L = layout_cols(case['layout'])
    row = list(row)
    k = r.random()
    if k < 0.3 or not row:
        return row[:max(0, L['max_col'] - r.randint(0, 1))]
    j = r.choice([L['date'], L['amount']])
    if j < len(row):
        row[j] = r.choice(['', 'garbage', 'nan', '99/99/9999', '(', '0'])
    return row


def oracle_rows(wd, case, impl, r):
    """(b) every row is read on its own."""
    if 'fatal' in impl or case.get('tamper'):
        return []
    hdr, data = header_rows(case), data_rows(case)
    if case['delimiter'] == 'regex' and case['has_header'] and not hdr:
        return []
    base = impl['txns']
    singles = []
    for row in data:
        s = run_impl(wd, case, hdr + [row])
        if 'fatal' in s:
            return [{'class': 'file-aborted', 'case': dict(case, rows=hdr + [row]), 'observed': s}]
        singles.append(s['txns'])
    fails = []
    for i, s in enumerate(singles):
        if len(s) > 1:
            fails.append({'class': 'row-yields-several', 'case': dict(case, rows=hdr + [data[i]]), 'observed': s})
    cat = [t for s in singles for t in s]
    if cat != base and not fails:
        fails.append({'class': 'rows-not-independent', 'case': case, 'observed': base, 'required': cat,
                      'note': 'parse(table) differs from the concatenation of parse(header + single row)'})
    if data and not fails:
        i = r.randrange(len(data))
        variants = {'remove': (data[:i] + data[i + 1:], singles[:i] + singles[i + 1:]),
                    'duplicate': (data[:i + 1] + data[i:], singles[:i + 1] + singles[i:])}
        bad = corrupt_row(r, case, data[i])
        if case['delimiter'] == 'regex':
            bad = [c.replace('|', '/') for c in bad]
        sb = run_impl(wd, case, hdr + [bad])
        if 'txns' in sb:
            variants['corrupt'] = (data[:i] + [bad] + data[i + 1:], singles[:i] + [sb['txns']] + singles[i + 1:])
        for name, (rows2, exp) in variants.items():
            got = run_impl(wd, case, hdr + rows2)
            want = [t for s in exp for t in s]
            if got.get('txns') != want:
                fails.append({'class': f'neighbour-changed-by-{name}', 'case': dict(case, rows=hdr + rows2), 'row_index': i,
                              'observed': got, 'required': want})
                break
    return fails


def oracle(wd, case, r, impl=None):
    if impl is None:
        impl = run_impl(wd, case, case['rows'])
    if 'config_error' in impl:
        return [], impl
    return oracle_spec(case, impl) + oracle_rows(wd, case, impl, r), impl


def classify(pf):
    # D5 (DESIGN.md §6): call site parse_generic_csv, input class = amount cell spelling nan / inf / infinity
    return 'D5' if pf.get('class') == 'accepts-nonfinite' else None


# ------------------------------------------------------------------ amount side: render / exact value / float()

def amount_checks(ctx, r, n):
    """`Csv.render` writes what a bank writes, `parseAmountExact` reads back the number (theorem instances, executed),
    and Python's parse_amount returns the correctly rounded double of that exact value."""
    from tally import parsers
    cases, meta = [], []
    for _ in range(n):
        eu = r.random() < 0.5
        cents = r.choice([r.randint(0, 10 ** 7), r.randint(0, 999), r.randint(0, 10 ** 12), 0, 5, 100000])
        neg = r.random() < 0.5 and cents != 0
        st = {'eu': eu, 'thousands': r.random() < 0.6, 'blank': eu and r.random() < 0.3, 'symbol': r.choice([None, '$', '€', '£', '¥']),
              'pos': r.choice(['pre', 'post', 'postSpace']), 'paren': r.random() < 0.5, 'neg': neg,
              'cents': str(-cents if neg else cents)}
        cases.append({'op': 'amount', 'render': st})
        meta.append((st, cents))
    cells = []
    for _ in range(n):
        eu = r.random() < 0.5
        t, _v = gen_amount(r, eu)
        cells.append((eu, t))
        cases.append({'op': 'amount', 'eu': eu, 'cell': t})
    cases.append({'op': 'spaces'})
    out = common.Driver().batch(cases)
    fails = []
    for (st, cents), o in zip(meta, out[:n]):
        w = f'{cents // 100:,}' if st['thousands'] else str(cents // 100)
        if st['eu']:
            w = w.replace(',', ' ' if st['blank'] else '.')
        body = w + (',' if st['eu'] else '.') + f'{cents % 100:02d}'
        if st['symbol']:
            body = {'pre': st['symbol'] + body, 'post': body + st['symbol'], 'postSpace': body + ' ' + st['symbol']}[st['pos']]
        if st['neg']:
            body = '(' + body + ')' if st['paren'] else '-' + body
        signed = -cents if st['neg'] else cents
        py = parsers.parse_amount(body, ',' if st['eu'] else '.')
        if o['text'] != body or o['exact'] != [str(signed), 2] or py != signed / 100:
            fails.append({'style': st, 'cents': signed, 'python_text': body, 'lean': o, 'parse_amount': py})
    for (eu, t), o in zip(cells, out[n:2 * n]):
        s = t.strip()
        paren = s.startswith('(') and s.endswith(')')
        if paren:
            s = s[1:-1]
        s = re.sub(r'[$€£¥]', '', s).strip()
        s = s.replace('.', '').replace(' ', '').replace(',', '.') if eu else s.replace(',', '')
        plain = re.fullmatch(r'[+-]?(\d+\.?\d*|\.\d+)', s, re.ASCII)
        ok = o['cleaned'] == s and o['paren'] == paren and (o['exact'] is not None) == bool(plain)
        if ok and plain:
            m, k = int(o['exact'][0]), o['exact'][1]
            ok = float_bits(parsers.parse_amount(t, ',' if eu else '.')) == float_bits(to_float(Fraction(m, 10 ** k))) or \
                (m == 0)   # sign of zero: the exact value has none
        if not ok:
            fails.append({'cell': t, 'eu': eu, 'lean': o, 'python_cleaned': s})
    py_spaces = [c for c in range(0x110000) if chr(c).isspace()]
    if out[-1]['spaces'] != py_spaces:
        fails.append({'isspace': 'Csv.isPySpace differs from str.isspace', 'lean': out[-1]['spaces'][:40]})
    ctx.obligation('correspondence:parse_amount-vs-Csv.cleanAmount/parseAmountExact/render', 'correspondence', not fails,
                   cases=len(cases), error=json.dumps(fails[0], default=str)[:1500] if fails else None)
    return len(cases)


# ------------------------------------------------------------------ check

def nontrivial(rowtags):
    return rowtags.count('txn') >= 2 and any(t != 'txn' for t in rowtags)


def run(ctx):
    common.lean_phase(ctx, 'TallyVerif.Props.C05')
    r = ctx.rng
    n = 1500 if ctx.quick else 40000
    if ctx.replay:
        rp = json.loads(common.read(ctx.replay))
        ce = rp.get('counterexample', {})
        cases = [ce['case']] if 'case' in ce else list(CORPUS)
    else:
        cases = [json.loads(json.dumps(c)) for c in CORPUS] + [gen_case(r) for _ in range(n)]
    corr_fail, prop_fail, lines, impls, kept = [], [], [], [], []
    hist, deli, nontriv = {}, {}, set()
    d5_seen = []
    with Workdir() as wd:
        for c in cases:
            try:
                line, impl = model_case(wd, c)
            except Exception as e:   # the harness could not even drive the implementation
                corr_fail.append({'case': c, 'harness_error': f'{type(e).__name__}: {e}'[:300]})
                continue
            if line is None:
                hist['config-rejected'] = hist.get('config-rejected', 0) + 1
                continue
            lines.append(line); impls.append(impl); kept.append(c)
        try:
            model = common.Driver().batch(lines)
        except Exception as e:
            model = None
            corr_fail.append({'driver_error': str(e)[:500]})
        if model is not None:
            for c, line, m, im in zip(kept, lines, model, impls):
                mres = m.get('result')
                ires = im if 'fatal' in im else {'txns': im['txns']}
                for t in m.get('rows', []):
                    hist[t] = hist.get(t, 0) + 1
                deli[str(c['delimiter'])] = deli.get(str(c['delimiter']), 0) + 1
                if nontrivial(m.get('rows', [])):
                    nontriv.add(json.dumps([line['rows'], line['spec']], sort_keys=True))
                if mres != ires or m.get('misses'):
                    d = {'case': c, 'tokenised_rows': line['rows'], 'spec': line['spec'], 'model': mres, 'implementation': ires,
                         'model_row_outcomes': m.get('rows'), 'oracle_misses': m.get('misses'), '_line': line}
                    corr_fail.append(d)
            # DESIGN §2.7(4): is a disagreement exactly defect D5?  Ask the model of the UNREPAIRED code (`fixed: false`).
            withline = [d for d in corr_fail if '_line' in d]
            if withline:
                again = common.Driver().batch([dict(d['_line'], cfg=dict(d['_line']['cfg'], fixed=False)) for d in withline])
                d5_listed = any(f['id'] == 'D5' for f in ctx.findings_for())
                rest = [d for d in corr_fail if '_line' not in d]
                for d, m2 in zip(withline, again):
                    d.pop('_line')
                    if m2.get('result') == d['implementation'] and not m2.get('misses'):
                        d['explained_by'] = 'the model without repair D5 (skipNonFinite := false) agrees with the implementation'
                        d5_seen.append(d)
                        if d5_listed:
                            continue     # inside a listed known-finding class: impl = unrepaired Impl is accepted
                    rest.append(d)
                corr_fail = rest
        ctx.obligation('correspondence:parse_generic_csv-vs-Csv.parseFile', 'correspondence', not corr_fail,
                       cases=len(lines), error=json.dumps(corr_fail[0], default=str)[:1500] if corr_fail else None)
        try:
            n_amount = amount_checks(ctx, r, 400 if ctx.quick else 20000)
        except Exception as e:
            n_amount = 0
            ctx.obligation('correspondence:parse_amount-vs-Csv.cleanAmount/parseAmountExact/render', 'correspondence', False,
                           error=f'{type(e).__name__}: {e}'[:500])
        for c, im in zip(kept, impls):
            pf, _ = oracle(wd, c, r, im)
            prop_fail.extend(pf)
        # a harness inconsistency is not a property failure: it breaks an obligation instead
        gen_bad = [p for p in prop_fail if p['class'] == 'harness-generator-inconsistent']
        prop_fail = [p for p in prop_fail if p['class'] != 'harness-generator-inconsistent']
        ctx.obligation('harness:generator-known-values-agree-with-spec-parser', 'correspondence', not gen_bad,
                       error=json.dumps(gen_bad[0], default=str)[:800] if gen_bad else None)
        ctx.cov['evaluations'] = len(lines) + n_amount
        ctx.cov['traces_validated_against_impl'] = len(lines)
        ctx.cov['distinct_nontrivial'] = len(nontriv)
        ctx.cov['rule'] = ('generated tables (1–12 rows: dates in/out of format with day suffixes and blanks; amounts in both conventions '
                           'with $€£¥, parentheses, thousands separators, 0–3 decimals, plus nan/inf/1e5/1_000/empty/text/zero; '
                           'descriptions with delimiter, quote, newline, Unicode, blanks; short, long and blank rows) × layouts '
                           '(3–7 columns, skip columns, {description}+extra captures or captures+template, location, dropped trailing '
                           'columns) × delimiter {default, ",", ";", tab, "|", regex:} × header written/not × decimal convention × '
                           'sign mode {"", -, +, negate_amount override} × source-name override; non-trivial = at least two rows '
                           'accepted and at least one row skipped in the same table')
        ctx.notes['row_outcome_histogram'] = hist
        ctx.notes['disagreements_explained_by_unrepaired_D5_model'] = len(d5_seen)
        ctx.notes['delimiter_histogram'] = deli
        for c, im in list(zip(kept, impls))[2:5]:
            ctx.sample({'format': format_string(c['layout']), 'template': template_string(c['layout']), 'delimiter': c['delimiter'],
                        'decimal': ',' if c['eu'] else '.', 'rows': c['rows'][:4], 'transactions': len(im.get('txns', []))})

        def search():
            out = []
            budget = 4000 if ctx.quick else 40000
            done = 0
            for _ in range(budget):
                c = gen_case(r)
                done += 1
                try:
                    pf, _ = oracle(wd, c, r)
                except Exception as e:
                    pf = [{'class': 'implementation-crashed', 'case': c, 'observed': f'{type(e).__name__}: {e}'[:300]}]
                pf = [p for p in pf if p['class'] != 'harness-generator-inconsistent']
                if pf:
                    out.extend(pf)
                    break
            ctx.cov['evaluations'] += done
            return out

        common.conclude(ctx, prop_fail, classify=classify, search=search, required=REQUIRED)
    return ctx.finish(extra_trusted=[
        'tokenisation (csv.reader, regex groups, universal newlines) is taken from the implementation: the model starts from the rows '
        '_iter_rows_with_delimiter yields; header handling is checked by the oracle only (own table vs transactions)',
        'float() and datetime.strptime are parameters of the model; their answers are recorded from the implementation run',
        'IEEE negation / abs / comparison with 0 / isfinite are modelled on the bit pattern (sign bit + 63-bit magnitude)',
        'str.strip / str.split / \\s use the 29 code points of Csv.isPySpace (compared with str.isspace over all code points each run)',
        'str.format is modelled for literal text, {{, }}, {name}; conversions / format specs / attribute or index access are outside the model',
        'format string → FormatSpec (parse_format_string, resolve_source_format) is observed, not modelled here (C18)',
        'oracle: spellings only float() understands (1_000, non-ASCII digits) may be accepted with that value or skipped'])
