"""C20 — commands never alter or overwrite the user's statements, rules or settings.

Proof side: lean/TallyVerif/Props/C20.lean (`readonly_frame`/`up_frame` for arbitrary file systems,
`migration_only_on_request`, `init_frame`, `init_creates_only_missing`, D15c via init).
Tie (this file): generated budgets (old `./config` and new `./tally/config` layout; every settings kind;
legacy CSV absent / header-only / with rules; merchants.rules, .bak, views.rules, data/output present or
not; optionally with the user's own .gitignore / README / notes / dotfiles / look-alike files in and beside
the budget folder, with settings that reference a views file, rules file or statement that is not there, and with
the files in other byte-level forms than LF / UTF-8 / newline-terminated: CRLF, CR, mixed, no final newline, BOM,
trailing blanks, non-ASCII comments, very long lines; other permission bits)
× command sequences (up, up -q, up --format summary|json, explain, discover, diag, inspect, init,
up --migrate), each command run by the real `tally.cli.main()` in a forked child of a `/venv/bin/python`
server with stdin closed, under `sys.addaudithook`; content of every file before/after.
  correspondence   changed paths of the real run == changed paths of the model (`tvdrv` op `fsseq`)
  oracle           (implementation only) read-only commands change and open-for-write nothing outside the
                   output location; `init` / `up --migrate` keep every existing file (settings may only be
                   appended to — BYTE-wise: the old bytes are a prefix of the new ones; the CSV may only move to a
                   backup name that was free; permission bits stay, also on an appended-to settings.yaml) and
                   create only the files they are documented to create.
PARTIAL: argparse/terminal glue and OS durability are not modelled; writes outside the budget directory
(none observed) are reported in the evidence but are not "the user's statements, rules or settings".
"""
import json
import re

from .. import common, fsmon, regen
from . import c15

READONLY = [(['up'], 'up'), (['up', '-q'], 'up'), (['up', '--format', 'summary'], 'readOnly'), (['up', '--format', 'json'], 'readOnly'),
            (['explain'], 'readOnly'), (['explain', 'NETFLIX'], 'readOnly'), (['discover'], 'readOnly'), (['diag'], 'readOnly'),
            (['inspect', 'DATA'], 'readOnly'), (['up', '--format', 'markdown'], 'readOnly'), (['discover', '--format', 'json'], 'readOnly')]
WRITERS = [(['init'], 'init'), (['up', '--migrate'], 'upMigrateHtml')]
REQUIRED = ('up/explain/discover/diag/inspect write nothing except the report files in the output location and leave every other file '
            'byte-identical; init keeps every existing file (settings.yaml may only gain appended lines) and creates only what is missing; '
            'rule migration happens only on request and keeps the original rules as a backup')


# ---- what else a budget folder holds ------------------------------------------------------------------------------------------------
# The property quantifies over ALL budget directories and speaks of "every … file": a real folder holds more than tally's own seven files.
# (a) files of the user's own inside the budget folder — a `.gitignore` they wrote (tally's `init` has a starter for that name), README /
#     notes / dotfiles, files whose names resemble tally's own (old copies of settings / rules / views, rule files one level up);
# (b) for the new layout, files beside `tally/` in the working directory;
# (c) settings that point at files which are not there: `views_file:` as a real key without the views file (the starter settings tell the
#     user to "create config/views.rules and uncomment"), `merchants_file:` without the rules file (shapes keyRules / keyOther with
#     rules absent were generated before), a data source whose statement is missing.
# The frame condition is the same as before and is checked over the whole tree: a read-only command changes nothing outside the output
# location; `init` / `up --migrate` keep every file that existed — bytes and permission bits — and create only tally's documented files.

GITIGNORES = {'unrelated': '# mine 5e1f\n*.pyc\n.venv/\n', 'data-only': 'node_modules/\ndata/\n', 'both-other-spelling': '# kept by hand 77aa\n/data/\noutput\n',
              'negation': 'data/*\n!data/keep.csv\n', 'empty': '', 'no-final-newline': '*.log', 'tallys-own': '# Tally - Ignore sensitive data\ndata/\noutput/\n'}
FOREIGN = [('README.md', '# household budget 31c0\n'), ('notes.txt', 'ask bank about fee 9d2e\n'), ('.env', 'TOKEN=abc-4f4f\n'),
           ('.DS_Store', '\x00\x01Bud1 a8a8'), ('budget-2024.xlsx', 'PK\x03\x04 not really 1b1b'),
           ('config/settings.yaml.bak', 'year: 2019\n# old copy c3c3\n'), ('config/settings.yml', 'year: 1999\n'),
           ('config/merchants.rules.old', '[Old]\nmatch: contains("OLD")\ncategory: Old\nsubcategory: Old\n'),
           ('config/merchants.rules~', '# editor backup e5e5\n'), ('config/views.rules.example', '# example views f6f6\n'),
           ('config/notes.md', 'why these categories 0a0b\n'), ('merchants.rules', '# a rules file one level up 1c1d\n'),
           ('views.rules', '# a views file one level up 2e2f\n'), ('settings.yaml', 'year: 1987\n'),
           ('data/notes.txt', 'downloaded 2025-02-01 3a3b\n'), ('data/archive/bank-2023.csv', 'Date,Description,Amount\n2023-01-05,OLD SHOP,1.00\n'),
           ('data/bank.csv.orig', 'unedited export 4c4d\n'), ('scripts/fetch.sh', '#!/bin/sh\necho fetch 5e5f\n')]
MODES = [None, None, None, 0o600, 0o444, 0o755, 0o640]


RULELESS = ['# my notes 77aa\n# nothing here yet\n', 'field.description = regex_replace(field.description, "\\\\s+", " ")\n# cleaning only 88bb\n',
            'is_big = amount > 100\n# variables only 99cc\n', '', '\n\n', '# 11dd\nfield.memo = trim(field.memo)\nis_q1 = month <= 3\n']


# (d) the byte-level form of every one of these files (fsmon.byteform): CRLF / CR / mixed line endings, no final newline, a UTF-8 BOM,
#     trailing blanks, a blank tail, non-ASCII comments, a very long line — and permission bits other than the default on tally's own
#     kinds of files.  The frame condition is checked on BYTES: identical for every file but settings.yaml, whose old bytes must be a
#     PREFIX of the new ones when `init` / the migration add their key ("may only gain appended lines"), with the permission bits kept.
COMMENTABLE = ('config/settings.yaml', 'config/merchants.rules', 'config/other.rules', 'config/views.rules', 'config/merchant_categories.csv',
               '.gitignore')
OWN_MODES = [0o600, 0o640, 0o664, 0o755, 0o660]
# forms that are kept away from a file because they change what tally READS there (the Lean model fixes the meaning of each shape: a
# settings file that loads, a legacy CSV with / without rules, a statement with three transactions).  None of them is a write.
#   legacy CSV × BOM: merchant_utils.load_merchant_rules opens the file as 'utf-8' (not 'utf-8-sig'), the header cell becomes '\ufeffPattern',
#   every row's row.get('Pattern') is '' and the file silently holds 0 rules; `init` (whose own scan then sees '\ufeffPattern,…' as a rule line)
#   "migrates" even a header-only CSV ("Converted 0 merchant rules", CSV moved to a fresh .bak, empty merchants.rules, settings line
#   appended).  Every existing file is kept, so C20 holds; but the budget no longer has the meaning the shape `headerOnly` / `withRules`
#   has in the model (changed paths differ).  Reported in notes/C20_notes.md (observation O20-bom-csv), not a C20 failure.
BYTEFORM_EXCLUDED = {'config/merchant_categories.csv': ('bom',)}


def gen_byteform(rng, rels, must=None):
    """{rel: [forms]} for some of the files of the case; `must`: a file that certainly gets a form"""
    out = {}
    for rel in rels:
        if rel != must and rng.random() >= (0.7 if rel.endswith('settings.yaml') else 0.3):
            continue
        forms = rng.sample(fsmon.BYTEFORMS, rng.choice([1, 1, 2, 3]))
        forms = [f for f in forms if (rel in COMMENTABLE or f not in fsmon.COMMENT_FORMS) and f not in BYTEFORM_EXCLUDED.get(rel, ())]
        if forms:
            out[rel] = sorted(forms)
    return out


def gen_variation(rng, shape, layout, force_ruleless=False, byteforms=True):
    """case-level variations of the budget (all optional; about half of the cases keep the bare shape)"""
    v = _gen_variation(rng, shape, layout, force_ruleless)
    if byteforms and rng.random() < 0.6:
        rels = sorted(fsmon.shape_files(shape)[0]) + sorted(v.get('extra_files') or {})
        bf = gen_byteform(rng, rels)
        if bf:
            v['byteform'] = bf
        modes = {rel: rng.choice(OWN_MODES) for rel in sorted(fsmon.shape_files(shape)[0]) if rng.random() < 0.25}
        if modes:
            v['modes'] = modes
    return v


def _gen_variation(rng, shape, layout, force_ruleless=False):
    v = {}
    if shape.get('rules') and shape['settings'] != 'keyRules' and (force_ruleless or rng.random() < 0.25):
        v['rules_text'] = rng.choice(RULELESS)        # a merchants.rules of the user's that holds no [rule] block: still the user's file
    if shape['settings'] != 'absent':
        if shape.get('mentionsVF') and rng.random() < 0.6:
            v['vf_key'] = True
        if rng.random() < 0.2:
            v['missing_source'] = True
    if rng.random() < 0.5:
        return v
    extra = {}
    if rng.random() < 0.6:
        kind = rng.choice(sorted(GITIGNORES))
        extra['.gitignore'] = {'text': GITIGNORES[kind], 'mode': rng.choice(MODES), 'kind': kind}
    for rel, txt in rng.sample(FOREIGN, rng.choice([0, 1, 2, 3])):
        if rel.startswith('data/') and not shape.get('dirs'):
            continue
        extra[rel] = {'text': txt, 'mode': rng.choice(MODES)}
    if shape.get('csv') == 'withRules' and shape.get('dirs') and rng.random() < 0.35:
        # generations of backups the user already has: the numbered names earlier migrations left, with gaps, past nine, for both kinds of
        # rule file - each of them is a file of the user's: a migration sets its backup aside under a name that is FREE
        fam = rng.choice([[1], [1, 2, 3], [9, 10], [2, 9, 10, 11], [1, 2, 3, 4, 5, 6, 7, 8, 9, 10], [10], [3, 7]])
        for base in rng.choice([['merchant_categories.csv'], ['merchants.rules'], ['merchant_categories.csv', 'merchants.rules']]):
            for k in fam:
                extra[f'config/{base}.bak.{k}'] = {'text': f'# generation {k} of {base} {rng.randrange(16 ** 4):04x}\n', 'mode': None}
            if rng.random() < 0.6 and not (base == 'merchant_categories.csv' and shape.get('csvBak')):
                extra[f'config/{base}.bak'] = {'text': f'# first backup of {base} {rng.randrange(16 ** 4):04x}\n', 'mode': None}
        v['bak_family'] = True
    if extra:
        v['extra_files'] = extra
    if layout == 'new' and rng.random() < 0.4:
        v['root_files'] = dict([('.gitignore', GITIGNORES[rng.choice(sorted(GITIGNORES))])] * (rng.random() < 0.7) +
                               [(rel, txt) for rel, txt in rng.sample(FOREIGN[:5], rng.choice([0, 1]))])
        if not v['root_files']:
            del v['root_files']
    return v


def model_extra(case):
    """the user's files the Lean model can name: a `.gitignore` in the budget folder"""
    return ['gitignore'] if '.gitignore' in (case.get('extra_files') or {}) else []


def gen_cases(rng, quick):
    shapes = c15.all_shapes()
    core = [s for s in shapes if s['dirs'] and s['settings'] != 'absent']
    n = 160 if quick else 1600
    cases = []
    # targeted first: legacy budgets (migration must not happen unasked), .bak present, both layouts
    targeted = [s for s in core if s['csv'] == 'withRules' and s['settings'] in ('plain', 'commentMF') and not s['views'] and not s['mentionsVF']]
    # … and the same legacy budgets holding an unreferenced merchants.rules without a [rule] block, under an explicit --migrate
    ruleless = [s for s in targeted if s['rules']]
    targeted = targeted + ruleless
    picks = targeted + [rng.choice(core if rng.random() < 0.8 else shapes) for _ in range(n - len(targeted))]
    # append sites × byte-level forms: each place where tally adds a key to settings.yaml (`init`: views_file; `init` / `up --migrate` on
    # a legacy budget: merchants_file) meets a settings.yaml in each byte-level form — its old bytes must be a prefix of the new ones
    no_mention = [s for s in core if not s['mentionsVF'] and s['settings'] in ('plain', 'keyRules', 'keyOther')]
    sites = [([s for s in no_mention if s['csv'] == 'absent'], WRITERS[0]),
             ([s for s in no_mention if s['csv'] == 'withRules' and s['settings'] == 'plain' and not s['rules']], WRITERS[0]),
             ([s for s in no_mention if s['csv'] == 'withRules' and s['settings'] == 'plain' and not s['rules']], WRITERS[1])]
    k = 0
    for form in fsmon.BYTEFORMS:
        for pool, writer in sites:
            s = rng.choice(pool)
            layout = 'new' if k % 2 else 'old'
            k += 1
            seq = [writer, rng.choice(READONLY)]
            data = ('tally/' if layout == 'new' else '') + 'data/bank.csv'
            case = {'kind': 'c20', 'shape': s, 'layout': layout, 'commands': [[(data if a == 'DATA' else a) for a in argv] for argv, _ in seq],
                    'programs': [p for _, p in seq], 'byteform': {'config/settings.yaml': [form]}}
            if rng.random() < 0.5:
                case['byteform'].update(gen_byteform(rng, sorted(set(fsmon.shape_files(s)[0]) - {'config/settings.yaml'})))
            if rng.random() < 0.4:
                case['modes'] = {'config/settings.yaml': rng.choice(OWN_MODES)}
            cases.append(case)
    for i, s in enumerate(picks):
        layout = 'new' if i % 3 == 1 else 'old'
        L = rng.randint(2, 4)
        seq = []
        for j in range(L):
            pool = READONLY if rng.random() < 0.7 else WRITERS
            seq.append(rng.choice(pool))
        if i < len(targeted):
            seq = [rng.choice(READONLY), (['up'], 'up'), WRITERS[i % 2], rng.choice(READONLY)]
        forced = len(targeted) - len(ruleless) <= i < len(targeted)
        if forced:
            seq = [rng.choice(READONLY), WRITERS[1], rng.choice(READONLY)]
        data = ('tally/' if layout == 'new' else '') + 'data/bank.csv'
        cmds = [[(data if a == 'DATA' else a) for a in argv] for argv, _ in seq]
        # how the command is pointed at the budget: found from the working directory (nothing said), or the config directory NAMED on the
        # command line the way people and shells spell a directory - bare, with a trailing separator (tab completion), './', doubled
        # separators, '/.', absolute with and without the trailing separator.  The same directory, so the same files may change.
        cfg = ('tally/' if layout == 'new' else '') + 'config'
        for argv in cmds:
            if argv[0] in ('up', 'discover', 'diag', 'explain') and '--migrate' not in argv and rng.random() < 0.4:
                argv.append(rng.choice([cfg, cfg + '/', './' + cfg, './' + cfg + '/', cfg + '//', cfg + '/.', '{ROOT}/' + cfg, '{ROOT}/' + cfg + '/',
                                        cfg + '/../' + cfg.split('/')[-1] + '/']))
        cases.append(dict({'kind': 'c20', 'shape': s, 'layout': layout, 'commands': cmds, 'programs': [p for _, p in seq]},
                          **gen_variation(rng, s, layout, force_ruleless=forced)))
    return cases


def tree_changes(a, b):
    return sorted(p for p in set(a) | set(b) if a.get(p) != b.get(p))


class OutSet:
    """the output location: `<budget>/output` and everything below it"""

    def __init__(self, prefix):
        self.root = ((prefix + '/') if prefix else '') + 'output'

    def __contains__(self, p):
        return p == self.root or p.startswith(self.root + '/')


def out_paths(prefix):
    return OutSet(prefix)


INIT_CREATES = {'config', 'data', 'output', '.gitignore', 'config/settings.yaml', 'config/merchants.rules', 'config/views.rules'}
BACKUP_NAME = re.compile(r'config/(merchant_categories\.csv|merchants\.rules)\.bak(\.\d+)?')


def documented_creation(p, prefix, prog):
    """what `tally init` (docs: config/ data/ output/, the three starter files, .gitignore — each only if missing; the rule migration's
    merchants.rules and backup) and `tally up --migrate` (merchants.rules, the backup, the report) are documented to create"""
    if prefix and p == prefix:
        return True
    rel = p[len(prefix) + 1:] if (prefix and p.startswith(prefix + '/')) else p
    if rel == 'output' or rel.startswith('output/'):
        return True
    if BACKUP_NAME.fullmatch(rel) or rel == 'config/merchants.rules':
        return True
    return prog == 'init' and rel in INIT_CREATES


def oracle(case, res):
    fails = []
    prefix = res.get('prefix', '')
    OUT = out_paths(prefix)
    for i, (st, prog) in enumerate(zip(res['steps'], case['programs'])):
        where = {'case': case, 'step': i, 'argv': st['argv'], 'changed': st['detail'], 'audit': st['audit'][:12], 'outcome': st['outcome']}
        inside = sorted({p for ev in st['audit'] for p in ev[1:] if not p.startswith('OUTSIDE:')})
        if prog in ('up', 'readOnly'):
            allowed = OUT if prog == 'up' else ()
            bad = [p for p in st['changed'] if p not in allowed]
            badw = [p for p in inside if p not in allowed and p not in (prefix or '.',)]
            if bad:
                fails.append(dict(where, **{'class': 'readonly-command-changed-files', 'observed': f'{" ".join(st["argv"])} changed {bad}'}))
            elif badw:
                fails.append(dict(where, **{'class': 'readonly-command-opened-for-write', 'observed': f'{" ".join(st["argv"])} opened/renamed/removed {badw}'}))
        else:
            for p, d in st['detail'].items():
                if prog == 'upMigrateHtml' and p in OUT:
                    continue
                if d['before'] in ('absent',):             # created: only what was missing, and only tally's documented files
                    if not documented_creation(p, prefix, prog):
                        fails.append(dict(where, **{'class': 'created-undocumented-path', 'path': p,
                                                    'observed': f'{" ".join(st["argv"])} created {p}, which is none of the files it is documented to create'}))
                    continue
                kept_in_place = d['before'] == d['after'] or (p.endswith('settings.yaml') and d['appended'] and d['after'] not in ('absent', 'dir'))
                if 'mode' in d and kept_in_place:         # same bytes, or settings.yaml with lines appended: still the user's file
                    fails.append(dict(where, **{'class': 'existing-file-mode-changed', 'path': p,
                                                'observed': f'{" ".join(st["argv"])}: permission bits of {p} {d["mode"][0]} -> {d["mode"][1]}'}))
                    continue
                if d['before'] == 'dir':
                    if d['after'] != 'dir':
                        fails.append(dict(where, **{'class': 'directory-removed', 'observed': f'{p} removed'}))
                    continue
                if p.endswith('settings.yaml') and d['appended']:
                    continue
                if d['after'] == 'absent' and (d['moved_to'] or d['kept_elsewhere']):
                    continue                               # moved; whether the target was free is judged at the target
                if d['after'] not in ('absent', 'dir') and d['moved_to'] and prog != 'init':
                    continue                               # `up --migrate` (the explicit request): replaced, the old content went to a free name
                # `tally init` keeps each existing file IN PLACE: a file of the user's that is replaced - even with its old content set aside
                # under another name - is not kept (only the legacy CSV may leave its place, as the migration's backup)
                why = ('lines were appended, which only settings.yaml may gain' if d['appended'] and d['after'] not in ('absent', 'dir')
                       else 'not an append; old content not moved to a free name')
                fd = d.get('first_diff')
                if fd:
                    why += (f'; the old {fd["old_len"]} bytes are not a prefix of the new {fd["new_len"]}: first difference at byte {fd["offset"]}, '
                            f'old …{fd["old"]}… new …{fd["new"]}…')
                fails.append(dict(where, **{'class': 'existing-file-not-kept', 'path': p,
                                            'observed': f'{" ".join(st["argv"])}: {p} {d["before"]} -> {d["after"]} ({why})'}))
    return fails


def classify(f):
    s = (f.get('case') or {}).get('shape') or {}
    if f['class'] == 'existing-file-not-kept' and str(f.get('path', '')).endswith('merchant_categories.csv.bak') and s.get('csvBak'):
        return 'D15c'
    if f['class'] == 'existing-file-not-kept' and str(f.get('path', '')).endswith('merchants.rules') and s.get('rules') \
            and f.get('argv') == ['up', '--migrate']:
        return 'D15c'
    return None


def run_all(cases):
    model = common.Driver().batch([{'op': 'fsseq', 'variant': 'auto', 'shape': c['shape'], 'layout': c['layout'], 'programs': c['programs'],
                                    'extra': model_extra(c)} for c in cases])
    with fsmon.Pool(16) as pool:
        real = pool.map(cases)
    return model, real


def run(ctx):
    lo = common.lean_phase(ctx, 'TallyVerif.Props.C20', regen_fn=regen.regen_fs_steps)
    if ctx.replay:
        rp = json.loads(common.read(ctx.replay))
        ce = rp.get('counterexample') or {}
        if 'case' not in ce:
            print(f'[{ctx.prop}] replay file carries no counterexample (broken-obligation replay): re-running the full check')
            ctx.replay = None
            return run(ctx)
        with fsmon.Pool(1) as pool:
            r = pool.map([ce['case']])[0]
        fails = oracle(ce['case'], r)
        print(f'[{ctx.prop}] replay: {"still fails" if fails else "passes now"}')
        common.conclude(ctx, fails, classify=classify, required=REQUIRED)
        return ctx.finish(extra_trusted=TRUSTED)

    corr_fail, prop_fail = [], []
    stats = {'commands': 0, 'by_cmd': {}, 'outside_writes': {}, 'steps_with_changes': 0, 'exit': {}}
    nontriv = 0
    cases = gen_cases(ctx.rng, ctx.quick)
    try:
        model, real = run_all(cases)
        for c, m, r in zip(cases, model, real):
            if 'harness_error' in r or 'err' in m:
                corr_fail.append({'case': c, 'disagreement': str(r.get('harness_error') or m.get('err')), 'tb': str(r.get('traceback'))[-500:]})
                continue
            prev = m['tree0']
            for i, (st, mt) in enumerate(zip(r['steps'], m['trees'])):
                stats['commands'] += 1
                key = ' '.join(a for a in st['argv'] if '/' not in a)
                stats['by_cmd'][key] = stats['by_cmd'].get(key, 0) + 1
                stats['exit'][st['outcome']] = stats['exit'].get(st['outcome'], 0) + 1
                for ev in st['audit']:
                    for p in ev[1:]:
                        if p.startswith('OUTSIDE:'):
                            stats['outside_writes'][p] = stats['outside_writes'].get(p, 0) + 1
                OUT = out_paths(r.get('prefix', ''))
                mc = [p for p in tree_changes(prev, mt) if p not in OUT]
                rc = [p for p in st['changed'] if p not in OUT]
                if c.get('bak_family'):
                    # the model does not know the user's numbered backups: which FREE number a new backup takes is compared up to the number
                    # (that no existing generation is touched is the oracle's business, on the real tree)
                    mc = sorted({re.sub(r'\.bak(\.\d+)?$', '.bak*', p) for p in mc})
                    rc = sorted({re.sub(r'\.bak(\.\d+)?$', '.bak*', p) for p in rc})
                report_m = any(p in OUT for p in tree_changes(prev, mt)) or (c['programs'][i] in ('up', 'upMigrateHtml') and
                                                                             any(p.endswith('spending_summary.html') for p in mt))
                report_r = any(p in OUT for p in st['changed'])
                if mc != rc or (report_r and not report_m):
                    corr_fail.append({'case': c, 'step': i, 'argv': st['argv'], 'model_changed': mc, 'real_changed': rc, 'report_written': [report_r, report_m],
                                      'outcome': st['outcome'], 'stdout': st['stdout_head']})
                if st['changed']:
                    stats['steps_with_changes'] += 1
                prev = mt
            if any(st['changed'] for st in r['steps']) and c['shape']['csv'] != 'absent':
                nontriv += 1
            prop_fail.extend(oracle(c, r))
        ctx.sample({'case': cases[0], 'steps': [{k: s[k] for k in ('argv', 'changed', 'outcome')} for s in real[0].get('steps', [])]})
    except Exception as e:                                               # noqa
        corr_fail.append({'driver_or_pool_error': repr(e)[:600]})
    ctx.obligation('correspondence:changed-paths-of-real-commands-vs-Fs.complete', 'correspondence', not corr_fail,
                   cases=len(cases), error=json.dumps(corr_fail[0], default=str)[:1800] if corr_fail else None)
    if corr_fail:
        ctx.notes['correspondence_failures'] = len(corr_fail)
        ctx.notes['correspondence_examples'] = corr_fail[:4]
    ctx.notes['stats'] = stats
    # what the budget folders held beyond the bare shape, and how many commands ran on such folders
    var = {'cases': len(cases), 'bare_shape': 0, 'users_gitignore': {}, 'users_gitignore_without_data_and_output_entries': 0,
           'foreign_files': 0, 'cases_with_foreign_files': 0, 'files_with_unusual_mode': 0, 'files_beside_the_budget_folder': 0,
           'views_file_key': 0, 'views_file_key_dangling': 0, 'merchants_file_key_dangling': 0, 'missing_statement_source': 0,
           'commands_on_dangling_views_file': {}, 'init_with_users_gitignore': 0, 'largest_tree': 0,
           'cases_with_a_byte_level_form': 0, 'files_by_byte_level_form': {}, 'byte_level_form_by_file': {}, 'files_of_tallys_kinds_with_unusual_mode': 0,
           'settings_appended_to': 0, 'settings_appended_to_by_byte_level_form': {}, 'settings_appended_to_with_unusual_mode': 0}
    try:
        for c, r in zip(cases, real):
            ex = c.get('extra_files') or {}
            if not (ex or c.get('root_files') or c.get('vf_key') or c.get('missing_source')):
                var['bare_shape'] += 1
            gi = ex.get('.gitignore')
            if gi:
                var['users_gitignore'][gi['kind']] = var['users_gitignore'].get(gi['kind'], 0) + 1
                var['users_gitignore_without_data_and_output_entries'] += gi['kind'] not in ('tallys-own', 'both-other-spelling')
                var['init_with_users_gitignore'] += sum(1 for p in c['programs'] if p == 'init')
            nf = sum(1 for k in ex if k != '.gitignore')
            var['foreign_files'] += nf
            var['cases_with_foreign_files'] += bool(nf)
            var['files_with_unusual_mode'] += sum(1 for v in ex.values() if v.get('mode') is not None)
            var['files_beside_the_budget_folder'] += len(c.get('root_files') or {})
            var['views_file_key'] += bool(c.get('vf_key'))
            dangling = bool(c.get('vf_key')) and not c['shape']['views']
            var['views_file_key_dangling'] += dangling
            var['merchants_file_key_dangling'] += c['shape']['settings'] == 'keyRules' and not c['shape']['rules']
            var['missing_statement_source'] += bool(c.get('missing_source'))
            if dangling and r.get('steps'):
                key = ' '.join(a for a in r['steps'][0]['argv'] if '/' not in a)       # the first command meets the dangling reference
                var['commands_on_dangling_views_file'][key] = var['commands_on_dangling_views_file'].get(key, 0) + 1
            bf = c.get('byteform') or {}
            var['cases_with_a_byte_level_form'] += bool(bf)
            for rel, forms in bf.items():
                var['byte_level_form_by_file'][rel] = var['byte_level_form_by_file'].get(rel, 0) + 1
                for f in forms:
                    var['files_by_byte_level_form'][f] = var['files_by_byte_level_form'].get(f, 0) + 1
            var['files_of_tallys_kinds_with_unusual_mode'] += len(c.get('modes') or {})
            sp = (r.get('prefix') + '/' if r.get('prefix') else '') + 'config/settings.yaml'
            for st in r.get('steps', []):
                if (st['detail'].get(sp) or {}).get('appended'):
                    var['settings_appended_to'] += 1
                    var['settings_appended_to_with_unusual_mode'] += 'config/settings.yaml' in (c.get('modes') or {})
                    for f in bf.get('config/settings.yaml') or ['plain-lf']:
                        var['settings_appended_to_by_byte_level_form'][f] = var['settings_appended_to_by_byte_level_form'].get(f, 0) + 1
            var['largest_tree'] = max([var['largest_tree']] + [st.get('tree_size', 0) for st in r.get('steps', [])])
    except Exception as e:                                               # noqa
        var['error'] = repr(e)[:200]
    ctx.notes['budget_variations'] = var
    ctx.cov.update(evaluations=stats['commands'], distinct_nontrivial=nontriv, traces_validated_against_impl=stats['commands'],
                   rule='one case = a budget (480 shapes × old/new layout) and a sequence of 2–4 commands run non-interactively by the real '
                        'CLI under the audit hook, every file AND directory of the whole working directory hashed (+ permission bits) before/after '
                        'each command; legacy budgets with rules get the fixed sequence read-only, up, init|up --migrate, read-only. About half of '
                        'the budgets hold more than the bare shape: a .gitignore of the user\'s own (7 kinds: unrelated entries, data/ only, both '
                        'entries spelled otherwise, a negation, empty, no final newline, tally\'s own), README / notes / dotfiles / files named like '
                        'tally\'s (settings.yaml.bak, settings.yml, merchants.rules.old, merchants.rules~, views.rules.example, rule/view/settings '
                        'files one level up, data/archive/…, data/bank.csv.orig) with modes 600/444/755/640, files beside tally/ (new layout); and '
                        'settings that point at what is not there: views_file as a real key with views.rules absent, merchants_file with the rules '
                        'file absent, a second data source without its statement (counts: notes.budget_variations). Frame condition: read-only '
                        'commands change nothing (bytes, modes, new paths) outside output/; init / up --migrate keep every existing file and '
                        'create only the documented ones. Byte-level forms: in ~60 % of the cases some of the files (settings.yaml mostly, also '
                        'rules / legacy CSV / backup / views / statement / old report / the user\'s extra files) are written with CRLF, CR or mixed '
                        'line endings, without final newline, with a UTF-8 BOM, trailing blanks, a blank tail, a non-ASCII comment or a 9 kB line, and '
                        'tally\'s own kinds of files get modes 600/640/660/664/755; plus 27 targeted cases = each of the 9 forms of settings.yaml × each '
                        'place that appends a key to it (init: views_file; init / up --migrate on a legacy budget: merchants_file). The frame is '
                        'judged on bytes: identical, or — settings.yaml only — old bytes a prefix of the new ones, same permission bits (counts: '
                        'notes.budget_variations.*byte_level_form*, settings_appended_to*). non-trivial = a legacy-CSV budget on which some command changed the tree')

    def search():
        import random
        cs = gen_cases(random.Random(ctx.seed + 11), False)
        with fsmon.Pool(16) as pool:
            rs = pool.map(cs)
        out = []
        for c, r in zip(cs, rs):
            if 'harness_error' not in r:
                out.extend(oracle(c, r))
        return out

    prop_fail.sort(key=lambda f: (f['class'], len(f['case']['commands']), f['step']))
    common.conclude(ctx, prop_fail, classify=classify, search=search, required=REQUIRED)
    return ctx.finish(extra_trusted=TRUSTED)


TRUSTED = [
    'PARTIAL: argparse / terminal glue and OS-level durability (fsync, power-loss reordering, torn writes below one write()) are not modelled',
    'sys.addaudithook reports every open-for-write / rename / remove / mkdir / shutil.* made through the Python runtime (C extensions '
    'writing behind its back would be missed; tally has none)',
    'harness/fsmon.py (fork server, audit hook, snapshots) and harness/translate/fs_steps.py',
]
