"""C20 — commands never alter or overwrite the user's statements, rules or settings.

Proof side: lean/TallyVerif/Props/C20.lean (`readonly_frame`/`up_frame` for arbitrary file systems,
`migration_only_on_request`, `init_frame`, `init_creates_only_missing`, D15c via init).
Tie (this file): generated budgets (old `./config` and new `./tally/config` layout; every settings kind;
legacy CSV absent / header-only / with rules; merchants.rules, .bak, views.rules, data/output present or
not) × command sequences (up, up -q, up --format summary|json, explain, discover, diag, inspect, init,
up --migrate), each command run by the real `tally.cli.main()` in a forked child of a `/venv/bin/python`
server with stdin closed, under `sys.addaudithook`; content of every file before/after.
  correspondence   changed paths of the real run == changed paths of the model (`tvdrv` op `fsseq`)
  oracle           (implementation only) read-only commands change and open-for-write nothing outside the
                   output location; `init` / `up --migrate` keep every existing file (settings may only be
                   appended to; the CSV may only move to a backup name that was free).
PARTIAL: argparse/terminal glue and OS durability are not modelled; writes outside the budget directory
(none observed) are reported in the evidence but are not "the user's statements, rules or settings".
"""
import json

from .. import common, fsmon, regen
from . import c15

READONLY = [(['up'], 'up'), (['up', '-q'], 'up'), (['up', '--format', 'summary'], 'readOnly'), (['up', '--format', 'json'], 'readOnly'),
            (['explain'], 'readOnly'), (['explain', 'NETFLIX'], 'readOnly'), (['discover'], 'readOnly'), (['diag'], 'readOnly'),
            (['inspect', 'DATA'], 'readOnly'), (['up', '--format', 'markdown'], 'readOnly'), (['discover', '--format', 'json'], 'readOnly')]
WRITERS = [(['init'], 'init'), (['up', '--migrate'], 'upMigrateHtml')]
REQUIRED = ('up/explain/discover/diag/inspect write nothing except the report files in the output location and leave every other file '
            'byte-identical; init keeps every existing file (settings.yaml may only gain appended lines) and creates only what is missing; '
            'rule migration happens only on request and keeps the original rules as a backup')


def gen_cases(rng, quick):
    shapes = c15.all_shapes()
    core = [s for s in shapes if s['dirs'] and s['settings'] != 'absent']
    n = 160 if quick else 1600
    cases = []
    # targeted first: legacy budgets (migration must not happen unasked), .bak present, both layouts
    targeted = [s for s in core if s['csv'] == 'withRules' and s['settings'] in ('plain', 'commentMF') and not s['views'] and not s['mentionsVF']]
    picks = targeted + [rng.choice(core if rng.random() < 0.8 else shapes) for _ in range(n - len(targeted))]
    for i, s in enumerate(picks):
        layout = 'new' if i % 3 == 1 else 'old'
        L = rng.randint(2, 4)
        seq = []
        for j in range(L):
            pool = READONLY if rng.random() < 0.7 else WRITERS
            seq.append(rng.choice(pool))
        if i < len(targeted):
            seq = [rng.choice(READONLY), (['up'], 'up'), WRITERS[i % 2], rng.choice(READONLY)]
        data = ('tally/' if layout == 'new' else '') + 'data/bank.csv'
        cmds = [[(data if a == 'DATA' else a) for a in argv] for argv, _ in seq]
        cases.append({'kind': 'c20', 'shape': s, 'layout': layout, 'commands': cmds, 'programs': [p for _, p in seq]})
    return cases


def tree_changes(a, b):
    return sorted(p for p in set(a) | set(b) if a.get(p) != b.get(p))


class OutSet:
    """the output location: `<budget>/output` and everything below it"""

    def __init__(self, prefix):
        self.root = ((prefix + '/') if prefix else '') + 'output'

    def __contains__(self, p):
        return p == self.root or p.startswith(self.root + '/')


def out_paths(prefix):
    return OutSet(prefix)


def oracle(case, res):
    fails = []
    prefix = res.get('prefix', '')
    OUT = out_paths(prefix)
    for i, (st, prog) in enumerate(zip(res['steps'], case['programs'])):
        where = {'case': case, 'step': i, 'argv': st['argv'], 'changed': st['detail'], 'audit': st['audit'][:12], 'outcome': st['outcome']}
        inside = sorted({p for ev in st['audit'] for p in ev[1:] if not p.startswith('OUTSIDE:')})
        if prog in ('up', 'readOnly'):
            allowed = OUT if prog == 'up' else ()
            bad = [p for p in st['changed'] if p not in allowed]
            badw = [p for p in inside if p not in allowed and p not in (prefix or '.',)]
            if bad:
                fails.append(dict(where, **{'class': 'readonly-command-changed-files', 'observed': f'{" ".join(st["argv"])} changed {bad}'}))
            elif badw:
                fails.append(dict(where, **{'class': 'readonly-command-opened-for-write', 'observed': f'{" ".join(st["argv"])} opened/renamed/removed {badw}'}))
        else:
            for p, d in st['detail'].items():
                if d['before'] in ('absent',) or (prog == 'upMigrateHtml' and p in OUT):
                    continue                               # created: allowed (only what was missing)
                if d['before'] == 'dir':
                    if d['after'] != 'dir':
                        fails.append(dict(where, **{'class': 'directory-removed', 'observed': f'{p} removed'}))
                    continue
                if p.endswith('settings.yaml') and d['appended']:
                    continue
                if d['after'] == 'absent' and (d['moved_to'] or d['kept_elsewhere']):
                    continue                               # moved; whether the target was free is judged at the target
                if d['after'] not in ('absent', 'dir') and d['moved_to']:
                    continue                               # replaced, but the old content went to a name that was free
                fails.append(dict(where, **{'class': 'existing-file-not-kept', 'path': p,
                                            'observed': f'{" ".join(st["argv"])}: {p} {d["before"]} -> {d["after"]} (not an append; old content not moved to a free name)'}))
    return fails


def classify(f):
    s = (f.get('case') or {}).get('shape') or {}
    if f['class'] == 'existing-file-not-kept' and str(f.get('path', '')).endswith('merchant_categories.csv.bak') and s.get('csvBak'):
        return 'D15c'
    if f['class'] == 'existing-file-not-kept' and str(f.get('path', '')).endswith('merchants.rules') and s.get('rules') \
            and f.get('argv') == ['up', '--migrate']:
        return 'D15c'
    return None


def run_all(cases):
    model = common.Driver().batch([{'op': 'fsseq', 'variant': 'auto', 'shape': c['shape'], 'layout': c['layout'], 'programs': c['programs']}
                                   for c in cases])
    with fsmon.Pool(16) as pool:
        real = pool.map(cases)
    return model, real


def run(ctx):
    lo = common.lean_phase(ctx, 'TallyVerif.Props.C20', regen_fn=regen.regen_fs_steps)
    if ctx.replay:
        rp = json.loads(common.read(ctx.replay))
        ce = rp.get('counterexample') or {}
        if 'case' not in ce:
            print(f'[{ctx.prop}] replay file carries no counterexample (broken-obligation replay): re-running the full check')
            ctx.replay = None
            return run(ctx)
        with fsmon.Pool(1) as pool:
            r = pool.map([ce['case']])[0]
        fails = oracle(ce['case'], r)
        print(f'[{ctx.prop}] replay: {"still fails" if fails else "passes now"}')
        common.conclude(ctx, fails, classify=classify, required=REQUIRED)
        return ctx.finish(extra_trusted=TRUSTED)

    corr_fail, prop_fail = [], []
    stats = {'commands': 0, 'by_cmd': {}, 'outside_writes': {}, 'steps_with_changes': 0, 'exit': {}}
    nontriv = 0
    cases = gen_cases(ctx.rng, ctx.quick)
    try:
        model, real = run_all(cases)
        for c, m, r in zip(cases, model, real):
            if 'harness_error' in r or 'err' in m:
                corr_fail.append({'case': c, 'disagreement': str(r.get('harness_error') or m.get('err')), 'tb': str(r.get('traceback'))[-500:]})
                continue
            prev = m['tree0']
            for i, (st, mt) in enumerate(zip(r['steps'], m['trees'])):
                stats['commands'] += 1
                key = ' '.join(a for a in st['argv'] if '/' not in a)
                stats['by_cmd'][key] = stats['by_cmd'].get(key, 0) + 1
                stats['exit'][st['outcome']] = stats['exit'].get(st['outcome'], 0) + 1
                for ev in st['audit']:
                    for p in ev[1:]:
                        if p.startswith('OUTSIDE:'):
                            stats['outside_writes'][p] = stats['outside_writes'].get(p, 0) + 1
                OUT = out_paths(r.get('prefix', ''))
                mc = [p for p in tree_changes(prev, mt) if p not in OUT]
                rc = [p for p in st['changed'] if p not in OUT]
                report_m = any(p in OUT for p in tree_changes(prev, mt)) or (c['programs'][i] in ('up', 'upMigrateHtml') and
                                                                             any(p.endswith('spending_summary.html') for p in mt))
                report_r = any(p in OUT for p in st['changed'])
                if mc != rc or (report_r and not report_m):
                    corr_fail.append({'case': c, 'step': i, 'argv': st['argv'], 'model_changed': mc, 'real_changed': rc, 'report_written': [report_r, report_m],
                                      'outcome': st['outcome'], 'stdout': st['stdout_head']})
                if st['changed']:
                    stats['steps_with_changes'] += 1
                prev = mt
            if any(st['changed'] for st in r['steps']) and c['shape']['csv'] != 'absent':
                nontriv += 1
            prop_fail.extend(oracle(c, r))
        ctx.sample({'case': cases[0], 'steps': [{k: s[k] for k in ('argv', 'changed', 'outcome')} for s in real[0].get('steps', [])]})
    except Exception as e:                                               # noqa
        corr_fail.append({'driver_or_pool_error': repr(e)[:600]})
    ctx.obligation('correspondence:changed-paths-of-real-commands-vs-Fs.complete', 'correspondence', not corr_fail,
                   cases=len(cases), error=json.dumps(corr_fail[0], default=str)[:1800] if corr_fail else None)
    if corr_fail:
        ctx.notes['correspondence_failures'] = len(corr_fail)
        ctx.notes['correspondence_examples'] = corr_fail[:4]
    ctx.notes['stats'] = stats
    ctx.cov.update(evaluations=stats['commands'], distinct_nontrivial=nontriv, traces_validated_against_impl=stats['commands'],
                   rule='one case = a budget (480 shapes × old/new layout) and a sequence of 2–4 commands run non-interactively by the real '
                        'CLI under the audit hook, every file hashed before/after each command; legacy budgets with rules get the fixed '
                        'sequence read-only, up, init|up --migrate, read-only; non-trivial = a legacy-CSV budget on which some command '
                        'changed the tree')

    def search():
        import random
        cs = gen_cases(random.Random(ctx.seed + 11), False)
        with fsmon.Pool(16) as pool:
            rs = pool.map(cs)
        out = []
        for c, r in zip(cs, rs):
            if 'harness_error' not in r:
                out.extend(oracle(c, r))
        return out

    prop_fail.sort(key=lambda f: (f['class'], len(f['case']['commands']), f['step']))
    common.conclude(ctx, prop_fail, classify=classify, search=search, required=REQUIRED)
    return ctx.finish(extra_trusted=TRUSTED)


TRUSTED = [
    'PARTIAL: argparse / terminal glue and OS-level durability (fsync, power-loss reordering, torn writes below one write()) are not modelled',
    'sys.addaudithook reports every open-for-write / rename / remove / mkdir / shutil.* made through the Python runtime (C extensions '
    'writing behind its back would be missed; tally has none)',
    'harness/fsmon.py (fork server, audit hook, snapshots) and harness/translate/fs_steps.py',
]
