#!/bin/bash
# re-run the owning check (quick tier) against every kept seeded change; prints one line per change
cd "$(dirname "$0")/.."
for d in seeded/*/; do
  id=$(basename "$d"); p=${id%-*}; v=${id#*-}
  if grep -q obsolete_since "$d/meta.json" 2>/dev/null; then echo "$id obsolete (see meta.json)"; continue; fi
  extra=""
  case "$id" in C15-A|C15-B) extra="C15 C20";; C10-B) extra="C10 C16";; C01-A|C02-B|C08-B) extra="$p C07";; C17-A) extra="C17 C07";; esac
  /venv/bin/python -m harness.seeded recheck $p $v $extra 2>&1 | /venv/bin/python -c "
import sys,json
try:
    d=json.load(sys.stdin)
    print('$id', 'caught_by=',d['caught_by'],'concrete=',d['concrete'])
except Exception as e:
    print('$id ERR',e)"
done
