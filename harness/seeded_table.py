"""Markdown table of the seeded regressions and which checks catch them (from seeded/*/meta.json)."""
import json
import os
import sys

VERIF = os.path.dirname(os.path.dirname(os.path.abspath(__file__)))


def main():
    rows = []
    for d in sorted(os.listdir(os.path.join(VERIF, 'seeded'))):
        p = os.path.join(VERIF, 'seeded', d, 'meta.json')
        if not os.path.exists(p):
            continue
        m = json.load(open(p))
        summ = ' '.join(m.get('summary', '').split())
        if len(summ) > 230:
            summ = summ[:227] + '…'
        runs = m.get('checks', {}).get('runs', {})
        cells = []
        if m.get('obsolete_since'):
            runs = {}
            cells.append('obsolete since /repo %s: %s' % (m['obsolete_since'], m.get('obsolete_note', '')[:200]))
        for k, v in runs.items():
            vio = [l for l in v['lines'] if l.startswith('VIOLATION')]
            if not vio:
                cells.append(f'{k.split(":")[0]}: quiet')
                continue
            concrete = [l for l in vio if 'no-failing-input-found' not in l]
            if concrete:
                classes = set()
                for l in concrete:
                    if 'replay=replays/' not in l:
                        continue
                    stem = l.split('replay=replays/')[1].split('.json')[0]          # Cxx-<class>-<hash> or Cxx-<hash>
                    parts = stem.split('-')
                    classes.add('-'.join(parts[1:-1]) if len(parts) > 2 else 'violation')
                classes = sorted(classes)
                cells.append(f'{k.split(":")[0]}: **caught**, replay class {", ".join("`%s`" % c for c in classes[:3])}')
            else:
                cells.append(f'{k.split(":")[0]}: caught, no-failing-input-found')
        first = m.get('first_result')
        rows.append((d, summ.replace('|', '\\|'), '; '.join(cells).replace('|', '\\|'), first or ''))
    print('| seed | what the change does | result of `./check` (quick tier) with the change applied | before strengthening |')
    print('|---|---|---|---|')
    for r in rows:
        print('| %s | %s | %s | %s |' % r)


if __name__ == '__main__':
    main()
