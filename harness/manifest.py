"""Writes /verif/MANIFEST.json from the table below (run: /venv/bin/python -m harness.manifest)."""
import json
import os

VERIF = os.path.dirname(os.path.dirname(os.path.abspath(__file__)))
ALL = [f'C{i:02d}' for i in range(1, 21)]

# property -> (technique, level text, level_note, design_ref)
CLAIMED = {
    'C13': ("Lean 4 theorems over two models regenerated from source (py→Lean, js→Lean translators) + grid validation against Python and node",
            "Proof: for every number system (NumLike: only >, abs, +, − are used, so IEEE doubles with NaN/−0 are covered), every "
            "lower-casing function and every tag list, the JS block's categorizeAmount / isExcludedFromSpending / calculateCashFlow / is* equal "
            "classification.py's. Both models are regenerated from /repo on every run, so the theorems are re-checked against what the code says now.",
            "Trusted: Lean kernel (axioms propext only here); the two translators (validated each run: generated Lean defs vs Python vs node on a "
            "grid of ≈1.8k cases); str.lower ≡ toLowerCase as one abstract function (sampled on non-ASCII); key renaming transferIn↔transfer_in. "
            "The browser itself is out of scope.",
            "DESIGN.md §5 C13, §2.4"),
    'C06': ("Lean 4 theorems (exact amounts) over a hand model of analyze_transactions' loop on top of the regenerated categorize_amount/normalize_amount + bit-for-bit correspondence",
            "Proof: one_bucket (exactly one of six buckets gets |amount|, chosen by income>investment>transfer on lower-cased tags, then sign), "
            "six_buckets_sum, cash_flow_def, transfers_net_def, groupings_conserve (Σ per-merchant = Σ per-category = Σ per-month = Σ normalised amounts; counts = n), "
            "analyze_perm (every figure invariant under any permutation), analyze_append (partition across sources) — for lists of any length.",
            "Trusted: Lean kernel; py→Lean translator; hand model Totals.analyze tied to analyze_transactions by bit-for-bit differential runs; amounts are exact "
            "integers in the theorems (float rounding and Python 3.12's compensated sum() are outside the model; the implementation-side oracle uses dyadic amounts).",
            "DESIGN.md §5 C06"),
    'C01': ("Lean 4 theorems over the rule-list algorithm for an arbitrary per-rule evaluation + differential correspondence of MerchantEngine.match / normalize_merchant / legacy loop",
            "Proof: first_match_spec (result = find? of the first matching categorising rule), nonmatching_irrelevant (deleting non-matching rules changes nothing, whole result, both modes), "
            "later_rules_irrelevant, normalize_spec / unknown_fallback, transforms_sequential / raw_saved_once, and the same four statements for the legacy CSV tuple loop — for rule lists of any length and "
            "EVERY per-rule evaluation function (so for every expression language, variables, lets, regex engine).",
            "Trusted: Lean kernel; the hand model Rules.matchEngine / Rules.legacy tied to the code by differential runs in which the per-rule evaluation comes from the implementation's own primitives "
            "(the evaluator itself is modelled under C04/C08); CPython re/ast. Genuine defect D1 (legacy patterns shaped like expressions never matched) was repaired by a fix: commit.",
            "DESIGN.md §5 C01"),
    'C02': ("Lean 4 theorems over the rule-list algorithm (tags as union; tag-only neutrality) + differential correspondence + metamorphic oracle",
            "Proof: tags_iff (a tag is reported iff some matching rule resolves to it; both modes), tags_nodup, tags_mode_indep, tags_perm, tagonly_neutral_first, tagonly_neutral_specific, "
            "legacy_tags_spec/iff, legacy_tagonly_neutral — any rule list, any per-rule evaluation. tagonly_changes_merchant_unfixed is the kernel-checked counterexample for the code before the D2 repair.",
            "Trusted: as C01. How a single tag text resolves ({expr} evaluation, strip, lower) is part of the per-rule evaluation, tied by the independent spec_resolve_tags oracle. "
            "Overlap with C09 (tag-only rule that sets a subcategory) is not claimed either way (DESIGN.md §5 C02).",
            "DESIGN.md §5 C02"),
    'C09': ("Lean 4 theorems about Python's max-by-key over the lexicographic specificity key + regenerated key tables + differential correspondence",
            "Proof: winner_spec, winner_maximal, ties_to_earliest (first maximal element), unmatched_iff, perm_invariant / subcategory_perm_invariant (order-independent when keys differ), "
            "subcategory_maximal, lex_order, key_order_as_stated (over the regenerated Gen.Specificity), tags_unchanged — any rule list, any key function, any per-rule evaluation.",
            "Trusted: as C01; the key tables and tuple order are regenerated from calculate_specificity each run; the text scanner computing the key (str.count, substring test, quoted-string regexes; ASCII lower-casing) "
            "is a hand model compared with calculate_specificity on every generated rule.",
            "DESIGN.md §5 C09"),
    'C05': ("Lean 4 theorems over a model of parse_amount / parse_generic_csv, CPython's csv tokeniser AND CPython's _strptime (date parsing is inside the model; only float() and the character tables remain parameters) + parse_amount's constants regenerated from source + differential correspondence on generated tables",
            "Proof: parseFile_filterMap (one transaction per accepted row, in order; + parseFile_fatal), parseFile_append, bad_row_neutral, order_preserved, one_per_row, accept_iff "
            "(enough columns ∧ date matches ∧ description ≠ '' ∧ amount parses, finite, ≠ 0), sign_modes, fidelity*, template_filled, amount_roundtrip_us/eu (every integer number of cents × every "
            "rendering style parses back exactly), for every table, config and oracle.  Dates (no date oracle left): strptime_match_is_first (the matcher = regex ordered-choice "
            "backtracking), strptime_strftimeWith / strptime_strftime (round trip for every FmtOk format, valid date and accepted spelling), strftime_injective, strptime_ok_valid, strptime_ok_in_language, "
            "bad_date_row_neutral, row_carries_written_date (a row whose date cell is the date written under the row's own format becomes the transaction carrying exactly that date), date_cell_token_cut/whole.  "
            "amount_tables_are_the_model: parse_amount over the constants REGENERATED from parsers.py (parenthesis pair, currency class, separators) is Csv.cleanAmount.",
            "Trusted: Lean kernel; csv.reader / regex tokenisation and header skipping are taken from the implementation (rows after tokenisation feed the model; checked by the row-wise oracle only); "
            "float(), CPython's character tables (\\d / IGNORECASE / str.lower, shipped per case for non-ASCII characters), str.format beyond {name}; classification is out of scope here (rules=[]). The strptime model is tied by "
            "print-back equality of every directive's regex with the installed _strptime, dense (format, text) pairs incl. the unconverted remainder (pins the backtracking order) and the tokens parse_generic_csv actually handed to strptime; "
            "directives %c %x %X %U %W %G %V %z %Z are an explicit `unsupported` outcome (skipped and counted). Genuine defects D5 (nan/inf cells accepted) and D5c (date cell cut at the first white space under a tab / NBSP separated format) repaired by fix: commits; "
            "d5_unrepaired_accepts_nan is the kernel-checked counterexample on the unrepaired model.",
            "DESIGN.md §5 C05, notes/C05_notes.md"),
    'C12': ("Lean 4 theorems about JSON string encoding, script-data embedding, merchant ids, placeholder substitution, category sums and the per-category typeTotals (report.py's own copy of the classification, REGENERATED from source and proved equal to the regenerated categorize_amount) + render-all-formats oracle and ten correspondence streams",
            "Proof: json_string_roundtrip (every string survives dumps→loads), encode_ascii_only, embed_safe (no text can end the data <script>), embed_decodes, replace_verbatim / placeholder_order, "
            "category_view_sums, merchant_id_injective_partial; kernel-checked counterexamples for the code before each repair (embed_unsafe_unrepaired, merchant_id_not_injective, "
            "placeholder_order_unrepaired_rescans, category_view_loses_merchant, json_summary_disagrees). 'Renders without error' and 'all formats report the same figures' are decided by the "
            "implementation oracle over generated analyses × 4 formats × verbosity, HTML parsed back with html.parser + json.",
            "PARTIAL: the round-trip theorem covers strings, not whole JSON documents; figure agreement across text/markdown/HTML and uniqueness of the repaired id scheme are oracle-checked, not proved; "
            "browsers/Vue are out of scope; lone surrogates are exercised on the implementation only. Defects D12a–f repaired by fix: commits. A further observation (view ids colliding for "
            "'[My View]'/'[my_view]') is recorded in DESIGN.md, outside the generator.",
            "DESIGN.md §5 C12, notes/C12_notes.md"),
    'C17': ("Lean 4 theorems over line-by-line models of MerchantEngine.parse/_add_rule and section_engine.parse_sections (expression validity as a parameter) + parser correspondence, metamorphic edits, single-point corruptions, CLI oracle",
            "Proof (all files, all validity oracles): insert_comment_blank_neutral(_views/_ok), strip_eq_neutral, trailing_ws_neutral, crlf_neutral, indent_property_neutral(_views), indented_header_ok, "
            "key_case_neutral, permute_distinct_properties_neutral, sections_to_rules_partial / sections_to_views_partial, rejects_unknown_property / bad_let / bad_field / bad_priority / unexpected_content / "
            "missing_match / invalid_expr (+ views versions, rejects_missing_filter) with the reported line.",
            "PARTIAL: 'exactly the stated properties' per section and the command-level clause (a rules file that cannot be loaded is reported) are decided by the implementation oracle "
            "(python -m tally up on a corrupt budget), not by a theorem; no views version of the permutation theorem; int() for ASCII digits only. Defect D17 repaired by a fix: commit.",
            "DESIGN.md §5 C17, notes/C17_notes.md"),
    'C18': ("Lean 4 theorems over a step-by-step model of parse_format_string, auto_detect_csv_format and inspect's suggestion (keyword tables regenerated from source) + exhaustive arrangement correspondence",
            "Proof: parse_render (every well-formed arrangement of any width in every spelling of the class SpOK parses to exactly its positions, date format and sign mode), parse_positions (converse, "
            "arbitrary strings), rejects_missing_required / duplicate / uncaptured_template_ref / custom_without_template / invalid_token, suggest_roundtrip, inspect_roundtrip, detect_columns_distinct.",
            "Trusted: Lean kernel; fmt_tables translator; CPython's non-ASCII isspace/\\w/lower are a parameter Ext of every theorem; str.split and re.match are hand models tied by correspondence "
            "(all arrangements ≤ 5 wide quick / ≤ 7 thorough × spellings, malformed strings, header rows); inspect's fixed-width path and csv.Sniffer are outside the model.",
            "DESIGN.md §5 C18, notes/C18_notes.md"),
    'C08': ("Lean 4 totality theorems over the composed evaluator + rule-engine model + EXHAUSTIVE operator×type table correspondence against CPython",
            "Proof: root_raises_only_expression_error (after the repair no Python exception leaves an expression root), match_total (MerchantEngine.match completes for every rule list, variables, "
            "lets, tags, fields, transaction and oracle family), failing_match_is_nonmatch + failing_rule_absent (a failing rule ≡ an absent rule, via C01's theorem for arbitrary per-rule evaluation), "
            "failing_let_binds_none, failing_field_omitted, failing_tag_dropped, failing_variable_skipped; root_leaks_unrepaired is the kernel-checked witness for the code before the D8 repair.",
            "Trusted: Lean kernel; Model/Val.lean (CPython operator semantics incl. exception classes) and Model/Expr.lean (TransactionEvaluator) are hand models tied by the exhaustive table "
            "(≈18k cells quick) + random ill-typed streams + full-stack engine runs; oracle primitives answered by CPython; the model's own 'unmodelled' outcome (escaped generators, %-formatting, …) is "
            "excluded from the totality statement and counted in the evidence. View filters: see C10. parse_generic_csv / CLI survival is decided by the implementation oracle. Defect D8 repaired by a fix: commit.",
            "DESIGN.md §5 C08"),
    'C03': ("Lean 4 theorems about the whitelist walk + kernel-decided obligations over tables regenerated from expr_parser.py + payload correspondence under an audit-hook monitor",
            "Proof: validate_iff (validate_ast accepts a tree iff every node anywhere in it has a whitelisted kind — every tree), whitelist_reviewed / accepted_trees_are_reviewed (the regenerated whitelist "
            "contains only reviewed-safe kinds: no Lambda, Dict, Set, List, Tuple, f-strings, Starred, Slice, keyword, Await/Yield, Pow, bit ops, Is …), capabilities_reviewed (every getattr/hasattr, import and "
            "dangerous builtin in expr_parser.py is a reviewed one), dispatch_closed, string_methods_closed, function_names_reviewed. Closure over safe values is by the TYPE of the evaluator model's values "
            "(no constructor for types, functions, methods, modules, frames).",
            "Trusted: Lean kernel; the expr_tables translator (Python ast); faithfulness of the evaluator model = payload correspondence (≈2.7k payloads quick: classic escapes, every dir() attribute name × 23 receiver "
            "shapes, splices; thorough: all combinations) with outcome class + value compared; implementation monitor: PEP 578 audit events (no import/open/exec/compile outside ast.parse/os/subprocess/socket/ctypes), "
            "closed result-type set, no interpreter internals in strings, stdin/stdout untouched, deep-equality of transaction/rows/AST. Resource exhaustion is outside the property.",
            "DESIGN.md §5 C03"),
    'C04': ("Lean 4 laws proved on the evaluator model for every oracle family, context and scope + differential evaluator correspondence + the laws as metamorphic oracle on the real evaluator",
            "Proof: not_not, and/or_short_circuit, de_morgan_and/or (value, errors, order and scope), and_comm/or_comm (quiet operands), div_zero, chain_eq_conj, chain_stops, name_case, attr_case, "
            "contains/startswith/normalized/str_eq/str_in _ci (ASCII letter case, from kernel-decided facts on the 128 code points), regex_uses_oracle, date_vs_iso, date_vs_bad_iso, date_parts, weekday_range, "
            "loop_quiet / loop_collect_spec (comprehension = filter∘map, scope restored), loop_any_spec, walrus_binds, walrus_then_name; binder_leak_observation is the recorded scope quirk.",
            "Trusted: Lean kernel; Model/Expr.lean is a hand model of TransactionEvaluator tied by differential runs (type-directed random stream, all ≤1-operator expressions × boundary transactions here; the exhaustive "
            "operator×type table in C08); regex case-insensitivity and non-ASCII case mapping are oracle laws exercised on CPython; whole-tree name-case invariance is proved per node (name_case, attr_case), not as one induction.",
            "DESIGN.md §5 C04"),
    'C10': ("Lean 4 theorems over a model of ExpressionEvaluator + classify_by_sections (reusing the CPython operator model) + differential correspondence and membership oracle",
            "Proof: member_general, members_eq_filter, member_iff (m listed in v ⇔ not excluded ∧ v's filter true on m's own payments), views_independent (add/remove/reorder under distinct names; "
            "equal_names_merge shows the hypothesis is needed), view_total, no_exception_escapes / run_continues / error_excludes (with the D8 repair), months_def, total_def, cv_def, cv_mean_zero; "
            "d8_witness is the kernel-checked counterexample for the code before the repair.",
            "Trusted: Lean kernel; Model/View.lean is a hand model tied by differential runs of evaluate_filter / classify_by_sections; statistics.stdev, float **, **0.5, round, float %, str.lower are oracle "
            "parameters; total_def/cv_def are over exact int amounts; `by` bucketing and aggregates are tied by correspondence + bucket oracle, not by a Spec theorem. Observations (equal view names merge; a view "
            "variable written with an upper-case letter is unreachable; several of the reference's own example filters are ill-typed) are recorded in notes/C10_notes.md.",
            "DESIGN.md §5 C10, notes/C10_notes.md"),
    'C14': ("Lean 4 theorems: the legacy CSV loader and the modifier text parser (load_merchant_rules, parse_pattern_with_modifiers) modelled from the FILE TEXT, regex constants regenerated from modifier_parser.py; Python string-literal unescape∘escape = id, modifier expression ≡ modifier check, structure of the generated file, composed with C01/C02's list theorems + both-pipelines oracle on the real code",
            "Proof: literal_roundtrip (every one-line pattern survives escape → literal decoding), modifier_equiv (every modifier form and combination), per_rule_agree, migration_preserves (merchant/category/subcategory "
            "and tag set equal for every list of CsvRuleOk tuples and every transaction with an amount, under the named oracle laws H_upper/H_empty tested on CPython each run), structure_partial; kernel-checked "
            "counterexamples for the unrepaired converter (literal_*_pinned, modifier_eq_pinned_counterexample, relative_dropped, relative_breaks_file, empty_row_breaks_file).  From the file text (§8): "
            "modifier_regexes_as_modelled (kernel-decided: the regenerated regex constants / flags / call order = the table the scanners implement), parse_blocks, parse_render / blanks_insensitive (modifiers are read by structure, "
            "any of the 29 \\s blanks at every site), parse_no_trailing_bracket, parse_shape / parse_ok_prefix / parse_error_local, comment_lines_inert, crlf_is_lf, load_written_table / load_written_std / row_local (one rule per "
            "row, in file order), moderr_row_keeps_cell, migration_preserves_from_file (the preservation theorem for every file text the loader accepts).",
            "PARTIAL: structure_partial assumes trimmed match/tags lines; no single theorem links Impl.classifyMigrated to the engine (tied by correspondence); float() of a threshold text, non-ASCII digits and sys.get_int_max_str_digits are parameters of the loader model (Legacy.Oracles). "
            "Known findings D14c (relative dates inexpressible), D14d (pattern that also evaluates as an expression), D14f (untrimmed names), D14g (tags with , ( )), D14h (ß/(?-i:)) are listed with narrow classifiers; "
            "D14a/b/e repaired by fix: commits.",
            "DESIGN.md §5 C14, notes/C14_notes.md"),
    'C15': ("Lean 4 safety theorems over a file-system event machine for every budget shape × crash prefix × in-flight state and every single fault (exhaustive decide +kernel over the shape space, symbolic contents) + fault-injection correspondence on the real code",
            "Proof: csv_migration_safe / csv_migration_fault_safe (tally up --migrate), init_migration_safe / _fault_safe, layout_migration_safe / _fault_safe: after ANY number k of file-system events, with the "
            "in-flight file empty/half/full, or an OSError at any single event, no user content is lost, the budget classifies with the user's rules or does so after re-running, and is never on an empty rule set "
            "while rules exist; extracted_order_is_modelled ties the step order to the source (regenerated by fs_steps translator); D15a–e counterexamples for the orders before the repairs.",
            "PARTIAL: process crashes between Python-level FS calls and single-call faults are covered; torn writes below one write(), fsync/durability and power-loss reordering are NOT modelled; contents are one opaque "
            "symbol per user file (parametricity not mechanised); shapes with a pre-existing ./tally/<dir> and a second fault during re-run are outside. Defects D15a–e repaired by fix: commits.",
            "DESIGN.md §5 C15, notes/C15_notes.md"),
    'C19': ("Lean 4 theorems over a model of suggest_pattern / suggest_merchant_name / the suggested rule text and the rules parser + discover→load→match oracle on the real code",
            "Proof: suggestion_loads (the proposed block parses to exactly one rule), literal_of_suggestion, Fixed.pattern_is_escaped_words, Fixed.cleaned_is_a_piece, Fixed.suggestion_matches(_keep) (the upper-cased "
            "description contains a member of the language of the emitted regex, every description), suggestion_matches_partial for the contains branch; kernel-checked counterexamples for the code before the repair.",
            "PARTIAL: that CPython's re decides the emitted regex's language is tied by correspondence, not proved; 'the Unknown list strictly shrinks' is decided by the implementation oracle; NameOk is a hypothesis; "
            "Greek final sigma in title() and NUL are outside the model. Defect D19 repaired by a fix: commit.",
            "DESIGN.md §5 C19, notes/C19_notes.md"),
    'C20': ("Lean 4 frame theorems over the file-system event machine + audit-hook write trace and content hashes for generated budgets × command sequences",
            "Proof: readonly_frame / up_frame (every path outside the output location keeps its node), migration_only_on_request, init_frame (every existing file kept; settings only appended; CSV may move to a free "
            "backup name), init_creates_only_missing; D15c_init_clobbers_bak is the counterexample for the code before the repair.",
            "PARTIAL: the model covers the FS calls of the commands' own code paths (extracted by the fs_steps translator for the migrations, hand-modelled for up/init); explain/discover/diag/inspect are covered by "
            "the implementation monitor (audit trace + hashes), not by separate models; OS durability is out of scope; interactive answers are not exercised.",
            "DESIGN.md §5 C20, notes/C20_notes.md"),
    'C07': ("Lean 4 invariant proof over the process-wide cache state machine for an arbitrary world + operation-sequence runs compared with a forked pristine process",
            "Proof: inv_init, inv_step, inv_run (cached engine = last .rules load; expression and regex caches hold exactly what parsing / compiling the key gives), step_eq_spec, history_independent "
            "(after ANY history the next classify / evaluate answers what a fresh process that performed only the last load answers), classify_keeps_rules; stale_engine_unrepaired is the D7 counterexample.",
            "Trusted: Lean kernel; History.step is a hand model of _cached_engine / _expression_cache / _regex_cache (the theorems hold for every parser, compiler, engine, evaluator); tie: random operation "
            "sequences (3–12 ops over four rule files, collision-prone expression pairs) in one process vs os.fork from a pristine interpreter after every classify/evaluate, plus the symbolic-world "
            "correspondence of which load an answer comes from; frame (rules / rows / transaction unchanged) by deep copies on the implementation. Defect D7 repaired by a fix: commit.",
            "DESIGN.md §5 C07"),
    'C11': ("Executable Lean composition STARTING AT THE LOADED SETTINGS OBJECT (settings resolution: resolve_source_format, load_config, cmd_run's plan and reader arguments modelled; constants regenerated from source) of the parser, transform, engine and totals models + Lean composition laws + end-to-end correspondence with `python -m tally up` in fresh processes",
            "Proof: silent_source_neutral (a supplemental / missing / empty source leaves the report exactly as it is), source_local (the figures are those of the report without source s plus those of s alone), "
            "setting_local, source_order_irrelevant, report_count — for ARBITRARY per-source parse-and-classify functions, from C06's permutation and partition theorems; upLoop_eq_composition / up_report_eq_runUp "
            "(the modelled cmd_run loop IS classify ∘ concat ∘ parse and its report IS runUp, for EVERY classifier: .rules engine, legacy CSV tuple loop, no rules), up_source_local, up_silent_source_neutral; "
            "legacy_plain_ignores_supplemental / legacy_supplemental_query_only (a legacy budget without expression-shaped Pattern cells never reads the supplemental rows; kernel-checked counterexample "
            "when one cell is expression-shaped); transform_sees_no_supplemental. The executable model Pipeline.upLoop ∘ Pipeline.classifyRow (driver op `pipeline`) reproduces `tally up --format json` "
            "(merchants, categories, tags, counts exactly; money to the cent) on generated budgets of all three rule kinds.  Settings resolution (Model/Config, PipelineCfg.upFromSettings): default_* (an absent key = its "
            "documented default, errors included), rule_mode_spec / rule_mode_never_an_error, rules_file_selection / configured_missing_never_legacy, source_ok_iff / load_ok_iff / bad_source_aborts_load, plan_source_local / "
            "plan_toplevel_local / plan_quiet_irrelevant, settings_report_eq_composition / settings_report_eq_runUp (report(settings) = totals(classify(concat(parse(planSources(resolveConfig settings)))))), settings_source_local.",
            "PARTIAL: argparse, yaml.safe_load and printing are exercised end to end but not modelled (the settings object AS LOADED is the model's input; posixpath join/dirname/normpath are modelled); genuine defect F11-name (a nameless source killed a run without --quiet) repaired by a fix: commit; tokenisation is taken from the implementation (as C05); a legacy CSV rule file is LOADED by "
            "the implementation (get_all_rules: csv.DictReader + parse_pattern_with_modifiers, as C14) and its tuples are classified by the model (Pipeline.classifyLegacy: _is_expression_pattern, evaluator, "
            "regex oracle on the upper-cased description, Migrate.checkAll on exact doubles, _resolve_dynamic_tags, Rules.legacy); float rounding of `amount - v` in [amount=v] is modelled away (as C14); figures compared to the cent.",
            "DESIGN.md §5 C11"),
    'C16': ("Lean 4 theorems about the shared classification function and the discover grouping + three-command end-to-end oracle in fresh processes + model-vs-CLI correspondence for explain",
            "Proof: explain_eq_up (explain is classifyRow on the transaction built from a description and an amount — same rule mode, variables, lets, tag-only rules, transforms, supplemental rows), "
            "discover_eq_unknown (a description is listed iff up leaves a transaction with it Unknown, with exactly their count and Σ|amount|), categorised_not_listed, discover_counts.",
            "PARTIAL: argparse, printing and explain's lookup cascade are exercised, not modelled; explain_eq_up is definitional on the model (the content is the correspondence of the model with the CLI and the "
            "three-command oracle: discover = Unknown part of up; explain(desc, amount) = up on the budget extended by that transaction; explain(<merchant>) = up's category). Rules over dates / source / custom "
            "fields are outside the description+amount clause. Defect D16 repaired by a fix: commit.",
            "DESIGN.md §5 C16"),
}

PENDING_REASON = "not claimed yet: model/theorems for this property are still being built (see DESIGN.md §7 build order); no check is registered until it is sound"


def build():
    checks = []
    for pid in ALL:
        if pid not in CLAIMED:
            continue
        tech, text, note, ref = CLAIMED[pid]
        checks.append({
            'property_id': pid,
            'quick_cmd': f'./check {pid} --tier quick',
            'thorough_cmd': f'./check {pid} --tier thorough',
            'evidence_file': f'evidence/{pid}.json',
            'replay_cmd_template': f'./check {pid} --replay {{path}}',
            'engine': 'tally-lean',
            'level_claimed': {'category': 'proof', 'text': text, 'design_ref': ref},
            'level_note': note,
            'technique': tech,
        })
    man = {
        'version': 1,
        'setup_cmd': './check --setup',
        'hooks': {'guard': 'TALLY_VERIF', 'enable': 'no hooks in /repo: instrumentation is done from the harness process (monkey-patching, sys.addaudithook); checks export TALLY_VERIF=1 for uniformity',
                  'baseline_off_cmd': 'cd /repo && /venv/bin/python -m pytest -q -p no:cacheprovider --timeout=900',
                  'source_commits': [], 'add_only': True},
        'engines': [{'name': 'tally-lean', 'path': 'lean/', 'serves_properties': sorted(CLAIMED),
                     'kind_free_text': 'Lean 4 lake project TallyVerif (models, regenerated Gen/, lemmas, property theorems) + compiled line-protocol driver tvdrv + Python correspondence harness under harness/'}],
        'checks': checks,
        'notes': 'All checks: ./check <id> [--tier quick|thorough] [--replay file]. known_findings.json lists genuine defects (findings / fixed).',
        'not_applicable': [{'property_id': p, 'reason': PENDING_REASON} for p in ALL if p not in CLAIMED],
    }
    with open(os.path.join(VERIF, 'MANIFEST.json'), 'w') as f:
        json.dump(man, f, indent=1)
        f.write('\n')
    return man


if __name__ == '__main__':
    m = build()
    print('claimed:', [c['property_id'] for c in m['checks']])
