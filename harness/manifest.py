"""Writes /verif/MANIFEST.json from the table below (run: /venv/bin/python -m harness.manifest)."""
import json
import os

VERIF = os.path.dirname(os.path.dirname(os.path.abspath(__file__)))
ALL = [f'C{i:02d}' for i in range(1, 21)]

# property -> (technique, level text, level_note, design_ref)
CLAIMED = {
    'C13': ("Lean 4 theorems over two models regenerated from source (py→Lean, js→Lean translators) + grid validation against Python and node",
            "Proof: for every number system (NumLike: only >, abs, +, − are used, so IEEE doubles with NaN/−0 are covered), every "
            "lower-casing function and every tag list, the JS block's categorizeAmount / isExcludedFromSpending / calculateCashFlow / is* equal "
            "classification.py's. Both models are regenerated from /repo on every run, so the theorems are re-checked against what the code says now.",
            "Trusted: Lean kernel (axioms propext only here); the two translators (validated each run: generated Lean defs vs Python vs node on a "
            "grid of ≈1.8k cases); str.lower ≡ toLowerCase as one abstract function (sampled on non-ASCII); key renaming transferIn↔transfer_in. "
            "The browser itself is out of scope.",
            "DESIGN.md §5 C13, §2.4"),
    'C06': ("Lean 4 theorems (exact amounts) over a hand model of analyze_transactions' loop on top of the regenerated categorize_amount/normalize_amount + bit-for-bit correspondence",
            "Proof: one_bucket (exactly one of six buckets gets |amount|, chosen by income>investment>transfer on lower-cased tags, then sign), "
            "six_buckets_sum, cash_flow_def, transfers_net_def, groupings_conserve (Σ per-merchant = Σ per-category = Σ per-month = Σ normalised amounts; counts = n), "
            "analyze_perm (every figure invariant under any permutation), analyze_append (partition across sources) — for lists of any length.",
            "Trusted: Lean kernel; py→Lean translator; hand model Totals.analyze tied to analyze_transactions by bit-for-bit differential runs; amounts are exact "
            "integers in the theorems (float rounding and Python 3.12's compensated sum() are outside the model; the implementation-side oracle uses dyadic amounts).",
            "DESIGN.md §5 C06"),
}

PENDING_REASON = "not claimed yet: model/theorems for this property are still being built (see DESIGN.md §7 build order); no check is registered until it is sound"


def build():
    checks = []
    for pid in ALL:
        if pid not in CLAIMED:
            continue
        tech, text, note, ref = CLAIMED[pid]
        checks.append({
            'property_id': pid,
            'quick_cmd': f'./check {pid} --tier quick',
            'thorough_cmd': f'./check {pid} --tier thorough',
            'evidence_file': f'evidence/{pid}.json',
            'replay_cmd_template': f'./check {pid} --replay {{path}}',
            'engine': 'tally-lean',
            'level_claimed': {'category': 'proof', 'text': text, 'design_ref': ref},
            'level_note': note,
            'technique': tech,
        })
    man = {
        'version': 1,
        'setup_cmd': './check --setup',
        'hooks': {'guard': 'TALLY_VERIF', 'enable': 'no hooks in /repo: instrumentation is done from the harness process (monkey-patching, sys.addaudithook); checks export TALLY_VERIF=1 for uniformity',
                  'baseline_off_cmd': 'cd /repo && /venv/bin/python -m pytest -q -p no:cacheprovider --timeout=900',
                  'source_commits': [], 'add_only': True},
        'engines': [{'name': 'tally-lean', 'path': 'lean/', 'serves_properties': sorted(CLAIMED),
                     'kind_free_text': 'Lean 4 lake project TallyVerif (models, regenerated Gen/, lemmas, property theorems) + compiled line-protocol driver tvdrv + Python correspondence harness under harness/'}],
        'checks': checks,
        'notes': 'All checks: ./check <id> [--tier quick|thorough] [--replay file]. known_findings.json lists genuine defects (findings / fixed).',
        'not_applicable': [{'property_id': p, 'reason': PENDING_REASON} for p in ALL if p not in CLAIMED],
    }
    with open(os.path.join(VERIF, 'MANIFEST.json'), 'w') as f:
        json.dump(man, f, indent=1)
        f.write('\n')
    return man


if __name__ == '__main__':
    m = build()
    print('claimed:', [c['property_id'] for c in m['checks']])
