"""Shared machinery of the tally verification checks.

Every property check (harness/props/cXX.py) receives a `Ctx` and
  1. regenerates lean/TallyVerif/Gen/*.lean from /repo (translators) — `regen`
  2. builds the Lean modules it depends on and audits them          — `lean_obligations`
  3. runs its correspondence stream(s) against the compiled driver   — `Driver`
  4. on any broken obligation / disagreement runs its oracle search on the real code
  5. reports VIOLATION / KNOWN-FINDING lines and writes evidence/<id>.json
"""
import fcntl
import hashlib
import json
import os
import random
import re
import subprocess
import sys
import time

VERIF = os.path.dirname(os.path.dirname(os.path.abspath(__file__)))
LEAN = os.path.join(VERIF, 'lean')
REPO = os.environ.get('TALLY_REPO', '/repo')
SRC = os.path.join(REPO, 'src', 'tally')
ALLOWED_AXIOMS = {'propext', 'Classical.choice', 'Quot.sound'}
FORBIDDEN = re.compile(r'\b(sorry|admit|native_decide|bv_decide|implemented_by|unsafe)\b|^\s*axiom\s|maxHeartbeats\s+0\b')
TRUSTED_BASE = [
    "Lean 4.33 kernel; axioms allowed: propext, Classical.choice, Quot.sound (audited by #print axioms on every run)",
    "translators / correspondence harness under /verif/harness (Python) and the canonicalisation they apply",
    "CPython's ast.parse, csv, re, datetime, float(), json, html.parser: parameters of the model, not verified",
]


def sha(s):
    if isinstance(s, str):
        s = s.encode()
    return hashlib.sha256(s).hexdigest()[:16]


def read(path):
    with open(path, encoding='utf-8') as f:
        return f.read()


class Lock:
    """Serialises everything that touches lean/ (Gen files, lake build)."""
    def __enter__(self):
        self.f = open(os.path.join(LEAN, '.verif.lock'), 'w')
        fcntl.flock(self.f, fcntl.LOCK_EX)
        return self

    def __exit__(self, *a):
        fcntl.flock(self.f, fcntl.LOCK_UN)
        self.f.close()


def run(cmd, cwd=None, timeout=1800, env=None, input=None):
    e = dict(os.environ)
    if env:
        e.update(env)
    p = subprocess.run(cmd, cwd=cwd, timeout=timeout, env=e, input=input,
                       stdout=subprocess.PIPE, stderr=subprocess.STDOUT, text=True)
    return p.returncode, p.stdout


# ------------------------------------------------------------------ Lean side

def lake_build(targets):
    rc, out = run(['lake', 'build'] + list(targets), cwd=LEAN)
    return rc == 0, out


def strip_comments(src):
    """Remove -- line comments and /- … -/ block comments (nesting-aware) from Lean source."""
    out, i, depth, n = [], 0, 0, len(src)
    while i < n:
        if src.startswith('/-', i):
            depth += 1; i += 2; continue
        if depth and src.startswith('-/', i):
            depth -= 1; i += 2; continue
        if depth:
            if src[i] == '\n':
                out.append('\n')
            i += 1; continue
        if src.startswith('--', i):
            while i < n and src[i] != '\n':
                i += 1
            continue
        if src[i] == "'" and (src.startswith("'\"'", i) or src.startswith("'\\\"'", i)):
            # the char literal '"' (or '\"'): not the start of a string
            k = src.index("'", i + 1) + 1
            out.append("' '"); i = k; continue
        if src[i] == '"':
            j = i + 1
            while j < n and src[j] != '"':
                j += 2 if src[j] == '\\' else 1
            out.append('""'); i = j + 1; continue
        out.append(src[i]); i += 1
    return ''.join(out)


def lean_deps(module, seen=None):
    """Transitive TallyVerif.* imports of a module (files under lean/)."""
    seen = seen if seen is not None else []
    if module in seen:
        return seen
    path = os.path.join(LEAN, *module.split('.')) + '.lean'
    if not os.path.exists(path):
        return seen
    seen.append(module)
    for m in re.findall(r'^import\s+(TallyVerif\.[\w.]+)', read(path), re.M):
        lean_deps(m, seen)
    return seen


def theorem_names(module):
    path = os.path.join(LEAN, *module.split('.')) + '.lean'
    src = strip_comments(read(path))
    ns = re.search(r'^namespace\s+([\w.]+)', src, re.M)
    prefix = ns.group(1) + '.' if ns else ''
    out = []
    # private theorems are helpers (their names are mangled); property theorems are public
    for m in re.finditer(r'^(?:@\[[^\]]*\]\s*)?(?:protected\s+)?theorem\s+([\w.\']+)', src, re.M):
        line = src.count('\n', 0, m.start()) + 1
        out.append((prefix + m.group(1), line))
    return out


def lean_obligations(prop_module, extra_targets=('tvdrv',)):
    """Build `prop_module` (+driver), grep-audit its sources, `#print axioms` every theorem in it.

    Returns dict(ok, obligations=[{name, ok, axioms|error}], log, forbidden=[...]).
    """
    res = {'ok': True, 'obligations': [], 'forbidden': [], 'log': '', 'module': prop_module}
    ok, log = lake_build([prop_module] + list(extra_targets))
    res['log'] = log[-6000:]
    names = theorem_names(prop_module)
    failed_lines = []
    if not ok:
        res['ok'] = False
        rel = os.path.join(*prop_module.split('.')) + '.lean'
        failed_lines = [int(m.group(1)) for m in re.finditer(re.escape(rel) + r':(\d+):\d+: error', log)]
        res['build_failed'] = True
        # is the failure inside the property module itself or in something it imports?
        res['failed_files'] = sorted(set(re.findall(r'error: (TallyVerif/[\w/]+\.lean|Driver\.lean)', log)))
    # forbidden tokens anywhere in the dependency cone
    for mod in lean_deps(prop_module):
        path = os.path.join(LEAN, *mod.split('.')) + '.lean'
        for ln, line in enumerate(strip_comments(read(path)).split('\n'), 1):
            if FORBIDDEN.search(line):
                res['forbidden'].append(f'{mod}:{ln}: {line.strip()[:80]}')
    if res['forbidden']:
        res['ok'] = False
    axioms = {}
    if ok:
        audit = os.path.join(LEAN, '.lake', f'audit_{prop_module.split(".")[-1]}.lean')
        with open(audit, 'w') as f:
            f.write(f'import {prop_module}\n' + ''.join(f'#print axioms {n}\n' for n, _ in names))
        rc, out = run(['lake', 'env', 'lean', audit], cwd=LEAN)
        for m in re.finditer(r"'([^']+)' depends on axioms: \[([^\]]*)\]", out.replace('\n', ' ')):
            axioms[m.group(1)] = [a.strip() for a in m.group(2).split(',') if a.strip()]
        for m in re.finditer(r"'([^']+)' does not depend on any axioms", out):
            axioms[m.group(1)] = []
        res['audit_out'] = out[-3000:] if rc != 0 else ''
    # attribute build errors to theorems by line ranges
    starts = [l for _, l in names] + [10 ** 9]
    for idx, (n, l) in enumerate(names):
        ob = {'name': n, 'kind': 'theorem'}
        if not ok:
            bad = any(l <= fl < starts[idx + 1] for fl in failed_lines)
            ob['ok'] = False
            ob['error'] = 'proof no longer checks' if bad else 'not rebuilt (build of the module or one of its imports failed)'
            ob['failed_here'] = bad
        elif n not in axioms:
            ob['ok'] = False; ob['error'] = 'no #print axioms output'
        else:
            ob['axioms'] = axioms[n]
            ob['ok'] = set(axioms[n]) <= ALLOWED_AXIOMS
            if not ob['ok']:
                ob['error'] = 'disallowed axioms'
        if not ob['ok']:
            res['ok'] = False
        res['obligations'].append(ob)
    return res


class Driver:
    """Batch interface to the compiled model driver (lean_exe `tvdrv`)."""
    def __init__(self):
        self.exe = os.path.join(LEAN, '.lake', 'build', 'bin', 'tvdrv')

    def available(self):
        return os.path.exists(self.exe)

    def batch(self, cases, timeout=3600):
        """cases: list of dicts (an 'id' is added). Returns list of dict answers in order."""
        if not cases:
            return []
        lines = []
        for i, c in enumerate(cases):
            d = dict(c); d['id'] = i
            lines.append(json.dumps(d, ensure_ascii=True))
        if self.available():
            cmd = [self.exe]
        else:
            cmd = ['lake', 'env', 'lean', '--run', 'Driver.lean']
        p = subprocess.run(cmd, cwd=LEAN, input='\n'.join(lines) + '\n', stdout=subprocess.PIPE,
                           stderr=subprocess.PIPE, text=True, timeout=timeout)
        outs = [json.loads(l) for l in p.stdout.split('\n') if l.strip()]
        if len(outs) != len(cases):
            raise RuntimeError(f'driver answered {len(outs)} of {len(cases)} lines; stderr: {p.stderr[-2000:]}')
        by_id = {o.get('id'): o for o in outs}
        return [by_id[i] for i in range(len(cases))]


# ------------------------------------------------------------------ translators with rollback

def regen_file(rel, new_text, build_module):
    """Write a Gen file if changed; make sure it still compiles, otherwise roll back.
    Returns (changed, ok, log)."""
    path = os.path.join(LEAN, rel)
    old = read(path) if os.path.exists(path) else None
    if old == new_text:
        return False, True, ''
    with open(path, 'w', encoding='utf-8') as f:
        f.write(new_text)
    ok, log = lake_build([build_module])
    if not ok:
        if old is not None:
            with open(path, 'w', encoding='utf-8') as f:
                f.write(old)
        return True, False, log[-3000:]
    return True, True, ''


# ------------------------------------------------------------------ findings, evidence, verdict

def load_known():
    p = os.path.join(VERIF, 'known_findings.json')
    if not os.path.exists(p):
        return {'findings': [], 'fixed': []}
    return json.loads(read(p))


class Ctx:
    def __init__(self, prop, tier, seed, replay=None):
        self.prop, self.tier, self.seed, self.replay = prop, tier, seed, replay
        self.rng = random.Random(seed * 1000003 + int(prop[1:]))
        self.t0 = time.time()
        self.obligations = []       # dicts {name, kind, ok, …}
        self.violations = []        # dicts
        self.known_printed = []
        self.cov = {'evaluations': 0, 'distinct_nontrivial': 0, 'rule': '', 'samples': [],
                    'traces_validated_against_impl': 0}
        self.assumptions = []
        self.notes = {}
        self.known = load_known()
        self.quick = tier == 'quick'

    # ---- obligations
    def add_obligations(self, obs):
        self.obligations.extend(obs)

    def obligation(self, name, kind, ok, **kw):
        d = {'name': name, 'kind': kind, 'ok': bool(ok)}
        d.update(kw)
        self.obligations.append(d)
        return ok

    def broken(self):
        return [o for o in self.obligations if not o['ok']]

    # ---- verdicts
    def findings_for(self):
        return [f for f in self.known.get('findings', []) if f['property'] == self.prop]

    def fixed_for(self):
        return [f for f in self.known.get('fixed', []) if f['property'] == self.prop]

    def known_finding(self, fid, what):
        line = f'KNOWN-FINDING: property={self.prop} {fid}: {what}'
        if line not in self.known_printed:
            self.known_printed.append(line)
            print(line, flush=True)

    def violation(self, kind, replay, nofail=False, tag=None):
        """kind: 'counterexample' | 'broken-obligation'."""
        replay = dict(replay)
        replay.update({'property': self.prop, 'kind': kind, 'tier': self.tier, 'seed': self.seed,
                       'replay_cmd': f'./check {self.prop} --replay <this file>'})
        body = json.dumps(replay, indent=1, sort_keys=True, default=str)
        name = f"{self.prop}-{'broken-' if kind == 'broken-obligation' else ''}{tag + '-' if tag else ''}{sha(body)}.json"
        os.makedirs(os.path.join(VERIF, 'replays'), exist_ok=True)
        path = os.path.join('replays', name)
        with open(os.path.join(VERIF, path), 'w') as f:
            f.write(body + '\n')
        line = f'VIOLATION property={self.prop} replay={path}' + (' no-failing-input-found' if nofail else '')
        print(line, flush=True)
        self.violations.append({'line': line, 'kind': kind})

    # ---- coverage
    def sample(self, s, cap=6):
        if len(self.cov['samples']) < cap:
            self.cov['samples'].append(s)

    def finish(self, level='proof', checker_cmd=None, extra_trusted=()):
        thm = [o for o in self.obligations]
        cov = dict(self.cov)
        cov['obligations'] = len(thm)
        cov['discharged'] = sum(1 for o in thm if o['ok'])
        cov['obligation_list'] = [{k: v for k, v in o.items() if k in ('name', 'kind', 'ok', 'axioms', 'error', 'cases')}
                                  for o in thm]
        cov['checker_cmd'] = checker_cmd or f'cd lean && lake build TallyVerif.Props.{self.prop} tvdrv && lake env lean .lake/audit_{self.prop}.lean'
        cov['trusted_base'] = TRUSTED_BASE + list(extra_trusted)
        cov['known_findings_printed'] = self.known_printed
        cov.update(self.notes)
        ev = {'property_id': self.prop, 'tier': self.tier, 'seed': self.seed, 'level': level,
              'coverage': cov, 'assumptions': self.assumptions,
              'wall_s': round(time.time() - self.t0, 2), 'violations': len(self.violations)}
        os.makedirs(os.path.join(VERIF, 'evidence'), exist_ok=True)
        if not self.replay:
            with open(os.path.join(VERIF, 'evidence', f'{self.prop}.json'), 'w') as f:
                json.dump(ev, f, indent=1, sort_keys=True, default=str)
                f.write('\n')
        status = 'VIOLATIONS' if self.violations else 'ok'
        print(f'[{self.prop}] {status}: obligations {cov["discharged"]}/{cov["obligations"]}, '
              f'evaluations {cov["evaluations"]}, nontrivial {cov["distinct_nontrivial"]}, '
              f'known findings {len(self.known_printed)}, {ev["wall_s"]} s', flush=True)
        return 1 if self.violations else 0


def float_bits(x):
    import struct
    return str(struct.unpack('<Q', struct.pack('<d', float(x)))[0])


def bits_float(s):
    import struct
    if s == 'nan':
        return float('nan')
    return struct.unpack('<d', struct.pack('<Q', int(s)))[0]


# ------------------------------------------------------------------ shared check phases

def lean_phase(ctx, prop_module, regen_fn=None):
    """Tie #1 + proof obligations: regenerate Gen/, build, audit. Returns the lean_obligations dict."""
    with Lock():
        if regen_fn is not None:
            st = {}
            regen_fn(st)
            for name, s in st.items():
                ctx.obligation(f'translator:{name}', 'translator', s['ok'], error=s.get('error'))
            ctx.notes['translators'] = st
        lo = lean_obligations(prop_module)
        ctx.add_obligations(lo['obligations'])
        if lo['forbidden']:
            ctx.obligation('audit:forbidden-tokens', 'audit', False, error='; '.join(lo['forbidden']))
        else:
            ctx.obligation('audit:no-sorry-axiom-native_decide', 'audit', True)
        ctx.notes['build_ok'] = not lo.get('build_failed', False)
        ctx.notes['lean_log_tail'] = lo['log'][-1500:] if lo.get('build_failed') else ''
        if not ctx.quick and not lo.get('build_failed'):
            # thorough tier: the toolchain's independent re-checker replays the compiled declarations of the property
            # module and of every TallyVerif module it depends on into a fresh kernel
            mods = lean_deps(prop_module)
            t0 = time.time()
            try:
                p = subprocess.run(['lake', 'env', 'leanchecker'] + mods, cwd=LEAN, stdout=subprocess.PIPE, stderr=subprocess.STDOUT,
                                   text=True, timeout=3000)
                ok, out = p.returncode == 0, p.stdout[-800:]
            except Exception as e:        # noqa
                ok, out = False, f'{type(e).__name__}: {e}'[:400]
            ctx.obligation(f'audit:leanchecker re-check of {len(mods)} compiled modules', 'audit', ok, error=None if ok else out)
            ctx.notes['leanchecker_seconds'] = round(time.time() - t0, 1)
    return lo


def conclude(ctx, prop_failures, classify=None, search=None, required=''):
    """Uniform verdict.

    prop_failures: list of dicts, each a concrete input on which THE PROPERTY fails on the real code.
    classify(failure) -> id of a listed known finding or None.
    search() -> list of further property failures (bigger budget); only called when an obligation /
               the correspondence is broken and no failing input is known yet.
    """
    listed = {f['id']: f for f in ctx.findings_for()}
    unlisted = []
    for pf in prop_failures:
        fid = classify(pf) if classify else None
        if fid and fid in listed:
            ctx.known_finding(fid, listed[fid]['what'])
        else:
            unlisted.append(pf)
    broken = ctx.broken()
    if not unlisted and broken and search is not None:
        more = search() or []
        for pf in more:
            fid = classify(pf) if classify else None
            if fid and fid in listed:
                ctx.known_finding(fid, listed[fid]['what'])
            else:
                unlisted.append(pf)
    if unlisted:
        seen = set()
        for pf in unlisted:
            key = pf.get('class', 'x')
            if key in seen:
                continue
            seen.add(key)
            ctx.violation('counterexample', {'counterexample': pf, 'required': required,
                                             'failing_inputs_found': len(unlisted),
                                             'broken_obligations': [o['name'] for o in broken]}, tag=pf.get('class'))
            if len(seen) >= 3:
                break
    elif broken:
        ctx.violation('broken-obligation',
                      {'broken_obligations': broken, 'lean_log': ctx.notes.get('lean_log_tail', ''),
                       'required': required,
                       'note': 'a proof obligation, translator or the model/implementation correspondence no longer '
                               'checks; the search on the real code found no input on which the property fails'},
                      nofail=True)
