"""Structured generators for rule files (.rules and legacy CSV) and transactions.

Every random choice comes from the `random.Random` passed in. Rule conditions are built from the
transaction vocabulary so that several rules match the same transaction in a large share of cases.
"""
import datetime

MERCHANT_TOKENS = ['UBER', 'EATS', 'NETFLIX', 'AMAZON', 'MKTPL', 'COSTCO', 'WHSE', 'STARBUCKS', 'STORE', 'SHELL',
                   'OIL', 'TRADER', 'JOES', 'LYFT', 'RIDE', 'TARGET', 'PAYROLL', 'ACME', 'TRANSFER', 'SAVINGS']
NOISE = ['123', '#45', 'WA', 'CA', 'SEATTLE', '*PENDING', 'POS', '0042', 'COM', 'INC']
SOURCES = ['Amex', 'Chase', 'checking', '']
FIELD_NAMES = ['type', 'memo', 'code']
FIELD_VALUES = ['ACH', 'WIRE', 'card', 'PROJ:ABC1 x', '', 'Fee 12']
CATS = [('Food', 'Delivery'), ('Food', ''), ('Transport', 'Rideshare'), ('Shopping', 'Online'), ('Subscriptions', 'Streaming'),
        ('Income', 'Salary'), ('Bills', ''), ('Transfers', 'Internal')]
STATIC_TAGS = ['business', 'Recurring', 'TRAVEL', 'income', 'transfer', 'x y', 'large', "mother's day", 'say "hi', "5 o'clock", 'a:b']


def gen_txn(r):
    toks = r.sample(MERCHANT_TOKENS, r.choice([1, 2, 2, 3]))
    if r.random() < 0.6:
        toks += r.sample(NOISE, r.choice([1, 2]))
    if r.random() < 0.08:
        toks.insert(r.randint(0, len(toks)), r.choice(["JOE'S", "O'HARE", "MACY'S"]))      # the other quote character inside a pattern literal
    desc = ' '.join(toks)
    if r.random() < 0.15:
        desc = desc.lower()
    if r.random() < 0.1:
        desc = desc.title()
    amount = r.choice([0.0, 0.01, -0.01, 5.0, 50.0, 100.0, 100.004, 200.0, 500.0, 1500.0, -20.5, -300.0,
                       round(r.uniform(-2000, 2000), 2)])
    d = None
    if r.random() < 0.9:
        d = datetime.date(r.choice([2024, 2025]), r.choice([1, 1, 2, 6, 12, 12, r.randint(1, 12)]),
                          r.choice([1, 15, 28, r.randint(1, 28)]))
    field = None
    if r.random() < 0.7:
        field = {k: r.choice(FIELD_VALUES) for k in r.sample(FIELD_NAMES, r.choice([1, 2, 3]))}
    txn = {'description': desc, 'amount': amount, 'field': field, 'source': r.choice(SOURCES),
           'location': r.choice([None, 'WA', 'CA'])}
    if d:
        txn['date'] = d
    return txn


def pattern_atom(r, txn, variables=()):
    """One condition; about half the time true of `txn`."""
    words = txn['description'].upper().split()
    hit = r.random() < 0.6
    tok = r.choice(words) if hit else r.choice(MERCHANT_TOKENS)
    tok_s = r.choice([tok, tok.lower(), tok.title()])
    k = r.random()
    if k < 0.30:
        return f'contains("{tok_s}")'
    if k < 0.315:
        # a catch-all alternation of many spellings: the pattern-length component of the ranking can be arbitrarily large
        alts = [tok] + [r.choice(MERCHANT_TOKENS) + r.choice(['', ' STORE', ' INC', ' #12']) for _ in range(r.choice([12, 20, 30]))]
        r.shuffle(alts)
        return 'regex("' + '|'.join(alts) + '")'
    if k < 0.38:
        first = words[0] if hit else r.choice(MERCHANT_TOKENS)
        return f'startswith("{first}")'
    if k < 0.46:
        other = r.choice(MERCHANT_TOKENS)
        return f'anyof("{other}", "{tok_s}")'
    if k < 0.54:
        return f'regex("{tok}\\\\s*[A-Z0-9#]*")' if r.random() < 0.5 else f'regex("{tok}")'
    if k < 0.58:
        return f'normalized("{tok_s.replace(" ", "")}")'
    if k < 0.68 and r.random() < 0.3:
        # a RANGE written as a comparison chain (`lo < amount <= hi`, the month or the date between two bounds): true only when EVERY link is;
        # the transaction passes the first link and, half of the time, fails the second
        a = txn['amount'] or 0
        lo, hi = sorted([a - r.choice([1, 50, 0.01]), a + (r.choice([1, 50, 0.01]) if r.random() < 0.5 else -r.choice([0.5, 20, 0.005]))])
        if r.random() < 0.3 and txn.get('date'):
            d = txn['date']
            if r.random() < 0.5:
                return f'{max(1, d.month - 2)} <= month <= {d.month - (0 if r.random() < 0.5 else 1)}' if d.month > 1 else f'1 <= month < {r.choice([1, 2])}'
            d1 = (d - datetime.timedelta(days=r.choice([3, 40]))).isoformat()
            d2 = (d + datetime.timedelta(days=r.choice([-1, 5, 40]))).isoformat()
            return f'"{d1}" <= date <= "{d2}"'
        return r.choice([f'{lo!r} < amount <= {hi!r}', f'{hi!r} >= amount > {lo!r}', f'{lo!r} <= amount < {hi!r}', f'{lo!r} < amount < {hi!r} < {hi + 1!r}'])
    if k < 0.68:
        a = txn['amount']
        op = r.choice(['>', '>=', '<', '<=', '==', '!='])
        v = r.choice([a, 0, 100, 50, -10, 200]) if r.random() < 0.7 else round(r.uniform(-100, 600), 2)
        return f'amount {op} {v!r}'
    if k < 0.74 and txn.get('date'):
        d = txn['date']
        which = r.choice(['month', 'year', 'day', 'weekday'])
        val = {'month': d.month, 'year': d.year, 'day': d.day, 'weekday': d.weekday()}[which] if hit else r.randint(0, 12)
        return f'{which} == {val}'
    if k < 0.79 and txn.get('date'):
        d = txn['date']
        iso = (d if hit else d + datetime.timedelta(days=r.choice([-40, 40]))).isoformat()
        return f'date {r.choice([">=", "<=", "==", ">", "<"])} "{iso}"'
    if k < 0.86 and txn.get('field'):
        name = r.choice(sorted(txn['field']))
        val = txn['field'][name] if hit else r.choice(FIELD_VALUES)
        if r.random() < 0.5:
            return f'field.{name} == "{val}"'
        return f'contains(field.{name}, "{(val.split() or ["Z"])[0]}")'
    if k < 0.91:
        s = txn['source'] if hit else r.choice(SOURCES)
        return f'source == "{s}"'
    if k < 0.95 and variables:
        return r.choice(list(variables))
    return f'"{tok_s}" in description'


def gen_match(r, txn, variables=(), depth=0):
    k = r.random()
    if depth >= 2 or k < 0.55:
        return pattern_atom(r, txn, variables)
    if k < 0.75:
        return f'{gen_match(r, txn, variables, depth + 1)} and {gen_match(r, txn, variables, depth + 1)}'
    if k < 0.9:
        return f'({gen_match(r, txn, variables, depth + 1)} or {gen_match(r, txn, variables, depth + 1)})'
    return f'not {pattern_atom(r, txn, variables)}'


def gen_tags(r, txn):
    out = []
    for _ in range(r.choice([1, 1, 2, 3])):
        k = r.random()
        if k < 0.6:
            out.append(r.choice(STATIC_TAGS))
        elif k < 0.75:
            out.append('{source}')
        elif k < 0.9:
            out.append('{field.%s}' % r.choice(FIELD_NAMES))
        elif k < 0.93:
            out.append('{extract(field.memo, "PROJ:(\\\\w+)")}')
        elif k < 0.945:
            # the text of a dynamic tag is an expression: its letter case is part of its meaning (\\S vs \\s, "UBER" vs "uber")
            out.append(r.choice(['{extract(description, "^(\\\\S+)")}', '{regex_replace(source, "\\\\W", "")}', '{regex_replace(description, "\\\\D", "")}',
                                 '{description.replace("UBER", "x").replace("AMAZON", "y")}',
                                 '{"first" if description.startswith("UBER") or description.startswith("AMAZON") else "other"}',
                                 '{split(description, "E", 0)}']))
        elif k < 0.96:
            # braces inside the expression of a dynamic tag (counted repetition)
            out.append(r.choice(['{extract(field.memo, "PROJ:(\\\\w{3,4})")}', '{extract(description, "([A-Z]{4})")}',
                                 '{regex_replace(source, "[a-z]{2}", "#")}']))
        else:
            out.append('{lowercase(description)}')
    return out


def gen_rules_file(r, txn, n=None, force_ties=False, dup_names=False, let_twins=False, long_patterns=False, walrus_twins=False,
                   odd_values=False):
    """Returns an abstract rules file: dict(variables, transforms, rules=[dict(...)])."""
    n = n if n is not None else r.choice([1, 2, 3, 4, 5, 6, 8])
    variables = {}
    if r.random() < 0.35:
        variables['is_large'] = f'amount > {r.choice([100, 200, 500])}'
    if r.random() < 0.2:
        variables['is_q1'] = 'month <= 3'
    if r.random() < 0.25:
        variables['size_lbl'] = r.choice(['"large" if amount >= 500 else "small"', 'lowercase(source)', '"q" + "1" if month <= 3 else "later"'])   # used from tags only
    if r.random() < 0.25:
        variables['has_memo'] = r.choice(['contains(field.memo, "PROJ")', 'field.type == "ACH"', 'len(field.code) > 0'])   # undefined where the column is missing
    transforms = []
    if r.random() < 0.25:
        transforms.append(('field.description', r.choice([
            'regex_replace(field.description, "^(UBER|AMAZON)\\\\s+", "")',
            'uppercase(field.description)',
            'strip_prefix(field.description, "STARBUCKS ")',
            'regex_replace(field.description, "\\\\s+\\\\*PENDING", "")'])))
    if r.random() < 0.1:
        transforms.append(('field.memo', 'trim(field.memo)'))
    rules = []
    names_used = set()
    shared_expr = None
    for i in range(n):
        tag_only = r.random() < 0.3
        cat = r.choice(CATS)
        name = r.choice(['Rule', 'Shop', 'Ride', 'Tag', 'Big', 'X']) + str(i)
        if dup_names and rules and r.random() < 0.25:
            name = r.choice(rules)['name']        # several sections may carry the same name ([Amazon] … [Amazon])
        m = gen_match(r, txn, tuple(variables))
        if force_ties and shared_expr is not None and r.random() < 0.5:
            m = shared_expr
        if shared_expr is None:
            shared_expr = m
        if 'has_memo' in variables and r.random() < 0.4:
            m = r.choice([f'not has_memo and {m}', f'has_memo or {m}', f'{m} and not has_memo', f'not (has_memo and {m})'])
        rule = {'name': name, 'match': m}
        if not tag_only:
            rule['category'] = cat[0]
            if cat[1] and r.random() < 0.7:
                rule['subcategory'] = cat[1]
        elif r.random() < 0.1:
            rule['subcategory'] = 'SubOnly'
        if tag_only or r.random() < 0.45:
            rule['tags'] = gen_tags(r, txn)
            if 'size_lbl' in variables and r.random() < 0.5:
                rule['tags'].append(r.choice(['{size_lbl}', '{Size_Lbl}']))
        if r.random() < 0.3:
            rule['merchant'] = r.choice(['Uber', 'Amazon', 'Some Shop', name.upper()])
        if r.random() < 0.25:
            rule['priority'] = r.choice([10, 50, 60, 100, -5, 0, 0, 1])
        if r.random() < 0.15:
            rule['lets'] = [('big', 'amount > 100'), ('lbl', 'lowercase(description)')][:r.choice([1, 2])]
            if r.random() < 0.5:
                rule['match'] = rule['match'] + ' and (big or amount <= 100)'
            if r.random() < 0.6:
                # a dynamic tag that reads the rule's OWN let binding: resolved in that rule's scope, wherever the rule sits in the file
                rule['tags'] = list(rule.get('tags', [])) + [r.choice(['{big}', '{lbl}', '{Big}', '{"b" if big else "s"}'][:2 * len(rule['lets'])] or ['{big}'])]
        if let_twins and r.random() < 0.3:
            rule['lets'] = [('hit', gen_match(r, txn, tuple(variables)))]
            rule['match'] = r.choice(['hit', 'hit and amount == amount'])
        if r.random() < 0.15 and not tag_only:
            rule['fields'] = [('kind', 'extract(description, "([A-Z]+)")'), ('amt2', 'amount * 2')][:r.choice([1, 2])]
        rules.append(rule)
    if walrus_twins and len(rules) >= 2:
        # one rule binds a name with := , another rule uses the SAME name through `let:` or a top-level variable: rules are independent
        words = [w for w in txn['description'].upper().split() if w.isalnum()] or ['UBER']
        name = r.choice(['code', 'big', 'k'])
        i, j = r.sample(range(len(rules)), 2)
        rules[i]['match'] = f'({name} := extract(description, "([A-Z]+)")) == "{r.choice(words + ["ZZZ"])}" or {name} != "" and {rules[i]["match"]}'
        rules[i].pop('lets', None)
        if r.random() < 0.5:
            rules[j]['lets'] = [(name, r.choice(['"X"', 'amount > 100', 'lowercase(description)']))]
            rules[j]['match'] = r.choice([f'{name} == "X"', f'{name} == true', f'{name} == "{txn["description"].lower()}"', f'exists({name})'])
        else:
            variables[name] = r.choice(['"X"', 'amount > 100'])
            rules[j]['match'] = r.choice([f'{name} == "X"', f'{name} == true', f'not {name} == "{words[0]}"'])
            rules[j].pop('lets', None)
    if odd_values:
        # merchant / category / subcategory are free text to the end of the line (surrounding blanks apart)
        for rule in rules:
            if 'category' in rule and r.random() < 0.4:
                rule['category'] = r.choice(['Kids #1', 'Food & Drink', 'A: B', 'Fuel #2 card', 'Café', 'x = y', 'R&D (lab)', 'Rent, utilities', '"Quoted"', "It's",
                                             'a#b', 'Tax 2024/25', 'Größe'])
            if 'subcategory' in rule and r.random() < 0.4:
                rule['subcategory'] = r.choice(['Store #12', 'Sub: one', 'p/q', '# not a comment?'.replace('# ', 'No. #'), 'x  y', 'ÄÖ'])
            if r.random() < 0.5:
                # a tag is free text up to the next top-level comma; an {expression} tag is an expression: '#', ';', '//' are ordinary characters in both
                extra = r.sample(['#travel', 'trip #2', 'a # b', '{extract(description, "STORE #(\\\\d+)")}', '{extract(description, "(\\\\w+) #\\\\d+")}',
                                  '{"no. #" + source}', 'x;y', '// z', '{extract(description, "# ?(\\\\d+)")}', 'late # fee'], r.choice([1, 2]))
                pos = r.randint(0, len(rule.get('tags', [])))
                rule['tags'] = rule.get('tags', [])[:pos] + extra + rule.get('tags', [])[pos:]
            if r.random() < 0.3:
                rule['merchant'] = r.choice(['Safeway #1234', 'Safeway #99', "Joe's #2", 'A & B', 'Shop: Main St', 'M (East)', 'X #A1 # B2'])
    if long_patterns and rules:
        # one rule becomes a catch-all alternation of many spellings (true of the transaction): hundreds of characters of pattern text
        words = [w for w in txn['description'].upper().split() if w.isalnum()] or ['UBER']
        alts = [r.choice(words)] + [r.choice(MERCHANT_TOKENS) + r.choice(['', ' STORE', ' INC', ' 12', ' MARKETPLACE']) for _ in range(r.choice([10, 18, 30, 60]))]
        r.shuffle(alts)
        victim = r.choice(rules)
        victim['match'] = 'regex("' + '|'.join(alts) + '")' + (r.choice(['', '', f' and {pattern_atom(r, txn, tuple(variables))}']))
        victim.pop('lets', None)
    return {'variables': variables, 'transforms': transforms, 'rules': rules}


def render_rules(f):
    out = []
    for k, v in f['variables'].items():
        out.append(f'{k} = {v}')
    for k, v in f['transforms']:
        out.append(f'{k} = {v}')
    out.append('')
    for rule in f['rules']:
        out.append(f'[{rule["name"]}]')
        for n, e in rule.get('lets', []):
            out.append(f'let: {n} = {e}')
        out.append(f'match: {rule["match"]}')
        for key in ('category', 'subcategory', 'merchant'):
            if key in rule:
                out.append(f'{key}: {rule[key]}')
        if 'tags' in rule:
            out.append('tags: ' + ', '.join(rule['tags']))
        if 'priority' in rule:
            out.append(f'priority: {rule["priority"]}')
        for n, e in rule.get('fields', []):
            out.append(f'field: {n} = {e}')
        out.append('')
    return '\n'.join(out)


# ---- legacy CSV rule files ---------------------------------------------------------------------------------

def gen_csv_rules(r, txn, n=None, expression_like=True):
    """List of (pattern_with_modifiers, merchant, category, subcategory, tags)."""
    n = n if n is not None else r.choice([1, 2, 3, 4, 6])
    words = txn['description'].upper().split()
    rows = []
    # a file whose patterns carry their own group structure (numbered groups, back-references, conditionals, named groups, scoped
    # flags): each row is a regular expression ON ITS OWN - its groups are numbered within the row, whatever the other rows contain
    grouped = r.random() < 0.3
    for i in range(n):
        hit = r.random() < 0.6
        tok = r.choice(words) if hit else r.choice(MERCHANT_TOKENS)
        k = r.random()
        if grouped and tok.isalnum() and r.random() < 0.8:
            other = r.choice(MERCHANT_TOKENS)
            pat = r.choice([f'({tok}|{other})', f'^(?=.*({tok})).*\\1', f'(?:({tok})|ZZZ9)(?(1)|QQQ9)', f'(?P<m>{tok})',
                            f'^(?=.*(?P<w>{tok})).*(?P=w)', f'(?i:{tok.lower()})', f'({tok[0]}){tok[1:]}', f'({other})?{tok}(?(1)ZZZ9|)',
                            f'(({tok}))\\2?'])
        elif k < 0.45:
            pat = tok
        elif k < 0.6:
            pat = f'{tok}\\s*\\S*'
        elif k < 0.7:
            pat = f'^{words[0] if hit else tok}'
        elif k < 0.8:
            pat = f'{tok}(?!.*ZZZ)'
        elif k < 0.9 and expression_like:
            other = r.choice(MERCHANT_TOKENS)
            pat = r.choice([f'({tok}|{other})', f'{tok} and {other}', f'({tok})', f'{other} or {tok}'])
        else:
            pat = f'{tok.title()}'
        mods = ''
        m = r.random()
        a = txn['amount']
        if m < 0.15:
            mods += f'[amount>{r.choice([abs(a), 50, 100])}]'
        elif m < 0.25:
            mods += f'[amount<{r.choice([abs(a) + 1, 50, 100])}]'
        elif m < 0.32:
            mods += f'[amount={abs(a)}]'
        elif m < 0.4:
            mods += f'[amount:{r.choice([0, 10])}-{r.choice([100, 500, 5000])}]'
        if txn.get('date') and r.random() < 0.15:
            d = txn['date']
            mods += r.choice([f'[date={d.isoformat()}]', f'[month={d.month}]', f'[month={(d.month % 12) + 1}]',
                              f'[date:{d.year}-01-01..{d.year}-06-30]'])
        tag_only = r.random() < 0.25
        cat = r.choice(CATS)
        tags = '|'.join(r.sample(['business', 'Travel', '{field.type}', 'income'], r.choice([0, 0, 1, 2])))
        if tag_only and not tags:
            tags = 'misc'
        cell = pat + mods
        if mods and r.random() < 0.1:
            cell = mods                        # a row that says only "[amount>=1000]": the empty pattern is found in every description
        if rows and r.random() < 0.12:
            cell = r.choice(rows)[0]           # merged / appended files repeat a Pattern cell; the EARLIER row still decides
        rows.append((cell, f'M{i} {tok.title()}', '' if tag_only else cat[0], '' if tag_only else cat[1], tags))
    return rows


def gen_csv_rules_grouped(r, txn):
    """A legacy file in which FEW rows match and every row has its own group structure: the rows that do not match carry
    capturing / named groups too.  Whatever a loader does with the list as a whole (joins, renumbers, compiles once), each
    row must keep meaning what it means alone: the first matching row with a category decides."""
    words = [w for w in txn['description'].upper().split() if w.isalnum()] or ['UBER']
    absent = [t for t in MERCHANT_TOKENS if t not in txn['description'].upper()] or ['ZZZQ']
    n = r.choice([2, 3, 4, 6])
    k_hit = r.sample(range(n), r.choice([1, 1, 2]) if n > 1 else 1)
    rows = []
    for i in range(n):
        if i in k_hit:
            tok = r.choice(words)
            pat = r.choice([f'^(?=.*({tok})).*\\1', f'(?:({tok})|ZZZ9)(?(1)|QQQ9)', f'^(?=.*(?P<w{i}>{tok})).*(?P=w{i})',
                            f'(({tok}))\\2', f'({tok[0]}){tok[1:]}(?=.*\\1)?', f'(ZZZ9)?{tok}(?(1)QQQ9|)', f'(?P<m>{tok})', tok])
        else:
            tok = r.choice(absent)
            pat = r.choice([f'({tok}|{r.choice(absent)})', f'({tok})\\s*(\\d+)', f'(?P<m>{tok})', f'(?P<a{i}>{tok})x?', f'{tok}', f'(({tok}))',
                            f'({tok})(?(1)x|y)'])
        tag_only = r.random() < 0.2
        cat = r.choice(CATS)
        rows.append((pat, f'G{i} {tok.title()}', '' if tag_only else cat[0], '' if tag_only else cat[1], 'grp' if tag_only else ''))
    return rows


def render_csv_rules(rows):
    import csv
    import io
    buf = io.StringIO()
    w = csv.writer(buf, lineterminator='\n')
    w.writerow(['Pattern', 'Merchant', 'Category', 'Subcategory', 'Tags'])
    for row in rows:
        w.writerow(row)
    return buf.getvalue()
