"""Generators for rule expressions.

* `rep_values()`            representatives of every value kind the language can build (for the operator × type table)
* `table_cells()`           every operator / comparison / unary / function applied to representative operands
* `gen_expr(r, ty, env)`    type-directed random expressions (well-typed; `illtyped` > 0 plants type errors)
* `enum_small(...)`         ALL expressions up to a given number of operators over a compact grammar
"""
import datetime
import itertools

BINOPS = ['+', '-', '*', '/', '%']
CMPOPS = ['==', '!=', '<', '<=', '>', '>=', 'in', 'not in']


def rep_values():
    d = datetime.date(2025, 3, 14)
    return {
        'none': None, 'true': True, 'false': False,
        'i0': 0, 'i5': 5, 'ineg': -3, 'ibig': 2 ** 62,
        'f0': 0.0, 'f25': 2.5, 'fneg': -0.75, 'fnan': float('nan'), 'finf': float('inf'),
        's_empty': '', 's_abc': 'abc', 's_ABC': 'ABC xyz', 's_iso': '2025-03-14', 's_num': '12', 's_na': 'straße',
        'date': d, 'date2': datetime.date(2024, 12, 31), 'td': datetime.timedelta(days=3),
        'l_empty': [], 'l_int': [3, 1, 2], 'l_str': ['b', 'A'], 'l_mix': [1, 'a', None],
        'row': {'item': 'Book', 'amount': 12.5}, 'rows': [{'item': 'Book', 'amount': 12.5}, {'item': 'Pen', 'amount': 3.0}],
    }


SMALL = ['none', 'true', 'i0', 'i5', 'f25', 's_empty', 's_abc', 'date', 'l_int', 'row']


def table_cells(thorough=False):
    """Yield (expr_text, variables) pairs; operands are injected as variables a, b, c."""
    reps = rep_values()
    names = list(reps)
    for op in BINOPS + CMPOPS:
        for x in names:
            for y in names:
                yield f'a {op} b', {'a': reps[x], 'b': reps[y]}, f'{op}:{x}:{y}'
    for x in names:
        v = {'a': reps[x]}
        for e in ('not a', '-a', 'a if a else 0', 'a and a', 'a or 1', 'len(a)', 'sum(a)', 'any(a)', 'all(a)', 'min(a)', 'max(a)',
                  'next(a)', 'next(a, 0)', 'exists(a)', 'a[0]', 'a["item"]', 'a[-1]', 'a.item', 'a.lower()', 'a.upper()', 'a.strip()',
                  'a.bogus()', '[x for x in a]', 'sum(x for x in a)', 'any(x for x in a)', 'next(x for x in a)',
                  'min(x for x in a)', 'len([x for x in a if x])', 'abs(a)', 'round(a)', 'trim(a)', 'uppercase(a)', 'lowercase(a)',
                  'contains(a)', 'regex(a)', 'normalized(a)', 'anyof(a)', 'startswith(a)', 'fuzzy(a)', 'extract(a)',
                  'a < a < a', '1 < a < 10', 'a == a', 'a in a', 'date >= a', 'a >= date', 'description == a', 'amount + a'):
            yield e, v, f'{e}:{x}'
    two = names if thorough else SMALL + ['s_ABC', 'l_str', 'ineg', 'f0', 's_num']
    for x in two:
        for y in two:
            v = {'a': reps[x], 'b': reps[y]}
            for e in ('contains(a, b)', 'regex(a, b)', 'normalized(a, b)', 'anyof(a, b)', 'startswith(a, b)', 'fuzzy(a, b)',
                      'extract(a, b)', 'split(a, b)', 'substring(a, b)', 'strip_prefix(a, b)', 'strip_suffix(a, b)', 'round(a, b)',
                      'min(a, b)', 'max(a, b)', 'sum(a, b)', 'next(a, b)', 'a.startswith(b)', 'a.endswith(b)', 'a[b]',
                      'trim(a, b)', 'abs(a, b)', 'uppercase(a, b)', 'len(a, b)', 'exists(a, b)'):
                yield e, v, f'{e}:{x}:{y}'
    three = SMALL if thorough else ['none', 'i0', 'i5', 'f25', 's_abc', 's_empty', 'l_int']
    for x in three:
        for y in three:
            for z in three:
                v = {'a': reps[x], 'b': reps[y], 'c': reps[z]}
                for e in ('split(a, b, c)', 'substring(a, b, c)', 'fuzzy(a, b, c)', 'regex_replace(a, b, c)', 'a.replace(b, c)',
                          'min(a, b, c)', 'a if b else c'):
                    yield e, v, f'{e}:{x}:{y}:{z}'


# ------------------------------------------------------------------ type-directed random expressions

def caseify(r, name):
    k = r.random()
    if k < 0.8:
        return name
    if k < 0.9:
        return name.upper()
    return name.capitalize()


class Env:
    def __init__(self, txn, variables=None, sources=None):
        self.txn = txn
        self.variables = variables or {}      # name -> ('num'|'str'|'bool', value)
        self.sources = sources or {}          # name -> list of row dicts
        self.binders = []                     # [(name, source_name)]
        self.words = (txn.get('description') or 'X').split() or ['X']

    def fields(self):
        return sorted((self.txn.get('field') or {}).keys())


def lit_str(r, env, hit=None):
    hit = r.random() < 0.6 if hit is None else hit
    w = r.choice(env.words) if hit else r.choice(['ZZZ', 'NETFLIX', 'q', ''])
    w = r.choice([w, w.lower(), w.upper(), w.title()])
    return '"' + w.replace('\\', '').replace('"', '') + '"'


def gen_num(r, env, depth, ill):
    k = r.random()
    if depth <= 0 or k < 0.35:
        opts = ['amount', 'month', 'year', 'day', 'weekday', 'txn.amount', '0', '1', '100', '2.5', '0.01',
                repr(env.txn.get('amount', 0)), repr(round((env.txn.get('amount', 0) or 0) + 0.01, 2))]
        opts += [n for n, (t, _) in env.variables.items() if t == 'num']
        for b, src in env.binders:
            opts += [f'{b}.amount'] * 3
        return caseify(r, r.choice(opts)) if r.random() < 0.9 else r.choice(opts)
    if k < 0.6:
        return f'({gen_num(r, env, depth - 1, ill)} {r.choice(BINOPS)} {gen_num(r, env, depth - 1, ill)})'
    if k < 0.66:
        return f'-{gen_num(r, env, depth - 1, ill)}'
    if k < 0.72:
        return f'{caseify(r, "abs")}({gen_num(r, env, depth - 1, ill)})'
    if k < 0.77:
        return f'round({gen_num(r, env, depth - 1, ill)}{r.choice(["", ", 1", ", 2", ", 0"])})'
    if k < 0.82:
        return f'len({gen_str(r, env, depth - 1, ill)})'
    if k < 0.9 and env.sources:
        s = r.choice(sorted(env.sources))
        b = r.choice(['r', 'x', 'o'])
        env.binders.append((b, s))
        try:
            cond = f' if {gen_bool(r, env, depth - 1, ill)}' if r.random() < 0.6 else ''
            return r.choice([f'sum({b}.amount for {b} in {s}{cond})', f'len([{b} for {b} in {s}{cond}])',
                             f'max([{b}.amount for {b} in {s}{cond}] )', f'sum([{b}.amount for {b} in {s}{cond}], 0.5)'])
        finally:
            env.binders.pop()
    if k < 0.95:
        return f'({gen_num(r, env, depth - 1, ill)} if {gen_bool(r, env, depth - 1, ill)} else {gen_num(r, env, depth - 1, ill)})'
    return f'min({gen_num(r, env, depth - 1, ill)}, {gen_num(r, env, depth - 1, ill)})'


def gen_str(r, env, depth, ill):
    k = r.random()
    if depth <= 0 or k < 0.4:
        opts = ['description', 'source', 'txn.location', 'field.description', 'txn.source', lit_str(r, env), lit_str(r, env)]
        opts += [f'field.{f}' for f in env.fields()] * 2
        opts += [n for n, (t, _) in env.variables.items() if t == 'str']
        for b, src in env.binders:
            opts += [f'{b}.item'] * 3
        return r.choice(opts)
    s = lambda: gen_str(r, env, depth - 1, ill)
    if k < 0.48:
        return f'{r.choice(["uppercase", "lowercase", "trim"])}({s()})'
    if k < 0.56:
        return f'extract({s()}, "([A-Za-z]+)")' if r.random() < 0.5 else f'extract("{r.choice(env.words)[:3]}(\\\\w*)")'
    if k < 0.62:
        return f'split({s()}, " ", {r.choice([0, 1, -1, 5])})'
    if k < 0.68:
        return f'substring({s()}, {r.choice([0, 1, -3])}, {r.choice([2, 4, 100, -1])})'
    if k < 0.74:
        return f'strip_prefix({s()}, {lit_str(r, env)})' if r.random() < 0.5 else f'strip_suffix({s()}, {lit_str(r, env)})'
    if k < 0.8:
        return f'{s()}.{r.choice(["lower", "upper", "strip", "LOWER"])}()'
    if k < 0.84:
        return f'{s()}.replace({lit_str(r, env)}, "-")'
    if k < 0.88:
        return f'regex_replace({s()}, "[0-9]+", "#")'
    if k < 0.92:
        return f'({s()} + {s()})'
    if k < 0.97 and env.sources:
        src = r.choice(sorted(env.sources))
        b = r.choice(['r', 'x'])
        env.binders.append((b, src))
        try:
            return f'next(({b}.item for {b} in {src} if {gen_bool(r, env, depth - 1, ill)}), "none")'
        finally:
            env.binders.pop()
    return f'({s()} if {gen_bool(r, env, depth - 1, ill)} else {s()})'


def gen_bool(r, env, depth, ill):
    if ill and r.random() < ill:
        # plant a type error: an operand of the wrong kind
        return r.choice([
            f'{gen_str(r, env, 0, 0)} > {gen_num(r, env, 0, 0)}', f'contains({gen_num(r, env, 0, 0)})',
            f'{gen_num(r, env, 0, 0)} + {gen_str(r, env, 0, 0)} == 1', f'-{gen_str(r, env, 0, 0)} == 1',
            f'len({gen_num(r, env, 0, 0)}) > 0', f'startswith({gen_str(r, env, 0, 0)}, 5)', 'date > 5', 'field.nope == "x"',
            'nosuchvar', f'regex("(")', f'regex_replace(description, "(", "") == ""', 'next(r for r in nosuch)',
            f'max(x for x in {lit_str(r, env, True)} if x == "~") == "a"', 'amount.lower() == ""', 'description[99] == "a"',
            f'{gen_num(r, env, 0, 0)} in {gen_num(r, env, 0, 0)}', 'sum(description) > 0', 'date >= "not-a-date"',
            'substring("a", "b") == ""', 'split(" ", 1.5) == ""', 'unknown_fn(1)', 'description.title() == ""'])
    k = r.random()
    if depth <= 0 or k < 0.3:
        c = r.random()
        if c < 0.35:
            f = r.choice(['contains', 'startswith', 'normalized', 'regex', 'anyof', 'fuzzy'])
            if f == 'anyof':
                return f'anyof({lit_str(r, env, False)}, {lit_str(r, env)})'
            if f == 'startswith':
                w = env.words[0] if r.random() < 0.6 else 'ZZ'
                return f'{caseify(r, f)}("{w}")'
            if r.random() < 0.25 and env.fields():
                return f'{f}(field.{r.choice(env.fields())}, {lit_str(r, env)})'
            return f'{caseify(r, f)}({lit_str(r, env)})'
        if c < 0.55:
            return f'{gen_num(r, env, 0, 0)} {r.choice(["<", "<=", ">", ">=", "==", "!="])} {gen_num(r, env, 0, 0)}'
        if c < 0.65:
            return f'{gen_str(r, env, 0, 0)} {r.choice(["==", "!="])} {gen_str(r, env, 0, 0)}'
        if c < 0.73:
            return f'{lit_str(r, env)} {r.choice(["in", "not in"])} {gen_str(r, env, 0, 0)}'
        if c < 0.83 and env.txn.get('date'):
            d = env.txn['date'] + datetime.timedelta(days=r.choice([-40, -1, 0, 1, 40]))
            return f'date {r.choice(["<", "<=", ">", ">=", "==", "!="])} "{d.isoformat()}"'
        if c < 0.9:
            return f'exists({r.choice(["field.memo", "field.nope", "field.type", "description", "txn.location"])})'
        return r.choice(['true', 'false', 'True', 'FALSE'] + [n for n, (t, _) in env.variables.items() if t == 'bool'])
    b = lambda: gen_bool(r, env, depth - 1, ill)
    if k < 0.5:
        return f'({b()} and {b()})'
    if k < 0.66:
        return f'({b()} or {b()})'
    if k < 0.76:
        return f'not {b()}'
    if k < 0.84:
        n = lambda: gen_num(r, env, depth - 1, ill)
        return f'{n()} {r.choice(["<", "<="])} {n()} {r.choice(["<", "<=", ">", "=="])} {n()}'
    if k < 0.92 and env.sources:
        src = r.choice(sorted(env.sources))
        v = r.choice(['r', 'x', 'o'])
        env.binders.append((v, src))
        try:
            inner = gen_bool(r, env, depth - 1, ill)
            return r.choice([f'any({inner} for {v} in {src})', f'all({inner} for {v} in {src})',
                             f'len([{v} for {v} in {src} if {inner}]) > 0',
                             f'(m := [{v}.item for {v} in {src} if {inner}]) and len(m) >= 1'])
        finally:
            env.binders.pop()
    if k < 0.96:
        return f'({b()} if {b()} else {b()})'
    return f'{gen_str(r, env, depth - 1, ill)}.{r.choice(["startswith", "endswith"])}({lit_str(r, env)})'


def gen_expr(r, env, ty='bool', depth=3, illtyped=0.0):
    return {'bool': gen_bool, 'num': gen_num, 'str': gen_str}[ty](r, env, depth, illtyped)


# ------------------------------------------------------------------ exhaustive small expressions

LEAVES = ['amount', '0', '2.5', 'description', '"UBER"', '""', 'date', '"2025-03-14"', 'true', 'field.memo', 'rows', 'month']
UNARY = ['not {}', '-{}', 'len({})', 'contains({})', 'exists({})', 'trim({})', 'abs({})', 'any({})', '{}.lower()',
         'sum(r.amount for r in {})', '[r.item for r in {}]']
BINARY = ['{} + {}', '{} - {}', '{} * {}', '{} / {}', '{} % {}', '{} == {}', '{} != {}', '{} < {}', '{} >= {}', '{} in {}',
          '{} not in {}', '{} and {}', '{} or {}', 'contains({}, {})', 'startswith({}, {})', 'min({}, {})']
TERNARY = ['{} if {} else {}', '{} < {} < {}', '{} <= {} == {}']


def enum_small(max_ops=2):
    """All expressions with at most `max_ops` operators over LEAVES/UNARY/BINARY/TERNARY (deterministic order)."""
    level = {0: list(LEAVES)}
    for n in range(1, max_ops + 1):
        out = []
        for u in UNARY:
            for e in level[n - 1]:
                out.append(u.format(f'({e})' if n > 1 else e))
        for b in BINARY:
            for i in range(0, n):
                j = n - 1 - i
                for x in level[i]:
                    for y in level[j]:
                        out.append(b.format(f'({x})' if i else x, f'({y})' if j else y))
        if n >= 1:
            for t in TERNARY:
                for combo in itertools.product(level[0], repeat=3) if n == 1 else []:
                    out.append(t.format(*combo))
        level[n] = out
    for n in range(0, max_ops + 1):
        for e in level[n]:
            yield e
