"""Run /repo's test-suite and compare with the pinned baseline (stable_pass list in /root/.vp/BASELINE.json)."""
import json
import os
import subprocess
import sys
import tempfile
import xml.etree.ElementTree as ET


def main(repo='/repo'):
    base = json.load(open('/root/.vp/BASELINE.json'))
    want = set(base['stable_pass'])
    with tempfile.TemporaryDirectory() as d:
        x = os.path.join(d, 'j.xml')
        subprocess.run(['/venv/bin/python', '-m', 'pytest', '-q', '-p', 'no:cacheprovider', '--timeout=900',
                        '--continue-on-collection-errors', f'--junitxml={x}'], cwd=repo,
                       stdout=subprocess.DEVNULL, stderr=subprocess.DEVNULL, env=dict(os.environ, PYTHONPATH=os.path.join(repo, 'src')))
        passed = set()
        for tc in ET.parse(x).getroot().iter('testcase'):
            if not any(ch.tag in ('failure', 'error', 'skipped') for ch in tc):
                passed.add(f"{tc.get('classname')}::{tc.get('name')}")
    missing = sorted(want - passed)
    print(f'baseline stable_pass: {len(want)}; passing now: {len(want & passed)}; missing: {len(missing)}')
    for m in missing[:20]:
        print('  MISSING', m)
    return 0 if not missing else 1


if __name__ == '__main__':
    sys.exit(main(*sys.argv[1:]))
