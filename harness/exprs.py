"""Python side of the expression-evaluator correspondence.

* `ast_json`   Python's own AST → JSON, by a walker over `_fields` (not ast.iter_child_nodes)
* `val_json`   canonical tagged JSON for values (floats as IEEE bit patterns)
* `impl_eval`  the real evaluator, outcome mapped to {ok | expr | py(cls)}
* `model_eval` the Lean model through tvdrv, with a demand-driven oracle table: when the model needs a
               CPython primitive (regex, Unicode case mapping, float printing, round, difflib ratio,
               fromisoformat) it says so, the harness computes exactly that primitive with CPython and re-runs.
"""
import ast
import datetime
import difflib
import math
import re
import types

from . import common
from .common import float_bits


def ast_json(node):
    if isinstance(node, ast.Constant):
        return {'k': 'Constant', 'v': val_json(node.value, True)}
    d = {'k': type(node).__name__}
    for f in node._fields:
        v = getattr(node, f, None)
        if f in ('ctx', 'kind', 'type_comment', 'lineno'):
            continue
        if isinstance(v, ast.AST):
            if f in ('op',):
                d[f] = type(v).__name__
            else:
                d[f] = ast_json(v)
        elif isinstance(v, list):
            if f == 'ops':
                d[f] = [type(x).__name__ for x in v]
            else:
                d[f] = [ast_json(x) if isinstance(x, ast.AST) else x for x in v]
        else:
            d[f] = v
    return d


def val_json(v, inp=False):
    """inp=True: an INPUT to the model (NaN keeps its bit pattern); outputs canonicalise NaN."""
    if v is None:
        return {'t': 'none'}
    if isinstance(v, bool):
        return {'t': 'bool', 'v': v}
    if isinstance(v, int):
        return {'t': 'int', 'v': str(v)}
    if isinstance(v, float):
        return {'t': 'flt', 'v': 'nan' if (math.isnan(v) and not inp) else float_bits(v)}
    if isinstance(v, str):
        return {'t': 'str', 'v': v}
    if isinstance(v, datetime.datetime):
        return {'t': 'other', 'v': 'datetime'}
    if isinstance(v, datetime.date):
        return {'t': 'date', 'v': [v.year, v.month, v.day]}
    if isinstance(v, datetime.timedelta):
        if v.seconds == 0 and v.microseconds == 0:
            return {'t': 'td', 'v': str(v.days)}
        return {'t': 'other', 'v': 'timedelta-with-seconds'}
    if isinstance(v, list):
        return {'t': 'list', 'v': [val_json(x, inp) for x in v]}
    if isinstance(v, dict):
        return {'t': 'row', 'v': [[str(k), val_json(x, inp)] for k, x in v.items()]}
    if isinstance(v, types.GeneratorType):
        return {'t': 'gen'}
    if isinstance(v, bytes):
        return {'t': 'other', 'v': 'bytes'}
    if isinstance(v, complex):
        return {'t': 'other', 'v': 'complex'}
    if v is Ellipsis:
        return {'t': 'other', 'v': 'ellipsis'}
    return {'t': 'other', 'v': type(v).__name__}


def nan_in(vj):
    if vj.get('t') == 'flt':
        return vj['v'] == 'nan'
    if vj.get('t') == 'list':
        return any(nan_in(x) for x in vj['v'])
    if vj.get('t') == 'row':
        return any(nan_in(x[1]) for x in vj['v'])
    return False


def ctx_json(txn, variables=None, data_sources=None):
    """Mirror of TransactionContext.from_transaction (what the evaluator can see)."""
    amount = txn.get('amount', 0.0)
    d = txn.get('date')
    return {
        'description': txn.get('description', txn.get('raw_description', '')),
        'amount': val_json(amount, True),
        'date': val_json(d, True) if d else {'t': 'none'},
        'source': txn.get('source') or '',
        'location': txn.get('location') or '',
        'field': None if txn.get('field') is None else [[k, val_json(v, True)] for k, v in txn['field'].items()],
        'variables': [[k, val_json(v, True)] for k, v in (variables or {}).items()],
        'sources': [[k, val_json(v, True)] for k, v in (data_sources or {}).items()],
    }


def has_lone_surrogate(s):
    return any(0xD800 <= ord(c) <= 0xDFFF for c in s)


def oracle_compute(prim, args):
    """Exactly one CPython primitive — never tally code."""
    if prim == 'upper':
        return args[0].upper()
    if prim == 'lower':
        return args[0].lower()
    if prim == 're_search':
        try:
            return bool(re.compile(args[0], re.IGNORECASE).search(args[1]))
        except re.error:
            return None
    if prim == 're_extract':
        try:
            m = re.search(args[0], args[1], re.IGNORECASE)
            return m.group(1) if (m and m.groups()) else ''
        except re.error:
            return None
        except (IndexError, TypeError):
            return ''
    if prim == 're_sub':
        try:
            return re.sub(args[0], args[1], args[2], flags=re.IGNORECASE)
        except re.error:
            return None
    if prim == 'ratio':
        return float_bits(difflib.SequenceMatcher(None, args[0], args[1]).ratio())
    if prim == 'isodate':
        try:
            d = datetime.date.fromisoformat(args[0])
            return [d.year, d.month, d.day]
        except ValueError:
            return None
    if prim == 'fltstr':
        from .common import bits_float
        return str(bits_float(args[0]))
    if prim == 'fmod':
        from .common import bits_float
        return float_bits(bits_float(args[0]) % bits_float(args[1]))
    if prim == 'round':
        from .common import bits_float
        x = bits_float(args[0])
        try:
            r = round(x) if len(args) == 1 else round(x, int(args[1]))
            return val_json(r)
        except (OverflowError, ValueError) as e:
            return {'t': 'other', 'v': 'raise:' + type(e).__name__}
    raise KeyError(prim)


def extract_group_none(pattern, text):
    return None


def model_eval(cases, max_rounds=80, op='eval'):
    """cases: [{'expr': ast-json, 'ctx': ctx-json, 'convert_py': bool}] → list of outcomes.
    Outcome: {'ok': val} | {'err': 'expr'} | {'err': 'py', 'cls': …} | {'err': 'unmodelled', 'why': …}."""
    d = common.Driver()
    tables = [[] for _ in cases]
    results = [None] * len(cases)
    pending = list(range(len(cases)))
    for _ in range(max_rounds):
        if not pending:
            break
        batch = [dict(cases[i], op=op, oracle=tables[i]) for i in pending]
        outs = d.batch(batch)
        nxt = []
        for i, o in zip(pending, outs):
            if 'need' in o:
                prim, args = o['need'][0], o['need'][1:]
                try:
                    tables[i].append([prim, args, oracle_compute(prim, args)])
                    nxt.append(i)
                except Exception as e:           # a primitive the harness cannot answer
                    results[i] = {'err': 'unmodelled', 'why': f'oracle {prim}: {type(e).__name__}'}
            else:
                results[i] = o
        pending = nxt
    for i in pending:
        results[i] = {'err': 'unmodelled', 'why': 'oracle rounds exhausted'}
    out = []
    for r in results:
        r = dict(r)
        r.pop('id', None)
        # round() raising is shipped as an 'other' value: map it to the Python exception it stands for
        if 'ok' in r and r['ok'].get('t') == 'other' and str(r['ok'].get('v', '')).startswith('raise:'):
            r = {'err': 'py', 'cls': r['ok']['v'][6:]}
        out.append(r)
    return out


def impl_outcome(fn):
    from tally import expr_parser as EP
    try:
        return {'ok': val_json(fn())}
    except EP.ExpressionError:
        return {'err': 'expr'}
    except RecursionError:
        return {'err': 'py', 'cls': 'RecursionError'}
    except Exception as e:
        return {'err': 'py', 'cls': type(e).__name__}


def impl_eval(expr, txn, variables=None, data_sources=None, root=True):
    """root=True: through `_eval_Expression` (where Python exceptions become ExpressionError);
    root=False: the expression body directly, so that the raw exception class is observed."""
    from tally import expr_parser as EP
    if root:
        return impl_outcome(lambda: EP.evaluate_transaction(expr, txn, variables, data_sources))

    def body():
        tree = EP.parse_expression(expr)
        ctx = EP.TransactionContext.from_transaction(txn, variables, data_sources)
        return EP.TransactionEvaluator(ctx).evaluate(tree.body)
    return impl_outcome(body)


def parse_or_none(text):
    from tally import expr_parser as EP
    try:
        return ast_json(EP.parse_expression(text).body)
    except EP.ExpressionError:
        return None


def tag_spec(tag):
    """How `_resolve_tags` reads one raw tag text."""
    t = tag.strip()
    if not t:
        return {'k': 'blank'}
    if t.startswith('{') and t.endswith('}'):
        e = t[1:-1].strip()
        if not e:
            return {'k': 'blank'}
        return {'k': 'dynamic', 'expr': parse_or_none(e)}
    return {'k': 'static', 'text': t}


def engine_case(eng, txn, mode, data_sources=None):
    """op `engine`: the whole MerchantEngine.match on the evaluator model."""
    return {
        'mode': mode,
        'ctx': ctx_json(txn, None, data_sources),
        'variables': [[k, parse_or_none(v)] for k, v in eng.variables.items()],
        'rules': [{'line': r.line_number, 'name': r.name, 'merchant': r.merchant, 'category': r.category,
                   'subcategory': r.subcategory, 'priority': r.priority, 'match': r.match_expr,
                   'match_ast': parse_or_none(r.match_expr),
                   'lets': [[n, parse_or_none(e)] for n, e in r.let_bindings],
                   'tag_specs': [tag_spec(t) for t in sorted(r.tags)],
                   'field_asts': [[n, parse_or_none(e)] for n, e in r.fields.items()]} for r in eng.rules]}


def canon_field(v):
    import datetime as _dt
    if isinstance(v, bool):
        return f'bool:{v}'
    if isinstance(v, int):
        return f'int:{v}'
    if isinstance(v, float):
        return f'float:{float_bits(v)}'
    if isinstance(v, str):
        return f'str:{v}'
    if v is None:
        return 'NoneType:None'
    if isinstance(v, _dt.date) and not isinstance(v, _dt.datetime):
        return f'date:{v.isoformat()}'
    return f'{type(v).__name__}:?'


def same_outcome(a, b):
    a = {k: v for k, v in a.items() if k != 'scope'}
    b = {k: v for k, v in b.items() if k != 'scope'}
    return a == b
