"""Process seeded regressions produced by independent sub-agents.

usage: python -m harness.seeded verify <Cxx> <variant>     (in the seed worktree: demo fails with patch / passes without, suite count)
       python -m harness.seeded check  <Cxx> <variant>     (apply to /repo, run ./check Cxx quick, undo)
       python -m harness.seeded keep   <Cxx> <variant>     (copy into /verif/seeded/<Cxx>-<variant>/ with meta)
"""
import json
import os
import re
import shutil
import subprocess
import sys

VERIF = os.path.dirname(os.path.dirname(os.path.abspath(__file__)))


def sh(cmd, cwd=None, env=None, timeout=1800):
    e = dict(os.environ)
    if env:
        e.update(env)
    p = subprocess.run(cmd, cwd=cwd, env=e, shell=isinstance(cmd, str), stdout=subprocess.PIPE, stderr=subprocess.STDOUT, text=True, timeout=timeout)
    return p.returncode, p.stdout


def worktree(prop, variant):
    return {'C': '/tmp/seed2_', 'D': '/tmp/seed2_', 'E': '/tmp/seed3_', 'F': '/tmp/seed3_', 'G': '/tmp/seed4_', 'H': '/tmp/seed4_', 'I': '/tmp/seed5_', 'J': '/tmp/seed5_', 'K': '/tmp/seed6_', 'L': '/tmp/seed6_'}.get(variant, '/tmp/seed_') + prop


def out_dir(prop, variant):
    return f'{worktree(prop, variant)}/OUT/{variant}'


def verify(prop, variant, run_suite=True):
    wt = worktree(prop, variant)
    od = out_dir(prop, variant)
    env = {'PYTHONPATH': f'{wt}/src', 'PYTHONDONTWRITEBYTECODE': '1'}
    res = {}
    sh('git checkout -- . ', cwd=wt)
    rc, out = sh(['/venv/bin/python', f'{od}/demo.py'], cwd=wt, env=env, timeout=600)
    res['demo_clean_exit'] = rc
    rc, out = sh(['git', 'apply', f'{od}/patch.diff'], cwd=wt)
    res['patch_applies'] = rc == 0
    if rc == 0:
        rc, out = sh(['/venv/bin/python', f'{od}/demo.py'], cwd=wt, env=env, timeout=600)
        res['demo_patched_exit'] = rc
        res['demo_patched_output_tail'] = out[-600:]
        if run_suite:
            rc, out = sh(['/venv/bin/python', '-m', 'pytest', '-q', '-p', 'no:cacheprovider', '--timeout=900'], cwd=wt, env=env, timeout=1800)
            m = re.search(r'(\d+) passed', out)
            res['suite_passed_with_patch'] = int(m.group(1)) if m else None
    sh('git checkout -- . ', cwd=wt)
    res['ok'] = res.get('demo_clean_exit') == 0 and res.get('demo_patched_exit') == 1 and (not run_suite or (res.get('suite_passed_with_patch') or 0) >= 701)
    return res


def repo_clean():
    rc, out = sh('git status --porcelain', cwd='/repo')
    return out.strip() == ''


def undo():
    """git -C /repo checkout -- . (plus removal of files a patch added); the index is never touched by `git apply`."""
    sh('git checkout -- . && git clean -fdq src tests', cwd='/repo')


def patch_path(prop, variant):
    kept = os.path.join(VERIF, 'seeded', f'{prop}-{variant}', 'patch.diff')
    return kept if os.path.exists(kept) else os.path.join(out_dir(prop, variant), 'patch.diff')


def check(prop, variant, tiers=('quick',), props=None):
    if not repo_clean():
        raise SystemExit('/repo is not clean; refusing to apply a seeded change on top of it')
    rc, out = sh(['git', 'apply', patch_path(prop, variant)], cwd='/repo')
    res = {'applies_to_repo_head': rc == 0, 'runs': {}}
    try:
        if rc == 0:
            for p in (props or [prop]):
                for tier in tiers:
                    rc2, o = sh([f'{VERIF}/check', p, '--tier', tier], cwd=VERIF, timeout=3600)
                    lines = [l for l in o.split('\n') if l.startswith(('VIOLATION', 'KNOWN-FINDING', '['))]
                    res['runs'][f'{p}:{tier}'] = {'exit': rc2, 'lines': lines[-6:]}
    finally:
        undo()
    if not repo_clean():
        raise SystemExit('/repo not clean after undo')
    return res


def recheck(prop, variant, props=None):
    """Re-run the checks against a kept seeded change and update its meta.json."""
    dst = os.path.join(VERIF, 'seeded', f'{prop}-{variant}')
    meta = json.load(open(os.path.join(dst, 'meta.json')))
    cres = check(prop, variant, props=props)
    annotate(meta, cres)
    json.dump(meta, open(os.path.join(dst, 'meta.json'), 'w'), indent=1)
    return meta


def annotate(meta, cres):
    meta['checks'] = cres
    caught = {k: (v['exit'] == 1 and any(l.startswith('VIOLATION') for l in v['lines'])) for k, v in cres.get('runs', {}).items()}
    meta['caught_by'] = [k for k, v in caught.items() if v]
    meta['caught_with_concrete_replay'] = [k for k, v in cres.get('runs', {}).items() if any(l.startswith('VIOLATION') and 'no-failing-input-found' not in l for l in v['lines'])]


def keep(prop, variant, vres, cres):
    od = out_dir(prop, variant)
    dst = os.path.join(VERIF, 'seeded', f'{prop}-{variant}')
    os.makedirs(dst, exist_ok=True)
    for f in ('patch.diff', 'demo.py'):
        shutil.copy(os.path.join(od, f), os.path.join(dst, f))
    meta = json.load(open(os.path.join(od, 'meta.json')))
    meta['breaks_property'] = prop
    meta['confirmed'] = vres
    meta['what_i_ran'] = [f'git -C <scratch worktree> apply patch.diff; PYTHONPATH=<worktree>/src /venv/bin/python demo.py (exit {vres.get("demo_patched_exit")}); '
                          f'pytest ({vres.get("suite_passed_with_patch")} passed); git checkout; demo.py (exit {vres.get("demo_clean_exit")})',
                          'git -C /repo apply patch.diff; ./check <id> --tier quick; git -C /repo checkout -- .']
    annotate(meta, cres)
    json.dump(meta, open(os.path.join(dst, 'meta.json'), 'w'), indent=1)
    return meta


if __name__ == '__main__':
    cmd, prop, variant = sys.argv[1:4]
    if cmd == 'verify':
        print(json.dumps(verify(prop, variant), indent=1))
    elif cmd == 'check':
        print(json.dumps(check(prop, variant), indent=1))
    elif cmd == 'recheck':
        m = recheck(prop, variant, props=sys.argv[4:] or None)
        print(json.dumps({'caught_by': m['caught_by'], 'concrete': m['caught_with_concrete_replay'], 'runs': m['checks']['runs']}, indent=1))
    elif cmd == 'all':
        v = verify(prop, variant)
        c = check(prop, variant, props=sys.argv[4:] or None) if v['ok'] else {}
        m = keep(prop, variant, v, c) if v['ok'] else None
        print(json.dumps({'verify_ok': v['ok'], 'verify': {k: v[k] for k in v if k != 'demo_patched_output_tail'}, 'caught_by': m and m['caught_by'],
                          'concrete': m and m['caught_with_concrete_replay'], 'runs': c.get('runs')}, indent=1))
