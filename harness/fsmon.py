"""File-system monitor + step-indexed crash / fault injector for the real tally code (properties C15, C20).

Two pieces:

* **Server** (`python -m harness.fsmon --serve`, started by `Pool`): a `/venv/bin/python` subprocess with
  `$TALLY_REPO/src` first on `sys.path`.  It imports tally once and then **forks one child per run**: audit
  hooks cannot be removed and an injected crash leaves half-executed module state behind, so nothing of a
  run survives in the server (and nothing at all reaches the check's own process).  Budgets are built under
  a `tempfile.mkdtemp()` outside /verif and /repo and removed in a `finally`.

* **Child** (`_run_child`): installs
    - the *audit hook* (`sys.addaudithook`): every `open` with a writing mode/flag, `os.rename/replace/remove/
      mkdir/rmdir/truncate/chmod/utime/link/symlink`, `shutil.*` — the write trace used by C20;
    - the *injector*: `builtins.open` (write/append modes, returning a proxy that counts `write` and `close`),
      `shutil.move`, `os.makedirs`, `os.rename`, `os.replace` wrapped with an event counter.  Events are
      tagged like the model's (`Ev.tag`): "openW config/merchants.rules", "write", "close",
      "move a -> b", "replace a -> b", "mkdir p", "openA …".
      crash k   = `Crash(BaseException)` raised *before* event k (k events completed); afterwards the file
                  that was open is truncated to base + {none, half, all} of what had been written to it
                  (half = the first ⌊n/2⌋ write() calls if there were ≥ 2, else half of the single write);
      fault k   = event k raises `OSError(EIO)` once (a `close` is never made to fail).

The model never sees bytes: `recognise()` maps file contents back to the model's chunk notation
("orig:csv", "migrated:csv", "starter:settings", "line:mfKey", "cut(migrated:csv)", …).
"""
import builtins
import errno
import hashlib
import io
import json
import os
import shutil
import subprocess
import sys
import tempfile
import traceback

VERIF = os.path.dirname(os.path.dirname(os.path.abspath(__file__)))

# ------------------------------------------------------------------ concrete budgets

BANK = 'Date,Description,Amount\n2025-01-05,NETFLIX.COM,15.99\n2025-01-06,COSTCO WHSE,120.00\n2025-01-07,MYSTERY SHOP,5.00\n'
SETTINGS_HEAD = ('# user settings 7c1e\nyear: 2025\ndata_sources:\n  - name: Bank\n    file: data/bank.csv\n'
                 '    format: "{date:%Y-%m-%d},{description},{amount}"\n')
SETTINGS_EXTRA = {'plain': '', 'commentMF': '# merchants_file: config/merchants.rules\n',
                  'keyRules': 'merchants_file: config/merchants.rules\n',
                  'keyOther': 'merchants_file: config/other.rules\n'}
CSV_WITH = ('Pattern,Merchant,Category,Subcategory\n# user csv 41aa\nNETFLIX,Netflix,Subscriptions,Streaming\n'
            'COSTCO,Costco,Shopping,Wholesale\n')
CSV_HEADER = 'Pattern,Merchant,Category,Subcategory\n# nothing here yet 41ab\n'
USER_RULES = '# user rules 93f0\n[Netflix]\nmatch: contains("NETFLIX")\ncategory: Fun\nsubcategory: TV\n'
OTHER_RULES = '# other rules 55d2\n[Costco]\nmatch: contains("COSTCO")\ncategory: Elsewhere\nsubcategory: Bulk\n'
CSV_BAK = 'OLD BACKUP 0e77\nPattern,Merchant,Category,Subcategory\nHULU,Hulu,Subscriptions,Streaming\n'
VIEWS = '# user views 2b19\n[Big]\ndescription: big ones\nfilter: total > 100\n'
OLD_REPORT = '<html>OLD REPORT 6a6a</html>\n'
LINES = {'mfComment': '\n# Merchant rules file (migrated from CSV)\n', 'mfKey': 'merchants_file: config/merchants.rules\n',
         'vfComment': '\n# Views file (custom spending views)\n', 'vfKey': 'views_file: config/views.rules\n'}
REL = {'settings': 'config/settings.yaml', 'rules': 'config/merchants.rules', 'csv': 'config/merchant_categories.csv',
       'csvBak': 'config/merchant_categories.csv.bak', 'other': 'config/other.rules', 'views': 'config/views.rules',
       'stmt': 'data/bank.csv', 'report': 'output/spending_summary.html', 'schema': 'config/.tally-schema'}


def shape_files(shape):
    """{relpath: text} and [dirs] of a C15 `Shape` (dict with the fields of TallyVerif.Fs.Shape)"""
    files, dirs = {}, ['config']
    if shape['settings'] != 'absent':
        files[REL['settings']] = SETTINGS_HEAD + SETTINGS_EXTRA[shape['settings']] + \
            ('# views_file: config/views.rules\n' if shape.get('mentionsVF') else '')
    if shape['csv'] != 'absent':
        files[REL['csv']] = CSV_WITH if shape['csv'] == 'withRules' else CSV_HEADER
    if shape.get('rules'):
        files[REL['rules']] = USER_RULES
    if shape.get('csvBak'):
        files[REL['csvBak']] = CSV_BAK
    if shape['settings'] == 'keyOther':
        files[REL['other']] = OTHER_RULES
    if shape.get('views'):
        files[REL['views']] = VIEWS
    if shape.get('dirs'):
        dirs += ['data', 'output']
        files[REL['stmt']] = BANK
        files[REL['report']] = OLD_REPORT
    return files, dirs


def lshape_files(ls):
    files, dirs = {}, ['config']
    if ls.get('csvRules'):
        files[REL['settings']] = SETTINGS_HEAD
        files[REL['csv']] = CSV_WITH
    else:
        files[REL['settings']] = SETTINGS_HEAD + SETTINGS_EXTRA['keyRules']
        files[REL['rules']] = USER_RULES
    if ls.get('schema'):
        files[REL['schema']] = '1\n'
    if ls.get('data'):
        dirs.append('data'); files[REL['stmt']] = BANK
    if ls.get('output'):
        dirs.append('output'); files[REL['report']] = OLD_REPORT
    if ls.get('tallyDir'):
        dirs.append('tally')
    return files, dirs


def build(root, files, dirs, prefix=''):
    for d in dirs:
        os.makedirs(os.path.join(root, prefix, d), exist_ok=True)
    for rel, txt in files.items():
        p = os.path.join(root, prefix, rel)
        os.makedirs(os.path.dirname(p), exist_ok=True)
        with io.open(p, 'w', encoding='utf-8', newline='') as f:
            f.write(txt)


def snapshot(root):
    """{relpath: bytes}  (directories: value None)"""
    out = {}
    for dp, dns, fns in os.walk(root):
        for d in dns:
            out[os.path.relpath(os.path.join(dp, d), root)] = None
        for fn in fns:
            p = os.path.join(dp, fn)
            with io.open(p, 'rb') as f:
                out[os.path.relpath(p, root)] = f.read()
    return out


def restore(root, snap):
    for rel, b in sorted(snap.items()):
        p = os.path.join(root, rel)
        if b is None:
            os.makedirs(p, exist_ok=True)
        else:
            os.makedirs(os.path.dirname(p), exist_ok=True)
            with io.open(p, 'wb') as f:
                f.write(b)


# ------------------------------------------------------------------ content recognition

def known_chunks(originals, migrated, starters):
    """name -> bytes; originals: {'settings': text, …} by model atom name"""
    k = {}
    for name, txt in originals.items():
        k['orig:' + name] = txt.encode()
    if migrated is not None:
        k['migrated:csv'] = migrated.encode()
    for name, txt in starters.items():
        k['starter:' + name] = txt.encode()
    for name, txt in LINES.items():
        k['line:' + name] = txt.encode()
    return {n: b for n, b in k.items() if b}


def recognise(b, known, depth=0):
    out = []
    while b:
        hit = None
        for n, kb in sorted(known.items(), key=lambda x: -len(x[1])):
            if b.startswith(kb):
                hit = n
                break
        if hit:
            out.append(hit)
            b = b[len(known[hit]):]
            continue
        # a torn chunk (proper, non-empty prefix of a known chunk), possibly followed by later appends
        found = None
        if depth < 3:
            cands = sorted(known.items(), key=lambda x: (not x[0].startswith(('migrated', 'starter')), x[0]))
            for i in range(len(b), 0, -1):
                names = [n for n, kb in cands if len(kb) > i and kb.startswith(b[:i])]
                if not names:
                    continue
                rest = recognise(b[i:], known, depth + 1) if i < len(b) else ''
                if 'unknown:' in rest or rest.startswith('cut('):
                    continue
                found = ['cut(' + names[0] + ')'] + ([rest] if rest else [])
                break
        out += found if found else ['unknown:' + hashlib.sha256(b).hexdigest()[:8]]
        break
    return '+'.join(out)


def recognise_tree(snap, known):
    t = {}
    for rel, b in snap.items():
        if b is None:
            t[rel] = '<dir>'
        elif rel.endswith('spending_summary.html') and b != OLD_REPORT.encode():
            t[rel] = 'file:starter:report'
        else:
            t[rel] = 'file:' + recognise(b, known)
    return t


# ------------------------------------------------------------------ child: audit hook + injector

class Crash(BaseException):
    pass


class _Proxy:
    """stands in for the file object of a counted `open(…, 'w'|'a')`"""

    def __init__(self, f, inj, path, base):
        self._f, self._inj, self._path, self._base = f, inj, path, base
        self._sizes = []
        self._done = False

    def write(self, data):
        self._inj.event('write')
        n = self._f.write(data)
        self._sizes.append(len(data.encode(self._f.encoding or 'utf-8')) if isinstance(data, str) else len(data))
        return n

    def close(self):
        if not self._done:
            self._inj.event('close', faultable=False)
            self._done = True
            self._inj.inflight = None
            self._f.close()

    def __enter__(self):
        return self

    def __exit__(self, et, ev, tb):
        if et is not None:                       # unwinding (crash or error): the interpreter closes the file
            if not self._done:
                self._done = True
                self._f.close()
                if not (et is Crash):
                    self._inj.inflight = None
            return False
        self.close()
        return False

    def __iter__(self):
        return iter(self._f)

    def __getattr__(self, name):
        return getattr(self._f, name)


class Injector:
    def __init__(self, root, mode=None, k=0, partial='full'):
        self.root = os.path.realpath(root)
        self.mode, self.k, self.partial = mode, k, partial
        self.n = 0
        self.events = []
        self.injected = False
        self.inflight = None
        self.depth = 0
        self.orig = {}

    def rel(self, p):
        try:
            rp = os.path.realpath(os.fspath(p))
        except TypeError:
            return None
        if rp == self.root:
            return '.'
        if rp.startswith(self.root + os.sep):
            return os.path.relpath(rp, self.root)
        return None

    def event(self, tag, faultable=True):
        if self.mode == 'crash' and self.n == self.k:
            self.injected = True
            raise Crash()
        if self.mode == 'fault' and self.n == self.k and faultable and not self.injected:
            self.injected = True
            self.n += 1
            self.events.append('FAULT ' + tag)
            raise OSError(errno.EIO, 'injected I/O error', tag)
        self.n += 1
        self.events.append(tag)

    def install(self):
        inj = self
        o_open, o_move, o_makedirs, o_rename, o_replace = builtins.open, shutil.move, os.makedirs, os.rename, os.replace
        self.orig = dict(open=o_open)

        def w_open(file, mode='r', *a, **kw):
            r = inj.rel(file) if isinstance(file, (str, bytes, os.PathLike)) else None
            if r is None or inj.depth or not any(c in mode for c in 'wax+'):
                return o_open(file, mode, *a, **kw)
            app = 'a' in mode
            inj.event(('openA ' if app else 'openW ') + r)
            base = os.path.getsize(file) if (app and os.path.exists(file)) else 0
            f = o_open(file, mode, *a, **kw)
            p = _Proxy(f, inj, os.fspath(file), base)
            inj.inflight = p
            return p

        def guarded(tagger, fn):
            def w(*a, **kw):
                tag = tagger(*a, **kw) if not inj.depth else None
                if tag is None:
                    return fn(*a, **kw)
                inj.event(tag)
                inj.depth += 1
                try:
                    return fn(*a, **kw)
                finally:
                    inj.depth -= 1
            return w

        def two(name):
            def t(src, dst, *a, **kw):
                rs, rd = inj.rel(src), inj.rel(dst)
                return None if rs is None and rd is None else f'{name} {rs} -> {rd}'
            return t

        def one(name):
            def t(p, *a, **kw):
                r = inj.rel(p)
                return None if r is None else f'{name} {r}'
            return t

        builtins.open = w_open
        shutil.move = guarded(two('move'), o_move)
        os.makedirs = guarded(one('mkdir'), o_makedirs)
        os.rename = guarded(two('replace'), o_rename)
        os.replace = guarded(two('replace'), o_replace)

    def after_crash(self):
        """kill -9 semantics for the file that was open: keep none / half / all of what was written"""
        p = self.inflight
        if p is None:
            return
        if not p._f.closed:
            p._f.close()
        sizes = p._sizes
        if self.partial == 'full':
            keep = sum(sizes)
        elif self.partial == 'empty' or not sizes:
            keep = 0
        elif len(sizes) >= 2:
            keep = sum(sizes[:len(sizes) // 2])
        else:
            keep = max(1, sizes[0] // 2) if sizes[0] > 1 else 0
        with self.orig['open'](p._path, 'rb+') as f:
            f.truncate(p._base + keep)


WRITE_FLAGS = os.O_WRONLY | os.O_RDWR | os.O_APPEND | os.O_CREAT | os.O_TRUNC
AUDIT_EVENTS = {'os.rename', 'os.remove', 'os.mkdir', 'os.rmdir', 'os.truncate', 'os.chmod', 'os.utime', 'os.link',
                'os.symlink', 'shutil.move', 'shutil.copyfile', 'shutil.copytree', 'shutil.rmtree', 'shutil.copymode',
                'shutil.copystat', 'os.chown', 'shutil.make_archive', 'shutil.unpack_archive', 'tempfile.mkstemp',
                'tempfile.mkdtemp'}


def install_audit(trace):
    def hook(ev, args):
        try:
            if trace and trace[-1] == ['STOP']:
                return
            if ev == 'open':
                path, mode, flags = args
                if isinstance(path, int):
                    return
                if (isinstance(flags, int) and flags & WRITE_FLAGS) or (isinstance(mode, str) and any(c in mode for c in 'wax+')):
                    trace.append(['open', os.fspath(path) if not isinstance(path, bytes) else path.decode()])
            elif ev in AUDIT_EVENTS:
                trace.append([ev] + [os.fspath(a) if isinstance(a, (str, os.PathLike)) else
                                     (a.decode() if isinstance(a, bytes) else None) for a in args[:2]])
        except Exception:                                             # noqa: an audit hook must never raise
            pass
    sys.addaudithook(hook)


def _program(spec):
    """run the real code; returns extra result fields"""
    import argparse
    prog = spec['program']
    if prog == 'upMigrate':
        from tally import cli
        from tally.config_loader import load_config
        cfgdir = cli.find_config_dir()
        if not cfgdir:
            return {'run': 'error'}
        try:
            cfg = load_config(cfgdir)
        except FileNotFoundError:
            return {'run': 'error'}
        rules = cli._check_merchant_migration(cfg, cfgdir, True, True)
        return {'run': sorted({r[1] + '>' + r[2] for r in rules})}
    if prog == 'init':
        from tally.commands.init import cmd_init
        cmd_init(argparse.Namespace(dir='tally'))
        return {}
    if prog == 'layout':
        from tally import cli
        cfgdir = cli.find_config_dir()
        if cfgdir:
            cli.run_migrations(cfgdir, skip_confirm=True)
        return {}
    if prog == 'cli':
        from tally import cli
        sys.argv = ['tally'] + list(spec['argv'])
        cli.main()
        return {}
    if prog == 'probe':
        # load_config's view of the budget: which rules file is in effect, which statement file is found
        from tally import cli
        from tally.config_loader import load_config
        cfgdir = cli.find_config_dir()
        if not cfgdir:
            return {'eff': {'rules': 'err', 'file': None, 'data': None}}
        try:
            cfg = load_config(cfgdir)
        except Exception:                                             # noqa: no settings.yaml / not a YAML mapping: the command dies
            return {'eff': {'rules': 'err', 'file': None, 'data': None}}
        root = os.getcwd()
        mf, fmt = cfg.get('_merchants_file'), cfg.get('_merchants_format')
        data = None
        for s in cfg.get('data_sources', []):
            fp = os.path.normpath(os.path.join(cfgdir, '..', s['file']))
            if os.path.exists(fp):
                data = os.path.relpath(fp, root)
        nrules = None
        if mf:
            try:
                from tally.merchant_utils import get_all_rules
                nrules = len(get_all_rules(mf))
            except Exception as e:                                    # noqa
                nrules = 'error:' + type(e).__name__
        return {'eff': {'rules': {'csv': 'csv', 'new': 'rules'}.get(fmt, 'none'),
                        'file': os.path.relpath(mf, root) if mf else None, 'data': data, 'nrules': nrules}}
    if prog == 'convert':
        from tally.merchant_engine import csv_to_merchants_content
        from tally.merchant_utils import load_merchant_rules
        import datetime
        from tally import cli
        y = datetime.datetime.now().year
        return {'migrated': csv_to_merchants_content(load_merchant_rules(spec['csv'])),
                'starters': {'settings': cli.STARTER_SETTINGS.format(year=y), 'merchants': cli.STARTER_MERCHANTS,
                             'views': cli.STARTER_VIEWS, 'gitignore': '# Tally - Ignore sensitive data\ndata/\noutput/\n',
                             'schema': '1\n'}}
    raise ValueError(prog)


def _run_child(spec, result_path):
    """in the forked child: never returns"""
    res = {'outcome': 'ok'}
    try:
        os.chdir(spec['cwd'])
        os.environ['NO_COLOR'] = '1'
        out = io.open(spec['stdout'], 'w', encoding='utf-8') if spec.get('stdout') else io.open(os.devnull, 'w')
        null_in = os.open(os.devnull, os.O_RDONLY)
        os.dup2(null_in, 0)
        os.dup2(out.fileno(), 1)
        os.dup2(out.fileno(), 2)
        sys.stdout = sys.stderr = out
        sys.stdin = io.open(0, 'r', closefd=False)
        trace = []
        if spec.get('audit'):
            install_audit(trace)
        inj = Injector(spec['cwd'], (spec.get('inject') or {}).get('mode'), (spec.get('inject') or {}).get('k', 0),
                       (spec.get('inject') or {}).get('partial', 'full'))
        if spec.get('count', True) and spec['program'] not in ('probe', 'convert'):
            inj.install()
        try:
            res.update(_program(spec))
        except Crash:
            res['outcome'] = 'crashed'
            inj.after_crash()
        except SystemExit as e:
            res['outcome'] = 'exit:' + str(e.code if e.code is not None else 0)
        except OSError as e:
            res['outcome'] = 'oserror' if 'injected' in str(e) else 'exc:' + type(e).__name__
        except BaseException as e:                                    # noqa
            res['outcome'] = 'exc:' + type(e).__name__
            res['traceback'] = traceback.format_exc()[-1500:]
        res['events'] = inj.events
        res['injected'] = inj.injected
        res['audit'] = list(trace)
        trace.append(['STOP'])                                        # what follows is the harness writing its result
        try:
            out.flush()
        except Exception:                                             # noqa
            pass
    except BaseException as e:                                        # noqa
        res = {'outcome': 'harness-error', 'error': repr(e), 'traceback': traceback.format_exc()[-1500:]}
    try:
        with io.open(result_path, 'w', encoding='utf-8') as f:
            json.dump(res, f)
    finally:
        os._exit(0)


def run_forked(spec, scratch):
    """fork a child for one run; returns its result dict"""
    rp = os.path.join(scratch, f'result-{os.getpid()}.json')
    if os.path.exists(rp):
        os.remove(rp)
    sys.stdout.flush()
    pid = os.fork()
    if pid == 0:
        _run_child(spec, rp)
    _, status = os.waitpid(pid, 0)
    try:
        with io.open(rp, encoding='utf-8') as f:
            return json.load(f)
    except (OSError, ValueError):
        return {'outcome': 'child-died', 'status': status}


# ------------------------------------------------------------------ server side: whole cases

def classify(root, scratch):
    """`tally up --format json` on the tree (fresh child): canonical classification"""
    so = os.path.join(scratch, 'stdout.txt')
    r = run_forked({'program': 'cli', 'argv': ['up', '--format', 'json'], 'cwd': root, 'stdout': so, 'count': False}, scratch)
    txt = io.open(so, encoding='utf-8', errors='replace').read()
    if r['outcome'] not in ('ok', 'exit:0'):
        return {'error': r['outcome']}
    i = txt.find('\n{')
    try:
        d = json.loads(txt[i + 1:] if i >= 0 else txt[txt.index('{'):])
    except ValueError:
        return {'error': 'no-json'}
    cats = sorted((c['category'], c['subcategory'], round(c['total'], 2)) for c in d.get('by_category', []))
    return {'cats': [list(c) for c in cats], 'norules': 'No merchant rules found' in txt}


def do_c15_case(case, scratch):
    """one crash/fault case on a fresh temp budget; everything the check needs, in model notation"""
    root = tempfile.mkdtemp(prefix='tally-c15-')
    try:
        if 'lshape' in case:
            files, dirs = lshape_files(case['lshape'])
        else:
            files, dirs = shape_files(case['shape'])
        build(root, files, dirs)
        originals = {name: files[rel] for name, rel in REL.items() if rel in files and name != 'schema'}
        t0 = snapshot(root)
        conv = run_forked({'program': 'convert', 'cwd': root, 'csv': os.path.join(root, REL['csv'])}, scratch)
        known = known_chunks(originals, conv.get('migrated') if REL['csv'] in files else None, conv.get('starters', {}))
        out = {'tree0': recognise_tree(t0, known)}
        out['eff0'] = eff_of(root, scratch, known)
        out['cls0'] = classify(root, scratch)
        restore_clean(root, t0)
        inj = case.get('inject')
        r = run_forked({'program': case['program'], 'cwd': root, 'inject': inj}, scratch)
        t1 = snapshot(root)
        out.update(outcome=r['outcome'], events=r.get('events', []), injected=r.get('injected', False), run=r.get('run'),
                   traceback=r.get('traceback'))
        out['tree'] = recognise_tree(t1, known)
        out['eff'] = eff_of(root, scratch, known)
        out['cls1'] = classify(root, scratch)
        restore_clean(root, t1)
        r2 = run_forked({'program': case['program'], 'cwd': root}, scratch)
        t2 = snapshot(root)
        out['rerun_outcome'] = r2['outcome']
        out['rerunTree'] = recognise_tree(t2, known)
        out['effRerun'] = eff_of(root, scratch, known)
        out['cls2'] = classify(root, scratch)
        # the Safe predicate on the real tree
        orig_bytes = {rel: b for rel, b in t0.items() if b is not None}
        lost = []
        for rel, b in orig_bytes.items():
            ok = any(b2 == b for b2 in t1.values() if b2 is not None)
            if not ok and rel.endswith('settings.yaml'):
                ok = any(b2 is not None and r2_.endswith('settings.yaml') and b2.startswith(b) for r2_, b2 in t1.items())
            if not ok:
                lost.append(rel)
        rules_bytes = [files[REL[n]].encode() for n in ('rules', 'other') if REL[n] in files]
        if files.get(REL['csv']) == CSV_WITH:
            rules_bytes.append(CSV_WITH.encode())
            if conv.get('migrated'):
                rules_bytes.append(conv['migrated'].encode())
        out['lost'] = lost
        out['rulesOnDisk'] = any(b in rules_bytes for b in t1.values() if b is not None)
        return out
    finally:
        shutil.rmtree(root, ignore_errors=True)


def restore_clean(root, snap):
    """put the tree back exactly (classification with the default format writes nothing, but be safe)"""
    cur = snapshot(root)
    if cur == snap:
        return
    for rel in sorted(cur, reverse=True):
        p = os.path.join(root, rel)
        if rel not in snap:
            if cur[rel] is None:
                shutil.rmtree(p, ignore_errors=True)
            elif os.path.exists(p):
                os.remove(p)
    restore(root, snap)


def eff_of(root, scratch, known):
    r = run_forked({'program': 'probe', 'cwd': root}, scratch)
    e = r.get('eff') or {'rules': 'err', 'file': None, 'data': None}

    def content(rel):
        if not rel:
            return None
        with io.open(os.path.join(root, rel), 'rb') as f:
            return recognise(f.read(), known)
    rules = e['rules']
    if rules in ('csv', 'rules'):
        rules = rules + ':' + content(e['file'])
    return {'rules': rules, 'data': content(e['data']) if e.get('data') else None, 'nrules': e.get('nrules')}


MISSING_SOURCE = ('  - name: LastYear\n    file: data/bank-2024.csv\n'
                  '    format: "{date:%Y-%m-%d},{description},{amount}"\n')


def c20_files(case):
    """the concrete budget of a C20 case: the files of the shape, then the case's variations of it —
    `vf_key`: the settings' mention of views_file is the KEY itself (`views_file: config/views.rules`), not a comment: a reference that
              dangles when the shape has no views.rules;
    `missing_source`: a second data source whose statement file does not exist;
    `rules_text`: other content of an existing merchants.rules that the settings do not reference (transforms only, comments only, empty …);
    `extra_files`: files of the user's own inside the budget folder ({rel: text | {'text', 'mode'}})."""
    files, dirs = shape_files(case['shape'])
    st = files.get(REL['settings'])
    if st is not None:
        if case.get('vf_key'):
            st = st.replace('# views_file: config/views.rules\n', 'views_file: config/views.rules\n')
        if case.get('missing_source'):
            st = st.replace(SETTINGS_HEAD, SETTINGS_HEAD + MISSING_SOURCE)
        files[REL['settings']] = st
    if case.get('rules_text') is not None and REL['rules'] in files:
        files[REL['rules']] = case['rules_text']       # the user's merchants.rules says something else (no [rule] block, empty, …)
    return files, dirs


# ---- the byte-level form of a user's file ------------------------------------------------------------------------------------------
# The same text reaches a budget folder in many byte-level forms (an editor on Windows, a spreadsheet export, a sync client, a file
# typed on a phone).  The frame condition of C20 is about BYTES: a file a command must keep is byte-identical afterwards; settings.yaml,
# the one file `init` / the migration may add lines to, keeps its old bytes as a PREFIX of the new ones.  A command that reads a file as
# text and writes it back (to "append" safely, to normalise, to re-format) preserves the text of an LF / UTF-8 / newline-terminated file
# and silently rewrites every other one.  `byteform` turns a generated text into one of these forms; the Lean model never sees it
# (contents are symbolic there: "new content = old ++ appended lines" is `initFrameB`, proved over all shapes).
BYTEFORMS = ('crlf', 'cr', 'mixed-eol', 'no-final-newline', 'bom', 'trailing-blanks', 'non-ascii-comment', 'long-line', 'blank-tail')
COMMENT_FORMS = ('non-ascii-comment', 'long-line')          # need a file format with `#` comment lines


def byteform(txt, forms):
    """text -> text whose UTF-8 encoding (written with newline='') is the requested byte-level form(s)"""
    lines = txt.split('\n')
    if 'non-ascii-comment' in forms:
        lines.insert(1 if len(lines) > 1 else 0, '# Zoë’s Haushalt — café · 家計簿 · €uro ½ \u00a0\u200b')
    if 'long-line' in forms:
        lines.insert(1 if len(lines) > 1 else 0, '# ' + 'lorem ipsum 0123456789 ' * 400)
    if 'trailing-blanks' in forms:
        # blanks only (a tab is not YAML white space everywhere), and not on the first line (a CSV header cell 'Subcategory ' is another name)
        lines = [ln + ('  ' if i % 2 else ' ') if ln and 0 < i < len(lines) - 1 else ln for i, ln in enumerate(lines)]
    txt = '\n'.join(lines)
    if 'blank-tail' in forms:
        txt += '\n\n   \n'
    if 'no-final-newline' in forms:
        txt = txt.rstrip('\n')
    if 'crlf' in forms:
        txt = txt.replace('\n', '\r\n')
    elif 'cr' in forms:
        txt = txt.replace('\n', '\r')
    elif 'mixed-eol' in forms:
        parts = txt.split('\n')
        txt = ''.join(ln + ('' if i + 1 == len(parts) else ('\r\n', '\n', '\r\n', '\r')[i % 4]) for i, ln in enumerate(parts))
    if 'bom' in forms:
        txt = '\ufeff' + txt
    return txt


def build_extra(root, extra, prefix=''):
    for rel, spec in (extra or {}).items():
        txt, mode = (spec.get('text', ''), spec.get('mode')) if isinstance(spec, dict) else (spec, None)
        build(root, {rel: txt}, [], prefix)
        if mode is not None:
            os.chmod(os.path.join(root, prefix, rel), mode)


def snapshot_modes(root):
    """{relpath: permission bits} of every file and directory below root"""
    import stat
    out = {}
    for dp, dns, fns in os.walk(root):
        for n in dns + fns:
            p = os.path.join(dp, n)
            out[os.path.relpath(p, root)] = stat.S_IMODE(os.lstat(p).st_mode)
    return out


def do_c20_case(case, scratch):
    """a command sequence on a generated budget; audit trace + content hashes and permission bits of the WHOLE tree under the working
    directory before/after each command"""
    root = tempfile.mkdtemp(prefix='tally-c20-')
    try:
        prefix = 'tally' if case.get('layout') == 'new' else ''
        files, dirs = c20_files(case)
        extra = {rel: (dict(spec) if isinstance(spec, dict) else {'text': spec}) for rel, spec in (case.get('extra_files') or {}).items()}
        for rel, forms in (case.get('byteform') or {}).items():      # byte-level form of the user's files (see `byteform`)
            if rel in files:
                files[rel] = byteform(files[rel], forms)
            elif rel in extra:
                extra[rel]['text'] = byteform(extra[rel].get('text', ''), forms)
        build(root, files, dirs, prefix)
        for rel, mode in (case.get('modes') or {}).items():          # permission bits of tally's own kinds of files
            if rel in files:
                os.chmod(os.path.join(root, prefix, rel), mode)
        build_extra(root, extra, prefix)
        build_extra(root, case.get('root_files'), '')          # beside the budget folder (new layout: the folder `tally/` lives in)
        steps = []
        for argv in case['commands']:
            before, before_modes = snapshot(root), snapshot_modes(root)
            so = os.path.join(scratch, 'stdout.txt')
            r = run_forked({'program': 'cli', 'argv': [a.replace('{ROOT}', root) for a in argv], 'cwd': root, 'stdout': so, 'audit': True, 'count': False}, scratch)
            after, after_modes = snapshot(root), snapshot_modes(root)
            aud = []
            for ev in r.get('audit', []):
                paths = []
                for a in ev[1:]:
                    if isinstance(a, str):
                        ap = os.path.realpath(os.path.join(root, a))
                        paths.append(os.path.relpath(ap, os.path.realpath(root)) if ap.startswith(os.path.realpath(root) + os.sep) or ap == os.path.realpath(root) else 'OUTSIDE:' + ap)
                aud.append([ev[0]] + paths)
            mode_changed = {rel: [before_modes[rel], after_modes[rel]] for rel in before_modes
                            if rel in after_modes and before_modes[rel] != after_modes[rel]}
            changed = sorted(set(rel for rel in set(before) | set(after) if before.get(rel, 'absent') != after.get(rel, 'absent')) | set(mode_changed))
            detail = {}
            for rel in changed:
                b, a = before.get(rel, 'absent'), after.get(rel, 'absent')
                detail[rel] = {'before': 'absent' if b == 'absent' else ('dir' if b is None else hashlib.sha256(b).hexdigest()[:12]),
                               'after': 'absent' if a == 'absent' else ('dir' if a is None else hashlib.sha256(a).hexdigest()[:12]),
                               'appended': bool(isinstance(b, bytes) and isinstance(a, bytes) and a.startswith(b)),
                               'moved_to': [r2 for r2, a2 in after.items() if isinstance(b, bytes) and a2 == b and r2 not in before],
                               'kept_elsewhere': any(isinstance(b, bytes) and a2 == b for a2 in after.values())}
                if rel in mode_changed:
                    detail[rel]['mode'] = ['%o' % m for m in mode_changed[rel]]
                if isinstance(b, bytes) and isinstance(a, bytes) and b != a and not a.startswith(b):
                    k = next((i for i, (x, y) in enumerate(zip(b, a)) if x != y), min(len(a), len(b)))      # first byte that differs
                    detail[rel]['first_diff'] = {'offset': k, 'old_len': len(b), 'new_len': len(a),
                                                 'old': repr(b[max(0, k - 12):k + 12]), 'new': repr(a[max(0, k - 12):k + 12])}
            steps.append({'argv': argv, 'outcome': r['outcome'], 'audit': aud, 'changed': changed, 'detail': detail, 'tree_size': len(before),
                          'stdout_head': io.open(so, encoding='utf-8', errors='replace').read()[:300]})
        return {'steps': steps, 'prefix': prefix}
    finally:
        shutil.rmtree(root, ignore_errors=True)


def serve():
    import tally.cli            # noqa: warm the import once; children are forked from here
    import tally.commands.init  # noqa
    import tally.commands.run   # noqa
    scratch = tempfile.mkdtemp(prefix='tally-fsmon-')
    try:
        for line in sys.stdin:
            line = line.strip()
            if not line:
                continue
            case = json.loads(line)
            try:
                res = do_c20_case(case, scratch) if case.get('kind') == 'c20' else do_c15_case(case, scratch)
            except Exception as e:                                    # noqa
                res = {'harness_error': repr(e), 'traceback': traceback.format_exc()[-2000:]}
            res['id'] = case.get('id')
            sys.__stdout__.write(json.dumps(res) + '\n')
            sys.__stdout__.flush()
    finally:
        shutil.rmtree(scratch, ignore_errors=True)


class Pool:
    """N server subprocesses; `map(cases)` distributes cases round-robin and returns results in order"""

    def __init__(self, n=16):
        repo = os.environ.get('TALLY_REPO', '/repo')
        env = dict(os.environ)
        env['PYTHONPATH'] = os.path.join(repo, 'src') + os.pathsep + VERIF
        env['PYTHONDONTWRITEBYTECODE'] = '1'
        env['NO_COLOR'] = '1'
        env.pop('TALLY_CONFIG', None)
        self.procs = [subprocess.Popen([sys.executable, '-m', 'harness.fsmon', '--serve'], cwd=tempfile.gettempdir(), env=env,
                                       stdin=subprocess.PIPE, stdout=subprocess.PIPE, stderr=subprocess.DEVNULL, text=True)
                      for _ in range(n)]

    def map(self, cases):
        import threading
        results = [None] * len(cases)
        shards = [[] for _ in self.procs]
        for i, c in enumerate(cases):
            d = dict(c); d['id'] = i
            shards[i % len(self.procs)].append(d)

        def work(p, shard):
            for d in shard:
                try:
                    p.stdin.write(json.dumps(d) + '\n'); p.stdin.flush()
                    line = p.stdout.readline()
                    results[d['id']] = json.loads(line) if line.strip() else {'harness_error': 'server died'}
                except Exception as e:                                # noqa
                    results[d['id']] = {'harness_error': repr(e)}
        ts = [threading.Thread(target=work, args=(p, s)) for p, s in zip(self.procs, shards)]
        for t in ts:
            t.start()
        for t in ts:
            t.join()
        return results

    def close(self):
        for p in self.procs:
            try:
                p.stdin.close()
            except Exception:                                         # noqa
                pass
        for p in self.procs:
            try:
                p.wait(timeout=20)
            except Exception:                                         # noqa
                p.kill()

    def __enter__(self):
        return self

    def __exit__(self, *a):
        self.close()


if __name__ == '__main__':
    if '--serve' in sys.argv:
        serve()
