"""Run every translator (tie #1): /repo sources -> lean/TallyVerif/Gen/*.lean, with rollback."""
import os
from . import common
from .translate.ir import Untranslatable


def _one(name, rel, module, produce, status):
    st = {'ok': True, 'changed': False}
    try:
        text, meta = produce()
        st.update(meta)
        changed, ok, log = common.regen_file(rel, text, module)
        st['changed'] = changed
        if not ok:
            st['ok'] = False
            st['error'] = 'generated Lean does not compile (rolled back): ' + log[-800:]
    except Untranslatable as e:
        st['ok'] = False
        st['error'] = f'untranslatable: {e}'
    except (OSError, SyntaxError) as e:
        st['ok'] = False
        st['error'] = f'{type(e).__name__}: {e}'
    status[name] = st


def regen_classification(status):
    from .translate import py_classification, js_classification

    def py():
        src = common.read(os.path.join(common.SRC, 'classification.py'))
        text, tr = py_classification.translate(src)
        return text, {'input_sha': common.sha(src), 'functions': [f[0] for f in tr.funcs]}

    def js():
        src = common.read(os.path.join(common.SRC, 'spending_report.js'))
        text, tr, block = js_classification.translate(src)
        return text, {'input_sha': common.sha(block), 'functions': [f[0] for f in tr.funcs]}

    _one('py_classification', 'TallyVerif/Gen/ClassPy.lean', 'TallyVerif.Gen.ClassPy', py, status)
    _one('js_classification', 'TallyVerif/Gen/ClassJs.lean', 'TallyVerif.Gen.ClassJs', js, status)


def regen_specificity(status):
    from .translate import specificity_tables

    def produce():
        src = common.read(os.path.join(common.SRC, 'merchant_engine.py'))
        text, meta = specificity_tables.translate(src)
        meta['input_sha'] = common.sha(text)
        return text, meta

    _one('specificity_tables', 'TallyVerif/Gen/Specificity.lean', 'TallyVerif.Gen.Specificity', produce, status)


def regen_expr_tables(status):
    from .translate import expr_tables

    def produce():
        src = common.read(os.path.join(common.SRC, 'expr_parser.py'))
        text, meta = expr_tables.translate(src)
        meta = {k: v for k, v in meta.items() if k in ('allowedNodes', 'functionNames', 'caps')}
        meta['input_sha'] = common.sha(text)
        return text, meta

    _one('expr_tables', 'TallyVerif/Gen/ExprTables.lean', 'TallyVerif.Gen.ExprTables', produce, status)


def regen_fmt_tables(status):
    from .translate import fmt_tables

    def tables():
        a = common.read(os.path.join(common.SRC, 'format_parser.py'))
        b = common.read(os.path.join(common.SRC, 'parsers.py'))
        text, t = fmt_tables.translate(a, b)
        return text, {'input_sha': common.sha(a + b), 'tables': {k: len(v) for k, v in t.items()}}

    _one('fmt_tables', 'TallyVerif/Gen/FmtTables.lean', 'TallyVerif.Gen.FmtTables', tables, status)


def regen_config_tables(status):
    from .translate import config_tables

    def tables():
        srcs = [common.read(os.path.join(common.SRC, *rel)) for rel in (('config_loader.py',), ('format_parser.py',), ('commands', 'run.py'), ('parsers.py',))]
        text, t = config_tables.translate(*srcs)
        return text, {'input_sha': common.sha(''.join(srcs)), 'tables': {k: (len(v) if isinstance(v, list) else v) for k, v in t.items()}}

    _one('config_tables', 'TallyVerif/Gen/ConfigTables.lean', 'TallyVerif.Gen.ConfigTables', tables, status)


def regen_fs_steps(status):
    from .translate import fs_steps

    def produce():
        a = common.read(os.path.join(common.SRC, 'cli.py'))
        b = common.read(os.path.join(common.SRC, 'commands', 'init.py'))
        text, meta = fs_steps.translate(a, b)
        meta['input_sha'] = common.sha(text)
        return text, meta

    _one('fs_steps', 'TallyVerif/Gen/FsSteps.lean', 'TallyVerif.Gen.FsSteps', produce, status)


def regen_report_types(status):
    from .translate import report_types

    def produce():
        src = common.read(os.path.join(common.SRC, 'report.py'))
        text, meta = report_types.translate(src)
        meta['input_sha'] = common.sha(text)
        return text, meta

    _one('report_types', 'TallyVerif/Gen/ReportTypes.lean', 'TallyVerif.Gen.ReportTypes', produce, status)


def regen_amount_tables(status):
    from .translate import amount_tables

    def produce():
        src = common.read(os.path.join(common.SRC, 'parsers.py'))
        text, meta = amount_tables.translate(src)
        meta['input_sha'] = common.sha(text)
        return text, meta

    _one('amount_tables', 'TallyVerif/Gen/AmountTables.lean', 'TallyVerif.Gen.AmountTables', produce, status)


def regen_c12(status):
    regen_classification(status)
    regen_report_types(status)


def regen_modifier_tables(status):
    from .translate import modifier_tables

    def produce():
        src = common.read(os.path.join(common.SRC, 'modifier_parser.py'))
        text, meta = modifier_tables.translate(src)
        meta['input_sha'] = common.sha(text)
        return text, meta

    _one('modifier_tables', 'TallyVerif/Gen/ModifierTables.lean', 'TallyVerif.Gen.ModifierTables', produce, status)


def regen_all():
    status = {}
    regen_classification(status)
    regen_specificity(status)
    regen_expr_tables(status)
    regen_fmt_tables(status)
    regen_config_tables(status)
    regen_fs_steps(status)
    regen_report_types(status)
    regen_amount_tables(status)
    regen_modifier_tables(status)
    return status
