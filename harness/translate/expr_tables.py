"""expr_parser.py  ->  lean/TallyVerif/Gen/ExprTables.lean   (via Python's own `ast`)

Extracted tables:
  allowedNodes        names in ALLOWED_NODES (`ast.X`)
  functionNames       TransactionContext._FUNCTION_NAMES
  viewFunctions       keys of ExpressionContext.functions
  txnEvalMethods      `_eval_*` methods of TransactionEvaluator (node kinds it can evaluate)
  viewEvalMethods     `_eval_*` methods of ExpressionEvaluator
  stringMethods       string literals compared with `method_name` in TransactionEvaluator._eval_Call
  specialCalls        string literals compared with `func_name` in TransactionEvaluator._eval_Call
  txnNames            string literals compared with `name` in TransactionEvaluator._eval_Name
  viewNames           … in ExpressionEvaluator._eval_Name
  caps                capability summary (see `capabilities`)
"""
import ast
from .ir import Untranslatable, lean_str


def _cls(tree, name):
    for n in tree.body:
        if isinstance(n, ast.ClassDef) and n.name == name:
            return n
    raise Untranslatable(f'class {name} not found')


def _method(cls, name):
    for n in cls.body:
        if isinstance(n, ast.FunctionDef) and n.name == name:
            return n
    raise Untranslatable(f'method {cls.name}.{name} not found')


def _compared_literals(fn, var):
    out = []
    for n in ast.walk(fn):
        if isinstance(n, ast.Compare) and isinstance(n.left, ast.Name) and n.left.id == var \
                and len(n.ops) == 1 and isinstance(n.ops[0], ast.Eq) \
                and isinstance(n.comparators[0], ast.Constant) and isinstance(n.comparators[0].value, str):
            if n.comparators[0].value not in out:
                out.append(n.comparators[0].value)
    return out


DANGEROUS_CALLS = {'eval', 'exec', 'compile', '__import__', 'open', 'globals', 'locals', 'vars', 'setattr', 'delattr',
                   'input', 'breakpoint', 'memoryview', 'type', 'super', 'object'}


def capabilities(tree):
    """[(where, capability, detail)] for everything that could give an expression more than the documented
    functions: dynamic getattr, dangerous builtins, imports, attribute access / calls on EVALUATED values."""
    caps = []
    for cls in [n for n in tree.body if isinstance(n, ast.ClassDef)]:
        for fn in [n for n in cls.body if isinstance(n, ast.FunctionDef)]:
            where = f'{cls.name}.{fn.name}'
            for n in ast.walk(fn):
                if isinstance(n, (ast.Import, ast.ImportFrom)):
                    mod = n.module if isinstance(n, ast.ImportFrom) else ','.join(a.name for a in n.names)
                    caps.append((where, 'import', mod or ''))
                if isinstance(n, ast.Call) and isinstance(n.func, ast.Name):
                    if n.func.id in DANGEROUS_CALLS and not (n.func.id == 'type' and len(n.args) == 1):
                        caps.append((where, 'dangerous-builtin', n.func.id))
                    if n.func.id in ('getattr', 'hasattr'):
                        a = n.args[1] if len(n.args) > 1 else None
                        recv = ast.unparse(n.args[0]) if n.args else '?'
                        if isinstance(a, ast.Constant):
                            caps.append((where, f'{n.func.id}-constant', f'{recv}.{a.value}'))
                        elif isinstance(a, ast.JoinedStr) and a.values and isinstance(a.values[0], ast.Constant):
                            caps.append((where, f'{n.func.id}-prefixed', f'{recv}.{a.values[0].value}*'))
                        elif isinstance(a, ast.Name):
                            caps.append((where, f'{n.func.id}-name', f'{recv}.<{a.id}>'))
                        else:
                            caps.append((where, f'{n.func.id}-dynamic', f'{recv}.<expr>'))
    for n in tree.body:
        if isinstance(n, (ast.Import, ast.ImportFrom)):
            mod = n.module if isinstance(n, ast.ImportFrom) else ','.join(a.name for a in n.names)
            caps.append(('module', 'import', mod or ''))
    return caps


def translate(src):
    tree = ast.parse(src)
    allowed = None
    for n in tree.body:
        if isinstance(n, ast.Assign) and len(n.targets) == 1 and isinstance(n.targets[0], ast.Name) \
                and n.targets[0].id == 'ALLOWED_NODES':
            if not isinstance(n.value, ast.Set):
                raise Untranslatable('ALLOWED_NODES is not a set literal')
            allowed = []
            for e in n.value.elts:
                if isinstance(e, ast.Attribute) and isinstance(e.value, ast.Name) and e.value.id == 'ast':
                    allowed.append(e.attr)
                else:
                    raise Untranslatable('ALLOWED_NODES element is not ast.<Name>')
    if allowed is None:
        raise Untranslatable('ALLOWED_NODES not found')
    tc = _cls(tree, 'TransactionContext')
    fnames = None
    for n in tc.body:
        tgt = n.target if isinstance(n, ast.AnnAssign) else (n.targets[0] if isinstance(n, ast.Assign) else None)
        if isinstance(tgt, ast.Name) and tgt.id == '_FUNCTION_NAMES':
            if not isinstance(n.value, ast.Set) or not all(isinstance(e, ast.Constant) for e in n.value.elts):
                raise Untranslatable('_FUNCTION_NAMES is not a set of string literals')
            fnames = [e.value for e in n.value.elts]
    if fnames is None:
        raise Untranslatable('_FUNCTION_NAMES not found')
    ec = _cls(tree, 'ExpressionContext')
    vfuncs = None
    for n in ast.walk(_method(ec, '__init__')):
        if isinstance(n, ast.AnnAssign) and isinstance(n.target, ast.Attribute) and n.target.attr == 'functions' \
                and isinstance(n.value, ast.Dict):
            vfuncs = [k.value for k in n.value.keys]
    if vfuncs is None:
        raise Untranslatable('ExpressionContext.functions not found')
    te, ve = _cls(tree, 'TransactionEvaluator'), _cls(tree, 'ExpressionEvaluator')
    tables = {
        'allowedNodes': allowed,
        'functionNames': sorted(fnames),
        'viewFunctions': vfuncs,
        'txnEvalMethods': sorted(m.name[6:] for m in te.body if isinstance(m, ast.FunctionDef) and m.name.startswith('_eval_')),
        'viewEvalMethods': sorted(m.name[6:] for m in ve.body if isinstance(m, ast.FunctionDef) and m.name.startswith('_eval_')),
        'stringMethods': _compared_literals(_method(te, '_eval_Call'), 'method_name'),
        'specialCalls': _compared_literals(_method(te, '_eval_Call'), 'func_name'),
        'txnNames': _compared_literals(_method(te, '_eval_Name'), 'name'),
        'viewNames': _compared_literals(_method(ve, '_eval_Name'), 'name'),
        'txnAttrs': _compared_literals(_method(te, '_eval_Attribute'), 'attr_name'),
        'fieldAttrs': _compared_literals(_method(te, '_eval_Attribute'), 'field_name'),
    }
    caps = capabilities(tree)
    out = ['-- GENERATED by /verif/harness/translate/expr_tables.py from src/tally/expr_parser.py; do not edit.',
           'namespace TallyVerif.Gen.ExprTables']
    for k, v in tables.items():
        out.append(f'def {k} : List String := [' + ', '.join(lean_str(x) for x in v) + ']')
    out.append('/-- (method, capability, detail) -/')
    out.append('def caps : List (String × String × String) := [' +
               ', '.join(f'({lean_str(a)}, {lean_str(b)}, {lean_str(c)})' for a, b, c in caps) + ']')
    out.append('end TallyVerif.Gen.ExprTables')
    meta = dict(tables)
    meta['caps'] = caps
    return '\n'.join(out) + '\n', meta
