"""src/tally/report.py (build_category_view: the per-category `typeTotals` chain)  ->  lean/TallyVerif/Gen/ReportTypes.lean

report.py carries a THIRD copy of the transaction classification (after classification.py and the JavaScript block):
inside `build_category_view` every transaction of a category is put into one of `spending / income / investment /
transfer` by an if/elif chain over its lower-cased tags and the sign of its amount.  This translator regenerates that
chain as the pure function `type_contrib` (what ONE transaction adds to its category's `typeTotals`), so that
Props/C12 can state - for every number system, amount and tag list - that it is the same decision as
`categorize_amount` (Gen/ClassPy, regenerated from classification.py).

Accepted shape (anything else: Untranslatable = a broken obligation, after which the check searches for a failing input):

    type_totals = {'spending': 0, 'income': 0, 'investment': 0, 'transfer': 0}      # any order of exactly these keys
    for … in …:                                    # any nest of for loops
        for txn in merchant.get('transactions', []):
            txn_tags = set(t.lower() for t in txn.get('tags', []))
            amount = txn.get('amount', 0)
            if '<word>' in txn_tags:  type_totals['<key>'] += abs(amount) | amount
            elif … :
            elif amount >= 0 | amount > 0:  type_totals['<key>'] += amount | abs(amount)
            [else: pass]
"""
import ast
from .ir import Untranslatable, lean_str

KEYS = ['spending', 'income', 'investment', 'transfer']


def _find_func(tree, name):
    for n in ast.walk(tree):
        if isinstance(n, ast.FunctionDef) and n.name == name:
            return n
    raise Untranslatable(f'function {name} not found in report.py')


def _is_get(call, obj, key):
    return (isinstance(call, ast.Call) and isinstance(call.func, ast.Attribute) and call.func.attr == 'get'
            and isinstance(call.func.value, ast.Name) and call.func.value.id == obj and call.args
            and isinstance(call.args[0], ast.Constant) and call.args[0].value == key)


def _txn_loop(fn):
    hits = []
    for n in ast.walk(fn):
        if isinstance(n, ast.For) and isinstance(n.target, ast.Name) and _is_get(n.iter, 'merchant', 'transactions'):
            if any(isinstance(x, ast.AugAssign) and isinstance(x.target, ast.Subscript) and isinstance(x.target.value, ast.Name)
                   and x.target.value.id == 'type_totals' for x in ast.walk(n)):
                hits.append(n)
    if len(hits) != 1:
        raise Untranslatable(f'expected exactly one transaction loop that updates type_totals, found {len(hits)}')
    return hits[0]


def _value(e, amount_var):
    """`abs(amount)` | `amount`"""
    if isinstance(e, ast.Name) and e.id == amount_var:
        return 'amount'
    if (isinstance(e, ast.Call) and isinstance(e.func, ast.Name) and e.func.id == 'abs' and len(e.args) == 1 and not e.keywords
            and isinstance(e.args[0], ast.Name) and e.args[0].id == amount_var):
        return '(N.abs amount)'
    raise Untranslatable(f'added value {ast.unparse(e)!r} is neither amount nor abs(amount)')


def _action(body, amount_var):
    if len(body) == 1 and isinstance(body[0], ast.Pass):
        return None
    if len(body) != 1 or not isinstance(body[0], ast.AugAssign) or not isinstance(body[0].op, ast.Add):
        raise Untranslatable('a branch of the typeTotals chain is not a single `type_totals[k] += v`')
    st = body[0]
    tg = st.target
    if not (isinstance(tg, ast.Subscript) and isinstance(tg.value, ast.Name) and tg.value.id == 'type_totals'
            and isinstance(tg.slice, ast.Constant) and tg.slice.value in KEYS):
        raise Untranslatable(f'target {ast.unparse(tg)!r} is not type_totals[<one of the four keys>]')
    return tg.slice.value, _value(st.value, amount_var)


def _test(t, tags_var, amount_var):
    if isinstance(t, ast.Compare) and len(t.ops) == 1 and len(t.comparators) == 1:
        l, op, r = t.left, t.ops[0], t.comparators[0]
        if isinstance(op, ast.In) and isinstance(l, ast.Constant) and isinstance(l.value, str) and isinstance(r, ast.Name) and r.id == tags_var:
            return f'(List.contains txn_tags {lean_str(l.value)})'
        if (isinstance(l, ast.Name) and l.id == amount_var and isinstance(r, ast.Constant) and r.value == 0
                and type(r.value) in (int, float)):
            fn = {ast.GtE: 'N.ge', ast.Gt: 'N.gt', ast.Lt: 'N.lt', ast.LtE: 'N.le'}.get(type(op))
            if fn:
                return f'({fn} amount N.zero)'
    raise Untranslatable(f'test {ast.unparse(t)!r} is neither `"<word>" in {tags_var}` nor a comparison of the amount with 0')


def translate(src):
    tree = ast.parse(src)
    fn = _find_func(tree, 'build_category_view')
    # the initial dictionary
    inits = [n for n in ast.walk(fn) if isinstance(n, ast.Assign) and len(n.targets) == 1 and isinstance(n.targets[0], ast.Name)
             and n.targets[0].id == 'type_totals']
    if len(inits) != 1 or not isinstance(inits[0].value, ast.Dict):
        raise Untranslatable('type_totals is not initialised by exactly one dict literal')
    d = inits[0].value
    keys = [k.value if isinstance(k, ast.Constant) else None for k in d.keys]
    if sorted(keys, key=str) != sorted(KEYS) or not all(isinstance(v, ast.Constant) and v.value == 0 and type(v.value) in (int, float) for v in d.values):
        raise Untranslatable(f'type_totals starts as {ast.unparse(d)}, expected the four keys {KEYS} at 0')
    loop = _txn_loop(fn)
    txn = loop.target.id
    body = [s for s in loop.body if not (isinstance(s, ast.Expr) and isinstance(s.value, ast.Constant))]
    if len(body) != 3:
        raise Untranslatable(f'the transaction loop has {len(body)} statements, expected: tag set, amount, if-chain')
    a, b, chain = body
    # txn_tags = set(t.lower() for t in txn.get('tags', []))
    ok = (isinstance(a, ast.Assign) and len(a.targets) == 1 and isinstance(a.targets[0], ast.Name) and isinstance(a.value, ast.Call)
          and isinstance(a.value.func, ast.Name) and a.value.func.id == 'set' and len(a.value.args) == 1
          and isinstance(a.value.args[0], (ast.GeneratorExp, ast.ListComp, ast.SetComp)))
    if ok:
        g = a.value.args[0]
        gen = g.generators[0] if len(g.generators) == 1 else None
        ok = (gen is not None and not gen.ifs and isinstance(gen.target, ast.Name) and _is_get(gen.iter, txn, 'tags')
              and len(gen.iter.args) == 2 and isinstance(gen.iter.args[1], ast.List) and not gen.iter.args[1].elts
              and isinstance(g.elt, ast.Call) and isinstance(g.elt.func, ast.Attribute) and g.elt.func.attr == 'lower' and not g.elt.args
              and isinstance(g.elt.func.value, ast.Name) and g.elt.func.value.id == gen.target.id)
    if not ok:
        raise Untranslatable(f'tag set {ast.unparse(a)!r} is not `set(t.lower() for t in {txn}.get("tags", []))`')
    tags_var = a.targets[0].id
    if not (isinstance(b, ast.Assign) and len(b.targets) == 1 and isinstance(b.targets[0], ast.Name) and _is_get(b.value, txn, 'amount')
            and len(b.value.args) == 2 and isinstance(b.value.args[1], ast.Constant) and b.value.args[1].value == 0):
        raise Untranslatable(f'amount {ast.unparse(b)!r} is not `{txn}.get("amount", 0)`')
    amount_var = b.targets[0].id
    if not isinstance(chain, ast.If):
        raise Untranslatable('third statement of the transaction loop is not an if-chain')
    branches = []
    node = chain
    while True:
        branches.append((_test(node.test, tags_var, amount_var), _action(node.body, amount_var)))
        if not node.orelse:
            break
        if len(node.orelse) == 1 and isinstance(node.orelse[0], ast.If):
            node = node.orelse[0]
            continue
        if _action(node.orelse, amount_var) is not None:
            raise Untranslatable('the final else of the typeTotals chain does something')
        break
    out = ['-- GENERATED by /verif/harness/translate from src/tally/report.py (build_category_view, typeTotals chain); do not edit.',
           'import TallyVerif.Model.ClassPrelude',
           'set_option linter.unusedVariables false',
           'namespace TallyVerif.Gen.ReportTypes', '',
           '/-- `typeTotals` of one category of the report data -/',
           'structure TypeTotals (α : Type) where',
           '  spending : α', '  income : α', '  investment : α', '  transfer : α',
           'deriving Repr, DecidableEq', '',
           '/-- what ONE transaction adds to the `typeTotals` of its category (the if/elif chain of the transaction loop) -/',
           'def type_contrib (N : NumLike) (lower : String → String) (amount : N.α) (tags : Option (List String)) : TypeTotals N.α :=',
           '  let nothing : TypeTotals N.α := ⟨N.zero, N.zero, N.zero, N.zero⟩',
           '  let txn_tags := (List.map (fun t => lower (t)) (orEmpty (tags)))']
    ind = '  '
    for test, act in branches:
        out.append(f'{ind}if {test} = true then')
        out.append(f'{ind}  ' + ('nothing' if act is None else f'{{ nothing with {act[0]} := {act[1]} }}'))
        out.append(f'{ind}else')
        ind += '  '
    out.append(f'{ind}nothing')
    out += ['', 'end TallyVerif.Gen.ReportTypes']
    meta = {'branches': [[t, list(a) if a else None] for t, a in branches]}
    return '\n'.join(out) + '\n', meta
