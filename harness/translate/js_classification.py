"""The TRANSACTION CLASSIFICATION block of src/tally/spending_report.js
   ->  lean/TallyVerif/Gen/ClassJs.lean

Hand-written tokenizer + recursive-descent parser for the subset the block uses:
  const NAME = expr;      function name(params) { stmts }
  stmts: const decl | if (c) stmt [else stmt] | for (const x of e) stmt | return e; | a.k = e; | { … }
  exprs: || && ! comparison (> < >= <= === !==) + - unary-, calls, member access,
         identifiers, strings, numbers, new Set(arg), [a, b], {k: v}, x => e, (e)
Semantic mapping (typed, same IR as the Python translator):
  new Set([..]) -> list; new Set(X.map(t => E)) -> List.map; (x || []) -> orEmpty;
  s.toLowerCase() -> lower; S.has(x) -> contains; Math.abs -> N.abs; 0 -> N.zero.
"""
import re
from .ir import Untranslatable, canon_key, lean_str, ident, BUCKET_KEYS, emit_module
from .types import TV, unify, final

TOKEN_RE = re.compile(r'''
    (?P<ws>\s+)
  | (?P<lc>//[^\n]*)
  | (?P<bc>/\*.*?\*/)
  | (?P<num>\d+(?:\.\d+)?)
  | (?P<str>'(?:[^'\\\n]|\\.)*'|"(?:[^"\\\n]|\\.)*")
  | (?P<id>[A-Za-z_$][A-Za-z0-9_$]*)
  | (?P<op>===|!==|=>|\|\||&&|>=|<=|[-+*/%(){}\[\];,.:<>=!?])
''', re.X | re.S)


def extract_block(js_src):
    lines = js_src.split('\n')
    start = None
    for i, l in enumerate(lines):
        if l.startswith('//') and 'TRANSACTION CLASSIFICATION' in l:
            start = i + 1
            break
    if start is None:
        raise Untranslatable("TRANSACTION CLASSIFICATION banner not found")
    # skip the banner's closing rule
    if lines[start].startswith('// ===='):
        start += 1
    end = None
    for j in range(start, len(lines)):
        if lines[j].startswith('// ===='):
            end = j
            break
    if end is None:
        raise Untranslatable("end of classification block not found")
    return '\n'.join(lines[start:end])


def tokenize(src):
    pos, out = 0, []
    while pos < len(src):
        m = TOKEN_RE.match(src, pos)
        if not m:
            raise Untranslatable(f"cannot tokenize JS at {src[pos:pos+30]!r}")
        pos = m.end()
        k = m.lastgroup
        if k in ('ws', 'lc', 'bc'):
            continue
        out.append((k, m.group(k)))
    out.append(('eof', ''))
    return out


def js_string_value(tok):
    body = tok[1:-1]
    if '\\' in body:
        raise Untranslatable("escape sequence in JS string literal")
    return body


class Parser:
    """Produces a small untyped AST (tuples)."""
    def __init__(self, toks):
        self.t = toks
        self.i = 0

    def peek(self, k=0):
        return self.t[self.i + k]

    def at(self, val):
        return self.t[self.i][1] == val and self.t[self.i][0] in ('op', 'id')

    def eat(self, val):
        if not self.at(val):
            raise Untranslatable(f"expected {val!r}, found {self.t[self.i][1]!r}")
        self.i += 1

    def name(self):
        k, v = self.t[self.i]
        if k != 'id':
            raise Untranslatable(f"expected identifier, found {v!r}")
        self.i += 1
        return v

    def program(self):
        items = []
        while self.peek()[0] != 'eof':
            if self.at('const'):
                items.append(self.const_decl())
            elif self.at('function'):
                self.eat('function')
                n = self.name()
                self.eat('(')
                ps = []
                while not self.at(')'):
                    ps.append(self.name())
                    if self.at(','):
                        self.eat(',')
                self.eat(')')
                items.append(('function', n, ps, self.block()))
            else:
                raise Untranslatable(f"top-level JS token {self.peek()[1]!r}")
        return items

    def const_decl(self):
        self.eat('const')
        n = self.name()
        self.eat('=')
        e = self.expr()
        self.eat(';')
        return ('const', n, e)

    def block(self):
        self.eat('{')
        out = []
        while not self.at('}'):
            out.append(self.stmt())
        self.eat('}')
        return out

    def stmt_or_block(self):
        return self.block() if self.at('{') else [self.stmt()]

    def stmt(self):
        if self.at('const'):
            return self.const_decl()
        if self.at('let') or self.at('var'):
            raise Untranslatable("let/var declaration")
        if self.at('return'):
            self.eat('return')
            e = self.expr()
            self.eat(';')
            return ('return', e)
        if self.at('if'):
            self.eat('if'); self.eat('(')
            c = self.expr()
            self.eat(')')
            t = self.stmt_or_block()
            e = []
            if self.at('else'):
                self.eat('else')
                e = self.stmt_or_block()
            return ('if', c, t, e)
        if self.at('for'):
            self.eat('for'); self.eat('('); self.eat('const')
            v = self.name()
            self.eat('of')
            it = self.expr()
            self.eat(')')
            return ('forof', v, it, self.stmt_or_block())
        # assignment  a.k = e;
        lhs = self.expr()
        if self.at('='):
            self.eat('=')
            rhs = self.expr()
            self.eat(';')
            if lhs[0] == 'member' and lhs[1][0] == 'id':
                return ('setfield', lhs[1][1], lhs[2], rhs)
            raise Untranslatable("assignment target")
        raise Untranslatable("expression statement")

    # precedence climbing
    def expr(self):
        # arrow function with a single bare parameter
        if self.peek()[0] == 'id' and self.peek(1) == ('op', '=>'):
            p = self.name(); self.eat('=>')
            return ('arrow', p, self.expr())
        return self.or_()

    def or_(self):
        l = self.and_()
        while self.at('||'):
            self.eat('||'); l = ('or', l, self.and_())
        return l

    def and_(self):
        l = self.cmp()
        while self.at('&&'):
            self.eat('&&'); l = ('and', l, self.cmp())
        return l

    def cmp(self):
        l = self.add()
        for op in ('>=', '<=', '===', '!==', '>', '<'):
            if self.at(op):
                self.eat(op)
                return ('cmp', op, l, self.add())
        return l

    def add(self):
        l = self.unary()
        while self.at('+') or self.at('-'):
            op = self.peek()[1]; self.eat(op)
            l = ('arith', op, l, self.unary())
        return l

    def unary(self):
        if self.at('!'):
            self.eat('!'); return ('not', self.unary())
        if self.at('-'):
            self.eat('-'); return ('neg', self.unary())
        return self.postfix()

    def postfix(self):
        e = self.primary()
        while True:
            if self.at('.'):
                self.eat('.'); e = ('member', e, self.name())
            elif self.at('('):
                self.eat('(')
                args = []
                while not self.at(')'):
                    args.append(self.expr())
                    if self.at(','):
                        self.eat(',')
                self.eat(')')
                e = ('call', e, args)
            else:
                return e

    def primary(self):
        k, v = self.peek()
        if k == 'num':
            self.i += 1; return ('num', v)
        if k == 'str':
            self.i += 1; return ('str', js_string_value(v))
        if k == 'id':
            if v == 'new':
                self.i += 1
                cls = self.name()
                self.eat('(')
                args = []
                while not self.at(')'):
                    args.append(self.expr())
                    if self.at(','):
                        self.eat(',')
                self.eat(')')
                return ('new', cls, args)
            if v in ('true', 'false'):
                self.i += 1; return ('bool', v)
            self.i += 1; return ('id', v)
        if self.at('('):
            self.eat('('); e = self.expr(); self.eat(')')
            return e
        if self.at('['):
            self.eat('[')
            xs = []
            while not self.at(']'):
                xs.append(self.expr())
                if self.at(','):
                    self.eat(',')
            self.eat(']')
            return ('array', xs)
        if self.at('{'):
            self.eat('{')
            kv = []
            while not self.at('}'):
                key = self.name(); self.eat(':')
                kv.append((key, self.expr()))
                if self.at(','):
                    self.eat(',')
            self.eat('}')
            return ('object', kv)
        raise Untranslatable(f"unexpected JS token {v!r}")


class JsTranslator:
    def __init__(self):
        self.consts, self.const_ty, self.funcs, self.sigs = [], {}, [], {}

    def program(self, items):
        for it in items:
            if it[0] == 'const':
                txt, ty = self.expr(it[2], {})
                ty = final(ty, f"constant {it[1]}")
                if ty not in ('str', 'set'):
                    raise Untranslatable(f"constant {it[1]} of type {ty}")
                self.consts.append((it[1], (txt, ty))); self.const_ty[it[1]] = ty
            else:
                _, name, ps, body = it
                env = {p: TV(p) for p in ps}
                ret = TV()
                stmts = self.block(body, env, ret, name)
                params = [(p, final(env[p], f"parameter {p} of {name}")) for p in ps]
                r = final(ret, f"return type of {name}")
                self.funcs.append((name, params, r, stmts)); self.sigs[name] = ([t for _, t in params], r)
        return self

    def block(self, body, env, ret, fname):
        out = []
        for st in body:
            k = st[0]
            if k == 'const':
                if st[1] in env:
                    raise Untranslatable(f"shadowing of {st[1]}")
                txt, ty = self.expr(st[2], env)
                env[st[1]] = ty
                out.append(('let', st[1], (txt, ty)))
            elif k == 'return':
                txt, ty = self.expr(st[1], env)
                unify(ret, ty, f"return of {fname}")
                out.append(('return', (txt, ty)))
            elif k == 'if':
                c, cty = self.expr(st[1], env)
                unify(cty, 'bool', "if-condition (JS truthiness of non-Booleans is not translated)")
                out.append(('if', (c, 'bool'), self.block(st[2], dict(env), ret, fname),
                            self.block(st[3], dict(env), ret, fname)))
            elif k == 'forof':
                it, ity = self.expr(st[2], env)
                unify(ity, 'set', "for…of iterable")
                env2 = dict(env); env2[st[1]] = 'str'
                out.append(('forof', st[1], (it, 'set'), self.block(st[3], env2, ret, fname)))
            elif k == 'setfield':
                unify(env.get(st[1], TV()), 'rec', f"property store on {st[1]}")
                txt, ty = self.expr(st[3], env)
                unify(ty, 'num', "stored value")
                out.append(('setfield', st[1], canon_key(st[2]), (txt, ty)))
            else:
                raise Untranslatable(f"JS statement {k}")
        return out

    def expr(self, e, env):
        k = e[0]
        if k == 'str':
            return (lean_str(e[1]), 'str')
        if k == 'num':
            if float(e[1]) == 0:
                return ('N.zero', 'num')
            raise Untranslatable(f"numeric literal {e[1]}")
        if k == 'bool':
            return (e[1], 'bool')
        if k == 'id':
            if e[1] in env:
                return (ident(e[1]), env[e[1]])
            if e[1] in self.const_ty:
                return (ident(e[1]), self.const_ty[e[1]])
            raise Untranslatable(f"unknown JS name {e[1]}")
        if k == 'array':
            parts = []
            for x in e[1]:
                t, ty = self.expr(x, env); unify(ty, 'str', "array element"); parts.append(t)
            return ('[' + ', '.join(parts) + ']', 'set')
        if k == 'new':
            if e[1] != 'Set' or len(e[2]) != 1:
                raise Untranslatable(f"new {e[1]}")
            t, ty = self.expr(e[2][0], env)
            unify(ty, 'set', "Set constructor argument")
            return (t, 'set')
        if k == 'or':
            if e[2] == ('array', []):
                t, ty = self.expr(e[1], env); unify(ty, 'tags', "`x || []`")
                return (f'orEmpty ({t})', 'set')
            l, lt = self.expr(e[1], env); r, rt = self.expr(e[2], env)
            unify(lt, 'bool', "||"); unify(rt, 'bool', "||")
            return (f'({l}) || ({r})', 'bool')
        if k == 'and':
            l, lt = self.expr(e[1], env); r, rt = self.expr(e[2], env)
            unify(lt, 'bool', "&&"); unify(rt, 'bool', "&&")
            return (f'({l}) && ({r})', 'bool')
        if k == 'not':
            t, ty = self.expr(e[1], env); unify(ty, 'bool', "!")
            return (f'!({t})', 'bool')
        if k == 'neg':
            t, ty = self.expr(e[1], env); unify(ty, 'num', "unary -")
            return (f'N.neg ({t})', 'num')
        if k == 'cmp':
            names = {'>': 'gt', '<': 'lt', '>=': 'ge', '<=': 'le'}
            if e[1] not in names:
                raise Untranslatable(f"comparison {e[1]}")
            l, lt = self.expr(e[2], env); r, rt = self.expr(e[3], env)
            unify(lt, 'num', "comparison"); unify(rt, 'num', "comparison")
            return (f'N.{names[e[1]]} ({l}) ({r})', 'bool')
        if k == 'arith':
            l, lt = self.expr(e[2], env); r, rt = self.expr(e[3], env)
            unify(lt, 'num', "+/-"); unify(rt, 'num', "+/-")
            return (f"N.{'add' if e[1] == '+' else 'sub'} ({l}) ({r})", 'num')
        if k == 'object':
            keys, fields = [], []
            for key, v in e[1]:
                t, ty = self.expr(v, env); unify(ty, 'num', "object value")
                keys.append(canon_key(key)); fields.append(f'{canon_key(key)} := {t}')
            if sorted(keys) != sorted(BUCKET_KEYS):
                raise Untranslatable(f"object literal keys {keys}")
            return ('({ ' + ', '.join(fields) + ' } : Buckets N.α)', 'rec')
        if k == 'call':
            f, args = e[1], e[2]
            if f[0] == 'member':
                recv, meth = f[1], f[2]
                if recv == ('id', 'Math') and meth == 'abs' and len(args) == 1:
                    t, ty = self.expr(args[0], env); unify(ty, 'num', "Math.abs")
                    return (f'N.abs ({t})', 'num')
                if meth == 'toLowerCase' and not args:
                    t, ty = self.expr(recv, env); unify(ty, 'str', ".toLowerCase()")
                    return (f'lower ({t})', 'str')
                if meth == 'has' and len(args) == 1:
                    s, sty = self.expr(recv, env); unify(sty, 'set', ".has receiver")
                    x, xty = self.expr(args[0], env); unify(xty, 'str', ".has argument")
                    return (f'List.contains ({s}) ({x})', 'bool')
                if meth == 'map' and len(args) == 1 and args[0][0] == 'arrow':
                    s, sty = self.expr(recv, env); unify(sty, 'set', ".map receiver")
                    env2 = dict(env); env2[args[0][1]] = 'str'
                    b, bty = self.expr(args[0][2], env2); unify(bty, 'str', ".map result")
                    return (f'List.map (fun {ident(args[0][1])} => {b}) ({s})', 'set')
                raise Untranslatable(f"method call .{meth}")
            if f[0] == 'id' and f[1] in self.sigs:
                ptys, r = self.sigs[f[1]]
                if len(ptys) != len(args):
                    raise Untranslatable(f"arity of call to {f[1]}")
                ts = []
                for a, p in zip(args, ptys):
                    t, ty = self.expr(a, env); unify(ty, p, f"argument of {f[1]}"); ts.append(f'({t})')
                return (f'{ident(f[1])} N lower ' + ' '.join(ts), r)
            raise Untranslatable("JS call shape")
        raise Untranslatable(f"JS expression {k}")


def translate(js_src):
    block = extract_block(js_src)
    items = Parser(tokenize(block)).program()
    tr = JsTranslator().program(items)
    return emit_module('ClassJs', 'the TRANSACTION CLASSIFICATION block of src/tally/spending_report.js',
                       tr.consts, tr.funcs), tr, block
