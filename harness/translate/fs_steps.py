"""cli.py / commands/init.py  ->  lean/TallyVerif/Gen/FsSteps.lean   (properties C15, C20)

Extracts, via `ast`, the ORDER of file-system calls in the migration functions
  cli._migrate_csv_to_rules, cli.migrate_v0_to_v1, cli.init_config, commands/init.cmd_init
as lists of `TallyVerif.Fs.FsCall`.  Recorded calls (source order = statement order; the functions have no
backward jumps apart from the one `for subdir in ['data', 'output']` loop, which is emitted as a bracket):

  open(p, 'w'|'a'|'x'|'w+'…)        -> openW / openA           (read-only opens are ignored)
  shutil.move(a, b)                  -> move
  os.replace(a, b) / os.rename(a, b) -> replace
  os.makedirs(p, …) / os.mkdir(p)    -> makedirs
  _migrate_csv_to_rules(…), init_config(…)  -> call

Path arguments are resolved symbolically through the function's own straight-line assignments
(`new_file = os.path.join(config_dir, 'merchants.rules')`, `csv_file + '.bak'`, a one-argument helper call
such as `_free_backup_path(csv_file)` -> "fresh(...)") and looked up in a closed table of targets.
Anything else that touches the file system in these functions (shutil.copy*, os.remove, os.unlink,
shutil.rmtree, Path.write_text, truncate, an unknown target, a second loop …) is "untranslatable": the
obligation breaks and the check falls back to its search on the real code.
"""
import ast
from .ir import Untranslatable

PARAMS = {'csv_file': 'CSV', 'config_dir': 'CONFIG', 'old_config_dir': 'OLDCONFIG', 'target_dir': 'TARGET'}
TARGETS = {
    'CONFIG/merchants.rules': 'rules', 'CONFIG/merchants.rules.tmp': 'rulesTmp',
    'fresh(CONFIG/merchants.rules)': 'rulesBakFresh', 'fresh(CONFIG/merchants.rules.bak)': 'rulesBakFresh',
    'CSV': 'csv', 'CSV.bak': 'csvBakFixed', 'fresh(CSV)': 'csvBakFresh', 'fresh(CSV.bak)': 'csvBakFresh',
    'CONFIG/settings.yaml': 'settings', 'CONFIG/views.rules': 'views', 'TARGET/.gitignore': 'gitignore',
    'CONFIG': 'configDir', 'TARGET/data': 'dataDir', 'TARGET/output': 'outputDir',
    'CWD/tally': 'tallyDir', 'OLDCONFIG': 'oldConfig', 'CWD/tally/config': 'newConfig',
    'CWD/SUBDIR': 'subdirOld', 'CWD/tally/SUBDIR': 'subdirNew', 'CWD/tally/config/.tally-schema': 'schema',
}
FORBIDDEN_ATTRS = {'copy', 'copy2', 'copyfile', 'copytree', 'rmtree', 'remove', 'unlink', 'rmdir', 'truncate',
                   'write_text', 'write_bytes', 'removedirs', 'renames', 'symlink', 'link', 'touch'}
FUNCS = {'_migrate_csv_to_rules': 'migrateCsv', 'migrate_v0_to_v1': 'migrateLayout',
         'init_config': 'initConfig', 'cmd_init': 'cmdInit'}
CALLEES = {'_migrate_csv_to_rules': 'migrateCsv', 'init_config': 'initConfig'}


def _dotted(f):
    if isinstance(f, ast.Attribute):
        b = _dotted(f.value)
        return (b + '.' if b else '?.') + f.attr
    if isinstance(f, ast.Name):
        return f.id
    return ''


class _Fn:
    def __init__(self, fn):
        self.fn = fn
        self.env = {}
        self.calls = []
        self.loopvar = None
        self.loops = 0
        self.mention_test = False
        self.helpers = []

    # ---- symbolic paths
    def res(self, e):
        if isinstance(e, ast.Constant) and isinstance(e.value, str):
            return e.value
        if isinstance(e, ast.Name):
            if e.id == self.loopvar:
                return 'SUBDIR'
            if e.id in self.env:
                return self.env[e.id]
            if e.id in PARAMS:
                return PARAMS[e.id]
            raise Untranslatable(f'{self.fn.name}: path name {e.id!r} has no straight-line definition')
        if isinstance(e, ast.BinOp) and isinstance(e.op, ast.Add):
            return self.res(e.left) + self.res(e.right)
        if isinstance(e, ast.Call):
            d = _dotted(e.func)
            if d == 'os.path.join':
                return '/'.join(self.res(a) for a in e.args)
            if d == 'os.path.abspath' and len(e.args) == 1:
                r = self.res(e.args[0])
                return r if r.startswith(('CWD', 'TARGET', 'CONFIG', 'CSV', 'OLDCONFIG')) else ('CWD' if r == '.' else 'CWD/' + r)
            if isinstance(e.func, ast.Name) and len(e.args) == 1 and not e.keywords:
                self.helpers.append(e.func.id)
                return 'fresh(' + self.res(e.args[0]) + ')'
        raise Untranslatable(f'{self.fn.name}: cannot resolve path expression `{ast.unparse(e)}`')

    def target(self, e):
        r = self.res(e)
        if r.startswith('TARGET/config'):
            r = 'CONFIG' + r[len('TARGET/config'):]
        if r not in TARGETS:
            raise Untranslatable(f'{self.fn.name}: file-system call on an unmodelled path `{ast.unparse(e)}` (= {r})')
        return '.' + TARGETS[r]

    # ---- statements in source order
    def block(self, stmts):
        for st in stmts:
            self.stmt(st)

    def exprs(self, node):
        """all Call nodes inside `node` (not descending into nested statements), in source order"""
        cs = [n for n in ast.walk(node) if isinstance(n, ast.Call)]
        cs.sort(key=lambda n: (n.lineno, n.col_offset))
        for c in cs:
            self.call(c)
        for n in ast.walk(node):
            if isinstance(n, ast.Compare) and any(isinstance(o, (ast.In, ast.NotIn)) for o in n.ops) \
                    and isinstance(n.left, ast.Constant) and n.left.value == 'merchants_file:':
                self.mention_test = True

    def stmt(self, st):
        if isinstance(st, (ast.FunctionDef, ast.AsyncFunctionDef, ast.ClassDef)):
            return                                   # nested helpers (cmd_init.link) are not executed here
        if isinstance(st, ast.Assign) and len(st.targets) == 1 and isinstance(st.targets[0], ast.Name):
            self.exprs(st.value)
            try:
                self.env[st.targets[0].id] = self.res(st.value)
            except Untranslatable:
                self.env.pop(st.targets[0].id, None)
            return
        if isinstance(st, ast.With):
            for it in st.items:
                self.exprs(it.context_expr)
            return self.block(st.body)
        if isinstance(st, ast.If):
            self.exprs(st.test)
            self.block(st.body)
            return self.block(st.orelse)
        if isinstance(st, ast.Try):
            self.block(st.body)
            for h in st.handlers:
                self.block(h.body)
            self.block(st.orelse)
            return self.block(st.finalbody)
        if isinstance(st, ast.For):
            inner = _Fn(self.fn)
            inner.env = dict(self.env)
            inner.loopvar = st.target.id if isinstance(st.target, ast.Name) else None
            inner.block(st.body)
            if inner.calls:
                lit = st.iter
                if not (isinstance(lit, ast.List) and [getattr(e, 'value', None) for e in lit.elts] == ['data', 'output']):
                    raise Untranslatable(f'{self.fn.name}: file-system calls in a loop other than `for subdir in [\'data\', \'output\']`')
                self.loops += 1
                self.calls += ['.loopDataOutput'] + inner.calls + ['.endLoop']
            self.mention_test |= inner.mention_test
            return
        if isinstance(st, ast.While):
            w = _Fn(self.fn)
            w.env = dict(self.env)
            w.block(st.body)
            if w.calls:
                raise Untranslatable(f'{self.fn.name}: file-system calls inside a while loop')
            return
        for child in ast.iter_child_nodes(st):
            if isinstance(child, ast.expr):
                self.exprs(child)

    def call(self, c):
        d = _dotted(c.func)
        name = d.split('.')[-1]
        if d == 'open' or name == 'open':
            mode = 'r'
            if len(c.args) >= 2 and isinstance(c.args[1], ast.Constant):
                mode = c.args[1].value
            for k in c.keywords:
                if k.arg == 'mode' and isinstance(k.value, ast.Constant):
                    mode = k.value.value
            if not isinstance(mode, str):
                raise Untranslatable(f'{self.fn.name}: open() with a computed mode')
            if 'a' in mode:
                self.calls.append(f'.openA {self.target(c.args[0])}')
            elif any(ch in mode for ch in 'wx+'):
                self.calls.append(f'.openW {self.target(c.args[0])}')
            return
        if d == 'shutil.move':
            self.calls.append(f'.move {self.target(c.args[0])} {self.target(c.args[1])}')
        elif d in ('os.replace', 'os.rename'):
            self.calls.append(f'.replace {self.target(c.args[0])} {self.target(c.args[1])}')
        elif d in ('os.makedirs', 'os.mkdir'):
            self.calls.append(f'.makedirs {self.target(c.args[0])}')
        elif isinstance(c.func, ast.Name) and c.func.id in CALLEES:
            self.calls.append(f'.call .{CALLEES[c.func.id]}')
        elif name in FORBIDDEN_ATTRS and d.split('.')[0] in ('os', 'shutil', '?'):
            raise Untranslatable(f'{self.fn.name}: `{d}` is outside the modelled file-system vocabulary')


def extract(src, wanted):
    out = {}
    for n in ast.parse(src).body:
        if isinstance(n, ast.FunctionDef) and n.name in wanted:
            f = _Fn(n)
            f.block(n.body)
            out[n.name] = f
    return out


def translate(cli_src, init_src):
    fns = extract(cli_src, ('_migrate_csv_to_rules', 'migrate_v0_to_v1', 'init_config'))
    fns.update(extract(init_src, ('cmd_init',)))
    missing = [k for k in FUNCS if k not in fns]
    if missing:
        raise Untranslatable('function(s) not found: ' + ', '.join(missing))
    lines = ['-- GENERATED by /verif/harness/translate/fs_steps.py from src/tally/cli.py and src/tally/commands/init.py; do not edit.',
             'import TallyVerif.Model.Fs',
             'namespace TallyVerif.Gen.FsSteps',
             'open TallyVerif.Fs']
    meta = {}
    for py, lean in FUNCS.items():
        calls = fns[py].calls
        body = ', '.join(calls)
        lines.append(f'/-- file-system calls of `{py}` in statement order -/')
        lines.append(f'def {lean} : List FsCall := [{body}]')
        meta[lean] = [c.replace('.', '').strip() for c in calls]
    mt = fns['_migrate_csv_to_rules'].mention_test
    lines.append("/-- `_migrate_csv_to_rules` decides about the settings line by the text test `'merchants_file:' in content` -/")
    lines.append(f'def migrateCsvMentionTest : Bool := {"true" if mt else "false"}')
    lines += ['end TallyVerif.Gen.FsSteps', '']
    meta['mentionTest'] = mt
    meta['helpers'] = sorted(set(fns['_migrate_csv_to_rules'].helpers))
    return '\n'.join(lines), meta
