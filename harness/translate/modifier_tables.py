"""src/tally/modifier_parser.py  ->  lean/TallyVerif/Gen/ModifierTables.lean

Extracted with Python's `ast`:
  regexes : every module-level `NAME = re.compile(<str literal>[, <flags>])`, in source order: (NAME, pattern text, flag names)
  uses    : per module-level function, the calls `NAME.<method>(…)` on those constants in source order: (function, [(NAME, method), …])
The hand-written scanners of Model/Legacy.lean implement exactly the table `Legacy.regexTable` / `Legacy.useTable`; Props/C14.lean
carries the kernel-decided obligation `Gen.ModifierTables = that table`, so an edit to a constant, a flag, the order in which the
alternatives are tried, or `match` → `search` / `fullmatch` re-opens a proof obligation.

Untranslatable (never papered over): a `re.compile` whose pattern is not a string literal or whose flags are not `re.X | re.Y`; any
other use of the `re` module (a regular expression that is not in the table); a table constant used otherwise than as the receiver of
a method call (aliased, passed on, rebound).
"""
import ast
from .ir import Untranslatable
from .fmt_tables import lean_chars

FLAG_NAMES = {'I': 'IGNORECASE', 'IGNORECASE': 'IGNORECASE', 'M': 'MULTILINE', 'MULTILINE': 'MULTILINE', 'S': 'DOTALL', 'DOTALL': 'DOTALL',
              'X': 'VERBOSE', 'VERBOSE': 'VERBOSE', 'A': 'ASCII', 'ASCII': 'ASCII', 'U': 'UNICODE', 'UNICODE': 'UNICODE', 'L': 'LOCALE',
              'LOCALE': 'LOCALE'}


def _is_re_attr(node, attr=None):
    return isinstance(node, ast.Attribute) and isinstance(node.value, ast.Name) and node.value.id == 're' and (attr is None or node.attr == attr)


def _flags(node):
    if node is None:
        return []
    if isinstance(node, ast.BinOp) and isinstance(node.op, ast.BitOr):
        return _flags(node.left) + _flags(node.right)
    if _is_re_attr(node) and node.attr in FLAG_NAMES:
        return [FLAG_NAMES[node.attr]]
    if isinstance(node, ast.Constant) and node.value == 0:
        return []
    raise Untranslatable(f'flags of re.compile at line {node.lineno} are not of the form re.X | re.Y')


def extract(src):
    tree = ast.parse(src)
    regexes, names, compile_calls = [], {}, set()
    for st in tree.body:
        if isinstance(st, ast.Assign) and isinstance(st.value, ast.Call) and _is_re_attr(st.value.func, 'compile'):
            call = st.value
            if len(st.targets) != 1 or not isinstance(st.targets[0], ast.Name):
                raise Untranslatable(f're.compile at line {st.lineno} is not assigned to a plain name')
            name = st.targets[0].id
            if name in names:
                raise Untranslatable(f'{name} is assigned twice')
            if not call.args or not isinstance(call.args[0], ast.Constant) or not isinstance(call.args[0].value, str):
                raise Untranslatable(f'{name}: the pattern is not a string literal')
            if len(call.args) > 2 or any(kw.arg != 'flags' for kw in call.keywords):
                raise Untranslatable(f'{name}: unexpected arguments of re.compile')
            fl = call.args[1] if len(call.args) == 2 else next((kw.value for kw in call.keywords), None)
            names[name] = len(regexes)
            regexes.append((name, call.args[0].value, sorted(set(_flags(fl)))))
            compile_calls.add(id(call))
    if not regexes:
        raise Untranslatable('no module-level re.compile constants found')
    # every other use of the re module is a regular expression outside the table
    for node in ast.walk(tree):
        if isinstance(node, ast.Call) and _is_re_attr(node.func) and id(node) not in compile_calls:
            raise Untranslatable(f're.{node.func.attr}(…) at line {node.lineno}: a regular expression that is not one of the module constants')
        if isinstance(node, (ast.ImportFrom,)) and node.module == 're':
            raise Untranslatable('from re import …: calls can no longer be attributed to the re module')
    # uses: NAME.method(...) calls, per module-level function, in source order
    uses, receivers = [], set()
    for fn in tree.body:
        if not isinstance(fn, ast.FunctionDef):
            continue
        calls = []
        for node in ast.walk(fn):
            if isinstance(node, ast.Call) and isinstance(node.func, ast.Attribute) and isinstance(node.func.value, ast.Name) \
                    and node.func.value.id in names:
                calls.append((node.lineno, node.col_offset, node.func.value.id, node.func.attr))
                receivers.add(id(node.func.value))
        if calls:
            uses.append((fn.name, [(n, m) for _, _, n, m in sorted(calls)]))
    for node in ast.walk(tree):
        if isinstance(node, ast.Name) and node.id in names and id(node) not in receivers:
            if isinstance(node.ctx, ast.Store) and any(node is st.targets[0] for st in tree.body if isinstance(st, ast.Assign)):
                continue
            raise Untranslatable(f'{node.id} is used at line {node.lineno} otherwise than as the receiver of a method call')
    return regexes, uses


def emit(regexes, uses):
    L = ['-- GENERATED by /verif/harness/translate/modifier_tables.py from src/tally/modifier_parser.py; do not edit.',
         'namespace TallyVerif.Gen.ModifierTables', '',
         '/-- (constant, pattern text, flags) of every module-level `re.compile`, in source order -/',
         'def regexes : List (List Char × List Char × List (List Char)) :=\n  [' +
         ',\n   '.join(f'({lean_chars(n)},\n    {lean_chars(p)},\n    [{", ".join(lean_chars(f) for f in fl)}])' for n, p, fl in regexes) + ']', '',
         '/-- per function: the constants it consults and the method called on each, in source order -/',
         'def uses : List (List Char × List (List Char × List Char)) :=\n  [' +
         ',\n   '.join(f'({lean_chars(fn)},\n    [{", ".join(f"({lean_chars(n)}, {lean_chars(m)})" for n, m in cs)}])' for fn, cs in uses) + ']', '',
         'end TallyVerif.Gen.ModifierTables']
    return '\n'.join(L) + '\n'


def translate(src):
    regexes, uses = extract(src)
    return emit(regexes, uses), {'regexes': [[n, p, fl] for n, p, fl in regexes], 'uses': [[fn, cs] for fn, cs in uses]}
