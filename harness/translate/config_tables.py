"""src/tally/config_loader.py + format_parser.py + commands/run.py + parsers.py  ->  lean/TallyVerif/Gen/ConfigTables.lean

The constants the settings-resolution model (Model/Config.lean) is written over, extracted with Python's `ast`:

  config_loader.resolve_source_format
      REMOVED_SOURCE_KEYS   `if '<k>' in source: raise ValueError(...)` at the top of the function, in order
      APPLIED_KEYS          `if '<k>' in source: format_spec.<k> = source['<k>']` inside the format branch, in order
      SOURCE_KEYS_READ      every constant key the function reads from `source` (get / [] / in), sorted
      SUPPLEMENTAL_DEFAULT_FALSE  the default of `source.get('supplemental', False)`
  config_loader.load_config
      REMOVED_SETTINGS      `if '<k>' in config: removed_settings.append('<k>')`, in order
      RULE_MODES            the tuple of `if rule_mode not in (...)`
      DEFAULT_RULE_MODE     `config.get('rule_mode', <default>)`
      FALLBACK_RULE_MODE    `rule_mode = <fallback>` inside that `if`
      LEGACY_CSV_NAME       `csv_file = os.path.join(config_dir, '<name>')`
      CONFIG_KEYS_READ      every constant key load_config reads from `config` (get / [] load / in), sorted
  format_parser
      SPECIAL_PARSERS       the keys of PREDEFINED_FORMATS (every value must be the constant None), in order
      SPEC_HAS_HEADER_DEFAULT, SPEC_DELIMITER_DEFAULT_NONE   keywords of the FormatSpec(...) parse_format_string returns
  commands/run.cmd_run
      DECIMAL_DEFAULT       `source.get('decimal_separator', <default>)`
      NAME_DEFAULT          `source.get('name', <default>)` in the parse_generic_csv call
      RUN_PARSER_CHAIN      the constants of the `parser_type == '<x>'` chain, in order
      RUN_SOURCE_KEYS_READ  every constant key cmd_run reads from `source`, sorted
      PARENT_DIR            the middle argument of `os.path.join(config_dir, '..', source['file'])`
  parsers.parse_amount
      EU_SEPARATOR          `if decimal_separator == '<c>'`

Anything that is not of the shape described raises Untranslatable (a broken obligation: the check then searches the
real code for an input on which the property fails).
"""
import ast
from .ir import Untranslatable
from .fmt_tables import lean_chars, lean_table


def _func(tree, name):
    for st in tree.body:
        if isinstance(st, ast.FunctionDef) and st.name == name:
            return st
    raise Untranslatable(f'function {name} not found')


def _const_str(node, what):
    if not (isinstance(node, ast.Constant) and isinstance(node.value, str)):
        raise Untranslatable(f'{what}: expected a string literal at line {getattr(node, "lineno", "?")}')
    return node.value


def _is_name(node, name):
    return isinstance(node, ast.Name) and node.id == name


def _in_test(test, var):
    """`'<k>' in <var>` -> k, else None"""
    if isinstance(test, ast.Compare) and len(test.ops) == 1 and isinstance(test.ops[0], ast.In) \
            and isinstance(test.left, ast.Constant) and isinstance(test.left.value, str) and _is_name(test.comparators[0], var):
        return test.left.value
    return None


def keys_read(fn, var):
    """constant keys read from dict variable `var` anywhere in fn: var.get(K, …), var[K] (load), K in var"""
    out = set()
    for node in ast.walk(fn):
        if isinstance(node, ast.Call) and isinstance(node.func, ast.Attribute) and node.func.attr == 'get' and _is_name(node.func.value, var):
            if not node.args:
                raise Untranslatable(f'{var}.get() without a key at line {node.lineno}')
            out.add(_const_str(node.args[0], f'{var}.get key'))
        elif isinstance(node, ast.Subscript) and _is_name(node.value, var) and isinstance(node.ctx, ast.Load):
            out.add(_const_str(node.slice, f'{var}[…] key'))
        elif isinstance(node, ast.Compare):
            k = _in_test(node, var)
            if k is not None:
                out.add(k)
    return sorted(out)


def _get_default(fn, var, key):
    """the literal default of the (unique) call `var.get(key, default)` in fn"""
    found = []
    for node in ast.walk(fn):
        if isinstance(node, ast.Call) and isinstance(node.func, ast.Attribute) and node.func.attr == 'get' and _is_name(node.func.value, var) \
                and node.args and isinstance(node.args[0], ast.Constant) and node.args[0].value == key:
            if len(node.args) != 2 or not isinstance(node.args[1], ast.Constant):
                raise Untranslatable(f"{var}.get({key!r}, …): expected a literal default at line {node.lineno}")
            found.append(node.args[1].value)
    if not found or any(f != found[0] or type(f) is not type(found[0]) for f in found):
        raise Untranslatable(f"{var}.get({key!r}, <default>): expected one literal default, found {found!r}")
    return found[0]


def extract(config_loader_src, format_parser_src, run_src, parsers_src):
    t = {}
    cl = ast.parse(config_loader_src)
    # ---- resolve_source_format
    rs = _func(cl, 'resolve_source_format')
    removed = []
    for st in rs.body:
        if isinstance(st, ast.If):
            k = _in_test(st.test, 'source')
            if k is None or k in ('format', 'type'):
                continue
            if not (len(st.body) == 1 and isinstance(st.body[0], ast.Raise) and isinstance(st.body[0].exc, ast.Call)
                    and _is_name(st.body[0].exc.func, 'ValueError') and not st.orelse):
                raise Untranslatable(f"resolve_source_format: `if {k!r} in source` is not a plain `raise ValueError(...)` (line {st.lineno})")
            removed.append(k)
    t['REMOVED_SOURCE_KEYS'] = removed
    chain = [st for st in rs.body if isinstance(st, ast.If) and _in_test(st.test, 'source') == 'format']
    if len(chain) != 1:
        raise Untranslatable("resolve_source_format: expected exactly one `if 'format' in source:` statement")
    fmt_if = chain[0]
    if not (len(fmt_if.orelse) == 1 and isinstance(fmt_if.orelse[0], ast.If) and _in_test(fmt_if.orelse[0].test, 'source') == 'type'
            and fmt_if.orelse[0].orelse and all(isinstance(s, ast.Raise) for s in fmt_if.orelse[0].orelse)):
        raise Untranslatable("resolve_source_format: the chain is not `if 'format' in source … elif 'type' in source … else: raise`")
    tries = [s for s in fmt_if.body if isinstance(s, ast.Try)]
    if len(tries) != 1:
        raise Untranslatable("resolve_source_format: expected one try block in the format branch")
    tr = tries[0]
    if not (len(tr.handlers) == 1 and _is_name(tr.handlers[0].type, 'ValueError') and len(tr.handlers[0].body) == 1
            and isinstance(tr.handlers[0].body[0], ast.Raise) and isinstance(tr.handlers[0].body[0].exc, ast.Call)
            and _is_name(tr.handlers[0].body[0].exc.func, 'ValueError')):
        raise Untranslatable("resolve_source_format: the format branch no longer re-raises ValueError as ValueError only")
    applied = []
    for st in tr.body:
        if isinstance(st, ast.If):
            k = _in_test(st.test, 'source')
            ok = (k is not None and len(st.body) == 1 and not st.orelse and isinstance(st.body[0], ast.Assign)
                  and len(st.body[0].targets) == 1 and isinstance(st.body[0].targets[0], ast.Attribute)
                  and _is_name(st.body[0].targets[0].value, 'format_spec') and st.body[0].targets[0].attr == k
                  and isinstance(st.body[0].value, ast.Subscript) and _is_name(st.body[0].value.value, 'source')
                  and isinstance(st.body[0].value.slice, ast.Constant) and st.body[0].value.slice.value == k)
            if not ok:
                raise Untranslatable(f"resolve_source_format: explicit setting at line {st.lineno} is not `if 'k' in source: format_spec.k = source['k']`")
            applied.append(k)
    t['APPLIED_KEYS'] = applied
    t['SOURCE_KEYS_READ'] = keys_read(rs, 'source')
    if _get_default(rs, 'source', 'supplemental') is not False:
        raise Untranslatable("resolve_source_format: the default of source.get('supplemental', …) is not False")
    t['SUPPLEMENTAL_DEFAULT_FALSE'] = True
    # ---- load_config
    lc = _func(cl, 'load_config')
    rem = []
    for st in ast.walk(lc):
        if isinstance(st, ast.If):
            k = _in_test(st.test, 'config')
            if k is None:
                continue
            if not (len(st.body) == 1 and isinstance(st.body[0], ast.Expr) and isinstance(st.body[0].value, ast.Call)
                    and isinstance(st.body[0].value.func, ast.Attribute) and st.body[0].value.func.attr == 'append'
                    and _is_name(st.body[0].value.func.value, 'removed_settings') and len(st.body[0].value.args) == 1
                    and isinstance(st.body[0].value.args[0], ast.Constant) and st.body[0].value.args[0].value == k):
                raise Untranslatable(f"load_config: `if {k!r} in config` is not `removed_settings.append({k!r})` (line {st.lineno})")
            rem.append((st.lineno, k))
    t['REMOVED_SETTINGS'] = [k for _, k in sorted(rem)]
    t['DEFAULT_RULE_MODE'] = _get_default(lc, 'config', 'rule_mode')
    if not isinstance(t['DEFAULT_RULE_MODE'], str):
        raise Untranslatable('load_config: default rule_mode is not a string')
    modes = None
    for st in ast.walk(lc):
        if isinstance(st, ast.If) and isinstance(st.test, ast.Compare) and len(st.test.ops) == 1 and isinstance(st.test.ops[0], ast.NotIn) \
                and _is_name(st.test.left, 'rule_mode'):
            if modes is not None:
                raise Untranslatable('load_config: more than one `rule_mode not in` test')
            c = st.test.comparators[0]
            if not isinstance(c, (ast.Tuple, ast.List)):
                raise Untranslatable('load_config: `rule_mode not in` is not tested against a literal tuple')
            modes = [_const_str(e, 'rule mode') for e in c.elts]
            fb = [s.value for s in st.body if isinstance(s, ast.Assign) and len(s.targets) == 1 and _is_name(s.targets[0], 'rule_mode')]
            if len(fb) != 1 or st.orelse:
                raise Untranslatable('load_config: expected exactly one `rule_mode = <fallback>` in the invalid-mode branch')
            t['FALLBACK_RULE_MODE'] = _const_str(fb[0], 'fallback rule mode')
            if not any(isinstance(s, ast.Expr) and isinstance(s.value, ast.Call) and isinstance(s.value.func, ast.Attribute)
                       and s.value.func.attr == 'append' and _is_name(s.value.func.value, 'warnings') for s in st.body):
                raise Untranslatable('load_config: the invalid-mode branch no longer appends a warning')
            if any(isinstance(s, ast.Raise) for s in ast.walk(st)):
                raise Untranslatable('load_config: the invalid-mode branch raises')
    if modes is None:
        raise Untranslatable('load_config: `if rule_mode not in (...)` not found')
    t['RULE_MODES'] = modes
    legacy = []
    for st in ast.walk(lc):
        if isinstance(st, ast.Assign) and len(st.targets) == 1 and _is_name(st.targets[0], 'csv_file'):
            v = st.value
            if not (isinstance(v, ast.Call) and isinstance(v.func, ast.Attribute) and v.func.attr == 'join' and len(v.args) == 2
                    and _is_name(v.args[0], 'config_dir')):
                raise Untranslatable('load_config: csv_file is not os.path.join(config_dir, <literal>)')
            legacy.append(_const_str(v.args[1], 'legacy CSV name'))
    if len(legacy) != 1:
        raise Untranslatable('load_config: expected exactly one `csv_file = os.path.join(config_dir, <literal>)`')
    t['LEGACY_CSV_NAME'] = legacy[0]
    t['CONFIG_KEYS_READ'] = keys_read(lc, 'config')
    # ---- format_parser
    fp = ast.parse(format_parser_src)
    pf = [st.value for st in fp.body if isinstance(st, ast.Assign) and len(st.targets) == 1 and _is_name(st.targets[0], 'PREDEFINED_FORMATS')]
    if len(pf) != 1 or not isinstance(pf[0], ast.Dict):
        raise Untranslatable('PREDEFINED_FORMATS: expected exactly one module-level dict literal')
    for v in pf[0].values:
        if not (isinstance(v, ast.Constant) and v.value is None):
            raise Untranslatable('PREDEFINED_FORMATS: a value is not None (a predefined type that is not a special parser)')
    t['SPECIAL_PARSERS'] = [_const_str(k, 'PREDEFINED_FORMATS key') for k in pf[0].keys]
    isp = _func(fp, 'is_special_parser_type')
    if ast.dump(isp.body[-1]) != ast.dump(ast.parse('return source_type.lower() in PREDEFINED_FORMATS').body[0]):
        raise Untranslatable('is_special_parser_type is no longer `return source_type.lower() in PREDEFINED_FORMATS`')
    pfs = _func(fp, 'parse_format_string')
    specs = [n for n in ast.walk(pfs) if isinstance(n, ast.Call) and _is_name(n.func, 'FormatSpec')]
    if len(specs) != 1:
        raise Untranslatable('parse_format_string: expected exactly one FormatSpec(...) call')
    kws = {kw.arg: kw.value for kw in specs[0].keywords}
    for k in ('has_header', 'delimiter'):
        if k not in kws or not isinstance(kws[k], ast.Constant):
            raise Untranslatable(f'parse_format_string: FormatSpec({k}=<literal>) not found')
    if not isinstance(kws['has_header'].value, bool):
        raise Untranslatable('parse_format_string: has_header default is not a bool literal')
    t['SPEC_HAS_HEADER_DEFAULT'] = kws['has_header'].value
    t['SPEC_DELIMITER_DEFAULT_NONE'] = kws['delimiter'].value is None
    if not t['SPEC_DELIMITER_DEFAULT_NONE']:
        raise Untranslatable('parse_format_string: delimiter default is not None')
    # ---- commands/run.py
    rn = _func(ast.parse(run_src), 'cmd_run')
    t['DECIMAL_DEFAULT'] = _get_default(rn, 'source', 'decimal_separator')
    t['NAME_DEFAULT'] = None
    for n in ast.walk(rn):
        if isinstance(n, ast.Call) and _is_name(n.func, 'parse_generic_csv'):
            for kw in n.keywords:
                if kw.arg == 'source_name':
                    v = kw.value
                    if not (isinstance(v, ast.Call) and isinstance(v.func, ast.Attribute) and v.func.attr == 'get' and _is_name(v.func.value, 'source')
                            and len(v.args) == 2 and isinstance(v.args[0], ast.Constant) and v.args[0].value == 'name'):
                        raise Untranslatable("cmd_run: parse_generic_csv(source_name=…) is not source.get('name', <literal>)")
                    t['NAME_DEFAULT'] = _const_str(v.args[1], 'default source name')
    if not isinstance(t['DECIMAL_DEFAULT'], str) or t['NAME_DEFAULT'] is None:
        raise Untranslatable('cmd_run: defaults of decimal_separator / name not found')
    chain = []
    for n in ast.walk(rn):
        if isinstance(n, ast.Compare) and _is_name(n.left, 'parser_type') and len(n.ops) == 1 and isinstance(n.ops[0], ast.Eq):
            chain.append((n.lineno, _const_str(n.comparators[0], 'parser_type constant')))
    t['RUN_PARSER_CHAIN'] = [k for _, k in sorted(chain)]
    t['RUN_SOURCE_KEYS_READ'] = keys_read(rn, 'source')
    parents = []
    for n in ast.walk(rn):
        if isinstance(n, ast.Call) and isinstance(n.func, ast.Attribute) and n.func.attr == 'join' and len(n.args) == 3 \
                and _is_name(n.args[0], 'config_dir') and isinstance(n.args[2], ast.Subscript) and _is_name(n.args[2].value, 'source'):
            parents.append(_const_str(n.args[1], 'os.path.join middle argument'))
    if parents != ['..']:
        raise Untranslatable(f"cmd_run: expected one os.path.join(config_dir, '..', source['file']), found {parents!r}")
    t['PARENT_DIR'] = parents[0]
    # ---- parsers.parse_amount
    pa = _func(ast.parse(parsers_src), 'parse_amount')
    eu = [n.comparators[0] for n in ast.walk(pa) if isinstance(n, ast.Compare) and _is_name(n.left, 'decimal_separator')
          and len(n.ops) == 1 and isinstance(n.ops[0], ast.Eq)]
    if len(eu) != 1:
        raise Untranslatable('parse_amount: expected exactly one `decimal_separator == <literal>` test')
    t['EU_SEPARATOR'] = _const_str(eu[0], 'EU separator')
    return t


LISTS = ['REMOVED_SOURCE_KEYS', 'APPLIED_KEYS', 'SOURCE_KEYS_READ', 'REMOVED_SETTINGS', 'RULE_MODES', 'CONFIG_KEYS_READ', 'SPECIAL_PARSERS',
         'RUN_PARSER_CHAIN', 'RUN_SOURCE_KEYS_READ']
STRS = ['DEFAULT_RULE_MODE', 'FALLBACK_RULE_MODE', 'LEGACY_CSV_NAME', 'DECIMAL_DEFAULT', 'NAME_DEFAULT', 'PARENT_DIR', 'EU_SEPARATOR']
BOOLS = ['SUPPLEMENTAL_DEFAULT_FALSE', 'SPEC_HAS_HEADER_DEFAULT', 'SPEC_DELIMITER_DEFAULT_NONE']


def emit(t):
    L = ['-- GENERATED by /verif/harness/translate/config_tables.py from src/tally/config_loader.py, format_parser.py,',
         '-- commands/run.py and parsers.py; do not edit.',
         'namespace TallyVerif.Gen.ConfigTables', '']
    for name in LISTS:
        L.append(f'def {name} : List (List Char) :=\n  {lean_table(t[name])}\n')
    for name in STRS:
        L.append(f'def {name} : List Char := {lean_chars(t[name])}\n')
    for name in BOOLS:
        L.append(f'def {name} : Bool := {"true" if t[name] else "false"}\n')
    L.append('end TallyVerif.Gen.ConfigTables')
    return '\n'.join(L) + '\n'


def translate(config_loader_src, format_parser_src, run_src, parsers_src):
    t = extract(config_loader_src, format_parser_src, run_src, parsers_src)
    return emit(t), t
