"""src/tally/classification.py  ->  lean/TallyVerif/Gen/ClassPy.lean

Accepted subset (anything else: Untranslatable, which the caller treats as a broken
obligation): module docstring, `from typing import …`, constant assignments
(str, set of names), `def` with positional parameters whose body is made of
docstring / assignment to a fresh name / `name['key'] = e` / if-elif-else / return.
Expressions: str & zero constants, names, `abs`, `bool(set)`, calls of earlier functions,
`{elt for v in it}`, `x or []`, `v.lower()`, `a in s`, `s & t`, `< <= > >=`, `+ -`, `and or not`,
dict literal over the six bucket keys.
"""
import ast
from .ir import Untranslatable, canon_key, lean_str, ident, BUCKET_KEYS, emit_module
from .types import TV, unify, final, resolve


class PyTranslator:
    def __init__(self):
        self.consts = []           # [(name, (text, ty))]
        self.const_ty = {}
        self.funcs = []            # [(name, params, ret, stmts)]
        self.sigs = {}             # name -> ([param types], ret)

    # ---- module ---------------------------------------------------------
    def module(self, src):
        tree = ast.parse(src)
        for i, st in enumerate(tree.body):
            if isinstance(st, ast.Expr) and isinstance(st.value, ast.Constant) and isinstance(st.value.value, str):
                continue
            if isinstance(st, ast.ImportFrom) and st.module == 'typing':
                continue
            if isinstance(st, ast.Assign) and len(st.targets) == 1 and isinstance(st.targets[0], ast.Name):
                self.const(st.targets[0].id, st.value)
            elif isinstance(st, ast.AnnAssign) and isinstance(st.target, ast.Name) and st.value is not None:
                self.const(st.target.id, st.value)
            elif isinstance(st, ast.FunctionDef):
                self.func(st)
            else:
                raise Untranslatable(f"module-level statement {type(st).__name__} at line {st.lineno}")
        return self

    def const(self, name, v):
        txt, ty = self.expr(v, {})
        ty = final(ty, f"constant {name}")
        if ty not in ('str', 'set'):
            raise Untranslatable(f"constant {name} of type {ty}")
        self.consts.append((name, (txt, ty)))
        self.const_ty[name] = ty

    def func(self, fd):
        a = fd.args
        if a.vararg or a.kwarg or a.kwonlyargs or a.defaults or a.posonlyargs or fd.decorator_list:
            raise Untranslatable(f"signature of {fd.name}")
        env = {p.arg: TV(p.arg) for p in a.args}
        ret = TV('return of ' + fd.name)
        stmts = self.block(fd.body, env, ret, fd.name)
        params = [(p.arg, final(env[p.arg], f"parameter {p.arg} of {fd.name}")) for p in a.args]
        r = final(ret, f"return type of {fd.name}")
        self.funcs.append((fd.name, params, r, stmts))
        self.sigs[fd.name] = ([t for _, t in params], r)

    # ---- statements -----------------------------------------------------
    def block(self, body, env, ret, fname):
        out = []
        for st in body:
            if isinstance(st, ast.Expr) and isinstance(st.value, ast.Constant) and isinstance(st.value.value, str):
                continue  # docstring
            if isinstance(st, ast.Return):
                if st.value is None:
                    raise Untranslatable("bare return")
                txt, ty = self.expr(st.value, env)
                unify(ret, ty, f"in return of {fname}")
                out.append(('return', (txt, ty)))
            elif isinstance(st, ast.Assign) and len(st.targets) == 1:
                tg = st.targets[0]
                if isinstance(tg, ast.Name):
                    if tg.id in env:
                        raise Untranslatable(f"re-assignment of {tg.id} in {fname}")
                    txt, ty = self.expr(st.value, env)
                    env[tg.id] = ty
                    out.append(('let', tg.id, (txt, ty)))
                elif (isinstance(tg, ast.Subscript) and isinstance(tg.value, ast.Name)
                      and isinstance(tg.slice, ast.Constant) and isinstance(tg.slice.value, str)):
                    unify(env.get(tg.value.id, TV()), 'rec', f"subscript store on {tg.value.id}")
                    txt, ty = self.expr(st.value, env)
                    unify(ty, 'num', f"value stored in {tg.value.id}[{tg.slice.value!r}]")
                    out.append(('setfield', tg.value.id, canon_key(tg.slice.value), (txt, ty)))
                else:
                    raise Untranslatable(f"assignment target at line {st.lineno}")
            elif isinstance(st, ast.If):
                c = self.cond(st.test, env)
                # branches get copies of env so that names bound in one branch do not leak
                t = self.block(st.body, dict(env), ret, fname)
                e = self.block(st.orelse, dict(env), ret, fname)
                out.append(('if', c, t, e))
            else:
                raise Untranslatable(f"statement {type(st).__name__} at line {st.lineno}")
        return out

    def cond(self, e, env):
        txt, ty = self.expr(e, env)
        unify(ty, 'bool', "if-condition (truthiness of non-bool values is not translated)")
        return (txt, 'bool')

    # ---- expressions ----------------------------------------------------
    def expr(self, e, env):
        if isinstance(e, ast.Constant):
            v = e.value
            if isinstance(v, bool):
                return ('true' if v else 'false', 'bool')
            if isinstance(v, str):
                return (lean_str(v), 'str')
            if isinstance(v, (int, float)) and v == 0:
                return ('N.zero', 'num')
            raise Untranslatable(f"constant {v!r}")
        if isinstance(e, ast.Name):
            if e.id in env:
                return (ident(e.id), env[e.id])
            if e.id in self.const_ty:
                return (ident(e.id), self.const_ty[e.id])
            raise Untranslatable(f"unknown name {e.id}")
        if isinstance(e, ast.Set):
            parts = []
            for x in e.elts:
                t, ty = self.expr(x, env)
                unify(ty, 'str', "set element")
                parts.append(t)
            return ('[' + ', '.join(parts) + ']', 'set')
        if isinstance(e, ast.SetComp):
            if len(e.generators) != 1 or e.generators[0].ifs or e.generators[0].is_async \
                    or not isinstance(e.generators[0].target, ast.Name):
                raise Untranslatable("set comprehension shape")
            g = e.generators[0]
            it, ity = self.expr(g.iter, env)
            unify(ity, 'set', "comprehension iterable")
            env2 = dict(env); env2[g.target.id] = 'str'
            el, ety = self.expr(e.elt, env2)
            unify(ety, 'str', "comprehension element")
            return (f'List.map (fun {ident(g.target.id)} => {el}) ({it})', 'set')
        if isinstance(e, ast.BoolOp):
            if isinstance(e.op, ast.Or) and len(e.values) == 2 and isinstance(e.values[1], ast.List) \
                    and not e.values[1].elts:
                t, ty = self.expr(e.values[0], env)
                unify(ty, 'tags', "`x or []`")
                return (f'orEmpty ({t})', 'set')
            op = '||' if isinstance(e.op, ast.Or) else '&&'
            parts = []
            for v in e.values:
                t, ty = self.expr(v, env)
                unify(ty, 'bool', "and/or operand (only Boolean operands are translated)")
                parts.append(f'({t})')
            return (f' {op} '.join(parts), 'bool')
        if isinstance(e, ast.UnaryOp):
            t, ty = self.expr(e.operand, env)
            if isinstance(e.op, ast.Not):
                unify(ty, 'bool', "not"); return (f'!({t})', 'bool')
            if isinstance(e.op, ast.USub):
                unify(ty, 'num', "unary -"); return (f'N.neg ({t})', 'num')
            raise Untranslatable("unary operator")
        if isinstance(e, ast.BinOp):
            l, lt = self.expr(e.left, env); r, rt = self.expr(e.right, env)
            if isinstance(e.op, ast.BitAnd):
                unify(lt, 'set', "&"); unify(rt, 'set', "&")
                return (f'setInter ({l}) ({r})', 'set')
            if isinstance(e.op, (ast.Add, ast.Sub)):
                unify(lt, 'num', "+/-"); unify(rt, 'num', "+/-")
                f = 'N.add' if isinstance(e.op, ast.Add) else 'N.sub'
                return (f'{f} ({l}) ({r})', 'num')
            raise Untranslatable(f"binary operator {type(e.op).__name__}")
        if isinstance(e, ast.Compare):
            if len(e.ops) != 1:
                raise Untranslatable("comparison chain")
            l, lt = self.expr(e.left, env); r, rt = self.expr(e.comparators[0], env)
            op = e.ops[0]
            if isinstance(op, (ast.In, ast.NotIn)):
                unify(lt, 'str', "in"); unify(rt, 'set', "in")
                t = f'List.contains ({r}) ({l})'
                return (t if isinstance(op, ast.In) else f'!({t})', 'bool')
            names = {ast.Gt: 'gt', ast.Lt: 'lt', ast.GtE: 'ge', ast.LtE: 'le'}
            if type(op) in names:
                unify(lt, 'num', "comparison"); unify(rt, 'num', "comparison")
                return (f'N.{names[type(op)]} ({l}) ({r})', 'bool')
            raise Untranslatable(f"comparison {type(op).__name__}")
        if isinstance(e, ast.Dict):
            keys = []
            fields = []
            for k, v in zip(e.keys, e.values):
                if not (isinstance(k, ast.Constant) and isinstance(k.value, str)):
                    raise Untranslatable("dict key")
                t, ty = self.expr(v, env)
                unify(ty, 'num', "dict value")
                keys.append(canon_key(k.value)); fields.append(f'{canon_key(k.value)} := {t}')
            if sorted(keys) != sorted(BUCKET_KEYS):
                raise Untranslatable(f"dict literal keys {keys}")
            return ('({ ' + ', '.join(fields) + ' } : Buckets N.α)', 'rec')
        if isinstance(e, ast.Call):
            if e.keywords:
                raise Untranslatable("keyword arguments")
            if isinstance(e.func, ast.Attribute) and e.func.attr == 'lower' and not e.args:
                t, ty = self.expr(e.func.value, env)
                unify(ty, 'str', ".lower()")
                return (f'lower ({t})', 'str')
            if isinstance(e.func, ast.Name):
                fn = e.func.id
                args = [self.expr(a, env) for a in e.args]
                if fn == 'abs' and len(args) == 1:
                    unify(args[0][1], 'num', "abs"); return (f'N.abs ({args[0][0]})', 'num')
                if fn == 'bool' and len(args) == 1:
                    unify(args[0][1], 'set', "bool() (only of a set)")
                    return (f'setNonempty ({args[0][0]})', 'bool')
                if fn in self.sigs:
                    ptys, r = self.sigs[fn]
                    if len(ptys) != len(args):
                        raise Untranslatable(f"arity of call to {fn}")
                    for (t, ty), p in zip(args, ptys):
                        unify(ty, p, f"argument of {fn}")
                    return (f'{ident(fn)} N lower ' + ' '.join(f'({t})' for t, _ in args), r)
                raise Untranslatable(f"call of {fn}")
            raise Untranslatable("call shape")
        raise Untranslatable(f"expression {type(e).__name__}")


def translate(src):
    tr = PyTranslator().module(src)
    # resolve type variables left in statement tuples (texts are already final)
    return emit_module('ClassPy', 'src/tally/classification.py', tr.consts, tr.funcs), tr
