"""src/tally/format_parser.py + src/tally/parsers.py  ->  lean/TallyVerif/Gen/FmtTables.lean

Extracted with Python's `ast` (constants only):
  format_parser.RESERVED_NAMES                                (set of str literals)
  parse_format_string:   date_format = '<default>'            (str literal)
                         required = {'date', 'amount'}        (set of str literals)
                         field_pattern = re.compile(r'...')   (must be textually the regex the hand-written
                         re.findall(r'...', description_template)   matchers in Model/Fmt.lean implement)
  auto_detect_csv_format: DATE_PATTERNS, DESC_PATTERNS, AMOUNT_PATTERNS, LOCATION_PATTERNS (lists of str
                         literals), and the date_format= keyword of the returned FormatSpec(...)
Anything else (a table built by an expression, a changed regex, a missing assignment) is Untranslatable.
"""
import ast
from .ir import Untranslatable

FIELD_RE = r'\{([-+]?)(\w+|\*)(?::([^}]+))?\}'
TEMPLATE_REF_RE = r'\{(\w+)\}'
TABLES = ['DATE_PATTERNS', 'DESC_PATTERNS', 'AMOUNT_PATTERNS', 'LOCATION_PATTERNS']


def lean_char(c):
    o = ord(c)
    if 32 <= o < 127 and c not in "'\\":
        return f"'{c}'"
    return f'Char.ofNat {o}'


def lean_chars(s):
    return '[' + ', '.join(lean_char(c) for c in s) + ']'


def lean_table(xs):
    return '[' + ',\n   '.join(lean_chars(x) for x in xs) + ']'


def _strs(node, what, kinds):
    if not isinstance(node, kinds):
        raise Untranslatable(f'{what}: expected a literal {"/".join(k.__name__ for k in kinds)}, found {type(node).__name__}')
    out = []
    for e in node.elts:
        if not (isinstance(e, ast.Constant) and isinstance(e.value, str)):
            raise Untranslatable(f'{what}: non-literal element at line {e.lineno}')
        out.append(e.value)
    return out


def _func(tree, name):
    for st in tree.body:
        if isinstance(st, ast.FunctionDef) and st.name == name:
            return st
    raise Untranslatable(f'function {name} not found')


def _assigns(fn, name):
    """all `name = value` statements anywhere in fn (excluding nested defs)"""
    out = []
    for node in ast.walk(fn):
        if isinstance(node, ast.Assign) and len(node.targets) == 1 and isinstance(node.targets[0], ast.Name) \
                and node.targets[0].id == name:
            out.append(node.value)
    return out


def extract(format_parser_src, parsers_src):
    fp = ast.parse(format_parser_src)
    ps = ast.parse(parsers_src)
    t = {}
    # ---- format_parser.py
    res = [st.value for st in fp.body if isinstance(st, ast.Assign) and len(st.targets) == 1
           and isinstance(st.targets[0], ast.Name) and st.targets[0].id == 'RESERVED_NAMES']
    if len(res) != 1:
        raise Untranslatable('RESERVED_NAMES: expected exactly one module-level assignment')
    t['RESERVED_NAMES'] = sorted(set(_strs(res[0], 'RESERVED_NAMES', (ast.Set,))))
    pf = _func(fp, 'parse_format_string')
    df = _assigns(pf, 'date_format')
    lits = [v.value for v in df if isinstance(v, ast.Constant) and isinstance(v.value, str)]
    if len(lits) != 1:
        raise Untranslatable('parse_format_string: expected exactly one literal default `date_format = ...`')
    t['DEFAULT_DATE_FORMAT'] = lits[0]
    rq = _assigns(pf, 'required')
    if len(rq) != 1:
        raise Untranslatable('parse_format_string: `required = {...}` not found')
    t['REQUIRED'] = sorted(set(_strs(rq[0], 'required', (ast.Set,))))
    regexes = []
    for node in ast.walk(pf):
        if isinstance(node, ast.Call) and isinstance(node.func, ast.Attribute) and isinstance(node.func.value, ast.Name) \
                and node.func.value.id == 're':
            if not (node.args and isinstance(node.args[0], ast.Constant) and isinstance(node.args[0].value, str)):
                raise Untranslatable(f're.{node.func.attr} with a non-literal pattern at line {node.lineno}')
            if len(node.args) > 2 or node.keywords:
                raise Untranslatable(f're.{node.func.attr} with flags at line {node.lineno}')
            regexes.append((node.func.attr, node.args[0].value))
    if sorted(regexes) != sorted([('compile', FIELD_RE), ('findall', TEMPLATE_REF_RE)]):
        raise Untranslatable(f'regular expressions of parse_format_string changed: {regexes!r} '
                             f'(the hand-written matchers implement {FIELD_RE!r} and {TEMPLATE_REF_RE!r})')
    # ---- parsers.py
    ad = _func(ps, 'auto_detect_csv_format')
    for name in TABLES:
        vs = _assigns(ad, name)
        if len(vs) != 1:
            raise Untranslatable(f'auto_detect_csv_format: expected exactly one assignment of {name}')
        t[name] = _strs(vs[0], name, (ast.List, ast.Tuple))
    fmts = []
    for node in ast.walk(ad):
        if isinstance(node, ast.Call) and isinstance(node.func, ast.Name) and node.func.id == 'FormatSpec':
            for kw in node.keywords:
                if kw.arg == 'date_format':
                    if not (isinstance(kw.value, ast.Constant) and isinstance(kw.value.value, str)):
                        raise Untranslatable('auto_detect_csv_format: non-literal date_format')
                    fmts.append(kw.value.value)
    if len(fmts) != 1:
        raise Untranslatable('auto_detect_csv_format: expected exactly one FormatSpec(date_format=<literal>)')
    t['DETECT_DATE_FORMAT'] = fmts[0]
    return t


def emit(t):
    L = ['-- GENERATED by /verif/harness/translate/fmt_tables.py from src/tally/format_parser.py and',
         '-- src/tally/parsers.py (auto_detect_csv_format); do not edit.',
         'namespace TallyVerif.Gen.FmtTables', '']
    for name in ['RESERVED_NAMES', 'REQUIRED'] + TABLES:
        L.append(f'def {name} : List (List Char) :=\n  {lean_table(t[name])}\n')
    for name in ['DEFAULT_DATE_FORMAT', 'DETECT_DATE_FORMAT']:
        L.append(f'def {name} : List Char := {lean_chars(t[name])}\n')
    L.append('end TallyVerif.Gen.FmtTables')
    return '\n'.join(L) + '\n'


def translate(format_parser_src, parsers_src):
    t = extract(format_parser_src, parsers_src)
    return emit(t), t
