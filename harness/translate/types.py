from .ir import Untranslatable


class TV:
    """A type variable (resolved by unification while translating a function)."""
    def __init__(self, hint=''):
        self.val = None
        self.hint = hint

    def get(self):
        t = self
        while isinstance(t, TV) and t.val is not None:
            t = t.val
        return t


def resolve(t):
    return t.get() if isinstance(t, TV) else t


def unify(a, b, what=''):
    a, b = resolve(a), resolve(b)
    if a is b:
        return a
    if isinstance(a, TV):
        a.val = b
        return resolve(b)
    if isinstance(b, TV):
        b.val = a
        return a
    if a != b:
        raise Untranslatable(f"type mismatch {a} vs {b} {what}")
    return a


def final(t, what):
    t = resolve(t)
    if isinstance(t, TV):
        raise Untranslatable(f"cannot infer the type of {what}")
    return t
