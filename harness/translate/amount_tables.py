"""src/tally/parsers.py (parse_amount)  ->  lean/TallyVerif/Gen/AmountTables.lean

`Csv.cleanAmount` (Model/Csv.lean) is a hand model of everything `parse_amount` does before `float()`.  This translator ties it
to the source a second way (besides the differential correspondence of C05): it checks that `parse_amount` still is the
straight-line program the model was written for - statement by statement - and regenerates the CONSTANTS that program uses (the
parenthesis pair, the currency-symbol class, the separators removed / converted under each decimal mode).  Props/C05 carries the
obligation that the regenerated constants are the ones the hand model implements (`amount_tables_are_the_model`): an edit to any of
them (another currency symbol, another thousands separator, a different order of the steps) re-opens that obligation or makes the
function untranslatable, and the check then searches the real code for an amount cell that is read differently.

Accepted shape (anything else: Untranslatable):

    def parse_amount(amount_str, decimal_separator='.'):
        amount_str = amount_str.strip()
        negative = False
        if amount_str.startswith(OPEN) and amount_str.endswith(CLOSE):
            negative = True
            amount_str = amount_str[1:-1]
        amount_str = re.sub(r'[SYMBOLS]', '', amount_str).strip()
        if decimal_separator == EU:
            amount_str = amount_str.replace(A, '').replace(B, '') …        # removed under the decimal comma
            amount_str = amount_str.replace(EU, POINT)
        else:
            amount_str = amount_str.replace(C, '') …                        # removed under the decimal point
        result = float(amount_str)
        return -result if negative else result
"""
import ast
from .ir import Untranslatable


def _is_name(n, name):
    return isinstance(n, ast.Name) and n.id == name


def _const_str(n):
    if isinstance(n, ast.Constant) and isinstance(n.value, str):
        return n.value
    raise Untranslatable(f'expected a string constant, found {ast.unparse(n)!r}')


def _assign_to(st, name):
    if isinstance(st, ast.Assign) and len(st.targets) == 1 and _is_name(st.targets[0], name):
        return st.value
    raise Untranslatable(f'expected `{name} = …`, found {ast.unparse(st)!r}')


def _method(call, obj_pred, meth, nargs):
    return (isinstance(call, ast.Call) and isinstance(call.func, ast.Attribute) and call.func.attr == meth and not call.keywords
            and len(call.args) == nargs and obj_pred(call.func.value))


def _replace_chain(e, var):
    """var.replace(a, b).replace(c, d)… -> [(a, b), (c, d), …] in application order"""
    steps = []
    while not _is_name(e, var):
        if not _method(e, lambda _: True, 'replace', 2):
            raise Untranslatable(f'{ast.unparse(e)!r} is not a chain of .replace(x, y) on {var}')
        steps.append((_const_str(e.args[0]), _const_str(e.args[1])))
        e = e.func.value
    return steps[::-1]


def lean_char(c):
    if len(c) != 1:
        raise Untranslatable(f'{c!r} is not a single character')
    return f"'{c}'" if (c.isprintable() and c not in "'\\") else f"(Char.ofNat {ord(c)})"


def translate(src):
    tree = ast.parse(src)
    fn = next((n for n in tree.body if isinstance(n, ast.FunctionDef) and n.name == 'parse_amount'), None)
    if fn is None:
        raise Untranslatable('parse_amount not found in parsers.py')
    a = fn.args
    if [x.arg for x in a.args] != ['amount_str', 'decimal_separator'] or len(a.defaults) != 1 or _const_str(a.defaults[0]) != '.' \
            or a.vararg or a.kwarg or a.kwonlyargs:
        raise Untranslatable('signature of parse_amount')
    body = [s for s in fn.body if not (isinstance(s, ast.Expr) and isinstance(s.value, ast.Constant))]
    if len(body) != 7:
        raise Untranslatable(f'parse_amount has {len(body)} statements, the model was written for 7')
    s0, s1, s2, s3, s4, s5, s6 = body
    V = 'amount_str'
    if not _method(_assign_to(s0, V), lambda o: _is_name(o, V), 'strip', 0):
        raise Untranslatable('first statement is not amount_str = amount_str.strip()')
    neg0 = _assign_to(s1, 'negative')
    if not (isinstance(neg0, ast.Constant) and neg0.value is False):
        raise Untranslatable('negative does not start as False')
    # the parenthesis test
    if not (isinstance(s2, ast.If) and not s2.orelse and isinstance(s2.test, ast.BoolOp) and isinstance(s2.test.op, ast.And) and len(s2.test.values) == 2
            and _method(s2.test.values[0], lambda o: _is_name(o, V), 'startswith', 1)
            and _method(s2.test.values[1], lambda o: _is_name(o, V), 'endswith', 1) and len(s2.body) == 2):
        raise Untranslatable('the parenthesis test is not `if amount_str.startswith(X) and amount_str.endswith(Y):` with two statements')
    open_c, close_c = _const_str(s2.test.values[0].args[0]), _const_str(s2.test.values[1].args[0])
    t = _assign_to(s2.body[0], 'negative')
    if not (isinstance(t, ast.Constant) and t.value is True):
        raise Untranslatable('the parenthesis branch does not set negative = True')
    sl = _assign_to(s2.body[1], V)
    if ast.unparse(sl) != 'amount_str[1:-1]':
        raise Untranslatable(f'the parenthesis branch takes {ast.unparse(sl)!r}, not amount_str[1:-1]')
    # currency symbols
    cur = _assign_to(s3, V)
    if not (_method(cur, lambda o: True, 'strip', 0) and isinstance(cur.func.value, ast.Call) and ast.unparse(cur.func.value.func) == 're.sub'
            and len(cur.func.value.args) == 3 and not cur.func.value.keywords and _const_str(cur.func.value.args[1]) == ''
            and _is_name(cur.func.value.args[2], V)):
        raise Untranslatable("currency step is not amount_str = re.sub(<class>, '', amount_str).strip()")
    cls = _const_str(cur.func.value.args[0])
    if not (len(cls) >= 3 and cls[0] == '[' and cls[-1] == ']' and not any(c in cls[1:-1] for c in '\\^-[]')):
        raise Untranslatable(f'currency pattern {cls!r} is not a plain character class')
    symbols = list(cls[1:-1])
    # the two decimal modes
    if not (isinstance(s4, ast.If) and isinstance(s4.test, ast.Compare) and _is_name(s4.test.left, 'decimal_separator') and len(s4.test.ops) == 1
            and isinstance(s4.test.ops[0], ast.Eq) and len(s4.body) == 2 and len(s4.orelse) == 1):
        raise Untranslatable('the decimal-separator test is not `if decimal_separator == X:` (two statements) `else:` (one statement)')
    eu = _const_str(s4.test.comparators[0])
    eu_removed = _replace_chain(_assign_to(s4.body[0], V), V)
    eu_conv = _replace_chain(_assign_to(s4.body[1], V), V)
    us_removed = _replace_chain(_assign_to(s4.orelse[0], V), V)
    if any(b != '' for _, b in eu_removed + us_removed) or len(eu_conv) != 1 or eu_conv[0][0] != eu:
        raise Untranslatable('the separator steps are not removals followed by one conversion of the decimal separator')
    point = eu_conv[0][1]
    fl = _assign_to(s5, 'result')
    if ast.unparse(fl) != 'float(amount_str)':
        raise Untranslatable(f'result = {ast.unparse(fl)}, not float(amount_str)')
    if not (isinstance(s6, ast.Return) and ast.unparse(s6.value) == '-result if negative else result'):
        raise Untranslatable('the return statement is not `-result if negative else result`')
    out = ['-- GENERATED by /verif/harness/translate from src/tally/parsers.py (parse_amount); do not edit.',
           'namespace TallyVerif.Gen.AmountTables', '',
           f'def parenOpen : Char := {lean_char(open_c)}',
           f'def parenClose : Char := {lean_char(close_c)}',
           f'def currencySymbols : List Char := [{", ".join(lean_char(c) for c in symbols)}]',
           f'def euSeparator : Char := {lean_char(eu)}',
           f'def euRemoved : List Char := [{", ".join(lean_char(a) for a, _ in eu_removed)}]',
           f'def decimalPoint : Char := {lean_char(point)}',
           f'def usRemoved : List Char := [{", ".join(lean_char(a) for a, _ in us_removed)}]',
           '', 'end TallyVerif.Gen.AmountTables']
    meta = {'parenOpen': open_c, 'parenClose': close_c, 'currencySymbols': symbols, 'euSeparator': eu, 'euRemoved': [a for a, _ in eu_removed],
            'decimalPoint': point, 'usRemoved': [a for a, _ in us_removed]}
    return '\n'.join(out) + '\n', meta
