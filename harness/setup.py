"""MANIFEST.setup_cmd: regenerate Gen/ from /repo and build the whole Lean project + driver."""
from . import common
from . import regen


def main():
    with common.Lock():
        st = regen.regen_all()
        for name, s in st.items():
            print(f'[setup] translator {name}: {"ok" if s["ok"] else "BROKEN: " + s.get("error", "")}')
        ok, log = common.lake_build([])
        print(log[-3000:])
        return 0 if ok else 1
