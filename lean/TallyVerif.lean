import TallyVerif.Model.ClassPrelude
import TallyVerif.Model.Num
import TallyVerif.Gen.ClassPy
import TallyVerif.Gen.ClassJs
import TallyVerif.Lemmas.ClassSets
import TallyVerif.Props.C13
