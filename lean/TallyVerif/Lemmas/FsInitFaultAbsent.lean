import TallyVerif.Model.Fs
/-! Exhaustive kernel-checked evaluation of the C15 safety check on the REPAIRED step order
(`Variants.repaired`): every budget shape of one settings kind × every crash snapshot × every in-flight
state, resp. every single-event fault.  `decide +kernel`: no axioms.  (FsInitFaultAbsent) -/
namespace TallyVerif.Fs
set_option maxRecDepth 100000
theorem initFault_absent :
    ((shapesOf .absent).all fun s => faultCheck .repaired .init (s.fs id)) = true := by decide +kernel

end TallyVerif.Fs
