import TallyVerif.Model.Expr
/-! ASCII letter-case facts (kernel-decided on the 128 code points, lifted to strings). -/
namespace TallyVerif.Py

theorem up_lo_ascii : ∀ n : Nat, n < 128 → (Char.ofNat n).toLower.toUpper = (Char.ofNat n).toUpper := by decide +kernel
theorem lo_up_ascii : ∀ n : Nat, n < 128 → (Char.ofNat n).toUpper.toLower = (Char.ofNat n).toLower := by decide +kernel
theorem up_ascii_lt : ∀ n : Nat, n < 128 → (Char.ofNat n).toUpper.toNat < 128 := by decide +kernel
theorem lo_ascii_lt : ∀ n : Nat, n < 128 → (Char.ofNat n).toLower.toNat < 128 := by decide +kernel

theorem ascii_mem (s : String) (h : isAsciiStr s = true) (c : Char) (hc : c ∈ s.toList) : c.toNat < 128 := by
  simp only [isAsciiStr, List.all_eq_true, decide_eq_true_eq] at h
  exact h c hc

/-- upper-casing forgets the letter case: `upper(lower(s)) = upper(s)` for ASCII text -/
theorem upper_lower_ascii (s : String) (h : isAsciiStr s = true) : upperAscii (lowerAscii s) = upperAscii s := by
  apply String.toList_inj.mp
  simp only [upperAscii, lowerAscii, String.toList_map, List.map_map]
  apply List.map_congr_left
  intro c hc
  have := up_lo_ascii c.toNat (ascii_mem s h c hc)
  simpa using this

theorem lower_upper_ascii (s : String) (h : isAsciiStr s = true) : lowerAscii (upperAscii s) = lowerAscii s := by
  apply String.toList_inj.mp
  simp only [upperAscii, lowerAscii, String.toList_map, List.map_map]
  apply List.map_congr_left
  intro c hc
  have := lo_up_ascii c.toNat (ascii_mem s h c hc)
  simpa using this

theorem isAscii_upper (s : String) (h : isAsciiStr s = true) : isAsciiStr (upperAscii s) = true := by
  simp only [isAsciiStr, upperAscii, String.toList_map, List.all_map, List.all_eq_true, Function.comp_apply,
    decide_eq_true_eq]
  intro c hc
  have := up_ascii_lt c.toNat (ascii_mem s h c hc)
  simpa using this

theorem isAscii_lower (s : String) (h : isAsciiStr s = true) : isAsciiStr (lowerAscii s) = true := by
  simp only [isAsciiStr, lowerAscii, String.toList_map, List.all_map, List.all_eq_true, Function.comp_apply,
    decide_eq_true_eq]
  intro c hc
  have := lo_ascii_lt c.toNat (ascii_mem s h c hc)
  simpa using this

end TallyVerif.Py

namespace TallyVerif.Expr
open TallyVerif.Py

theorem pyUpper_ascii (o : Oracles) (s : String) (h : isAsciiStr s = true) : pyUpper o s = .ok (upperAscii s) := by
  simp [pyUpper, h, pure, Except.pure]

theorem pyLower_ascii (o : Oracles) (s : String) (h : isAsciiStr s = true) : pyLower o s = .ok (lowerAscii s) := by
  simp [pyLower, h, pure, Except.pure]

end TallyVerif.Expr
