import TallyVerif.Model.View
/-! Helper lemmas for C10: the result dictionary of `classify_merchants`, sums of exact amounts,
the month set and the monthly totals of `get_cv`. Core Lean only. -/
namespace TallyVerif.View
open TallyVerif.Py TallyVerif.Expr

/-! ### the result dictionary -/

theorem lookup_appendAt {α : Type} (name n : String) (x : α) (l : List (String × List α)) :
    (appendAt n x l).lookup name = if n = name then (l.lookup name).map (· ++ [x]) else l.lookup name := by
  induction l with
  | nil => simp [appendAt]
  | cons kv l ih =>
    obtain ⟨k, xs⟩ := kv
    by_cases hk : k = n
    · subst hk
      by_cases hn : name = k
      · subst hn; simp [appendAt, List.lookup_cons]
      · have h1 : (name == k) = false := by simpa using hn
        have h2 : ¬ k = name := fun e => hn e.symm
        simp [appendAt, List.lookup_cons, h1, h2]
    · have hb : (k == n) = false := by simpa using hk
      simp only [appendAt, hb, List.lookup_cons, Bool.false_eq_true, if_false]
      by_cases hn : name = k
      · subst hn
        have : ¬ n = name := fun e => hk e.symm
        simp [this]
      · have h1 : (name == k) = false := by simpa using hn
        simp only [h1, ih]

theorem lookup_inner {μ : Type} (test : μ → Section → Bool) (m : μ) (name : String) (secs : List Section)
    (acc : List (String × List μ)) :
    (secs.foldl (fun acc s => if test m s then appendAt s.name m acc else acc) acc).lookup name =
      (acc.lookup name).map (· ++ (secs.filter (fun s => s.name == name && test m s)).map (fun _ => m)) := by
  induction secs generalizing acc with
  | nil => cases h : acc.lookup name <;> simp [h]
  | cons s secs ih =>
    simp only [List.foldl_cons]
    rw [ih]
    by_cases ht : test m s = true
    · by_cases hn : s.name = name
      · simp only [ht, if_true, lookup_appendAt, hn, List.filter_cons, beq_self_eq_true, Bool.and_self]
        cases h : acc.lookup name <;> simp
      · have hb : (s.name == name) = false := by simpa using hn
        simp [ht, lookup_appendAt, hn, List.filter_cons, hb]
    · have ht' : test m s = false := by simpa using ht
      simp [ht', List.filter_cons]

theorem lookup_outer {μ : Type} (test : μ → Section → Bool) (name : String) (secs : List Section) (ms : List μ)
    (acc : List (String × List μ)) :
    (ms.foldl (fun acc m => secs.foldl (fun acc s => if test m s then appendAt s.name m acc else acc) acc) acc).lookup name =
      (acc.lookup name).map (· ++ ms.flatMap (fun m => (secs.filter (fun s => s.name == name && test m s)).map (fun _ => m))) := by
  induction ms generalizing acc with
  | nil => cases h : acc.lookup name <;> simp [h]
  | cons m ms ih =>
    simp only [List.foldl_cons]
    rw [ih, lookup_inner]
    cases h : acc.lookup name <;> simp [List.flatMap_cons]

theorem lookup_snoc {β : Type} (l : List (String × β)) (n : String) (b : β) (name : String) :
    (l ++ [(n, b)]).lookup name = match l.lookup name with
      | some v => some v
      | none => if name = n then some b else none := by
  induction l with
  | nil =>
    by_cases h : name = n
    · subst h; simp [List.lookup_cons]
    · have hb : (name == n) = false := by simpa using h
      simp [List.lookup_cons, hb, h]
  | cons kv l ih =>
    obtain ⟨k, v⟩ := kv
    by_cases h : name = k
    · subst h; simp [List.lookup_cons]
    · have hb : (name == k) = false := by simpa using h
      simp only [List.cons_append, List.lookup_cons, hb, ih]

theorem lookup_initFold {α : Type} (names : List String) (acc : List (String × List α)) (name : String) :
    (names.foldl (fun acc n => if (acc.lookup n).isSome then acc else acc ++ [(n, [])]) acc).lookup name =
      match acc.lookup name with
      | some v => some v
      | none => if name ∈ names then some [] else none := by
  induction names generalizing acc with
  | nil => cases h : acc.lookup name <;> simp [h]
  | cons n names ih =>
    simp only [List.foldl_cons]
    rw [ih]
    by_cases hs : (acc.lookup n).isSome = true
    · simp only [hs, if_true]
      cases h : acc.lookup name with
      | some v => rfl
      | none =>
        have hne : name ≠ n := by
          intro e; rw [e] at h; rw [h] at hs; simp at hs
        simp [hne]
    · have hs' : (acc.lookup n).isSome = false := by
        cases hq : (acc.lookup n).isSome
        · rfl
        · exact absurd hq hs
      simp only [hs', Bool.false_eq_true, if_false, lookup_snoc]
      cases h : acc.lookup name with
      | some v => rfl
      | none =>
        by_cases hne : name = n
        · simp [hne]
        · simp [hne]

/-- the entry of a view name: for each merchant in order, one copy per view of that name whose test
holds -/
theorem lookup_classifyMerchants {μ : Type} (test : μ → Section → Bool) (secs : List Section) (ms : List μ)
    (name : String) :
    (classifyMerchants test secs ms).lookup name =
      if name ∈ secs.map (·.name) then
        some (ms.flatMap (fun m => (secs.filter (fun s => s.name == name && test m s)).map (fun _ => m)))
      else none := by
  unfold classifyMerchants initResult
  rw [lookup_outer, lookup_initFold]
  by_cases h : name ∈ secs.map (·.name) <;> simp [h]

theorem filter_unique_name {μ : Type} (test : μ → Section → Bool) (m : μ) (secs : List Section) (s : Section)
    (hs : s ∈ secs) (hd : (secs.map (·.name)).Nodup) :
    (secs.filter (fun s' => s'.name == s.name && test m s')).map (fun _ => m) = if test m s then [m] else [] := by
  induction secs with
  | nil => cases hs
  | cons s' rest ih =>
    simp only [List.map_cons, List.nodup_cons, List.mem_map, not_exists, not_and] at hd
    have hnone : ∀ x ∈ rest, (x.name == s'.name && test m x) = false := by
      intro x hx
      have := hd.1 x hx
      simp [this]
    rcases List.mem_cons.mp hs with e | hin
    · subst e
      have : rest.filter (fun x => x.name == s.name && test m x) = [] := by
        simpa [List.filter_eq_nil_iff] using hnone
      by_cases ht : test m s = true <;> simp [List.filter_cons, ht, this]
    · have hne : ¬ s'.name = s.name := fun e => hd.1 s hin e.symm
      have hb : (s'.name == s.name) = false := by simpa using hne
      simp only [List.filter_cons, hb, Bool.false_and, Bool.false_eq_true, if_false]
      exact ih hin hd.2

theorem flatMap_if_singleton {μ : Type} (p : μ → Bool) (ms : List μ) :
    ms.flatMap (fun m => if p m then [m] else []) = ms.filter p := by
  induction ms with
  | nil => rfl
  | cons m ms ih => by_cases h : p m = true <;> simp [List.flatMap_cons, List.filter_cons, h, ih]

/-- under distinct view names, the members of a view are the merchants on which ITS test holds,
in merchant order -/
theorem members_classifyMerchants {μ : Type} (test : μ → Section → Bool) (secs : List Section) (ms : List μ)
    (s : Section) (hs : s ∈ secs) (hd : (secs.map (·.name)).Nodup) :
    members (classifyMerchants test secs ms) s.name = ms.filter (fun m => test m s) := by
  unfold members
  rw [lookup_classifyMerchants]
  have hin : s.name ∈ secs.map (·.name) := List.mem_map.mpr ⟨s, hs, rfl⟩
  simp only [hin, if_true, Option.getD_some]
  rw [← flatMap_if_singleton]
  congr 1
  funext m
  exact filter_unique_name test m secs s hs hd

/-! ### the keys of the result dictionary; the HTML report's sections dictionary -/

theorem lookup_isSome_eq_contains {β : Type} (d : List (String × β)) (k : String) :
    (d.lookup k).isSome = (d.map (·.1)).contains k := by
  induction d with
  | nil => rfl
  | cons kv d ih =>
    obtain ⟨k', x⟩ := kv
    by_cases h : k = k'
    · subst h; simp [List.lookup_cons]
    · have hb : (k == k') = false := by simpa using h
      simp only [List.lookup_cons, hb, List.map_cons, List.contains_cons, Bool.false_or]
      exact ih

theorem keys_appendAt {α : Type} (name : String) (x : α) (l : List (String × List α)) :
    (appendAt name x l).map (·.1) = l.map (·.1) := by
  induction l with
  | nil => rfl
  | cons kv rest ih =>
    obtain ⟨k, xs⟩ := kv
    unfold appendAt
    by_cases h : (k == name) = true
    · simp [h]
    · simp [h, ih]

theorem keys_classifyMerchants {μ : Type} (test : μ → Section → Bool) (secs : List Section) (ms : List μ) :
    (classifyMerchants test secs ms).map (·.1) = (initResult (α := μ) (secs.map (·.name))).map (·.1) := by
  unfold classifyMerchants
  generalize initResult (α := μ) (secs.map (·.name)) = acc
  induction ms generalizing acc with
  | nil => rfl
  | cons m ms ih =>
    rw [List.foldl_cons, ih]
    generalize secs = ss
    induction ss generalizing acc with
    | nil => rfl
    | cons s ss ih2 =>
      rw [List.foldl_cons, ih2]
      by_cases h : test m s = true <;> simp [h, keys_appendAt]

theorem keys_initResult_nodup {α : Type} (names : List String) :
    ((initResult (α := α) names).map (·.1)).Nodup := by
  unfold initResult
  suffices h : ∀ acc : List (String × List α), (acc.map (·.1)).Nodup →
      ((names.foldl (fun acc n => if (acc.lookup n).isSome then acc else acc ++ [(n, [])]) acc).map (·.1)).Nodup by
    exact h [] (by simp)
  induction names with
  | nil => intro acc h; exact h
  | cons n names ih =>
    intro acc h
    rw [List.foldl_cons]
    apply ih
    by_cases hs : (acc.lookup n).isSome = true
    · simpa [hs] using h
    · have hn : n ∉ acc.map (·.1) := by
        rw [lookup_isSome_eq_contains] at hs
        simpa using hs
      simp only [hs, Bool.false_eq_true, if_false, List.map_append, List.map_cons, List.map_nil]
      rw [List.nodup_append]
      refine ⟨h, by simp, ?_⟩
      intro a ha b hb
      simp only [List.mem_singleton] at hb
      subst hb
      intro e; subst e; exact hn ha

theorem keys_classifyMerchants_nodup {μ : Type} (test : μ → Section → Bool) (secs : List Section) (ms : List μ) :
    ((classifyMerchants test secs ms).map (·.1)).Nodup := by
  rw [keys_classifyMerchants]; exact keys_initResult_nodup _

theorem setKey_fresh {β : Type} (k : String) (v : β) (d : List (String × β)) (h : k ∉ d.map (·.1)) :
    setKey k v d = d ++ [(k, v)] := by
  unfold setKey
  have : (d.lookup k).isSome = false := by
    rw [lookup_isSome_eq_contains]; simpa using h
  simp [this]

/-- when no two views WITH MEMBERS share an id, the data holds exactly those views, in order, each under its
own id with its own title and merchants -/
theorem htmlSections_fold {α : Type} (idOf : String → String) (r : List (String × List α))
    (acc : List (String × (String × List α)))
    (h : (acc.map (·.1) ++ (r.filter (fun p => !p.2.isEmpty)).map (fun p => idOf p.1)).Nodup) :
    r.foldl (fun d p => if p.2.isEmpty then d else setKey (idOf p.1) (p.1, p.2) d) acc =
      acc ++ (r.filter (fun p => !p.2.isEmpty)).map (fun p => (idOf p.1, (p.1, p.2))) := by
  induction r generalizing acc with
  | nil => simp
  | cons p r ih =>
    rw [List.foldl_cons]
    by_cases he : p.2.isEmpty = true
    · simp only [he, if_true, List.filter_cons, Bool.not_true, Bool.false_eq_true, if_false] at h ⊢
      exact ih acc h
    · have he' : p.2.isEmpty = false := by simpa using he
      simp only [he', Bool.false_eq_true, if_false, List.filter_cons, Bool.not_false, if_true, List.map_cons] at h ⊢
      have hfresh : idOf p.1 ∉ acc.map (·.1) := by
        intro hin
        rw [List.nodup_append] at h
        exact h.2.2 _ hin _ (List.mem_cons_self ..) rfl
      rw [setKey_fresh _ _ _ hfresh, ih]
      · simp
      · simpa [List.append_assoc] using h

theorem lookup_filter_of_nodup {α : Type} (r : List (String × List α)) (name : String)
    (hk : (r.map (·.1)).Nodup) :
    ((r.filter (fun p => !p.2.isEmpty)).lookup name).getD [] = (r.lookup name).getD [] := by
  induction r with
  | nil => rfl
  | cons p r ih =>
    obtain ⟨k, xs⟩ := p
    simp only [List.map_cons, List.nodup_cons] at hk
    by_cases hname : name = k
    · subst hname
      by_cases he : xs.isEmpty = true
      · have hnone : (r.filter (fun p => !p.2.isEmpty)).lookup name = none := by
          rw [← Option.not_isSome_iff_eq_none, lookup_isSome_eq_contains]
          intro hc
          have : name ∈ (r.filter (fun p => !p.2.isEmpty)).map (·.1) := by simpa using hc
          obtain ⟨q, hq, e⟩ := List.mem_map.mp this
          exact hk.1 (List.mem_map.mpr ⟨q, (List.mem_filter.mp hq).1, e⟩)
        have hx : xs = [] := by simpa using he
        subst hx
        simp [hnone]
      · simp [he]
    · have hb : (name == k) = false := by simpa using hname
      by_cases he : xs.isEmpty = true
      · simp only [List.filter_cons, he, Bool.not_true, Bool.false_eq_true, if_false, List.lookup_cons, hb]
        exact ih hk.2
      · simp only [List.filter_cons, he, Bool.not_false, if_true, List.lookup_cons, hb]
        simpa [he] using ih hk.2

/-! ### exact sums -/

theorem sumGo_ints (xs : List Int) (a : Int) (vals : List Val) (has : Bool) :
    sumGo (xs.map Val.int) { vals := vals, cur := .int a, has := has, fsum := none } = .ok (.int (a + xs.sum)) := by
  induction xs generalizing a with
  | nil => simp [sumGo, sumFinish]
  | cons x xs ih =>
    simp only [List.map_cons, sumGo, sumStep, pyArith, asNumber]
    rw [ih]
    simp [Int.add_assoc]

theorem pySum_ints (xs : List Int) : pySum (xs.map Val.int) = .ok (.int xs.sum) := by
  unfold pySum emptyAcc
  rw [sumGo_ints]; simp

/-! ### the month set -/

def monthKeys (txns : List Txn) : List String :=
  txns.filterMap (fun t => t.date.map fmtYm)

theorem addNew_nodup (k : String) (l : List String) (h : l.Nodup) : (addNew k l).Nodup := by
  unfold addNew
  by_cases hc : l.contains k = true
  · rw [if_pos hc]; exact h
  · have : k ∉ l := by simpa using hc
    rw [if_neg hc, List.nodup_append]
    refine ⟨h, by simp, ?_⟩
    intro a ha b hb
    simp at hb; subst hb
    intro e; subst e; exact this ha

theorem mem_addNew (k x : String) (l : List String) : x ∈ addNew k l ↔ x ∈ l ∨ x = k := by
  unfold addNew
  by_cases hc : l.contains k = true
  · have : k ∈ l := by simpa using hc
    rw [if_pos hc]
    constructor
    · exact Or.inl
    · rintro (h | h)
      · exact h
      · subst h; exact this
  · rw [if_neg hc]; simp

def monthStep (acc : List String) (t : Txn) : List String :=
  match t.date with
  | some d => addNew (fmtYm d) acc
  | none => acc

theorem monthSet_eq (txns : List Txn) : monthSet txns = txns.foldl monthStep [] := rfl

theorem monthFold_nodup (txns : List Txn) (acc : List String) (h : acc.Nodup) : (txns.foldl monthStep acc).Nodup := by
  induction txns generalizing acc with
  | nil => exact h
  | cons t ts ih =>
    simp only [List.foldl_cons]
    apply ih
    unfold monthStep
    cases t.date with
    | none => exact h
    | some d => exact addNew_nodup _ _ h

theorem mem_monthFold (txns : List Txn) (acc : List String) (k : String) :
    k ∈ txns.foldl monthStep acc ↔ k ∈ acc ∨ k ∈ monthKeys txns := by
  induction txns generalizing acc with
  | nil => simp [monthKeys]
  | cons t ts ih =>
    simp only [List.foldl_cons]
    rw [ih]
    unfold monthStep monthKeys
    cases h : t.date with
    | none => simp [List.filterMap_cons, h]
    | some d =>
      simp only [mem_addNew, List.filterMap_cons, h, Option.map_some, List.mem_cons]
      constructor
      · rintro ((h1 | h1) | h1)
        · exact Or.inl h1
        · exact Or.inr (Or.inl h1)
        · exact Or.inr (Or.inr h1)
      · rintro (h1 | h1 | h1)
        · exact Or.inl (Or.inl h1)
        · exact Or.inl (Or.inr h1)
        · exact Or.inr h1

/-! ### monthly totals over exact amounts -/

def intAmount (t : Txn) : Int := match t.amount with | .int i => i | _ => 0

/-- Σ of the amounts of the dated transactions whose month key is `k` -/
def monthSum (k : String) (txns : List Txn) : Int :=
  ((txns.filter (fun t => t.date.map fmtYm == some k)).map intAmount).sum

def ivals (d : List (String × Int)) : List (String × Val) := d.map (fun kv => (kv.1, Val.int kv.2))

theorem lookup_ivals (d : List (String × Int)) (k : String) :
    (ivals d).lookup k = (d.lookup k).map Val.int := by
  induction d with
  | nil => rfl
  | cons kv d ih =>
    obtain ⟨k', v⟩ := kv
    by_cases h : k = k'
    · subst h; simp [ivals, List.lookup_cons]
    · have hb : (k == k') = false := by simpa using h
      simp only [ivals, List.map_cons, List.lookup_cons, hb] at ih ⊢
      exact ih

theorem setKey_ivals (d : List (String × Int)) (k : String) (v : Int) :
    setKey k (Val.int v) (ivals d) = ivals (setKey k v d) := by
  unfold setKey
  rw [lookup_ivals]
  cases h : d.lookup k with
  | none => simp [ivals]
  | some x =>
    simp only [Option.map_some, Option.isSome_some, if_true, ivals, List.map_map]
    apply List.map_congr_left
    intro kv _
    by_cases hk : kv.1 = k <;> simp [hk]

/-- the same loop over `Int` values -/
def monthlyInt : List Txn → List (String × Int) → List (String × Int)
  | [], d => d
  | t :: rest, d =>
    match t.date with
    | none => monthlyInt rest d
    | some dt => monthlyInt rest (setKey (fmtYm dt) ((d.lookup (fmtYm dt)).getD 0 + intAmount t) d)

theorem monthlyGo_ints (txns : List Txn) (hint : ∀ t ∈ txns, ∃ i, t.amount = .int i) (d : List (String × Int)) :
    monthlyGo txns (ivals d) = .ok (ivals (monthlyInt txns d)) := by
  induction txns generalizing d with
  | nil => rfl
  | cons t rest ih =>
    have hrest : ∀ t ∈ rest, ∃ i, t.amount = .int i := fun x hx => hint x (List.mem_cons_of_mem _ hx)
    obtain ⟨i, hi⟩ := hint t (List.mem_cons_self ..)
    unfold monthlyGo monthlyInt
    cases hd : t.date with
    | none => exact ih hrest d
    | some dt =>
      simp only [lookup_ivals, hi, intAmount]
      cases hl : d.lookup (fmtYm dt) with
      | none =>
        simp only [Option.map_none, Option.getD_none, pyArith, asNumber]
        rw [setKey_ivals]; exact ih hrest _
      | some x =>
        simp only [Option.map_some, Option.getD_some, pyArith, asNumber]
        rw [setKey_ivals]; exact ih hrest _

theorem keys_setKey {β : Type} (k : String) (v : β) (d : List (String × β)) :
    (setKey k v d).map (·.1) = addNew k (d.map (·.1)) := by
  unfold setKey addNew
  have hiff : (d.lookup k).isSome = (d.map (·.1)).contains k := by
    induction d with
    | nil => rfl
    | cons kv d ih =>
      obtain ⟨k', x⟩ := kv
      by_cases h : k = k'
      · subst h; simp [List.lookup_cons]
      · have hb : (k == k') = false := by simpa using h
        simp only [List.lookup_cons, hb, List.map_cons, List.contains_cons, Bool.false_or]
        exact ih
  rw [← hiff]
  cases h : (d.lookup k).isSome with
  | false => simp
  | true =>
    simp only [if_true, List.map_map]
    apply List.map_congr_left
    intro kv _
    by_cases hk : kv.1 = k <;> simp [hk]

theorem lookup_map_replace (k : String) (v : Int) (d : List (String × Int)) (k' : String) :
    List.lookup k' (d.map (fun kv => if kv.1 == k then (k, v) else kv)) =
      if k' = k then (d.lookup k').map (fun _ => v) else d.lookup k' := by
  induction d with
  | nil => simp
  | cons kv d ih =>
    obtain ⟨k0, x⟩ := kv
    by_cases h0 : k0 = k
    · subst h0
      by_cases e : k' = k0
      · subst e; simp [List.lookup_cons]
      · have hb : (k' == k0) = false := by simpa using e
        simp only [List.map_cons, beq_self_eq_true, if_true, List.lookup_cons, hb]
        exact ih
    · have hb0 : (k0 == k) = false := by simpa using h0
      simp only [List.map_cons, hb0, Bool.false_eq_true, if_false, List.lookup_cons]
      by_cases e : k' = k0
      · subst e
        have : ¬ k' = k := h0
        simp [this]
      · have hb : (k' == k0) = false := by simpa using e
        simp only [hb]
        exact ih

theorem lookup_setKey (k : String) (v : Int) (d : List (String × Int)) (k' : String) :
    ((setKey k v d).lookup k').getD 0 = if k' = k then v else (d.lookup k').getD 0 := by
  unfold setKey
  cases h : (d.lookup k).isSome with
  | false =>
    simp only [Bool.false_eq_true, if_false, lookup_snoc]
    have hn : d.lookup k = none := by simpa using h
    by_cases e : k' = k
    · subst e; simp [hn]
    · cases h2 : d.lookup k' <;> simp [e]
  | true =>
    simp only [if_true, lookup_map_replace]
    by_cases e : k' = k
    · subst e
      obtain ⟨x, hx⟩ := Option.isSome_iff_exists.mp h
      simp [hx]
    · simp [e]

theorem monthSum_cons (k : String) (t : Txn) (rest : List Txn) :
    monthSum k (t :: rest) = (if t.date.map fmtYm = some k then intAmount t else 0) + monthSum k rest := by
  unfold monthSum
  by_cases h : t.date.map fmtYm = some k
  · simp [List.filter_cons, h]
  · have hb : (t.date.map fmtYm == some k) = false := by simpa using h
    simp [List.filter_cons, hb, h]

theorem self_lookup (d : List (String × Int)) (h : (d.map (·.1)).Nodup) :
    (d.map (·.1)).map (fun k => (k, (d.lookup k).getD 0)) = d := by
  induction d with
  | nil => rfl
  | cons kv d ih =>
    obtain ⟨k, v⟩ := kv
    simp only [List.map_cons, List.nodup_cons] at h
    simp only [List.map_cons, List.lookup_cons, beq_self_eq_true, Option.getD_some, List.cons.injEq, true_and]
    refine Eq.trans ?_ (ih h.2)
    apply List.map_congr_left
    intro k' hk'
    have hne : ¬ k' = k := fun e => h.1 (e ▸ hk')
    have hb : (k' == k) = false := by simpa using hne
    simp [hb]

/-- closed form of the loop: keys in first-seen order, each with the exact sum of its month -/
theorem monthlyInt_spec (txns : List Txn) (d : List (String × Int)) (hd : (d.map (·.1)).Nodup) :
    monthlyInt txns d =
      (txns.foldl monthStep (d.map (·.1))).map (fun k => (k, (d.lookup k).getD 0 + monthSum k txns)) := by
  induction txns generalizing d with
  | nil =>
    simp only [monthlyInt, List.foldl_nil, monthSum, List.filter_nil, List.map_nil, List.sum_nil, Int.add_zero]
    exact (self_lookup d hd).symm
  | cons t rest ih =>
    unfold monthlyInt
    simp only [List.foldl_cons]
    cases hdt : t.date with
    | none =>
      simp only [monthStep, hdt]
      rw [ih d hd]
      congr 1
      funext k
      rw [monthSum_cons]
      simp [hdt]
    | some dt =>
      simp only [monthStep, hdt]
      have hn : ((setKey (fmtYm dt) ((d.lookup (fmtYm dt)).getD 0 + intAmount t) d).map (·.1)).Nodup := by
        rw [keys_setKey]; exact addNew_nodup _ _ hd
      rw [ih _ hn, keys_setKey]
      congr 1
      funext k
      rw [monthSum_cons, lookup_setKey]
      simp only [hdt, Option.map_some, Option.some.injEq]
      by_cases e : k = fmtYm dt
      · subst e; simp [Int.add_assoc]
      · have e' : ¬ fmtYm dt = k := fun x => e x.symm
        simp [e, e']

end TallyVerif.View
