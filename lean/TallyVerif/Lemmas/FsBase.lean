import TallyVerif.Model.Fs
/-! Helper lemmas for C15/C20: from the exhaustive Boolean checks to the quantified statements. -/
namespace TallyVerif.Fs

theorem getD_mem_cons {α : Type} (l : List α) (k : Nat) (d : α) : l.getD k d ∈ d :: l := by
  induction l generalizing k with
  | nil => simp
  | cons a t ih =>
    cases k with
    | zero => simp
    | succ n =>
      have h := ih n
      simp only [List.getD_cons_succ]
      simp only [List.mem_cons] at h ⊢
      rcases h with h | h
      · exact Or.inl h
      · exact Or.inr (Or.inr h)

theorem mem_bools (b : Bool) : b ∈ bools := by cases b <;> simp [bools]

theorem mem_shapesOf (s : Shape) : s ∈ shapesOf s.settings := by
  obtain ⟨k, c, r, b, vw, mv, d⟩ := s
  simp only [shapesOf, List.mem_flatMap, List.mem_map]
  refine ⟨c, ?_, r, mem_bools r, b, mem_bools b, vw, mem_bools vw, mv, mem_bools mv, d, mem_bools d, rfl⟩
  cases c <;> simp

theorem mem_allShapes (s : Shape) : s ∈ allShapes := by
  have h := mem_shapesOf s
  unfold allShapes
  simp only [List.mem_append]
  cases hk : s.settings <;> rw [hk] at h <;> simp [h]

theorem mem_allLShapes (s : LShape) : s ∈ allLShapes := by
  obtain ⟨a, b, c, d, e⟩ := s
  simp only [allLShapes, List.mem_flatMap, List.mem_map]
  exact ⟨a, mem_bools a, b, mem_bools b, c, mem_bools c, d, mem_bools d, e, mem_bools e, rfl⟩

theorem mem_allPartials (p : Partial) : p ∈ allPartials := by cases p <;> simp [allPartials]

/-- the exhaustive check over the crash snapshots gives `Safe` at every crash point -/
theorem crash_safe_of_check {v : Variants} {p : Prog} {fs₀ : FS Sym} (h : crashCheck v p fs₀ = true)
    (k : Nat) (part : Partial) : Safe v p fs₀ (crashAt v p fs₀ k part) := by
  unfold crashCheck at h
  rw [List.all_eq_true] at h
  have hm := getD_mem_cons (snapshots v p fs₀) k ⟨(complete v p fs₀).fs, none⟩
  have hs := h _ hm
  unfold Safe crashAt
  generalize (snapshots v p fs₀).getD k ⟨(complete v p fs₀).fs, none⟩ = s at hs
  cases hfl : s.fl with
  | none =>
    simp only [hfl] at hs
    simp only [materialize, hfl]
    exact hs
  | some f =>
    simp only [hfl] at hs
    rw [List.all_eq_true] at hs
    exact hs part (mem_allPartials part)

/-- the exhaustive check over the fault points gives `SafeRun` for a fault at every event -/
theorem fault_safe_of_check {v : Variants} {p : Prog} {fs₀ : FS Sym} (h : faultCheck v p fs₀ = true)
    (k : Nat) (hk : k < numEvents v p fs₀) : SafeRun v p fs₀ (faultAt v p fs₀ k) := by
  unfold faultCheck at h
  rw [List.all_eq_true] at h
  have hs := h k (List.mem_range.mpr hk)
  simp only [Bool.and_eq_true, Bool.or_eq_true, bne_iff_ne, ne_eq] at hs
  refine ⟨hs.1, fun hp => ?_⟩
  rcases hs.2 with h2 | h2
  · exact absurd hp h2
  · exact h2

end TallyVerif.Fs

namespace TallyVerif.Fs
/-- a check established per settings kind holds for every shape -/
theorem all_shapes_of_kinds (f : Shape → Bool)
    (h1 : (shapesOf .absent).all f = true) (h2 : (shapesOf .plain).all f = true)
    (h3 : (shapesOf .commentMF).all f = true) (h4 : (shapesOf .keyRules).all f = true)
    (h5 : (shapesOf .keyOther).all f = true) (s : Shape) : f s = true := by
  have hm := mem_shapesOf s
  cases hk : s.settings <;> rw [hk] at hm
  · exact List.all_eq_true.mp h1 s hm
  · exact List.all_eq_true.mp h2 s hm
  · exact List.all_eq_true.mp h3 s hm
  · exact List.all_eq_true.mp h4 s hm
  · exact List.all_eq_true.mp h5 s hm
end TallyVerif.Fs
