/-
Helper lemmas for C18 (format strings): split/join inverse, strip and the token matcher on a rendered token.
-/
import TallyVerif.Model.Fmt

namespace TallyVerif.Fmt
open TallyVerif.Gen

/-! ### `split(',')` / `','.join` -/

theorem splitComma_ne_nil (s : Str) : splitComma s ≠ [] := by
  induction s with
  | nil => simp [splitComma]
  | cons c cs ih =>
    unfold splitComma
    split
    · simp
    · split <;> simp

theorem splitComma_comma (s : Str) : splitComma (',' :: s) = [] :: splitComma s := by
  cases h : splitComma s with
  | nil => exact absurd h (splitComma_ne_nil s)
  | cons p ps => simp [splitComma, h]

theorem splitComma_append (p : Str) (hp : ',' ∉ p) (rest q : Str) (qs : List Str)
    (h : splitComma rest = q :: qs) : splitComma (p ++ rest) = (p ++ q) :: qs := by
  induction p with
  | nil => simpa using h
  | cons c cs ih =>
    have hc : c ≠ ',' := by intro hc; apply hp; simp [hc]
    have hcs : ',' ∉ cs := by intro hm; apply hp; simp [hm]
    have := ih hcs
    simp [splitComma, this, hc]

/-- `','.join(parts).split(',') == parts` when no part contains a comma -/
theorem splitComma_joinComma (parts : List Str) (hne : parts ≠ []) (hp : ∀ p ∈ parts, ',' ∉ p) :
    splitComma (joinComma parts) = parts := by
  induction parts with
  | nil => exact absurd rfl hne
  | cons p ps ih =>
    cases ps with
    | nil =>
      have := splitComma_append p (hp p (by simp)) [] [] [] (by simp [splitComma])
      simpa [joinComma] using this
    | cons q r =>
      have ih' := ih (by simp) (fun x hx => hp x (by simp at hx ⊢; right; exact hx))
      have h2 : splitComma (',' :: joinComma (q :: r)) = [] :: q :: r := by
        rw [splitComma_comma, ih']
      have := splitComma_append p (hp p (by simp)) _ _ _ h2
      simpa [joinComma] using this

/-! ### `strip` -/

theorem dropWhile_all_append {p : Char → Bool} (xs ys : Str) (h : xs.all p = true) :
    (xs ++ ys).dropWhile p = ys.dropWhile p := by
  induction xs with
  | nil => rfl
  | cons x xs ih =>
    simp only [List.all_cons, Bool.and_eq_true] at h
    simp [h.1, ih h.2]

theorem takeWhile_all_append {p : Char → Bool} (xs ys : Str) (h : xs.all p = true) :
    (xs ++ ys).takeWhile p = xs ++ ys.takeWhile p := by
  induction xs with
  | nil => rfl
  | cons x xs ih =>
    simp only [List.all_cons, Bool.and_eq_true] at h
    simp [h.1, ih h.2]

theorem dropWhile_stops {p : Char → Bool} (xs : Str) (c : Char) (ys : Str) (hc : p c = false) :
    ∃ zs, (xs ++ c :: ys).dropWhile p = zs ++ c :: ys := by
  induction xs with
  | nil => exact ⟨[], by simp [hc]⟩
  | cons x xs ih =>
    by_cases hx : p x = true
    · obtain ⟨zs, hz⟩ := ih
      exact ⟨zs, by simp [hx, hz]⟩
    · exact ⟨x :: xs, by simp [hx]⟩

/-- stripping a piece that is blanks, then text that starts and ends with non-blank characters, then anything:
the blanks in front go, the text stays in front, something may follow -/
theorem strip_token (e : Ext) (pre body rest : Str) (a z : Char)
    (hpre : pre.all e.isSpace = true) (ha : e.isSpace a = false) (hz : e.isSpace z = false) :
    ∃ r', strip e (pre ++ (a :: (body ++ [z]) ++ rest)) = a :: (body ++ [z]) ++ r' := by
  unfold strip
  rw [dropWhile_all_append _ _ hpre]
  have h1 : (a :: (body ++ [z]) ++ rest).dropWhile e.isSpace = a :: (body ++ [z]) ++ rest := by
    simp [ha]
  rw [h1]
  have h2 : (a :: (body ++ [z]) ++ rest).reverse = rest.reverse ++ z :: (a :: body).reverse := by simp
  rw [h2]
  obtain ⟨zs, hzs⟩ := dropWhile_stops (p := e.isSpace) rest.reverse z (a :: body).reverse hz
  rw [hzs]
  exact ⟨zs.reverse, by simp⟩

/-! ### ASCII facts -/

theorem isSpace_ascii (e : Ext) (c : Char) (h : isAscii c = true) : e.isSpace c = asciiSpace c := by
  simp [Ext.isSpace, h]
theorem isWord_ascii (e : Ext) (c : Char) (h : isAscii c = true) : e.isWord c = asciiWord c := by
  simp [Ext.isWord, h]

theorem isSpace_lbrace (e : Ext) : e.isSpace '{' = false := by rw [isSpace_ascii e _ (by decide)]; decide
theorem isSpace_rbrace (e : Ext) : e.isSpace '}' = false := by rw [isSpace_ascii e _ (by decide)]; decide
theorem isSpace_comma (e : Ext) : e.isSpace ',' = false := by rw [isSpace_ascii e _ (by decide)]; decide
theorem isWord_rbrace (e : Ext) : e.isWord '}' = false := by rw [isWord_ascii e _ (by decide)]; decide
theorem isWord_colon (e : Ext) : e.isWord ':' = false := by rw [isWord_ascii e _ (by decide)]; decide
theorem isWord_star (e : Ext) : e.isWord '*' = false := by rw [isWord_ascii e _ (by decide)]; decide
theorem isWord_minus (e : Ext) : e.isWord '-' = false := by rw [isWord_ascii e _ (by decide)]; decide
theorem isWord_plus (e : Ext) : e.isWord '+' = false := by rw [isWord_ascii e _ (by decide)]; decide
theorem isWord_comma (e : Ext) : e.isWord ',' = false := by rw [isWord_ascii e _ (by decide)]; decide
theorem isWord_lbrace (e : Ext) : e.isWord '{' = false := by rw [isWord_ascii e _ (by decide)]; decide

/-! ### the token matcher on a rendered token -/

theorem takeSign_signChars (s : Option Char) (hs : Spec.okSign s = true) (c : Char) (x : Str)
    (h1 : c ≠ '-') (h2 : c ≠ '+') : takeSign (Spec.signChars s ++ c :: x) = (s, c :: x) := by
  simp only [Spec.okSign, Bool.or_eq_true, decide_eq_true_eq] at hs
  rcases hs with (rfl | rfl) | rfl <;> simp [Spec.signChars, takeSign, h1, h2]

theorem takeName_star (e : Ext) (r : Str) : takeName e ('*' :: r) = some (['*'], r) := by
  simp [takeName]

theorem takeName_word (e : Ext) (name : Str) (hne : name ≠ []) (hw : name.all e.isWord = true)
    (c : Char) (hc : e.isWord c = false) (r : Str) :
    takeName e (name ++ c :: r) = some (name, c :: r) := by
  cases name with
  | nil => exact absurd rfl hne
  | cons a as =>
    have ha : e.isWord a = true := by simp only [List.all_cons, Bool.and_eq_true] at hw; exact hw.1
    have hstar : a ≠ '*' := by intro h; rw [h, isWord_star] at ha; cases ha
    have htw : ((a :: as) ++ c :: r).takeWhile e.isWord = a :: as := by
      rw [takeWhile_all_append _ _ hw]; simp [hc]
    have hdw : ((a :: as) ++ c :: r).dropWhile e.isWord = c :: r := by
      rw [dropWhile_all_append _ _ hw]; simp [hc]
    have h0 : (a :: as) ++ c :: r = a :: (as ++ c :: r) := rfl
    rw [h0] at htw hdw
    simp only [h0, takeName, hstar, if_false, htw, hdw]
    simp

theorem takeSpec_specChars (spec : Option Str) (h : Spec.okSpec spec = true) (r : Str) :
    takeSpec (Spec.specChars spec ++ '}' :: r) = some spec := by
  cases spec with
  | none => simp [Spec.specChars, takeSpec]
  | some f =>
    simp only [Spec.okSpec, Bool.and_eq_true, Bool.not_eq_true', List.contains_eq_mem, decide_eq_false_iff_not] at h
    obtain ⟨⟨hne, hbr⟩, _⟩ := h
    have hall : f.all (· != '}') = true := by
      simp only [List.all_eq_true, bne_iff_ne, ne_eq]
      intro x hx hxe; exact hbr (hxe ▸ hx)
    have htw : (f ++ '}' :: r).takeWhile (· != '}') = f := by
      rw [takeWhile_all_append _ _ hall]; simp
    have hdw : (f ++ '}' :: r).dropWhile (· != '}') = '}' :: r := by
      rw [dropWhile_all_append _ _ hall]; simp
    have hfe : f.isEmpty = false := by simpa using hne
    simp [Spec.specChars, takeSpec, htw, hdw, hfe]

theorem specChars_head (spec : Option Str) (r : Str) :
    ∃ c x, Spec.specChars spec ++ '}' :: r = c :: x ∧ (c = ':' ∨ c = '}') := by
  cases spec with
  | none => exact ⟨'}', r, rfl, Or.inr rfl⟩
  | some f => exact ⟨':', f ++ '}' :: r, rfl, Or.inl rfl⟩

/-- the matcher reads a rendered token back, whatever follows the closing brace -/
theorem matchTok_tokText (e : Ext) (sign : Option Char) (name : Str) (spec : Option Str) (r : Str)
    (hs : Spec.okSign sign = true) (hn : name = sStar ∨ (name ≠ [] ∧ name.all e.isWord = true))
    (hsp : Spec.okSpec spec = true) :
    matchTok e (Spec.tokText sign name spec ++ r) = some ⟨sign, name, spec⟩ := by
  have hform : Spec.tokText sign name spec ++ r
      = '{' :: (Spec.signChars sign ++ (name ++ (Spec.specChars spec ++ '}' :: r))) := by
    simp [Spec.tokText]
  rw [hform]
  obtain ⟨c, x, hcx, hc⟩ := specChars_head spec r
  have hcw : e.isWord c = false := by
    rcases hc with rfl | rfl
    · exact isWord_colon e
    · exact isWord_rbrace e
  rcases hn with rfl | ⟨hne, hw⟩
  · have h1 := takeSign_signChars sign hs '*' (Spec.specChars spec ++ '}' :: r) (by decide) (by decide)
    simp only [matchTok, if_true, sStar, List.cons_append, List.nil_append, h1, takeName_star,
      takeSpec_specChars spec hsp r]
  · cases name with
    | nil => exact absurd rfl hne
    | cons a as =>
      have ha : e.isWord a = true := by simp only [List.all_cons, Bool.and_eq_true] at hw; exact hw.1
      have hm : a ≠ '-' := by intro h; rw [h, isWord_minus] at ha; cases ha
      have hp : a ≠ '+' := by intro h; rw [h, isWord_plus] at ha; cases ha
      have h1 := takeSign_signChars sign hs a (as ++ (Spec.specChars spec ++ '}' :: r)) hm hp
      have h2 := takeName_word e (a :: as) hne hw c hcw x
      rw [← hcx] at h2
      simp only [matchTok, if_true, List.cons_append, h1]
      simp only [List.cons_append] at h2
      simp only [h2, takeSpec_specChars spec hsp r]

/-! ### one column: strip, match, loop body -/
open Spec

theorem lower_star (e : Ext) : e.lower sStar = sStar := by
  unfold Ext.lower; rw [if_pos (by decide)]; decide

theorem okName_elim {e : Ext} {w c : Str} (h : okName e w c = true) :
    w ≠ [] ∧ w.all e.isWord = true ∧ e.lower w = c := by
  simp only [okName, Bool.and_eq_true, Bool.not_eq_true', beq_iff_eq] at h
  exact ⟨by intro hw; simp [hw] at h, h.1.2, h.2⟩

/-- the canonical (lower-case) name the parser sees for a column -/
def canonName : Col → Str
  | .date _ => sDate
  | .description => sDescription
  | .amount _ => sAmount
  | .location => sLocation
  | .custom n => n
  | .skip => sUnderscore

theorem SpOK_parts {e : Ext} {p : Col × Sp} (h : SpOK e p = true) :
    p.2.pre.all e.isSpace = true ∧ ',' ∉ p.2.rest ∧ okSign p.2.sign = true ∧ okSpec (p.1.specOf p.2) = true ∧
    ((p.1 = .skip ∧ p.2.name = sStar) ∨ okName e p.2.name (canonName p.1) = true) := by
  obtain ⟨c, sp⟩ := p
  simp only [SpOK, Bool.and_eq_true, Bool.not_eq_true', List.contains_eq_mem, decide_eq_false_iff_not] at h
  obtain ⟨⟨⟨⟨h1, h2⟩, h3⟩, h4⟩, h5⟩ := h
  refine ⟨h1, h2, h3, h4, ?_⟩
  cases c with
  | skip =>
    simp only [Bool.or_eq_true, beq_iff_eq] at h5
    rcases h5 with h5 | h5
    · exact Or.inl ⟨rfl, h5⟩
    · exact Or.inr h5
  | _ => exact Or.inr h5

theorem okSign_signOf {e : Ext} {p : Col × Sp} (h : SpOK e p = true) : okSign (p.1.signOf p.2) = true := by
  have h3 := (SpOK_parts h).2.2.1
  obtain ⟨c, sp⟩ := p
  cases c <;> try exact h3
  rename_i s; cases s <;> rfl

/-- strip + match on a rendered column gives back sign, written name and spec -/
theorem tok_render (e : Ext) (p : Col × Sp) (h : SpOK e p = true) :
    matchTok e (strip e (renderCol p)) = some ⟨p.1.signOf p.2, p.2.name, p.1.specOf p.2⟩ := by
  obtain ⟨hpre, _, _, hspec, hname⟩ := SpOK_parts h
  have hsign := okSign_signOf h
  have hform : renderCol p = p.2.pre ++ ('{' :: ((signChars (p.1.signOf p.2) ++ (p.2.name ++ specChars (p.1.specOf p.2)))
      ++ ['}']) ++ p.2.rest) := by
    simp [renderCol, tokText]
  obtain ⟨r', hr'⟩ := strip_token e p.2.pre (signChars (p.1.signOf p.2) ++ (p.2.name ++ specChars (p.1.specOf p.2)))
    p.2.rest '{' '}' hpre (isSpace_lbrace e) (isSpace_rbrace e)
  rw [hform, hr']
  have hback : '{' :: ((signChars (p.1.signOf p.2) ++ (p.2.name ++ specChars (p.1.specOf p.2))) ++ ['}']) ++ r'
      = tokText (p.1.signOf p.2) p.2.name (p.1.specOf p.2) ++ r' := by
    simp [tokText]
  rw [hback]
  apply matchTok_tokText e _ _ _ _ hsign _ hspec
  rcases hname with ⟨_, hn⟩ | hn
  · exact Or.inl hn
  · have := okName_elim hn
    exact Or.inr ⟨this.1, this.2.1⟩

/-- what the parser sees as the lower-cased name -/
theorem lower_render {e : Ext} {p : Col × Sp} (h : SpOK e p = true) :
    e.lower p.2.name = canonName p.1 ∨ (p.1 = .skip ∧ e.lower p.2.name = sStar) := by
  rcases (SpOK_parts h).2.2.2.2 with ⟨hs, hn⟩ | hn
  · right; exact ⟨hs, by rw [hn]; exact lower_star e⟩
  · left; exact (okName_elim hn).2.2

/-- the state after a column, as the arrangement says -/
def upd (idx : Nat) (st : St) : Col → St
  | .date f => { st with fields := st.fields ++ [(sDate, idx)], dateFormat := f.getD st.dateFormat }
  | .description => { st with fields := st.fields ++ [(sDescription, idx)] }
  | .amount s => { st with fields := st.fields ++ [(sAmount, idx)],
                           negate := st.negate || s == .negate, abs := st.abs || s == .abs }
  | .location => { st with fields := st.fields ++ [(sLocation, idx)] }
  | .custom n => { st with customs := st.customs ++ [(n, idx)] }
  | .skip => st

def accum : Nat → St → List Col → St
  | _, st, [] => st
  | idx, st, c :: cs => accum (idx + 1) (upd idx st c) cs

theorem not_reserved_ne {n : Str} (h : FmtTables.RESERVED_NAMES.contains n = false) :
    n ≠ sUnderscore ∧ n ≠ sStar := by
  constructor <;> (rintro rfl; revert h; decide)

theorem step_render (e : Ext) (idx : Nat) (st : St) (p : Col × Sp) (h : SpOK e p = true)
    (hres : ∀ n, p.1.customName = some n → FmtTables.RESERVED_NAMES.contains n = false)
    (hf : ∀ n, p.1.fieldName = some n → n ∉ keys st.fields)
    (hc : ∀ n, p.1.customName = some n → n ∉ keys st.customs) :
    Impl.step e idx st ⟨p.1.signOf p.2, p.2.name, p.1.specOf p.2⟩ = .ok (upd idx st p.1) := by
  have hl := lower_render h
  have hspec := (SpOK_parts h).2.2.2.1
  obtain ⟨c, sp⟩ := p
  cases c with
  | skip =>
    rcases hl with hl | ⟨_, hl⟩ <;> simp [Impl.step, hl, canonName, upd]
  | custom n =>
    have hln : e.lower sp.name = n := by rcases hl with hl | ⟨hx, _⟩; exact hl; cases hx
    have hr := hres n rfl
    have hne := not_reserved_ne hr
    have hcn := hc n rfl
    have hr' : n ∉ FmtTables.RESERVED_NAMES := by simpa using hr
    simp [Impl.step, hln, hne.1, hne.2, hr', hcn, upd]
  | date f =>
    have hln : e.lower sp.name = sDate := by rcases hl with hl | ⟨hx, _⟩; exact hl; cases hx
    have hfn := hf sDate rfl
    have h1 : sDate ≠ sUnderscore := by decide
    have h2 : sDate ≠ sStar := by decide
    have h3 : sDate ∈ FmtTables.RESERVED_NAMES := by decide
    have h4 : sDate ≠ sAmount := by decide
    cases f with
    | none => simp [Impl.step, hln, h1, h2, h3, h4, hfn, upd, Col.specOf]
    | some f =>
      have hfe : f.isEmpty = false := by
        simp only [Col.specOf, okSpec, Bool.and_eq_true, Bool.not_eq_true'] at hspec; exact hspec.1.1
      simp [Impl.step, hln, h1, h2, h3, h4, hfn, upd, Col.specOf, hfe]
  | description =>
    have hln : e.lower sp.name = sDescription := by rcases hl with hl | ⟨hx, _⟩; exact hl; cases hx
    have hfn := hf sDescription rfl
    have h1 : sDescription ≠ sUnderscore := by decide
    have h2 : sDescription ≠ sStar := by decide
    have h3 : sDescription ∈ FmtTables.RESERVED_NAMES := by decide
    have h4 : sDescription ≠ sAmount := by decide
    have h5 : sDescription ≠ sDate := by decide
    simp [Impl.step, hln, h1, h2, h3, h4, h5, hfn, upd]
  | location =>
    have hln : e.lower sp.name = sLocation := by rcases hl with hl | ⟨hx, _⟩; exact hl; cases hx
    have hfn := hf sLocation rfl
    have h1 : sLocation ≠ sUnderscore := by decide
    have h2 : sLocation ≠ sStar := by decide
    have h3 : sLocation ∈ FmtTables.RESERVED_NAMES := by decide
    have h4 : sLocation ≠ sAmount := by decide
    have h5 : sLocation ≠ sDate := by decide
    simp [Impl.step, hln, h1, h2, h3, h4, h5, hfn, upd]
  | amount s =>
    have hln : e.lower sp.name = sAmount := by rcases hl with hl | ⟨hx, _⟩; exact hl; cases hx
    have hfn := hf sAmount rfl
    have h1 : sAmount ≠ sUnderscore := by decide
    have h2 : sAmount ≠ sStar := by decide
    have h3 : sAmount ∈ FmtTables.RESERVED_NAMES := by decide
    have h5 : sAmount ≠ sDate := by decide
    cases s <;> simp [Impl.step, hln, h1, h2, h3, h5, hfn, upd, Col.signOf]

/-! ### the loop over a rendered arrangement -/

def optList {α : Type} : Option α → List α
  | none => []
  | some a => [a]

theorem keys_append (a b : List (Str × Nat)) : keys (a ++ b) = keys a ++ keys b := by simp [keys]

theorem keys_upd_fields (idx : Nat) (st : St) (c : Col) :
    keys (upd idx st c).fields = keys st.fields ++ optList c.fieldName := by
  cases c <;> simp [upd, keys, Col.fieldName, optList]

theorem keys_upd_customs (idx : Nat) (st : St) (c : Col) :
    keys (upd idx st c).customs = keys st.customs ++ optList c.customName := by
  cases c <;> simp [upd, keys, Col.customName, optList]

theorem fieldNames_cons (c : Col) (cs : List Col) :
    fieldNames (c :: cs) = optList c.fieldName ++ fieldNames cs := by
  simp only [fieldNames, List.filterMap_cons]; cases c.fieldName <;> simp [optList]

theorem customNames_cons (c : Col) (cs : List Col) :
    customNames (c :: cs) = optList c.customName ++ customNames cs := by
  simp only [customNames, List.filterMap_cons]; cases c.customName <;> simp [optList]

theorem loop_render (e : Ext) : ∀ (scs : List (Col × Sp)) (idx : Nat) (st : St),
    (∀ p ∈ scs, SpOK e p = true) →
    (∀ n ∈ customNames (scs.map Prod.fst), FmtTables.RESERVED_NAMES.contains n = false) →
    (keys st.fields ++ fieldNames (scs.map Prod.fst)).Nodup →
    (keys st.customs ++ customNames (scs.map Prod.fst)).Nodup →
    Impl.loop e idx st (scs.map renderCol) = .ok (accum idx st (scs.map Prod.fst)) := by
  intro scs
  induction scs with
  | nil => intro idx st _ _ _ _; rfl
  | cons p ps ih =>
    intro idx st hsp hres hf hc
    have hp := hsp p (by simp)
    simp only [List.map_cons, fieldNames_cons, customNames_cons] at hres hf hc
    have hstep := step_render e idx st p hp
      (fun n hn => hres n (by simp [hn, optList]))
      (fun n hn hmem => by
        rw [hn] at hf
        have := (List.nodup_append.mp hf).2.2 n hmem n (by simp [optList])
        exact this rfl)
      (fun n hn hmem => by
        rw [hn] at hc
        have := (List.nodup_append.mp hc).2.2 n hmem n (by simp [optList])
        exact this rfl)
    simp only [List.map_cons, Impl.loop, tok_render e p hp, hstep, accum]
    apply ih
    · intro q hq; exact hsp q (by simp [hq])
    · intro n hn; exact hres n (by simp [hn])
    · rw [keys_upd_fields, List.append_assoc]; exact hf
    · rw [keys_upd_customs, List.append_assoc]; exact hc

/-! ### what the accumulated state looks like -/

def fieldsFrom : Nat → List Col → List (Str × Nat)
  | _, [] => []
  | i, c :: cs => (match c.fieldName with | some n => [(n, i)] | none => []) ++ fieldsFrom (i + 1) cs

theorem accum_fields : ∀ (cols : List Col) (idx : Nat) (st : St),
    (accum idx st cols).fields = st.fields ++ fieldsFrom idx cols := by
  intro cols
  induction cols with
  | nil => intro idx st; simp [accum, fieldsFrom]
  | cons c cs ih =>
    intro idx st
    rw [accum, ih]
    cases c <;> simp [upd, fieldsFrom, Col.fieldName]

theorem accum_customs : ∀ (cols : List Col) (idx : Nat) (st : St),
    (accum idx st cols).customs = st.customs ++ customsFrom idx cols := by
  intro cols
  induction cols with
  | nil => intro idx st; simp [accum, customsFrom]
  | cons c cs ih =>
    intro idx st
    rw [accum, ih]
    cases c <;> simp [upd, customsFrom]

theorem keys_fieldsFrom : ∀ (cols : List Col) (i : Nat), keys (fieldsFrom i cols) = fieldNames cols := by
  intro cols
  induction cols with
  | nil => intro i; rfl
  | cons c cs ih =>
    intro i
    rw [fieldsFrom, keys_append, ih, fieldNames_cons]
    cases c <;> simp [Col.fieldName, keys, optList]

theorem keys_customsFrom : ∀ (cols : List Col) (i : Nat), keys (customsFrom i cols) = customNames cols := by
  intro cols
  induction cols with
  | nil => intro i; rfl
  | cons c cs ih =>
    intro i
    rw [customNames_cons]
    cases c <;> simp [customsFrom, Col.customName, keys, optList, ← ih (i + 1)]

theorem lookup_fieldsFrom (k : Str) (P : Col → Bool) (hP : ∀ c, c.fieldName = some k ↔ P c = true) :
    ∀ (cols : List Col) (i : Nat), lookup k (fieldsFrom i cols) = (cols.findIdx? P).map (· + i) := by
  intro cols
  induction cols with
  | nil => intro i; rfl
  | cons c cs ih =>
    intro i
    rw [fieldsFrom, List.findIdx?_cons]
    by_cases hc : P c = true
    · have := (hP c).mpr hc
      simp [this, hc, lookup]
    · have hne : c.fieldName ≠ some k := fun h => hc ((hP c).mp h)
      have hrest : lookup k (fieldsFrom (i + 1) cs) = (Option.map (fun i => i + 1) (cs.findIdx? P)).map (· + i) := by
        rw [ih (i + 1), Option.map_map]; congr 1; funext x; simp; omega
      cases hfn : c.fieldName with
      | none => simp [hc, hrest]
      | some n =>
        have : n ≠ k := by intro h; apply hne; rw [hfn, h]
        simp [hc, lookup, this, hrest]

theorem isDate_iff (c : Col) : c.fieldName = some sDate ↔ c.isDate = true := by
  cases c <;> simp [Col.fieldName, Col.isDate] <;> decide
theorem isAmount_iff (c : Col) : c.fieldName = some sAmount ↔ c.isAmount = true := by
  cases c <;> simp [Col.fieldName, Col.isAmount] <;> decide
theorem isDescription_iff (c : Col) : c.fieldName = some sDescription ↔ c.isDescription = true := by
  cases c <;> simp [Col.fieldName, Col.isDescription] <;> decide
theorem isLocation_iff (c : Col) : c.fieldName = some sLocation ↔ c.isLocation = true := by
  cases c <;> simp [Col.fieldName, Col.isLocation] <;> decide

theorem mem_fieldNames_iff (k : Str) (P : Col → Bool) (hP : ∀ c, c.fieldName = some k ↔ P c = true)
    (cols : List Col) : k ∈ fieldNames cols ↔ cols.any P = true := by
  simp only [fieldNames, List.mem_filterMap, List.any_eq_true]
  constructor
  · rintro ⟨c, hc, h⟩; exact ⟨c, hc, (hP c).mp h⟩
  · rintro ⟨c, hc, h⟩; exact ⟨c, hc, (hP c).mpr h⟩

/-! ### date format and sign mode of the accumulated state -/

theorem nodup_tail_fieldNames {c : Col} {cs : List Col} (h : (fieldNames (c :: cs)).Nodup) :
    (fieldNames cs).Nodup := by
  rw [fieldNames_cons] at h; exact (List.nodup_append.mp h).2.1

theorem accum_dateFormat_nodate : ∀ (cols : List Col) (idx : Nat) (st : St),
    (∀ c ∈ cols, c.isDate = false) → (accum idx st cols).dateFormat = st.dateFormat := by
  intro cols
  induction cols with
  | nil => intro idx st _; rfl
  | cons c cs ih =>
    intro idx st h
    rw [accum, ih _ _ (fun x hx => h x (by simp [hx]))]
    have := h c (by simp)
    cases c <;> simp_all [upd, Col.isDate]

theorem accum_dateFormat : ∀ (cols : List Col) (idx : Nat) (st : St), (fieldNames cols).Nodup →
    (accum idx st cols).dateFormat =
      (match cols.find? Col.isDate with | some (.date (some f)) => f | _ => st.dateFormat) := by
  intro cols
  induction cols with
  | nil => intro idx st _; rfl
  | cons c cs ih =>
    intro idx st hnd
    by_cases hc : c.isDate = true
    · have hno : ∀ x ∈ cs, x.isDate = false := by
        intro x hx
        cases hxd : x.isDate with
        | false => rfl
        | true =>
          exfalso
          rw [fieldNames_cons, (isDate_iff c).mpr hc] at hnd
          have h1 : sDate ∈ fieldNames cs := (mem_fieldNames_iff sDate Col.isDate isDate_iff cs).mpr
            (List.any_eq_true.mpr ⟨x, hx, hxd⟩)
          simp [optList, h1] at hnd
      rw [accum, accum_dateFormat_nodate cs _ _ hno, List.find?_cons, hc]
      cases c with
      | date f => cases f <;> simp [upd]
      | _ => cases hc
    · have hc' : c.isDate = false := by simpa using hc
      rw [accum, ih _ _ (nodup_tail_fieldNames hnd), List.find?_cons, hc']
      cases c <;> simp_all [upd, Col.isDate]

theorem accum_sign_noamount : ∀ (cols : List Col) (idx : Nat) (st : St),
    (∀ c ∈ cols, c.isAmount = false) →
    (accum idx st cols).negate = st.negate ∧ (accum idx st cols).abs = st.abs := by
  intro cols
  induction cols with
  | nil => intro idx st _; exact ⟨rfl, rfl⟩
  | cons c cs ih =>
    intro idx st h
    rw [accum]
    have h2 := ih (idx + 1) (upd idx st c) (fun x hx => h x (by simp [hx]))
    rw [h2.1, h2.2]
    have := h c (by simp)
    cases c <;> simp_all [upd, Col.isAmount]

theorem accum_sign : ∀ (cols : List Col) (idx : Nat) (st : St), (fieldNames cols).Nodup →
    (accum idx st cols).negate =
      (st.negate || (match cols.find? Col.isAmount with | some (.amount s) => s == .negate | _ => false)) ∧
    (accum idx st cols).abs =
      (st.abs || (match cols.find? Col.isAmount with | some (.amount s) => s == .abs | _ => false)) := by
  intro cols
  induction cols with
  | nil => intro idx st _; simp [accum]
  | cons c cs ih =>
    intro idx st hnd
    by_cases hc : c.isAmount = true
    · have hno : ∀ x ∈ cs, x.isAmount = false := by
        intro x hx
        cases hxd : x.isAmount with
        | false => rfl
        | true =>
          exfalso
          rw [fieldNames_cons, (isAmount_iff c).mpr hc] at hnd
          have h1 : sAmount ∈ fieldNames cs := (mem_fieldNames_iff sAmount Col.isAmount isAmount_iff cs).mpr
            (List.any_eq_true.mpr ⟨x, hx, hxd⟩)
          simp [optList, h1] at hnd
      have h2 := accum_sign_noamount cs (idx + 1) (upd idx st c) hno
      rw [accum, h2.1, h2.2, List.find?_cons, hc]
      cases c with
      | amount s => simp [upd]
      | _ => cases hc
    · have hc' : c.isAmount = false := by simpa using hc
      have h2 := ih (idx + 1) (upd idx st c) (nodup_tail_fieldNames hnd)
      rw [accum, h2.1, h2.2, List.find?_cons, hc']
      cases c <;> simp_all [upd, Col.isAmount]

/-! ### a rendered column contains no comma -/

theorem no_comma_of_all {p : Char → Bool} (hp : p ',' = false) {l : Str} (h : l.all p = true) : ',' ∉ l := by
  intro hm
  have := List.all_eq_true.mp h _ hm
  rw [hp] at this; cases this

theorem renderCol_no_comma (e : Ext) (p : Col × Sp) (h : SpOK e p = true) : ',' ∉ renderCol p := by
  obtain ⟨hpre, hrest, _, hspec, hname⟩ := SpOK_parts h
  have hsign := okSign_signOf h
  have h1 : ',' ∉ p.2.pre := no_comma_of_all (isSpace_comma e) hpre
  have h2 : ',' ∉ signChars (p.1.signOf p.2) := by
    simp only [okSign, Bool.or_eq_true, decide_eq_true_eq] at hsign
    rcases hsign with (hs | hs) | hs <;> rw [hs] <;> simp [signChars]
  have h3 : ',' ∉ p.2.name := by
    rcases hname with ⟨_, hn⟩ | hn
    · rw [hn]; decide
    · exact no_comma_of_all (isWord_comma e) (okName_elim hn).2.1
  have h4 : ',' ∉ specChars (p.1.specOf p.2) := by
    cases hsp : p.1.specOf p.2 with
    | none => simp [specChars]
    | some f =>
      rw [hsp] at hspec
      simp only [okSpec, Bool.and_eq_true, Bool.not_eq_true', List.contains_eq_mem, decide_eq_false_iff_not] at hspec
      simp [specChars, hspec.2]
  simp only [renderCol, tokText, List.mem_append, List.mem_cons, not_or]
  refine ⟨h1, ⟨by decide, h2, h3, h4, ?_⟩, hrest⟩
  simp

/-! ### everything after the loop -/

theorem isEmpty_customsFrom (cols : List Col) (i : Nat) :
    (customsFrom i cols).isEmpty = (customNames cols).isEmpty := by
  rw [← keys_customsFrom cols i]; simp [keys]

theorem findIdx_some_of_any {P : Col → Bool} {cols : List Col} (h : cols.any P = true) :
    ∃ d, cols.findIdx? P = some d := by
  cases hf : cols.findIdx? P with
  | some d => exact ⟨d, rfl⟩
  | none =>
    obtain ⟨x, hx, hpx⟩ := List.any_eq_true.mp h
    have := List.findIdx?_eq_none_iff.mp hf x hx
    rw [this] at hpx; cases hpx

theorem finish_spec (e : Ext) (cols : List Col) (tmpl : Option Str) (hwf : WellFormed e cols tmpl) :
    Impl.finish e (accum 0 St.init cols) tmpl = .ok (specOf cols tmpl) := by
  obtain ⟨hnd, _, _, hdate, hamt, hdesc, hrefs⟩ := hwf
  have hfields : (accum 0 St.init cols).fields = fieldsFrom 0 cols := by rw [accum_fields]; rfl
  have hcust : (accum 0 St.init cols).customs = customsFrom 0 cols := by rw [accum_customs]; rfl
  have hkeys : keys (fieldsFrom 0 cols) = fieldNames cols := keys_fieldsFrom cols 0
  have hckeys : keys (customsFrom 0 cols) = customNames cols := keys_customsFrom cols 0
  have hdf : (accum 0 St.init cols).dateFormat = dateFmtOf cols := by rw [accum_dateFormat _ _ _ hnd]; rfl
  have hsg := accum_sign cols 0 St.init hnd
  have hneg : (accum 0 St.init cols).negate = (signModeOf cols == .negate) := by
    rw [hsg.1]; simp only [St.init, Bool.false_or, signModeOf]
    cases cols.find? Col.isAmount with
    | none => rfl
    | some c => cases c <;> rfl
  have habs : (accum 0 St.init cols).abs = (signModeOf cols == .abs) := by
    rw [hsg.2]; simp only [St.init, Bool.false_or, signModeOf]
    cases cols.find? Col.isAmount with
    | none => rfl
    | some c => cases c <;> rfl
  have hmemD : sDate ∈ fieldNames cols := (mem_fieldNames_iff sDate _ isDate_iff cols).mpr hdate
  have hmemA : sAmount ∈ fieldNames cols := (mem_fieldNames_iff sAmount _ isAmount_iff cols).mpr hamt
  have hcontD : (fieldNames cols).contains sDescription = cols.any Col.isDescription := by
    rw [Bool.eq_iff_iff, List.contains_eq_mem, decide_eq_true_eq]
    exact mem_fieldNames_iff sDescription _ isDescription_iff cols
  obtain ⟨d, hd⟩ := findIdx_some_of_any hdate
  obtain ⟨a, ha⟩ := findIdx_some_of_any hamt
  have hlD : lookup sDate (fieldsFrom 0 cols) = some d := by
    rw [lookup_fieldsFrom sDate _ isDate_iff, hd]; rfl
  have hlA : lookup sAmount (fieldsFrom 0 cols) = some a := by
    rw [lookup_fieldsFrom sAmount _ isAmount_iff, ha]; rfl
  have hlS : lookup sDescription (fieldsFrom 0 cols) = cols.findIdx? Col.isDescription := by
    rw [lookup_fieldsFrom sDescription _ isDescription_iff]; cases cols.findIdx? Col.isDescription <;> rfl
  have hlL : lookup sLocation (fieldsFrom 0 cols) = cols.findIdx? Col.isLocation := by
    rw [lookup_fieldsFrom sLocation _ isLocation_iff]; cases cols.findIdx? Col.isLocation <;> rfl
  have hreq : FmtTables.REQUIRED.any (fun k => !(fieldNames cols).contains k) = false := by
    simp only [FmtTables.REQUIRED, sDate, sAmount] at hmemD hmemA ⊢
    simp [hmemD, hmemA]
  have hce := isEmpty_customsFrom cols 0
  unfold Impl.finish
  simp only [hfields, hkeys, hcust, hcontD, hdf, hneg, habs, hlD, hlA, hlS, hlL, hreq, hce]
  cases hD : cols.any Col.isDescription with
  | true =>
    have hr0 : refsOf e tmpl = [] := by
      cases hr : refsOf e tmpl with
      | nil => rfl
      | cons r rs => have := (hrefs r (by simp [hr])).1; rw [hD] at this; cases this
    have hr1 : (if Impl.tmplAbsent tmpl = true then [] else templateRefs e (tmpl.getD [])) = [] := hr0
    cases hE : (customNames cols).isEmpty <;>
      simp [hr1, specOf, hD, hd, ha, hce, hE]
  | false =>
    rw [hD] at hdesc
    have hdesc' := hdesc.resolve_left (by simp)
    have hE : (customNames cols).isEmpty = false := by simpa using hdesc'.1
    have hfind : List.find? (fun r => !decide (r ∈ keys (customsFrom 0 cols))) (templateRefs e (tmpl.getD [])) = none := by
      apply List.find?_eq_none.mpr
      intro r hr
      have hmem : r ∈ refsOf e tmpl := by simp [refsOf, hdesc'.2, hr]
      have := (hrefs r hmem).2
      rw [hckeys]; simp [this]
    simp [hE, hdesc'.2, hfind, specOf, hD, hd, ha, hce]

/-! ### arbitrary format strings: what an accepted string must contain -/

/-- the lower-cased name the parser reads in one comma-separated piece, if the piece matches the token regex -/
def tokName (e : Ext) (part : Str) : Option Str :=
  (matchTok e (strip e part)).map (fun t => e.lower t.name)

def isSkipName (n : Str) : Prop := n = sUnderscore ∨ n = sStar

theorem step_ok {e : Ext} {idx : Nat} {st st' : St} {t : RawTok} (h : Impl.step e idx st t = .ok st') :
    (isSkipName (e.lower t.name) ∧ st' = st) ∨
    (¬ isSkipName (e.lower t.name) ∧ e.lower t.name ∈ FmtTables.RESERVED_NAMES ∧ e.lower t.name ∉ keys st.fields ∧
      keys st'.fields = keys st.fields ++ [e.lower t.name] ∧ st'.customs = st.customs) ∨
    (¬ isSkipName (e.lower t.name) ∧ e.lower t.name ∉ FmtTables.RESERVED_NAMES ∧ e.lower t.name ∉ keys st.customs ∧
      keys st'.customs = keys st.customs ++ [e.lower t.name] ∧ st'.fields = st.fields) := by
  unfold Impl.step at h
  simp only [Bool.or_eq_true, decide_eq_true_eq, List.contains_eq_mem] at h
  by_cases hskip : e.lower t.name = sUnderscore ∨ e.lower t.name = sStar
  · rw [if_pos hskip] at h
    left; exact ⟨hskip, by cases h; rfl⟩
  · rw [if_neg hskip] at h
    right
    by_cases hres : e.lower t.name ∈ FmtTables.RESERVED_NAMES
    · rw [if_pos hres] at h
      left
      by_cases hdup : e.lower t.name ∈ keys st.fields
      · rw [if_pos hdup] at h; cases h
      · rw [if_neg hdup] at h
        refine ⟨hskip, hres, hdup, ?_, ?_⟩
        · cases h
          (repeat' split) <;> simp [keys]
        · cases h
          (repeat' split) <;> rfl
    · rw [if_neg hres] at h
      right
      by_cases hdup : e.lower t.name ∈ keys st.customs
      · rw [if_pos hdup] at h; cases h
      · rw [if_neg hdup] at h
        cases h
        exact ⟨hskip, hres, hdup, by simp [keys], rfl⟩

theorem loop_ok_cons {e : Ext} {idx : Nat} {st st' : St} {p : Str} {R : List Str}
    (h : Impl.loop e idx st (p :: R) = .ok st') :
    ∃ t st1, matchTok e (strip e p) = some t ∧ Impl.step e idx st t = .ok st1 ∧
      Impl.loop e (idx + 1) st1 R = .ok st' := by
  unfold Impl.loop at h
  split at h
  · cases h
  · rename_i t hm
    split at h
    · cases h
    · rename_i st1 hs; exact ⟨t, st1, hm, hs, h⟩

theorem loop_ok_append {e : Ext} : ∀ (A : List Str) {idx : Nat} {st st' : St} {R : List Str},
    Impl.loop e idx st (A ++ R) = .ok st' →
    ∃ st1, Impl.loop e idx st A = .ok st1 ∧ Impl.loop e (idx + A.length) st1 R = .ok st' := by
  intro A
  induction A with
  | nil => intro idx st st' R h; exact ⟨st, rfl, by simpa using h⟩
  | cons a A ih =>
    intro idx st st' R h
    obtain ⟨t, st1, hm, hs, hl⟩ := loop_ok_cons (by simpa using h)
    obtain ⟨st2, h1, h2⟩ := ih hl
    refine ⟨st2, ?_, ?_⟩
    · simp only [Impl.loop, hm, hs]; exact h1
    · have : idx + (a :: A).length = idx + 1 + A.length := by simp; omega
      rw [this]; exact h2

theorem step_mono {e : Ext} {idx : Nat} {st st' : St} {t : RawTok} (h : Impl.step e idx st t = .ok st') :
    (∀ k, k ∈ keys st.fields → k ∈ keys st'.fields) ∧ (∀ k, k ∈ keys st.customs → k ∈ keys st'.customs) := by
  rcases step_ok h with ⟨_, rfl⟩ | ⟨_, _, _, hk, hc⟩ | ⟨_, _, _, hk, hf⟩
  · exact ⟨fun _ h => h, fun _ h => h⟩
  · exact ⟨fun k hk' => by rw [hk]; simp [hk'], fun k hk' => by rw [hc]; exact hk'⟩
  · exact ⟨fun k hk' => by rw [hf]; exact hk', fun k hk' => by rw [hk]; simp [hk']⟩

theorem loop_mono {e : Ext} : ∀ (parts : List Str) {idx : Nat} {st st' : St},
    Impl.loop e idx st parts = .ok st' →
    (∀ k, k ∈ keys st.fields → k ∈ keys st'.fields) ∧ (∀ k, k ∈ keys st.customs → k ∈ keys st'.customs) := by
  intro parts
  induction parts with
  | nil => intro idx st st' h; cases h; exact ⟨fun _ h => h, fun _ h => h⟩
  | cons p R ih =>
    intro idx st st' h
    obtain ⟨t, st1, _, hs, hl⟩ := loop_ok_cons h
    have h1 := step_mono hs
    have h2 := ih hl
    exact ⟨fun k hk => h2.1 k (h1.1 k hk), fun k hk => h2.2 k (h1.2 k hk)⟩

/-- every key of the final dictionaries was already there or is the name of some piece -/
theorem loop_origin {e : Ext} : ∀ (parts : List Str) {idx : Nat} {st st' : St},
    Impl.loop e idx st parts = .ok st' →
    (∀ k, k ∈ keys st'.fields → k ∈ keys st.fields ∨ ∃ p ∈ parts, tokName e p = some k) ∧
    (∀ k, k ∈ keys st'.customs → k ∈ keys st.customs ∨ ∃ p ∈ parts, tokName e p = some k) := by
  intro parts
  induction parts with
  | nil => intro idx st st' h; cases h; exact ⟨fun _ h => Or.inl h, fun _ h => Or.inl h⟩
  | cons p R ih =>
    intro idx st st' h
    obtain ⟨t, st1, hm, hs, hl⟩ := loop_ok_cons h
    have hname : tokName e p = some (e.lower t.name) := by simp [tokName, hm]
    have h2 := ih hl
    have hso := step_ok hs
    constructor
    · intro k hk
      rcases h2.1 k hk with h3 | ⟨q, hq, hqn⟩
      · rcases hso with ⟨_, rfl⟩ | ⟨_, _, _, hkf, _⟩ | ⟨_, _, _, _, hf⟩
        · exact Or.inl h3
        · rw [hkf] at h3
          rcases List.mem_append.mp h3 with h4 | h4
          · exact Or.inl h4
          · right; refine ⟨p, by simp, ?_⟩; rw [hname]; simp at h4; rw [h4]
        · rw [hf] at h3; exact Or.inl h3
      · exact Or.inr ⟨q, by simp [hq], hqn⟩
    · intro k hk
      rcases h2.2 k hk with h3 | ⟨q, hq, hqn⟩
      · rcases hso with ⟨_, rfl⟩ | ⟨_, _, _, _, hc⟩ | ⟨_, _, _, hkc, _⟩
        · exact Or.inl h3
        · rw [hc] at h3; exact Or.inl h3
        · rw [hkc] at h3
          rcases List.mem_append.mp h3 with h4 | h4
          · exact Or.inl h4
          · right; refine ⟨p, by simp, ?_⟩; rw [hname]; simp at h4; rw [h4]
      · exact Or.inr ⟨q, by simp [hq], hqn⟩

/-- every piece's name (other than `_` / `*`) is recorded: reserved names in `fields`, the others in `customs` -/
theorem loop_records {e : Ext} : ∀ (parts : List Str) {idx : Nat} {st st' : St},
    Impl.loop e idx st parts = .ok st' →
    ∀ p ∈ parts, ∀ n, tokName e p = some n → ¬ isSkipName n →
      (n ∈ FmtTables.RESERVED_NAMES → n ∈ keys st'.fields) ∧ (n ∉ FmtTables.RESERVED_NAMES → n ∈ keys st'.customs) := by
  intro parts
  induction parts with
  | nil => intro idx st st' _ p hp; cases hp
  | cons q R ih =>
    intro idx st st' h p hp n hn hns
    obtain ⟨t, st1, hm, hs, hl⟩ := loop_ok_cons h
    rcases List.mem_cons.mp hp with rfl | hpR
    · have hname : e.lower t.name = n := by simpa [tokName, hm] using hn
      have hmono := loop_mono R hl
      rcases step_ok hs with ⟨hsk, _⟩ | ⟨_, hr, _, hkf, _⟩ | ⟨_, hr, _, hkc, _⟩
      · rw [hname] at hsk; exact absurd hsk hns
      · rw [hname] at hr hkf
        exact ⟨fun _ => hmono.1 n (by rw [hkf]; simp), fun h => absurd hr h⟩
      · rw [hname] at hr hkc
        exact ⟨fun h => absurd h hr, fun _ => hmono.2 n (by rw [hkc]; simp)⟩
    · exact ih hl p hpR n hn hns

/-- a name (other than `_` / `*`) written twice is an error -/
theorem loop_duplicate {e : Ext} (A B C : List Str) (p q : Str) (n : Str) (idx : Nat) (st : St)
    (hp : tokName e p = some n) (hq : tokName e q = some n) (hns : ¬ isSkipName n) :
    ∀ st', Impl.loop e idx st (A ++ p :: (B ++ q :: C)) ≠ .ok st' := by
  intro st' h
  obtain ⟨st1, _, h1⟩ := loop_ok_append A h
  obtain ⟨tp, st2, hmp, hsp, h2⟩ := loop_ok_cons h1
  obtain ⟨st3, h3, h4⟩ := loop_ok_append B h2
  obtain ⟨tq, st4, hmq, hsq, _⟩ := loop_ok_cons h4
  have hnp : e.lower tp.name = n := by simpa [tokName, hmp] using hp
  have hnq : e.lower tq.name = n := by simpa [tokName, hmq] using hq
  have hmono := loop_mono B h3
  rcases step_ok hsp with ⟨hsk, _⟩ | ⟨_, hr, _, hkf, _⟩ | ⟨_, hr, _, hkc, _⟩
  · rw [hnp] at hsk; exact hns hsk
  · rw [hnp] at hr hkf
    have hin : n ∈ keys st3.fields := hmono.1 n (by rw [hkf]; simp)
    rcases step_ok hsq with ⟨hsk, _⟩ | ⟨_, _, hnot, _, _⟩ | ⟨_, hr', _, _, _⟩
    · rw [hnq] at hsk; exact hns hsk
    · rw [hnq] at hnot; exact hnot hin
    · rw [hnq] at hr'; exact hr' hr
  · rw [hnp] at hr hkc
    have hin : n ∈ keys st3.customs := hmono.2 n (by rw [hkc]; simp)
    rcases step_ok hsq with ⟨hsk, _⟩ | ⟨_, hr', _, _, _⟩ | ⟨_, _, hnot, _, _⟩
    · rw [hnq] at hsk; exact hns hsk
    · rw [hnq] at hr'; exact hr hr'
    · rw [hnq] at hnot; exact hnot hin

theorem required_mem {l : List Str} (h : ¬ ∃ x, x ∈ FmtTables.REQUIRED ∧ ¬ x ∈ l) : sDate ∈ l ∧ sAmount ∈ l := by
  constructor
  · apply Classical.byContradiction; intro hn; exact h ⟨sDate, by decide, hn⟩
  · apply Classical.byContradiction; intro hn; exact h ⟨sAmount, by decide, hn⟩

/-- what `finish` checks before it returns a spec -/
theorem finish_ok {e : Ext} {st : St} {tmpl : Option Str} {spec : FormatSpec}
    (h : Impl.finish e st tmpl = .ok spec) :
    sDate ∈ keys st.fields ∧ sAmount ∈ keys st.fields ∧
    (sDescription ∈ keys st.fields ∨ (st.customs ≠ [] ∧ Impl.tmplAbsent tmpl = false)) ∧
    (∀ r ∈ refsOf e tmpl, r ∈ keys st.customs ∧ sDescription ∉ keys st.fields) := by
  unfold Impl.finish at h
  by_cases hD : sDescription ∈ keys st.fields <;> cases hC : st.customs.isEmpty <;>
    cases hT : Impl.tmplAbsent tmpl <;> simp [hD, hC, hT] at h
  case pos.false.false =>
    split at h
    · cases h
    rename_i hfind
    split at h
    · cases h
    rename_i hreq
    refine ⟨(required_mem hreq).1, (required_mem hreq).2, Or.inl hD, ?_⟩
    intro r hr
    have hr' : r ∈ templateRefs e (tmpl.getD []) := by simpa [refsOf, hT] using hr
    have := List.find?_eq_none.mp hfind r hr'
    simp [keys] at this
  case pos.false.true =>
    split at h
    · cases h
    rename_i hreq
    refine ⟨(required_mem hreq).1, (required_mem hreq).2, Or.inl hD, ?_⟩
    intro r hr; simp [refsOf, hT] at hr
  case pos.true.false =>
    split at h
    · cases h
    rename_i hfind
    split at h
    · cases h
    rename_i hreq
    refine ⟨(required_mem hreq).1, (required_mem hreq).2, Or.inl hD, ?_⟩
    intro r hr
    have hr' : r ∈ templateRefs e (tmpl.getD []) := by simpa [refsOf, hT] using hr
    have := List.find?_eq_none.mp hfind r hr'
    have hnil : st.customs = [] := by simpa using hC
    simp [hnil, keys] at this
  case pos.true.true =>
    split at h
    · cases h
    rename_i hreq
    refine ⟨(required_mem hreq).1, (required_mem hreq).2, Or.inl hD, ?_⟩
    intro r hr; simp [refsOf, hT] at hr
  case neg.false.false =>
    split at h
    · cases h
    rename_i hfind
    split at h
    · cases h
    rename_i hreq
    refine ⟨(required_mem hreq).1, (required_mem hreq).2, Or.inr ⟨by intro hc; simp [hc] at hC, rfl⟩, ?_⟩
    intro r hr
    have hr' : r ∈ templateRefs e (tmpl.getD []) := by simpa [refsOf, hT] using hr
    have := List.find?_eq_none.mp hfind r hr'
    exact ⟨by simpa using this, hD⟩

/-! ### accepted strings: every recorded position is the index of the piece that carries the name -/

theorem step_ok_vals {e : Ext} {idx : Nat} {st st' : St} {t : RawTok} (h : Impl.step e idx st t = .ok st') :
    (∀ k v, (k, v) ∈ st'.fields → (k, v) ∈ st.fields ∨ (k = e.lower t.name ∧ v = idx)) ∧
    (∀ k v, (k, v) ∈ st'.customs → (k, v) ∈ st.customs ∨ (k = e.lower t.name ∧ v = idx)) := by
  unfold Impl.step at h
  simp only [Bool.or_eq_true, decide_eq_true_eq, List.contains_eq_mem] at h
  by_cases hskip : e.lower t.name = sUnderscore ∨ e.lower t.name = sStar
  · rw [if_pos hskip] at h; cases h
    exact ⟨fun _ _ h => Or.inl h, fun _ _ h => Or.inl h⟩
  · rw [if_neg hskip] at h
    by_cases hres : e.lower t.name ∈ FmtTables.RESERVED_NAMES
    · rw [if_pos hres] at h
      by_cases hdup : e.lower t.name ∈ keys st.fields
      · rw [if_pos hdup] at h; cases h
      · rw [if_neg hdup] at h
        cases h
        constructor
        · intro k v hkv
          have : (k, v) ∈ st.fields ++ [(e.lower t.name, idx)] := by
            revert hkv
            (repeat' split) <;> exact fun h => h
          rcases List.mem_append.mp this with h1 | h1
          · exact Or.inl h1
          · simp at h1; exact Or.inr h1
        · intro k v hkv
          left
          revert hkv
          (repeat' split) <;> exact fun h => h
    · rw [if_neg hres] at h
      by_cases hdup : e.lower t.name ∈ keys st.customs
      · rw [if_pos hdup] at h; cases h
      · rw [if_neg hdup] at h
        cases h
        refine ⟨fun _ _ h => Or.inl h, ?_⟩
        intro k v hkv
        rcases List.mem_append.mp hkv with h1 | h1
        · exact Or.inl h1
        · simp at h1; exact Or.inr h1

def NamedAt (e : Ext) (parts : List Str) (i : Nat) (k : Str) : Prop :=
  ∃ p, parts[i]? = some p ∧ tokName e p = some k

theorem loop_vals {e : Ext} : ∀ (parts : List Str) {idx : Nat} {st st' : St},
    Impl.loop e idx st parts = .ok st' →
    (∀ k v, (k, v) ∈ st'.fields → (k, v) ∈ st.fields ∨ (idx ≤ v ∧ NamedAt e parts (v - idx) k)) ∧
    (∀ k v, (k, v) ∈ st'.customs → (k, v) ∈ st.customs ∨ (idx ≤ v ∧ NamedAt e parts (v - idx) k)) := by
  intro parts
  induction parts with
  | nil => intro idx st st' h; cases h; exact ⟨fun _ _ h => Or.inl h, fun _ _ h => Or.inl h⟩
  | cons p R ih =>
    intro idx st st' h
    obtain ⟨t, st1, hm, hs, hl⟩ := loop_ok_cons h
    have hname : tokName e p = some (e.lower t.name) := by simp [tokName, hm]
    have h2 := ih hl
    have h1 := step_ok_vals hs
    have lift : ∀ k v, (idx + 1 ≤ v ∧ NamedAt e R (v - (idx + 1)) k) → (idx ≤ v ∧ NamedAt e (p :: R) (v - idx) k) := by
      intro k v ⟨hle, q, hq, hqn⟩
      refine ⟨by omega, q, ?_, hqn⟩
      have : v - idx = (v - (idx + 1)) + 1 := by omega
      rw [this]; simpa using hq
    have here : ∀ k v, (k = e.lower t.name ∧ v = idx) → (idx ≤ v ∧ NamedAt e (p :: R) (v - idx) k) := by
      intro k v ⟨hk, hv⟩
      subst hv
      exact ⟨Nat.le_refl _, p, by simp, by rw [hk]; exact hname⟩
    constructor
    · intro k v hkv
      rcases h2.1 k v hkv with h3 | h3
      · rcases h1.1 k v h3 with h4 | h4
        · exact Or.inl h4
        · exact Or.inr (here k v h4)
      · exact Or.inr (lift k v h3)
    · intro k v hkv
      rcases h2.2 k v hkv with h3 | h3
      · rcases h1.2 k v h3 with h4 | h4
        · exact Or.inl h4
        · exact Or.inr (here k v h4)
      · exact Or.inr (lift k v h3)

theorem lookup_mem {k : Str} {v : Nat} : ∀ {l : List (Str × Nat)}, lookup k l = some v → (k, v) ∈ l := by
  intro l
  induction l with
  | nil => intro h; cases h
  | cons a l ih =>
    intro h
    obtain ⟨k', v'⟩ := a
    unfold lookup at h
    by_cases hk : k' = k
    · rw [if_pos hk] at h; cases h; rw [hk]; simp
    · rw [if_neg hk] at h; simp [ih h]

/-- the fields of an accepted spec are look-ups in the final dictionaries -/
theorem finish_fields {e : Ext} {st : St} {tmpl : Option Str} {spec : FormatSpec}
    (h : Impl.finish e st tmpl = .ok spec) :
    lookup sDate st.fields = some spec.dateColumn ∧ lookup sAmount st.fields = some spec.amountColumn ∧
    spec.descriptionColumn = lookup sDescription st.fields ∧ spec.locationColumn = lookup sLocation st.fields ∧
    (∀ d, spec.customCaptures = some d → ∀ kv ∈ d, kv ∈ st.customs) ∧
    (∀ d, spec.extraFields = some d → ∀ kv ∈ d, kv ∈ st.customs) := by
  unfold Impl.finish at h
  by_cases hD : sDescription ∈ keys st.fields <;> cases hC : st.customs.isEmpty <;>
    cases hT : Impl.tmplAbsent tmpl <;> simp [hD, hC, hT] at h
  case pos.false.false =>
    split at h
    · cases h
    split at h
    · cases h
    split at h
    · rename_i d a hd ha
      cases h
      refine ⟨hd, ha, rfl, rfl, ?_, ?_⟩ <;> intro dd hdd kv hkv <;> simp at hdd <;> (try (subst hdd; exact hkv))
    · cases h
  case pos.false.true =>
    split at h
    · cases h
    split at h
    · rename_i d a hd ha
      cases h
      refine ⟨hd, ha, rfl, rfl, ?_, ?_⟩ <;> intro dd hdd kv hkv <;> simp at hdd <;> (try (subst hdd; exact hkv))
    · cases h
  case pos.true.false =>
    split at h
    · cases h
    split at h
    · cases h
    split at h
    · rename_i d a hd ha
      cases h
      refine ⟨hd, ha, rfl, rfl, ?_, ?_⟩ <;> intro dd hdd kv hkv <;> simp at hdd <;> (try (subst hdd; exact hkv))
    · cases h
  case pos.true.true =>
    split at h
    · cases h
    split at h
    · rename_i d a hd ha
      cases h
      refine ⟨hd, ha, rfl, rfl, ?_, ?_⟩ <;> intro dd hdd kv hkv <;> simp at hdd <;> (try (subst hdd; exact hkv))
    · cases h
  case neg.false.false =>
    split at h
    · cases h
    split at h
    · cases h
    split at h
    · rename_i d a hd ha
      cases h
      refine ⟨hd, ha, rfl, rfl, ?_, ?_⟩ <;> intro dd hdd kv hkv <;> simp at hdd <;> (try (subst hdd; exact hkv))
    · cases h

/-! ### accepted strings, forward direction: a name that is not reserved is recorded as a capture AT ITS POSITION -/

theorem skip_reserved {n : Str} (h : isSkipName n) : n ∈ FmtTables.RESERVED_NAMES := by
  rcases h with rfl | rfl <;> decide

/-- the step for a name that is not reserved appends `(name, idx)` to the captures and touches nothing else -/
theorem step_custom {e : Ext} {idx : Nat} {st st' : St} {t : RawTok} (h : Impl.step e idx st t = .ok st')
    (hres : e.lower t.name ∉ FmtTables.RESERVED_NAMES) :
    st'.customs = st.customs ++ [(e.lower t.name, idx)] ∧ st'.fields = st.fields := by
  unfold Impl.step at h
  simp only [Bool.or_eq_true, decide_eq_true_eq, List.contains_eq_mem] at h
  by_cases hskip : e.lower t.name = sUnderscore ∨ e.lower t.name = sStar
  · exact absurd (skip_reserved hskip) hres
  · rw [if_neg hskip, if_neg hres] at h
    by_cases hdup : e.lower t.name ∈ keys st.customs
    · rw [if_pos hdup] at h; cases h
    · rw [if_neg hdup] at h; cases h; exact ⟨rfl, rfl⟩

/-- no step removes or moves a recorded capture -/
theorem step_customs_mono {e : Ext} {idx : Nat} {st st' : St} {t : RawTok} (h : Impl.step e idx st t = .ok st') :
    ∀ kv, kv ∈ st.customs → kv ∈ st'.customs := by
  intro kv hkv
  rcases step_ok h with ⟨_, rfl⟩ | ⟨_, _, _, _, hc⟩ | ⟨_, hr, _, _, _⟩
  · exact hkv
  · rw [hc]; exact hkv
  · rw [(step_custom h hr).1]; exact List.mem_append_left _ hkv

theorem loop_customs_mono {e : Ext} : ∀ (parts : List Str) {idx : Nat} {st st' : St},
    Impl.loop e idx st parts = .ok st' → ∀ kv, kv ∈ st.customs → kv ∈ st'.customs := by
  intro parts
  induction parts with
  | nil => intro idx st st' h; cases h; exact fun _ h => h
  | cons p R ih =>
    intro idx st st' h kv hkv
    obtain ⟨t, st1, _, hs, hl⟩ := loop_ok_cons h
    exact ih hl kv (step_customs_mono hs kv hkv)

/-- piece `j` reads a name that is not reserved ⇒ `(name, idx + j)` is among the final captures -/
theorem loop_records_at {e : Ext} : ∀ (parts : List Str) {idx : Nat} {st st' : St},
    Impl.loop e idx st parts = .ok st' →
    ∀ j n, NamedAt e parts j n → n ∉ FmtTables.RESERVED_NAMES → (n, idx + j) ∈ st'.customs := by
  intro parts
  induction parts with
  | nil => intro idx st st' _ j n ⟨p, hp, _⟩; simp at hp
  | cons q R ih =>
    intro idx st st' h j n ⟨p, hp, hn⟩ hres
    obtain ⟨t, st1, hm, hs, hl⟩ := loop_ok_cons h
    cases j with
    | zero =>
      simp at hp; subst hp
      have hname : e.lower t.name = n := by simpa [tokName, hm] using hn
      have hc := (step_custom hs (by rw [hname]; exact hres)).1
      apply loop_customs_mono R hl
      rw [hc, hname]; simp
    | succ j =>
      have hp' : R[j]? = some p := by simpa using hp
      have := ih hl j n ⟨p, hp', hn⟩ hres
      have e1 : idx + (j + 1) = idx + 1 + j := by omega
      rw [e1]; exact this

/-- how `finish` hands the captures over: with a `description` column they are the extra fields (and there are no template
captures); without one they are the template captures (and there are no extra fields, no description column) -/
theorem finish_customs {e : Ext} {st : St} {tmpl : Option Str} {spec : FormatSpec}
    (h : Impl.finish e st tmpl = .ok spec) :
    (sDescription ∈ keys st.fields → spec.customCaptures = none ∧ (st.customs ≠ [] → spec.extraFields = some st.customs)) ∧
    (sDescription ∉ keys st.fields →
      spec.descriptionColumn = none ∧ spec.extraFields = none ∧ spec.customCaptures = some st.customs) := by
  unfold Impl.finish at h
  by_cases hD : sDescription ∈ keys st.fields <;> cases hC : st.customs.isEmpty <;>
    cases hT : Impl.tmplAbsent tmpl <;> simp [hD, hC, hT] at h
  case pos.false.false =>
    split at h
    · cases h
    split at h
    · cases h
    split at h
    · cases h
      exact ⟨fun _ => ⟨by simp, fun _ => rfl⟩, fun hn => absurd hD hn⟩
    · cases h
  case pos.false.true =>
    split at h
    · cases h
    split at h
    · cases h
      exact ⟨fun _ => ⟨by simp, fun _ => rfl⟩, fun hn => absurd hD hn⟩
    · cases h
  case pos.true.false =>
    split at h
    · cases h
    split at h
    · cases h
    split at h
    · cases h
      have hnil : st.customs = [] := by simpa using hC
      exact ⟨fun _ => ⟨by simp, fun hne => absurd hnil hne⟩, fun hn => absurd hD hn⟩
    · cases h
  case pos.true.true =>
    split at h
    · cases h
    split at h
    · cases h
      have hnil : st.customs = [] := by simpa using hC
      exact ⟨fun _ => ⟨by simp, fun hne => absurd hnil hne⟩, fun hn => absurd hD hn⟩
    · cases h
  case neg.false.false =>
    split at h
    · cases h
    split at h
    · cases h
    split at h
    · rename_i d a hd ha
      cases h
      refine ⟨fun hp => absurd hp hD, fun _ => ⟨?_, rfl, ?_⟩⟩
      · cases hl : lookup sDescription st.fields with
        | none => rfl
        | some v => exact absurd (by simpa [keys] using List.mem_map_of_mem (f := Prod.fst) (lookup_mem hl)) hD
      · simp
    · cases h

end TallyVerif.Fmt
