import TallyVerif.Model.Rules
/-! Lemmas about the rule-list algorithms. Core Lean only. -/
namespace TallyVerif.Rules

/-! ### the specificity order -/

theorem Key.lt_iff (a b : Key) :
    a.lt b = true ↔
      a.prio < b.prio ∨ (a.prio = b.prio ∧ (a.pats < b.pats ∨ (a.pats = b.pats ∧
        (a.kinds < b.kinds ∨ (a.kinds = b.kinds ∧ a.len < b.len))))) := by
  unfold Key.lt
  by_cases h1 : a.prio = b.prio <;> by_cases h2 : a.pats = b.pats <;> by_cases h3 : a.kinds = b.kinds <;>
    simp [h1, h2, h3] <;> omega

theorem Key.lt_irrefl (a : Key) : a.lt a = false := by
  cases h : a.lt a
  · rfl
  · rw [Key.lt_iff] at h; omega

theorem Key.lt_trans {a b c : Key} (h1 : a.lt b = true) (h2 : b.lt c = true) : a.lt c = true := by
  rw [Key.lt_iff] at *; omega

/-- negative transitivity (the order is a strict weak order) -/
theorem Key.lt_cotrans {a c : Key} (b : Key) (h : a.lt c = true) : a.lt b = true ∨ b.lt c = true := by
  rw [Key.lt_iff, Key.lt_iff]; rw [Key.lt_iff] at h; omega

theorem Key.lt_asymm {a b : Key} (h : a.lt b = true) : b.lt a = false := by
  cases h' : b.lt a
  · rfl
  · have := Key.lt_trans h h'; rw [Key.lt_irrefl] at this; cases this

theorem Key.trichotomy (a b : Key) : a.lt b = true ∨ a = b ∨ b.lt a = true := by
  rw [Key.lt_iff, Key.lt_iff]
  by_cases h : a = b
  · exact Or.inr (Or.inl h)
  · have : a.prio ≠ b.prio ∨ a.pats ≠ b.pats ∨ a.kinds ≠ b.kinds ∨ a.len ≠ b.len := by
      cases a; cases b; simp only [Key.mk.injEq] at h; simp only []; omega
    omega

/-! ### Python `max(key=…)` returns the first maximal element -/

/-- `w` is the first maximal element of `xs`: everything before it is strictly smaller,
nothing after it is strictly greater. -/
def FirstMax {α : Type} (key : α → Key) (xs : List α) (w : α) : Prop :=
  ∃ pre post, xs = pre ++ w :: post ∧ (∀ x ∈ pre, (key x).lt (key w) = true) ∧
    (∀ x ∈ post, (key w).lt (key x) = false)

theorem pyMaxFrom_spec {α : Type} (key : α → Key) (xs pre mid : List α) (best : α)
    (hpre : ∀ x ∈ pre, (key x).lt (key best) = true)
    (hmid : ∀ x ∈ mid, (key best).lt (key x) = false) :
    FirstMax key (pre ++ best :: mid ++ xs) (pyMaxFrom key best xs) := by
  induction xs generalizing pre mid best with
  | nil => exact ⟨pre, mid, by simp [pyMaxFrom], hpre, hmid⟩
  | cons x xs ih =>
    simp only [pyMaxFrom]
    by_cases h : (key best).lt (key x) = true
    · simp only [h, if_true]
      have := ih (pre ++ best :: mid) [] x
        (by
          intro y hy
          simp only [List.mem_append, List.mem_cons] at hy
          rcases hy with hy | hy | hy
          · exact Key.lt_trans (hpre y hy) h
          · subst hy; exact h
          · rcases Key.lt_cotrans (key y) h with h' | h'
            · rw [hmid y hy] at h'; cases h'
            · exact h')
        (by intro y hy; cases hy)
      simpa [List.append_assoc] using this
    · simp only [h]
      have hx : (key best).lt (key x) = false := by simpa using h
      have := ih pre (mid ++ [x]) best hpre
        (by
          intro y hy
          simp only [List.mem_append, List.mem_singleton] at hy
          rcases hy with hy | hy
          · exact hmid y hy
          · subst hy; exact hx)
      simpa [List.append_assoc] using this

theorem pyMax_spec {α : Type} (key : α → Key) (xs : List α) (w : α) (h : pyMax key xs = some w) :
    FirstMax key xs w := by
  cases xs with
  | nil => simp [pyMax] at h
  | cons x xs =>
    simp only [pyMax, Option.some.injEq] at h
    subst h
    have := pyMaxFrom_spec key xs [] [] x (by intro y hy; cases hy) (by intro y hy; cases hy)
    simpa using this

theorem pyMax_none {α : Type} (key : α → Key) (xs : List α) : pyMax key xs = none ↔ xs = [] := by
  cases xs <;> simp [pyMax]

/-! ### the engine loop -/

theorem loopStep_nohit (ev : Rule → Eval) (s : Loop) (r : Rule) (h : (ev r).hit = false) :
    loopStep ev s r = s := by simp [loopStep, h]

theorem fold_filter (ev : Rule → Eval) (rs : List Rule) (s : Loop) :
    rs.foldl (loopStep ev) s = (rs.filter (fun r => (ev r).hit)).foldl (loopStep ev) s := by
  induction rs generalizing s with
  | nil => rfl
  | cons r rs ih =>
    by_cases h : (ev r).hit = true
    · simp only [List.foldl_cons, List.filter_cons, h, if_true]; exact ih _
    · have h' : (ev r).hit = false := by simpa using h
      simp only [List.foldl_cons, List.filter_cons, h', loopStep_nohit ev s r h']
      simpa using ih s

theorem loopStep_matching (ev : Rule → Eval) (s : Loop) (r : Rule) :
    (loopStep ev s r).matching = s.matching ++ (if (ev r).hit then [r] else []) := by
  unfold loopStep; split <;> simp

theorem loopStep_firstCat (ev : Rule → Eval) (s : Loop) (r : Rule) :
    (loopStep ev s r).firstCat =
      if s.firstCat.isSome then s.firstCat else (if (ev r).hit && r.isCat then some r else none) := by
  unfold loopStep
  cases hs : s.firstCat <;> cases hh : (ev r).hit <;> cases hc : r.isCat <;> simp [hs]

theorem fold_matching (ev : Rule → Eval) (rs : List Rule) (s : Loop) :
    (rs.foldl (loopStep ev) s).matching = s.matching ++ rs.filter (fun r => (ev r).hit) := by
  induction rs generalizing s with
  | nil => simp
  | cons r rs ih =>
    rw [List.foldl_cons, ih, loopStep_matching]
    by_cases h : (ev r).hit = true <;> simp [List.filter_cons, h]

theorem fold_firstCat (ev : Rule → Eval) (rs : List Rule) (s : Loop) :
    (rs.foldl (loopStep ev) s).firstCat =
      if s.firstCat.isSome then s.firstCat else rs.find? (fun r => (ev r).hit && r.isCat) := by
  induction rs generalizing s with
  | nil => cases h : s.firstCat <;> simp [h]
  | cons r rs ih =>
    rw [List.foldl_cons, ih, loopStep_firstCat]
    cases hs : s.firstCat with
    | some x => simp
    | none =>
      by_cases h : ((ev r).hit && r.isCat) = true
      · simp [h, List.find?_cons]
      · have h' : ((ev r).hit && r.isCat) = false := by simpa using h
        simp [h', List.find?_cons]

theorem addTags_fst_mem (r : Rule) (ts : List String) (acc : List String × List (String × Rule)) (t : String) :
    t ∈ (addTags r ts acc).1 ↔ t ∈ acc.1 ∨ t ∈ ts := by
  induction ts generalizing acc with
  | nil => simp [addTags]
  | cons x ts ih =>
    obtain ⟨tags, src⟩ := acc
    unfold addTags
    by_cases h : tags.contains x = true
    · simp only [h, if_true]; rw [ih]
      have hx : x ∈ tags := by simpa using h
      constructor
      · rintro (h1 | h1); exact Or.inl h1; exact Or.inr (List.mem_cons_of_mem _ h1)
      · rintro (h1 | h1); exact Or.inl h1
        rcases List.mem_cons.mp h1 with h2 | h2
        · subst h2; exact Or.inl hx
        · exact Or.inr h2
    · have h' : tags.contains x = false := by simpa using h
      simp only [h', Bool.false_eq_true, if_false]; rw [ih]
      simp only [List.mem_append, List.mem_cons, List.not_mem_nil, or_false]
      constructor
      · rintro ((h1 | h1) | h1)
        · exact Or.inl h1
        · exact Or.inr (Or.inl h1)
        · exact Or.inr (Or.inr h1)
      · rintro (h1 | h1 | h1)
        · exact Or.inl (Or.inl h1)
        · exact Or.inl (Or.inr h1)
        · exact Or.inr h1

theorem addTags_nodup (r : Rule) (ts : List String) (acc : List String × List (String × Rule))
    (h : acc.1.Nodup) : (addTags r ts acc).1.Nodup := by
  induction ts generalizing acc with
  | nil => simpa [addTags]
  | cons x ts ih =>
    obtain ⟨tags, src⟩ := acc
    unfold addTags
    by_cases hx : tags.contains x = true
    · simp only [hx, if_true]; exact ih _ h
    · have hx' : tags.contains x = false := by simpa using hx
      simp only [hx', Bool.false_eq_true, if_false]
      apply ih
      have : x ∉ tags := by simpa using hx
      simp only at h ⊢
      rw [List.nodup_append]
      refine ⟨h, by simp, ?_⟩
      intro a ha b hb
      simp only [List.mem_singleton] at hb
      subst hb
      intro e; subst e; exact this ha

theorem loopStep_tags_mem (ev : Rule → Eval) (s : Loop) (r : Rule) (t : String) :
    t ∈ (loopStep ev s r).tags ↔ t ∈ s.tags ∨ ((ev r).hit = true ∧ t ∈ (ev r).tags) := by
  unfold loopStep
  by_cases h : (ev r).hit = true
  · simp only [h, if_true]
    have := addTags_fst_mem r (ev r).tags (s.tags, s.tagSources) t
    simpa using this
  · simp [h]

theorem fold_tags_mem (ev : Rule → Eval) (rs : List Rule) (s : Loop) (t : String) :
    t ∈ (rs.foldl (loopStep ev) s).tags ↔
      t ∈ s.tags ∨ ∃ r ∈ rs, (ev r).hit = true ∧ t ∈ (ev r).tags := by
  induction rs generalizing s with
  | nil => simp
  | cons r rs ih =>
    rw [List.foldl_cons, ih, loopStep_tags_mem]
    simp only [List.mem_cons, exists_eq_or_imp]
    constructor
    · rintro ((h | h) | h)
      · exact Or.inl h
      · exact Or.inr (Or.inl h)
      · exact Or.inr (Or.inr h)
    · rintro (h | h | h)
      · exact Or.inl (Or.inl h)
      · exact Or.inl (Or.inr h)
      · exact Or.inr h

theorem loopStep_tags_nodup (ev : Rule → Eval) (s : Loop) (r : Rule) (h : s.tags.Nodup) :
    (loopStep ev s r).tags.Nodup := by
  unfold loopStep
  by_cases hh : (ev r).hit = true
  · simp only [hh, if_true]
    exact addTags_nodup r (ev r).tags (s.tags, s.tagSources) h
  · simpa [hh] using h

theorem fold_tags_nodup (ev : Rule → Eval) (rs : List Rule) (s : Loop) (h : s.tags.Nodup) :
    (rs.foldl (loopStep ev) s).tags.Nodup := by
  induction rs generalizing s with
  | nil => simpa
  | cons r rs ih => rw [List.foldl_cons]; exact ih _ (loopStep_tags_nodup ev s r h)

/-! ### `finish` in most_specific mode reads only three filtered lists -/

def merchantPool (fix : Bool) (l : List Rule) : List Rule := l.filter (fun r => r.hasMerchant && (!fix || r.isCat))

theorem finish_specific (fix : Bool) (key : Rule → Key) (ev : Rule → Eval) (s : Loop) :
    let res := finish fix key ev .mostSpecific s
    res.merchantRule = pyMax key (merchantPool fix s.matching) ∧
    res.matchedRule = pyMax key (s.matching.filter Rule.isCat) ∧
    res.subcategoryRule = pyMax key (s.matching.filter Rule.hasSub) ∧
    res.merchant = ((pyMax key (merchantPool fix s.matching)).map Rule.merchant).getD "" ∧
    res.category = ((pyMax key (s.matching.filter Rule.isCat)).map Rule.category).getD "" ∧
    res.subcategory = ((pyMax key (s.matching.filter Rule.hasSub)).map Rule.subcategory).getD "" ∧
    res.matched = (pyMax key (s.matching.filter Rule.isCat)).isSome ∧
    res.tags = s.tags := by
  simp only [finish, merchantPool]
  cases pyMax key (List.filter (fun r => r.hasMerchant && (!fix || r.isCat)) s.matching) <;>
    cases pyMax key (List.filter Rule.isCat s.matching) <;>
    cases pyMax key (List.filter Rule.hasSub s.matching) <;> simp

theorem finish_tags (fix : Bool) (key : Rule → Key) (ev : Rule → Eval) (mode : Mode) (s : Loop) :
    (finish fix key ev mode s).tags = s.tags := by
  cases mode
  · simp only [finish]; cases s.firstCat <;> rfl
  · exact (finish_specific fix key ev s).2.2.2.2.2.2.2

theorem filter_skip {α : Type} (p q : α → Bool) (pre post : List α) (r : α) (h : q r = false) :
    ((pre ++ r :: post).filter p).filter q = ((pre ++ post).filter p).filter q := by
  simp only [List.filter_append, List.filter_cons]
  by_cases hp : p r = true <;> simp [hp, h]

theorem FirstMax.mem {α : Type} {key : α → Key} {xs : List α} {w : α} (h : FirstMax key xs w) : w ∈ xs := by
  obtain ⟨pre, post, e, -, -⟩ := h; subst e; simp

theorem FirstMax.maximal {α : Type} {key : α → Key} {xs : List α} {w : α} (h : FirstMax key xs w) :
    ∀ x ∈ xs, (key w).lt (key x) = false := by
  obtain ⟨pre, post, e, h1, h2⟩ := h
  subst e
  intro x hx
  simp only [List.mem_append, List.mem_cons] at hx
  rcases hx with hx | hx | hx
  · exact Key.lt_asymm (h1 x hx)
  · subst hx; exact Key.lt_irrefl _
  · exact h2 x hx

/-- with an injective key on the list, the first maximal element is permutation-invariant -/
theorem pyMax_perm {α : Type} (key : α → Key) {xs ys : List α} (p : xs.Perm ys)
    (inj : ∀ a ∈ xs, ∀ b ∈ xs, key a = key b → a = b) : pyMax key xs = pyMax key ys := by
  cases hx : pyMax key xs with
  | none =>
    have : xs = [] := (pyMax_none key xs).mp hx
    subst this
    have : ys = [] := by simpa using p.symm
    subst this; rfl
  | some w =>
    cases hy : pyMax key ys with
    | none =>
      have : ys = [] := (pyMax_none key ys).mp hy
      subst this
      have : xs = [] := by simpa using p
      subst this; simp [pyMax] at hx
    | some w' =>
      have fw := pyMax_spec key xs w hx
      have fw' := pyMax_spec key ys w' hy
      have hw'x : w' ∈ xs := p.symm.subset fw'.mem
      have hwy : w ∈ ys := p.subset fw.mem
      have h1 := fw.maximal w' hw'x
      have h2 := fw'.maximal w hwy
      rcases Key.trichotomy (key w) (key w') with h | h | h
      · rw [h1] at h; cases h
      · rw [inj w fw.mem w' hw'x h]
      · rw [h2] at h; cases h

end TallyVerif.Rules
