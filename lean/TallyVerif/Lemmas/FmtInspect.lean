/-
Helper lemmas for C18, second clause: header detection assigns distinct columns; the suggestion inspect prints is
the rendering of an arrangement.
-/
import TallyVerif.Lemmas.Fmt

namespace TallyVerif.Fmt
open TallyVerif.Gen Spec

/-! ### auto-detection: one role per header, so the detected columns are pairwise distinct -/

def DetInv (idx : Nat) (d : Impl.Detected) : Prop :=
  (∀ x, d.date = some x → x < idx) ∧ (∀ x, d.desc = some x → x < idx) ∧
  (∀ x, d.amount = some x → x < idx) ∧ (∀ x, d.location = some x → x < idx) ∧
  (∀ x, d.date = some x → d.desc ≠ some x ∧ d.amount ≠ some x ∧ d.location ≠ some x) ∧
  (∀ x, d.desc = some x → d.amount ≠ some x ∧ d.location ≠ some x) ∧
  (∀ x, d.amount = some x → d.location ≠ some x)

theorem detInv_step (e : Ext) (idx : Nat) (d : Impl.Detected) (h : Str) (hi : DetInv idx d) :
    DetInv (idx + 1) (Impl.detectStep e idx d h) := by
  obtain ⟨h1, h2, h3, h4, h5, h6, h7⟩ := hi
  unfold Impl.detectStep
  split
  · rename_i hc
    have hn : d.date = none := by
      simp only [Bool.and_eq_true, Option.isNone_iff_eq_none] at hc; exact hc.1
    refine ⟨?_, ?_, ?_, ?_, ?_, ?_, ?_⟩ <;> intro x hx <;> simp only [] at hx ⊢
    · cases hx; omega
    · have := h2 x hx; omega
    · have := h3 x hx; omega
    · have := h4 x hx; omega
    · cases hx
      refine ⟨?_, ?_, ?_⟩ <;> intro hh
      · have := h2 _ hh; omega
      · have := h3 _ hh; omega
      · have := h4 _ hh; omega
    · exact h6 x hx
    · exact h7 x hx
  · split
    · rename_i hc
      refine ⟨?_, ?_, ?_, ?_, ?_, ?_, ?_⟩ <;> intro x hx <;> simp only [] at hx ⊢
      · have := h1 x hx; omega
      · cases hx; omega
      · have := h3 x hx; omega
      · have := h4 x hx; omega
      · refine ⟨?_, (h5 x hx).2.1, (h5 x hx).2.2⟩
        intro hh; cases hh; have := h1 _ hx; omega
      · cases hx
        refine ⟨?_, ?_⟩ <;> intro hh
        · have := h3 _ hh; omega
        · have := h4 _ hh; omega
      · exact h7 x hx
    · split
      · rename_i hc
        refine ⟨?_, ?_, ?_, ?_, ?_, ?_, ?_⟩ <;> intro x hx <;> simp only [] at hx ⊢
        · have := h1 x hx; omega
        · have := h2 x hx; omega
        · cases hx; omega
        · have := h4 x hx; omega
        · refine ⟨(h5 x hx).1, ?_, (h5 x hx).2.2⟩
          intro hh; cases hh; have := h1 _ hx; omega
        · refine ⟨?_, (h6 x hx).2⟩
          intro hh; cases hh; have := h2 _ hx; omega
        · cases hx
          intro hh; have := h4 _ hh; omega
      · split
        · rename_i hc
          refine ⟨?_, ?_, ?_, ?_, ?_, ?_, ?_⟩ <;> intro x hx <;> simp only [] at hx ⊢
          · have := h1 x hx; omega
          · have := h2 x hx; omega
          · have := h3 x hx; omega
          · cases hx; omega
          · refine ⟨(h5 x hx).1, (h5 x hx).2.1, ?_⟩
            intro hh; cases hh; have := h1 _ hx; omega
          · refine ⟨(h6 x hx).1, ?_⟩
            intro hh; cases hh; have := h2 _ hx; omega
          · intro hh; cases hh; have := h3 _ hx; omega
        · refine ⟨?_, ?_, ?_, ?_, h5, h6, h7⟩ <;> intro x hx
          · have := h1 x hx; omega
          · have := h2 x hx; omega
          · have := h3 x hx; omega
          · have := h4 x hx; omega

theorem detInv_loop (e : Ext) : ∀ (hs : List Str) (idx : Nat) (d : Impl.Detected),
    DetInv idx d → ∃ n, DetInv n (Impl.detectLoop e idx d hs) := by
  intro hs
  induction hs with
  | nil => intro idx d h; exact ⟨idx, h⟩
  | cons h hs ih => intro idx d hi; exact ih (idx + 1) _ (detInv_step e idx d h hi)

/-- the columns of a detected spec are pairwise distinct -/
def Distinct (sp : Impl.DetectSpec) : Prop :=
  sp.dateColumn ≠ sp.descriptionColumn ∧ sp.dateColumn ≠ sp.amountColumn ∧ sp.descriptionColumn ≠ sp.amountColumn ∧
  (∀ x, sp.locationColumn = some x → x ≠ sp.dateColumn ∧ x ≠ sp.descriptionColumn ∧ x ≠ sp.amountColumn)

theorem detect_distinct (e : Ext) (hs : List Str) (sp : Impl.DetectSpec) (h : Impl.detect e hs = .ok sp) :
    Distinct sp ∧ sp.dateFormat = FmtTables.DETECT_DATE_FORMAT := by
  unfold Impl.detect at h
  split at h
  · cases h
  · obtain ⟨n, hi⟩ := detInv_loop e hs 0 ⟨none, none, none, none⟩
      ⟨by simp, by simp, by simp, by simp, by simp, by simp, by simp⟩
    split at h
    · rename_i d s a l heq
      cases h
      rw [heq] at hi
      obtain ⟨_, _, _, _, h5, h6, h7⟩ := hi
      simp only [] at h5 h6 h7
      have a1 := h5 d rfl
      have a2 := h6 s rfl
      have a3 := h7 a rfl
      refine ⟨⟨?_, ?_, ?_, ?_⟩, rfl⟩
      · intro hh; exact a1.1 (congrArg some (Eq.symm hh))
      · intro hh; exact a1.2.1 (congrArg some (Eq.symm hh))
      · intro hh; exact a2.1 (congrArg some (Eq.symm hh))
      · intro x hx
        have hx' : l = some x := hx
        refine ⟨?_, ?_, ?_⟩ <;> intro hh
        · exact a1.2.2 (hx'.trans (congrArg some hh))
        · exact a2.2 (hx'.trans (congrArg some hh))
        · exact a3 (hx'.trans (congrArg some hh))
    · cases h

/-! ### `[f(i) for i in range(start, start+n)]` -/

theorem rangeMap_map {α β : Type} (f : Nat → α) (g : α → β) : ∀ (n s : Nat),
    (Impl.rangeMap f s n).map g = Impl.rangeMap (fun i => g (f i)) s n := by
  intro n
  induction n with
  | zero => intro s; rfl
  | succ n ih => intro s; simp [Impl.rangeMap, ih]

theorem rangeMap_congr {α : Type} (f g : Nat → α) : ∀ (n s : Nat), (∀ i, s ≤ i → i < s + n → f i = g i) →
    Impl.rangeMap f s n = Impl.rangeMap g s n := by
  intro n
  induction n with
  | zero => intro s _; rfl
  | succ n ih =>
    intro s h
    simp only [Impl.rangeMap]
    rw [h s (by omega) (by omega), ih (s + 1) (fun i h1 h2 => h i (by omega) (by omega))]

theorem mem_rangeMap {α : Type} (f : Nat → α) (x : α) : ∀ (n s : Nat),
    x ∈ Impl.rangeMap f s n → ∃ i, s ≤ i ∧ i < s + n ∧ f i = x := by
  intro n
  induction n with
  | zero => intro s h; cases h
  | succ n ih =>
    intro s h
    simp only [Impl.rangeMap, List.mem_cons] at h
    rcases h with rfl | h
    · exact ⟨s, by omega, by omega, rfl⟩
    · obtain ⟨i, h1, h2, h3⟩ := ih (s + 1) h
      exact ⟨i, by omega, by omega, h3⟩

theorem rangeMap_mem {α : Type} (f : Nat → α) : ∀ (n s i : Nat), s ≤ i → i < s + n → f i ∈ Impl.rangeMap f s n := by
  intro n
  induction n with
  | zero => intro s i h1 h2; omega
  | succ n ih =>
    intro s i h1 h2
    simp only [Impl.rangeMap, List.mem_cons]
    by_cases hi : i = s
    · left; rw [hi]
    · right; exact ih (s + 1) i (by omega) (by omega)

theorem findIdx_rangeMap {α : Type} (f : Nat → α) (P : α → Bool) (d : Nat) : ∀ (n s : Nat),
    (∀ i, s ≤ i → i < s + n → (P (f i) = true ↔ i = d)) → s ≤ d → d < s + n →
    (Impl.rangeMap f s n).findIdx? P = some (d - s) ∧ (Impl.rangeMap f s n).find? P = some (f d) := by
  intro n
  induction n with
  | zero => intro s _ h1 h2; omega
  | succ n ih =>
    intro s h h1 h2
    simp only [Impl.rangeMap, List.findIdx?_cons, List.find?_cons]
    by_cases hs : s = d
    · have : P (f s) = true := (h s (by omega) (by omega)).mpr hs
      rw [this, hs]; simp
    · have hf : P (f s) = false := by
        cases hp : P (f s) with
        | false => rfl
        | true => exact absurd ((h s (by omega) (by omega)).mp hp) hs
      have := ih (s + 1) (fun i a b => h i (by omega) (by omega)) (by omega) (by omega)
      rw [hf, this.1, this.2]
      simp
      omega

theorem findIdx_rangeMap_none {α : Type} (f : Nat → α) (P : α → Bool) (n s : Nat)
    (h : ∀ i, s ≤ i → i < s + n → P (f i) = false) : (Impl.rangeMap f s n).findIdx? P = none := by
  apply List.findIdx?_eq_none_iff.mpr
  intro x hx
  obtain ⟨i, h1, h2, rfl⟩ := mem_rangeMap f x n s hx
  exact h i h1 h2

/-- `', '.join(xs)` is `','.join` of the pieces with a blank in front of all but the first -/
theorem joinWith_comma_space : ∀ (ts : List Str) (t : Str),
    joinWith [',', ' '] (t :: ts) = joinComma (t :: ts.map (' ' :: ·)) := by
  intro ts
  induction ts with
  | nil => intro t; rfl
  | cons u us ih =>
    intro t
    simp only [joinWith, List.map_cons, joinComma]
    rw [ih u]
    cases us <;> simp [joinComma]

/-! ### the suggested format string is the rendering of an arrangement -/

def colAt (sp : Impl.DetectSpec) (i : Nat) : Col :=
  if i = sp.dateColumn then .date (some sp.dateFormat)
  else if i = sp.descriptionColumn then .description
  else if i = sp.amountColumn then .amount .asIs
  else if sp.locationColumn = some i then .location
  else .skip

def nameAt (sp : Impl.DetectSpec) (i : Nat) : Str :=
  if i = sp.dateColumn then sDate
  else if i = sp.descriptionColumn then sDescription
  else if i = sp.amountColumn then sAmount
  else if sp.locationColumn = some i then sLocation
  else sUnderscore

def scAt (sp : Impl.DetectSpec) (pre : Str) (i : Nat) : Col × Sp := (colAt sp i, ⟨pre, none, nameAt sp i, none, []⟩)

/-- the spelled arrangement behind `suggest sp`: no blank before the first token, one blank before the others -/
def scsOf (sp : Impl.DetectSpec) : List (Col × Sp) :=
  scAt sp [] 0 :: Impl.rangeMap (scAt sp [' ']) 1 (Impl.maxCol sp)

theorem renderCol_scAt (sp : Impl.DetectSpec) (pre : Str) (i : Nat) :
    renderCol (scAt sp pre i) = pre ++ Impl.suggestTok sp i := by
  unfold scAt colAt nameAt Impl.suggestTok renderCol
  by_cases h1 : i = sp.dateColumn
  · simp only [if_pos h1]
    simp [tokText, Col.signOf, Col.specOf, signChars, specChars, Impl.tokDate, sDate]
  · by_cases h2 : i = sp.descriptionColumn
    · simp only [if_neg h1, if_pos h2]
      simp [tokText, Col.signOf, Col.specOf, signChars, specChars, Impl.tokDescription]
    · by_cases h3 : i = sp.amountColumn
      · simp only [if_neg h1, if_neg h2, if_pos h3]
        simp [tokText, Col.signOf, Col.specOf, signChars, specChars, Impl.tokAmount]
      · by_cases h4 : sp.locationColumn = some i
        · simp only [if_neg h1, if_neg h2, if_neg h3, if_pos h4]
          simp [tokText, Col.signOf, Col.specOf, signChars, specChars, Impl.tokLocation]
        · simp only [if_neg h1, if_neg h2, if_neg h3, if_neg h4]
          simp [tokText, Col.signOf, Col.specOf, signChars, specChars, Impl.tokSkip, sUnderscore]

theorem suggest_eq_render (sp : Impl.DetectSpec) : Impl.suggest sp = render (scsOf sp) := by
  unfold Impl.suggest render scsOf
  simp only [Impl.rangeMap, Nat.zero_add, List.map_cons]
  rw [joinWith_comma_space, rangeMap_map, rangeMap_map, renderCol_scAt]
  simp only [List.nil_append]
  congr 2
  apply rangeMap_congr
  intro i _ _
  rw [renderCol_scAt]; rfl

theorem cols_scsOf (sp : Impl.DetectSpec) :
    (scsOf sp).map Prod.fst = Impl.rangeMap (colAt sp) 0 (Impl.maxCol sp + 1) := by
  unfold scsOf
  simp only [List.map_cons, rangeMap_map, Impl.rangeMap, Nat.zero_add]
  rfl

theorem okName_ascii (e : Ext) (w : Str) (h1 : w.all isAscii = true) (h2 : w.all asciiWord = true)
    (h3 : w.map asciiLower = w) (h4 : w ≠ []) : okName e w w = true := by
  have hl : e.lower w = w := by unfold Ext.lower; rw [if_pos h1]; exact h3
  have hw : w.all e.isWord = true := by
    apply List.all_eq_true.mpr
    intro c hc
    rw [isWord_ascii e c (List.all_eq_true.mp h1 c hc)]
    exact List.all_eq_true.mp h2 c hc
  have hne : w.isEmpty = false := by simpa using h4
  simp [okName, hl, hw, hne]

theorem SpOK_scAt (e : Ext) (sp : Impl.DetectSpec) (pre : Str) (i : Nat) (hpre : pre.all e.isSpace = true)
    (hfmt : okSpec (some sp.dateFormat) = true) : SpOK e (scAt sp pre i) = true := by
  have n1 := okName_ascii e sDate (by decide) (by decide) (by decide) (by decide)
  have n2 := okName_ascii e sDescription (by decide) (by decide) (by decide) (by decide)
  have n3 := okName_ascii e sAmount (by decide) (by decide) (by decide) (by decide)
  have n4 := okName_ascii e sLocation (by decide) (by decide) (by decide) (by decide)
  have n5 := okName_ascii e sUnderscore (by decide) (by decide) (by decide) (by decide)
  unfold scAt colAt nameAt
  by_cases h1 : i = sp.dateColumn
  · simp only [if_pos h1]
    simp [SpOK, hpre, okSign, Col.specOf, hfmt, n1]
  · by_cases h2 : i = sp.descriptionColumn
    · simp only [if_neg h1, if_pos h2]
      simp [SpOK, hpre, okSign, Col.specOf, okSpec, n2]
    · by_cases h3 : i = sp.amountColumn
      · simp only [if_neg h1, if_neg h2, if_pos h3]
        simp [SpOK, hpre, okSign, Col.specOf, okSpec, n3]
      · by_cases h4 : sp.locationColumn = some i
        · simp only [if_neg h1, if_neg h2, if_neg h3, if_pos h4]
          simp [SpOK, hpre, okSign, Col.specOf, okSpec, n4]
        · simp only [if_neg h1, if_neg h2, if_neg h3, if_neg h4]
          simp [SpOK, hpre, okSign, Col.specOf, okSpec, n5]

theorem SpOK_scsOf (e : Ext) (sp : Impl.DetectSpec) (hfmt : okSpec (some sp.dateFormat) = true) :
    ∀ p ∈ scsOf sp, SpOK e p = true := by
  intro p hp
  unfold scsOf at hp
  rcases List.mem_cons.mp hp with rfl | hp
  · exact SpOK_scAt e sp [] 0 (by simp) hfmt
  · obtain ⟨i, _, _, rfl⟩ := mem_rangeMap _ p _ _ hp
    exact SpOK_scAt e sp [' '] i (by simp [isSpace_ascii e ' ' (by decide)]; decide) hfmt

/-! ### which column sits where -/

theorem isDate_colAt (sp : Impl.DetectSpec) (i : Nat) : (colAt sp i).isDate = true ↔ i = sp.dateColumn := by
  unfold colAt
  by_cases h1 : i = sp.dateColumn
  · simp [h1, Col.isDate]
  · simp only [h1, if_false, iff_false]
    repeat' split
    all_goals simp [Col.isDate]

theorem isDescription_colAt (sp : Impl.DetectSpec) (hd : Distinct sp) (i : Nat) :
    (colAt sp i).isDescription = true ↔ i = sp.descriptionColumn := by
  unfold colAt
  by_cases h1 : i = sp.dateColumn
  · have : i ≠ sp.descriptionColumn := by rw [h1]; exact hd.1
    simp [h1, Col.isDescription, hd.1]
  · by_cases h2 : i = sp.descriptionColumn
    · have : sp.descriptionColumn ≠ sp.dateColumn := fun h => hd.1 h.symm
      simp [h2, this, Col.isDescription]
    · simp only [h1, h2, if_false, iff_false]
      repeat' split
      all_goals simp [Col.isDescription]

theorem isAmount_colAt (sp : Impl.DetectSpec) (hd : Distinct sp) (i : Nat) :
    (colAt sp i).isAmount = true ↔ i = sp.amountColumn := by
  unfold colAt
  by_cases h3 : i = sp.amountColumn
  · have a1 : sp.amountColumn ≠ sp.dateColumn := fun h => hd.2.1 h.symm
    have a2 : sp.amountColumn ≠ sp.descriptionColumn := fun h => hd.2.2.1 h.symm
    simp [h3, a1, a2, Col.isAmount]
  · simp only [h3, if_false, iff_false]
    repeat' split
    all_goals simp [Col.isAmount]

theorem isLocation_colAt (sp : Impl.DetectSpec) (hd : Distinct sp) (i : Nat) :
    (colAt sp i).isLocation = true ↔ sp.locationColumn = some i := by
  unfold colAt
  by_cases h4 : sp.locationColumn = some i
  · obtain ⟨b1, b2, b3⟩ := hd.2.2.2 i h4
    simp [h4, b1, b2, b3, Col.isLocation]
  · simp only [h4, if_false, iff_false]
    repeat' split
    all_goals simp [Col.isLocation]

theorem customName_colAt (sp : Impl.DetectSpec) (i : Nat) : (colAt sp i).customName = none := by
  unfold colAt
  repeat' split
  all_goals rfl

theorem fieldName_some (c : Col) (k : Str) (h : c.fieldName = some k) :
    (k = sDate ∧ c.isDate = true) ∨ (k = sDescription ∧ c.isDescription = true) ∨
    (k = sAmount ∧ c.isAmount = true) ∨ (k = sLocation ∧ c.isLocation = true) := by
  cases c <;> simp [Col.fieldName] at h <;> simp [← h, Col.isDate, Col.isDescription, Col.isAmount, Col.isLocation]

theorem colAt_inj (sp : Impl.DetectSpec) (hd : Distinct sp) (i j : Nat) (k : Str)
    (hi : (colAt sp i).fieldName = some k) (hj : (colAt sp j).fieldName = some k) : i = j := by
  rcases fieldName_some _ k hi with ⟨rfl, h⟩ | ⟨rfl, h⟩ | ⟨rfl, h⟩ | ⟨rfl, h⟩
  · rw [(isDate_colAt sp i).mp h, (isDate_colAt sp j).mp ((isDate_iff _).mp hj)]
  · rw [(isDescription_colAt sp hd i).mp h, (isDescription_colAt sp hd j).mp ((isDescription_iff _).mp hj)]
  · rw [(isAmount_colAt sp hd i).mp h, (isAmount_colAt sp hd j).mp ((isAmount_iff _).mp hj)]
  · have a := (isLocation_colAt sp hd i).mp h
    have b := (isLocation_colAt sp hd j).mp ((isLocation_iff _).mp hj)
    rw [a] at b; exact Option.some.inj b

theorem nodup_fieldNames_rangeMap (F : Nat → Col)
    (hinj : ∀ i j k, (F i).fieldName = some k → (F j).fieldName = some k → i = j) :
    ∀ (n s : Nat), (fieldNames (Impl.rangeMap F s n)).Nodup := by
  intro n
  induction n with
  | zero => intro s; simp [Impl.rangeMap, fieldNames]
  | succ n ih =>
    intro s
    simp only [Impl.rangeMap, fieldNames_cons]
    apply List.nodup_append.mpr
    refine ⟨?_, ih (s + 1), ?_⟩
    · cases (F s).fieldName <;> simp [optList]
    · intro a ha b hb hab
      subst hab
      have hs : (F s).fieldName = some a := by
        cases hf : (F s).fieldName with
        | none => rw [hf] at ha; simp [optList] at ha
        | some x => rw [hf] at ha; simp [optList] at ha; rw [ha]
      obtain ⟨c, hc, hca⟩ := List.mem_filterMap.mp hb
      obtain ⟨i, h1, _, rfl⟩ := mem_rangeMap F c _ _ hc
      have := hinj s i a hs hca
      omega

theorem maxCol_bounds (sp : Impl.DetectSpec) :
    sp.dateColumn ≤ Impl.maxCol sp ∧ sp.descriptionColumn ≤ Impl.maxCol sp ∧ sp.amountColumn ≤ Impl.maxCol sp ∧
    (∀ x, sp.locationColumn = some x → x ≤ Impl.maxCol sp) := by
  unfold Impl.maxCol
  cases hl : sp.locationColumn with
  | none => simp only []; refine ⟨?_, ?_, ?_, ?_⟩ <;> (try intro x hx; cases hx) <;> omega
  | some l =>
    simp only []
    refine ⟨?_, ?_, ?_, ?_⟩ <;> (try (intro x hx; cases hx)) <;> omega

theorem wellFormed_suggest (e : Ext) (sp : Impl.DetectSpec) (hd : Distinct sp) :
    WellFormed e (Impl.rangeMap (colAt sp) 0 (Impl.maxCol sp + 1)) none := by
  obtain ⟨b1, b2, b3, _⟩ := maxCol_bounds sp
  have hcust : customNames (Impl.rangeMap (colAt sp) 0 (Impl.maxCol sp + 1)) = [] := by
    unfold customNames
    apply List.filterMap_eq_nil_iff.mpr
    intro c hc
    obtain ⟨i, _, _, rfl⟩ := mem_rangeMap _ c _ _ hc
    exact customName_colAt sp i
  refine ⟨nodup_fieldNames_rangeMap _ (colAt_inj sp hd) _ _, ?_, ?_, ?_, ?_, ?_, ?_⟩
  · rw [hcust]; simp
  · rw [hcust]; intro n hn; cases hn
  · exact List.any_eq_true.mpr ⟨_, rangeMap_mem (colAt sp) _ 0 sp.dateColumn (by omega) (by omega),
      (isDate_colAt sp _).mpr rfl⟩
  · exact List.any_eq_true.mpr ⟨_, rangeMap_mem (colAt sp) _ 0 sp.amountColumn (by omega) (by omega),
      (isAmount_colAt sp hd _).mpr rfl⟩
  · left
    exact List.any_eq_true.mpr ⟨_, rangeMap_mem (colAt sp) _ 0 sp.descriptionColumn (by omega) (by omega),
      (isDescription_colAt sp hd _).mpr rfl⟩
  · intro r hr; simp [refsOf, Impl.tmplAbsent] at hr

/-- the intended reading of the suggestion's arrangement is the detected spec -/
theorem specOf_suggest (sp : Impl.DetectSpec) (hd : Distinct sp) :
    let spec := specOf (Impl.rangeMap (colAt sp) 0 (Impl.maxCol sp + 1)) none
    spec.dateColumn = sp.dateColumn ∧ spec.dateFormat = sp.dateFormat ∧
    spec.descriptionColumn = some sp.descriptionColumn ∧ spec.amountColumn = sp.amountColumn ∧
    spec.locationColumn = sp.locationColumn := by
  obtain ⟨b1, b2, b3, b4⟩ := maxCol_bounds sp
  have fD := findIdx_rangeMap (colAt sp) Col.isDate sp.dateColumn (Impl.maxCol sp + 1) 0
    (fun i _ _ => isDate_colAt sp i) (by omega) (by omega)
  have fS := findIdx_rangeMap (colAt sp) Col.isDescription sp.descriptionColumn (Impl.maxCol sp + 1) 0
    (fun i _ _ => isDescription_colAt sp hd i) (by omega) (by omega)
  have fA := findIdx_rangeMap (colAt sp) Col.isAmount sp.amountColumn (Impl.maxCol sp + 1) 0
    (fun i _ _ => isAmount_colAt sp hd i) (by omega) (by omega)
  have hcd : colAt sp sp.dateColumn = .date (some sp.dateFormat) := by simp [colAt]
  refine ⟨?_, ?_, ?_, ?_, ?_⟩
  · simp [specOf, fD.1]
  · simp [specOf, dateFmtOf, fD.2, hcd]
  · simp [specOf, fS.1]
  · simp [specOf, fA.1]
  · simp only [specOf]
    cases hl : sp.locationColumn with
    | none =>
      apply findIdx_rangeMap_none
      intro i _ _
      cases hx : (colAt sp i).isLocation with
      | false => rfl
      | true => have := (isLocation_colAt sp hd i).mp hx; rw [hl] at this; cases this
    | some l =>
      have := findIdx_rangeMap (colAt sp) Col.isLocation l (Impl.maxCol sp + 1) 0
        (fun i _ _ => by rw [isLocation_colAt sp hd i, hl]; constructor <;> intro h
                         · exact (Option.some.inj h).symm
                         · rw [h])
        (by omega) (by have := b4 l hl; omega)
      simpa using this.1

/-! ### auto-detection is a FIRST FIT, role by role

The code walks the headers and, for each, tries the roles in the order date, description, amount, location (`if/elif`, a role only
while its slot is empty).  Read role by role this is: the date column is the first header carrying a date keyword; the description
column is the first header carrying a description keyword that is not the date column; the amount column the first header carrying an
amount keyword that is neither; the location column likewise.  In particular a header whose wording mentions two kinds of column
("Payment Date", "Debit Description", "City Name") serves ONE role: the first of them still open when the header is reached. -/

/-- the first-fit reading of a detection state, over abstract "header j carries a keyword of the role" predicates -/
structure FF (Md Ms Ma Ml : Nat → Prop) (d : Impl.Detected) : Prop where
  date_some : ∀ x, d.date = some x → Md x ∧ ∀ j, j < x → ¬ Md j
  date_none : d.date = none → ∀ j, ¬ Md j
  desc_some : ∀ x, d.desc = some x → Ms x ∧ d.date ≠ some x ∧ ∀ j, j < x → Ms j → d.date = some j
  desc_none : d.desc = none → ∀ j, Ms j → d.date = some j
  amount_some : ∀ x, d.amount = some x → Ma x ∧ d.date ≠ some x ∧ d.desc ≠ some x ∧
    ∀ j, j < x → Ma j → d.date = some j ∨ d.desc = some j
  amount_none : d.amount = none → ∀ j, Ma j → d.date = some j ∨ d.desc = some j
  loc_some : ∀ x, d.location = some x → Ml x ∧ d.date ≠ some x ∧ d.desc ≠ some x ∧ d.amount ≠ some x ∧
    ∀ j, j < x → Ml j → d.date = some j ∨ d.desc = some j ∨ d.amount = some j
  loc_none : d.location = none → ∀ j, Ml j → d.date = some j ∨ d.desc = some j ∨ d.amount = some j

/-- the if/elif chain on the four match results -/
def stepB (idx : Nat) (d : Impl.Detected) (bd bs ba bl : Bool) : Impl.Detected :=
  if d.date.isNone && bd then { d with date := some idx }
  else if d.desc.isNone && bs then { d with desc := some idx }
  else if d.amount.isNone && ba then { d with amount := some idx }
  else if d.location.isNone && bl then { d with location := some idx }
  else d

theorem ff_step (n : Nat) (Md Ms Ma Ml Md' Ms' Ma' Ml' : Nat → Prop) (bd bs ba bl : Bool)
    (hd : ∀ j, Md' j ↔ Md j ∨ (j = n ∧ bd = true)) (hs : ∀ j, Ms' j ↔ Ms j ∨ (j = n ∧ bs = true))
    (ha : ∀ j, Ma' j ↔ Ma j ∨ (j = n ∧ ba = true)) (hl : ∀ j, Ml' j ↔ Ml j ∨ (j = n ∧ bl = true))
    (ld : ∀ j, Md j → j < n) (ls : ∀ j, Ms j → j < n) (la : ∀ j, Ma j → j < n) (ll : ∀ j, Ml j → j < n)
    (d : Impl.Detected) (h : FF Md Ms Ma Ml d) : FF Md' Ms' Ma' Ml' (stepB n d bd bs ba bl) := by
  obtain ⟨h1, h2, h3, h4, h5, h6, h7, h8⟩ := h
  obtain ⟨dd, ds, da, dl⟩ := d
  simp only [] at h1 h2 h3 h4 h5 h6 h7 h8
  unfold stepB
  simp only [Bool.and_eq_true, Option.isNone_iff_eq_none]
  split
  · rename_i hc
    obtain ⟨hc1, hc2⟩ := hc
    subst hc1 hc2
    constructor <;> grind
  · rename_i hn1
    split
    · rename_i hc
      obtain ⟨hc1, hc2⟩ := hc
      subst hc1 hc2
      constructor <;> grind
    · rename_i hn2
      split
      · rename_i hc
        obtain ⟨hc1, hc2⟩ := hc
        subst hc1 hc2
        constructor <;> grind
      · rename_i hn3
        split
        · rename_i hc
          obtain ⟨hc1, hc2⟩ := hc
          subst hc1 hc2
          constructor <;> grind
        · rename_i hn4
          constructor <;> grind


/-- header `j` of the row `hs` carries a keyword of the list `tbl` -/
def HeaderMatches (e : Ext) (hs : List Str) (tbl : List Str) (j : Nat) : Prop :=
  ∃ h, hs[j]? = some h ∧ Impl.matchHeader e h tbl = true

theorem headerMatches_lt {e : Ext} {hs : List Str} {tbl : List Str} {j : Nat} (h : HeaderMatches e hs tbl j) :
    j < hs.length := by
  obtain ⟨x, hx, _⟩ := h
  exact (List.getElem?_eq_some_iff.mp hx).1

theorem headerMatches_snoc (e : Ext) (pre : List Str) (h : Str) (tbl : List Str) (j : Nat) :
    HeaderMatches e (pre ++ [h]) tbl j ↔ HeaderMatches e pre tbl j ∨ (j = pre.length ∧ Impl.matchHeader e h tbl = true) := by
  unfold HeaderMatches
  constructor
  · rintro ⟨x, hx, hm⟩
    by_cases hj : j < pre.length
    · rw [List.getElem?_append_left hj] at hx; exact Or.inl ⟨x, hx, hm⟩
    · rw [List.getElem?_append_right (by omega)] at hx
      have hj0 : j - pre.length = 0 := by
        cases hk : j - pre.length with
        | zero => rfl
        | succ k => rw [hk] at hx; simp at hx
      rw [hj0] at hx
      simp at hx; subst hx
      exact Or.inr ⟨by omega, hm⟩
  · rintro (⟨x, hx, hm⟩ | ⟨rfl, hm⟩)
    · have hj := (List.getElem?_eq_some_iff.mp hx).1
      exact ⟨x, by rw [List.getElem?_append_left hj]; exact hx, hm⟩
    · exact ⟨h, by simp, hm⟩

theorem detectStep_eq_stepB (e : Ext) (idx : Nat) (d : Impl.Detected) (h : Str) :
    Impl.detectStep e idx d h = stepB idx d (Impl.matchHeader e h FmtTables.DATE_PATTERNS)
      (Impl.matchHeader e h FmtTables.DESC_PATTERNS) (Impl.matchHeader e h FmtTables.AMOUNT_PATTERNS)
      (Impl.matchHeader e h FmtTables.LOCATION_PATTERNS) := rfl

/-- the first-fit reading of the detection state, for the headers read so far -/
def FirstFit (e : Ext) (hs : List Str) (d : Impl.Detected) : Prop :=
  FF (HeaderMatches e hs FmtTables.DATE_PATTERNS) (HeaderMatches e hs FmtTables.DESC_PATTERNS)
    (HeaderMatches e hs FmtTables.AMOUNT_PATTERNS) (HeaderMatches e hs FmtTables.LOCATION_PATTERNS) d

theorem firstFit_loop (e : Ext) : ∀ (hs pre : List Str) (d : Impl.Detected),
    FirstFit e pre d → FirstFit e (pre ++ hs) (Impl.detectLoop e pre.length d hs) := by
  intro hs
  induction hs with
  | nil => intro pre d h; simpa [Impl.detectLoop] using h
  | cons h hs ih =>
    intro pre d hff
    have hstep : FirstFit e (pre ++ [h]) (Impl.detectStep e pre.length d h) := by
      rw [detectStep_eq_stepB]
      exact ff_step pre.length _ _ _ _ _ _ _ _ _ _ _ _
        (headerMatches_snoc e pre h _) (headerMatches_snoc e pre h _) (headerMatches_snoc e pre h _)
        (headerMatches_snoc e pre h _) (fun _ => headerMatches_lt) (fun _ => headerMatches_lt)
        (fun _ => headerMatches_lt) (fun _ => headerMatches_lt) d hff
    have := ih (pre ++ [h]) _ hstep
    simpa [Impl.detectLoop] using this

/-- the state after the whole header row is its first fit -/
theorem firstFit_detectLoop (e : Ext) (hs : List Str) :
    FirstFit e hs (Impl.detectLoop e 0 ⟨none, none, none, none⟩ hs) := by
  have h0 : FirstFit e [] ⟨none, none, none, none⟩ := by
    have hno : ∀ tbl j, ¬ HeaderMatches e [] tbl j := by
      intro tbl j ⟨x, hx, _⟩; simp at hx
    constructor <;> intros <;> simp_all
  simpa using firstFit_loop e hs [] _ h0

end TallyVerif.Fmt
