import TallyVerif.Model.ReportTypes
import TallyVerif.Lemmas.TotalsInt
/-! helper lemmas for the `typeTotals` theorems of Props/C12 -/
namespace TallyVerif.ReportTypes
open TallyVerif TallyVerif.Gen TallyVerif.Gen.ReportTypes TallyVerif.Totals

abbrev T := Txn Int

/-- Σ over the categories of one figure of their `typeTotals` -/
def ttSum (f : TypeTotals Int → Int) (m : List (String × TypeTotals Int)) : Int := sumBy (fun kv => f kv.2) m

theorem ttSum_upsert (f : TypeTotals Int → Int) (hf0 : f (zeroTT intNum) = 0)
    (hadd : ∀ a b, f (addTT intNum a b) = f a + f b) (k : String) (c : TypeTotals Int) (m : List (String × TypeTotals Int)) :
    ttSum f (upsert k (zeroTT intNum) (fun acc => addTT intNum acc c) m) = ttSum f m + f c := by
  induction m with
  | nil => simp [upsert, ttSum, sumBy, hadd, hf0]
  | cons kv m ih =>
    obtain ⟨k', v⟩ := kv
    simp only [upsert]
    split
    · simp only [ttSum, sumBy_cons, hadd]; omega
    · simp only [ttSum, sumBy_cons] at ih ⊢; omega

theorem ttSum_fold (lower : String → String) (f : TypeTotals Int → Int) (hf0 : f (zeroTT intNum) = 0)
    (hadd : ∀ a b, f (addTT intNum a b) = f a + f b) (l : List T) (m : List (String × TypeTotals Int)) :
    ttSum f (l.foldl (fun m t => upsert t.category (zeroTT intNum)
        (fun acc => addTT intNum acc (type_contrib intNum lower t.amount t.tags)) m) m)
      = ttSum f m + sumBy (fun t => f (type_contrib intNum lower t.amount t.tags)) l := by
  induction l generalizing m with
  | nil => simp [sumBy]
  | cons t l ih => rw [List.foldl_cons, ih, ttSum_upsert f hf0 hadd, sumBy_cons]; omega

/-- Σ over categories of `typeTotals.<key>` = Σ over transactions of that key's contribution, whatever the categories are -/
theorem type_totals_regroup (lower : String → String) (f : TypeTotals Int → Int) (hf0 : f (zeroTT intNum) = 0)
    (hadd : ∀ a b, f (addTT intNum a b) = f a + f b) (l : List T) :
    ttSum f (typeTotalsByCat intNum lower l) = sumBy (fun t => f (type_contrib intNum lower t.amount t.tags)) l := by
  unfold typeTotalsByCat; rw [ttSum_fold lower f hf0 hadd]; simp [ttSum, sumBy]

theorem sumBy_congr {τ : Type} (f g : τ → Int) (l : List τ) (h : ∀ t, f t = g t) : sumBy f l = sumBy g l := by
  have : f = g := funext h
  rw [this]

theorem sumBy_add {τ : Type} (f g : τ → Int) (l : List τ) : sumBy (fun t => f t + g t) l = sumBy f l + sumBy g l := by
  induction l with
  | nil => simp [sumBy]
  | cons t l ih => simp only [sumBy_cons, ih]; omega


end TallyVerif.ReportTypes
