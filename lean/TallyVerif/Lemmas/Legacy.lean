import TallyVerif.Model.Legacy
import TallyVerif.Lemmas.Csv
/-!
Helper lemmas for M-Legacy (the legacy CSV rule loader and the modifier text parser; properties C14 / C01).

1. the block scanner: `matchAt` inverts `Block.text`; what `lastHit` (the `finditer` pass) returns is a block of the text
2. the loop of `parse_pattern_with_modifiers`: on `p ++ blocks` it reads the blocks from the right (`loop_blocks`); whatever it
   returns decomposes the input that way (`loop_shape`); fuel beyond the length of the text is never used
3. the value scanners on the spellings `renderMod` writes (any blanks the regular expressions allow)
4. the file side: physical lines, the comment filter, `csv.writer` tables, the row loop as a `filterMap`
-/
namespace TallyVerif.Legacy
open TallyVerif.Csv (Str isPySpace strip lstrip rstrip readCsv writeCsv writeRow)
open TallyVerif.Migrate (NumLit Date AmountCond DateCond Parsed CsvRule)

/-! ## 1. the block scanner -/

theorem eat_append (p s : Str) : eat p (p ++ s) = some s := by
  induction p with
  | nil => rfl
  | cons c cs ih => simp [eat, ih]

theorem eat_some {p s r : Str} (h : eat p s = some r) : s = p ++ r := by
  induction p generalizing s with
  | nil => simp [eat] at h; simp [h]
  | cons c cs ih =>
    cases s with
    | nil => simp [eat] at h
    | cons d ds =>
      simp only [eat] at h
      split at h
      · rename_i hc
        have := ih h
        simp [this, eq_of_beq hc]
      · exact absurd h (by simp)

/-- a literal that does not match a text does not match the text continued by something that starts with `[` (or by nothing),
as long as the literal itself contains no `[` -/
theorem eat_append_none (k r s : Str) (hk : ∀ c ∈ k, c ≠ '[') (hs : s = [] ∨ s.head? = some '[') (h : eat k r = none) :
    eat k (r ++ s) = none := by
  induction k generalizing r with
  | nil => simp [eat] at h
  | cons p ps ih =>
    cases r with
    | nil =>
      rcases hs with rfl | hs
      · simp [eat]
      · cases s with
        | nil => simp at hs
        | cons c cs =>
          simp only [List.head?_cons, Option.some.injEq] at hs
          subst hs
          have : p ≠ '[' := hk p (by simp)
          simp [eat, this]
    | cons c cs =>
      simp only [List.cons_append, eat] at h ⊢
      split
      · rename_i hc
        simp only [hc, if_true] at h
        exact ih cs (fun x hx => hk x (by simp [hx])) h
      · rfl

theorem kwAt_text (k : Kw) (s : Str) : kwAt (k.text ++ s) = some (k, s) := by
  cases k <;> simp [kwAt, Kw.text, eat]

theorem kwAt_some {s r : Str} {k : Kw} (h : kwAt s = some (k, r)) : s = k.text ++ r := by
  unfold kwAt at h
  split at h
  · rename_i r' h1
    simp only [Option.some.injEq, Prod.mk.injEq] at h
    obtain ⟨rfl, rfl⟩ := h
    exact eat_some h1
  · split at h
    · rename_i r' h2
      simp only [Option.some.injEq, Prod.mk.injEq] at h
      obtain ⟨rfl, rfl⟩ := h
      exact eat_some h2
    · split at h
      · rename_i r' h3
        simp only [Option.some.injEq, Prod.mk.injEq] at h
        obtain ⟨rfl, rfl⟩ := h
        exact eat_some h3
      · exact absurd h (by simp)

theorem kw_no_bracket (k : Kw) : ∀ c ∈ k.text, c ≠ '[' ∧ c ≠ ']' := by
  cases k <;> simp [Kw.text]

theorem kwAt_append_none (r s : Str) (hs : s = [] ∨ s.head? = some '[') (h : kwAt r = none) : kwAt (r ++ s) = none := by
  unfold kwAt at h ⊢
  split at h
  · exact absurd h (by simp)
  · rename_i h1
    split at h
    · exact absurd h (by simp)
    · rename_i h2
      split at h
      · exact absurd h (by simp)
      · rename_i h3
        rw [eat_append_none _ r s (fun c hc => (kw_no_bracket .amount c hc).1) hs h1,
            eat_append_none _ r s (fun c hc => (kw_no_bracket .date c hc).1) hs h2,
            eat_append_none _ r s (fun c hc => (kw_no_bracket .month c hc).1) hs h3]

theorem untilClose_append (v s : Str) (hv : ']' ∉ v) : untilClose (v ++ ']' :: s) = some (v, s) := by
  induction v with
  | nil => simp [untilClose]
  | cons c cs ih =>
    have hc : c ≠ ']' := fun e => hv (by simp [e])
    have hcs : ']' ∉ cs := fun e => hv (by simp [e])
    simp [untilClose, hc, ih hcs]

theorem untilClose_some {s v r : Str} (h : untilClose s = some (v, r)) : s = v ++ ']' :: r ∧ ']' ∉ v := by
  induction s generalizing v with
  | nil => simp [untilClose] at h
  | cons c cs ih =>
    simp only [untilClose] at h
    split at h
    · rename_i hc
      simp only [Option.some.injEq, Prod.mk.injEq] at h
      obtain ⟨rfl, rfl⟩ := h
      simp [eq_of_beq hc]
    · rename_i hc
      split at h
      · rename_i v' r' hu
        simp only [Option.some.injEq, Prod.mk.injEq] at h
        obtain ⟨rfl, rfl⟩ := h
        obtain ⟨h1, h2⟩ := ih hu
        refine ⟨by simp [h1], ?_⟩
        intro hm
        rcases List.mem_cons.mp hm with e | e
        · exact hc (by simp [← e])
        · exact h2 e
      · exact absurd h (by simp)

/-- a block whose value contains no `]` -/
def Block.closed (b : Block) : Prop := ']' ∉ b.value

theorem matchAt_text (b : Block) (s : Str) (hb : b.closed) : matchAt (b.text ++ s) = some (b, s) := by
  obtain ⟨k, v⟩ := b
  simp only [Block.text, List.cons_append, List.append_assoc, matchAt, kwAt_text]
  have := untilClose_append v s hb
  simp [this]

theorem matchAt_some {s rest : Str} {b : Block} (h : matchAt s = some (b, rest)) : s = b.text ++ rest ∧ b.closed := by
  unfold matchAt at h
  split at h
  · rename_i r
    split at h
    · rename_i k r2 hk
      split at h
      · rename_i v rest' hu
        simp only [Option.some.injEq, Prod.mk.injEq] at h
        obtain ⟨rfl, rfl⟩ := h
        obtain ⟨h1, h2⟩ := untilClose_some hu
        refine ⟨?_, h2⟩
        simp [Block.text, kwAt_some hk, h1]
      · exact absurd h (by simp)
    · exact absurd h (by simp)
  · exact absurd h (by simp)

/-- the text opens a modifier block: `[amount`, `[date` or `[month` -/
def opensAt (s : Str) : Bool :=
  match s with
  | '[' :: r => (kwAt r).isSome
  | _ => false

/-- no modifier-opening text anywhere in `p` -/
def noOpen : Str → Bool
  | [] => true
  | c :: cs => !opensAt (c :: cs) && noOpen cs

theorem matchAt_none_of_not_opens (t s : Str) (ht : t ≠ []) (hs : s = [] ∨ s.head? = some '[') (h : opensAt t = false) :
    matchAt (t ++ s) = none := by
  cases t with
  | nil => exact absurd rfl ht
  | cons c r =>
    by_cases hc : c = '['
    · subst hc
      simp only [opensAt] at h
      have hk : kwAt r = none := by
        cases hkr : kwAt r with
        | none => rfl
        | some x => simp [hkr] at h
      simp [matchAt, kwAt_append_none r s hs hk]
    · unfold matchAt
      split
      · rename_i heq
        simp only [List.cons_append, List.cons.injEq] at heq
        exact absurd heq.1 hc
      · rfl

/-! ### the `finditer` pass -/

/-- inside a match the scan runs to its `]` -/
theorem lastHit_inside (a s pre : Str) (last : Option Hit) (ha : ']' ∉ a) :
    lastHit true pre last (a ++ ']' :: s) = lastHit false (pre ++ a ++ [']']) last s := by
  induction a generalizing pre with
  | nil => simp [lastHit]
  | cons c cs ih =>
    have hc : c ≠ ']' := fun e => ha (by simp [e])
    have hcs : ']' ∉ cs := fun e => ha (by simp [e])
    simp only [List.cons_append, lastHit, if_true]
    have : (c != ']') = true := by simp [hc]
    rw [this, ih _ hcs]
    simp

/-- a block in the text is found, and the scan continues behind it -/
theorem lastHit_block (b : Block) (s pre : Str) (last : Option Hit) (hb : b.closed) :
    lastHit false pre last (b.text ++ s) = lastHit false (pre ++ b.text) (some ⟨pre, b, s⟩) s := by
  have hm := matchAt_text b s hb
  have hshape : b.text ++ s = '[' :: ((b.kw.text ++ b.value) ++ ']' :: s) := by simp [Block.text]
  rw [hshape] at hm ⊢
  simp only [lastHit, Bool.false_eq_true, if_false, hm]
  have hno : ']' ∉ b.kw.text ++ b.value := by
    intro h
    rcases List.mem_append.mp h with h | h
    · exact (kw_no_bracket b.kw _ h).2 rfl
    · exact hb h
  rw [lastHit_inside _ _ _ _ hno]
  simp [Block.text]

/-- text without a modifier opening is passed over -/
theorem lastHit_noOpen (p s pre : Str) (last : Option Hit) (hp : noOpen p = true) (hs : s = [] ∨ s.head? = some '[') :
    lastHit false pre last (p ++ s) = lastHit false (pre ++ p) last s := by
  induction p generalizing pre with
  | nil => simp
  | cons c cs ih =>
    simp only [noOpen, Bool.and_eq_true, Bool.not_eq_true'] at hp
    have hm := matchAt_none_of_not_opens (c :: cs) s (by simp) hs hp.1
    simp only [List.cons_append] at hm ⊢
    simp only [lastHit, Bool.false_eq_true, if_false, hm]
    rw [ih _ hp.2]
    simp

/-- the text of a list of blocks -/
def blocksText (bs : List Block) : Str := bs.flatMap Block.text

theorem blocksText_head (bs : List Block) : blocksText bs = [] ∨ (blocksText bs).head? = some '[' := by
  cases bs with
  | nil => left; rfl
  | cons b bs => right; simp [blocksText, Block.text]

theorem blocksText_append (a b : List Block) : blocksText (a ++ b) = blocksText a ++ blocksText b := by
  simp [blocksText]

/-- the last match in `blocks ++ [b]` is `b`, and it ends at the end of the text -/
theorem lastHit_blocks (bs : List Block) (b : Block) (pre : Str) (last : Option Hit)
    (hbs : ∀ x ∈ bs, x.closed) (hb : b.closed) :
    lastHit false pre last (blocksText (bs ++ [b])) = some ⟨pre ++ blocksText bs, b, []⟩ := by
  induction bs generalizing pre last with
  | nil =>
    have := lastHit_block b [] pre last hb
    simp only [List.append_nil] at this
    simp [blocksText, this, lastHit]
  | cons c cs ih =>
    have hc := hbs c (by simp)
    have : blocksText (c :: cs ++ [b]) = c.text ++ blocksText (cs ++ [b]) := by simp [blocksText]
    rw [this, lastHit_block c _ pre last hc, ih _ _ (fun x hx => hbs x (by simp [hx]))]
    simp [blocksText]

/-- what a hit says about the text `W` it was found in -/
def Hit.good (W : Str) (h : Hit) : Prop := W = h.pre ++ h.blk.text ++ h.rest ∧ h.blk.closed

theorem lastHit_good (W s pre : Str) (inside : Bool) (last : Option Hit) (h : Hit)
    (hW : pre ++ s = W) (hl : ∀ x, last = some x → x.good W) (hr : lastHit inside pre last s = some h) : h.good W := by
  induction s generalizing inside pre last with
  | nil => exact hl h (by simpa [lastHit] using hr)
  | cons c cs ih =>
    simp only [lastHit] at hr
    split at hr
    · exact ih _ _ _ (by simp [← hW]) hl hr
    · split at hr
      · rename_i b rest hm
        obtain ⟨h1, h2⟩ := matchAt_some hm
        refine ih _ _ _ (by simp [← hW]) ?_ hr
        intro x hx
        simp only [Option.some.injEq] at hx
        subst hx
        exact ⟨by simp [← hW, h1], h2⟩
      · exact ih _ _ _ (by simp [← hW]) hl hr

theorem lastHit_some {s : Str} {h : Hit} (hr : lastHit false [] none s = some h) :
    s = h.pre ++ h.blk.text ++ h.rest ∧ h.blk.closed :=
  lastHit_good s s [] false none h rfl (fun _ hx => absurd hx (by simp)) hr

theorem Block.text_length_pos (b : Block) : 0 < b.text.length := by simp [Block.text]

theorem blocks_length (p : Str) (L : List Block) (b : Block) :
    (p ++ blocksText (L ++ [b])).length = (p ++ blocksText L).length + b.text.length := by
  simp [blocksText_append, blocksText, Nat.add_assoc]

/-- a match that ends at the end of the text: the text ends with `]` -/
theorem lastHit_end_bracket {s : Str} {h : Hit} (hr : lastHit false [] none s = some h) (he : h.rest = []) :
    s.getLast? = some ']' := by
  obtain ⟨hs, -⟩ := lastHit_some hr
  rw [hs, he]
  have : h.pre ++ h.blk.text ++ [] = (h.pre ++ '[' :: (h.blk.kw.text ++ h.blk.value)) ++ [']'] := by simp [Block.text]
  rw [this, List.getLast?_append]
  simp

/-! ## 2. the loop -/

/-- the blocks read from the right, each condition put at the front of its list — what the loop does on `p ++ blocks` -/
def addBlocks (o : Oracles) (bs : List Block) (init : Parsed) : Except ModErr Parsed :=
  bs.foldr (fun b acc => match acc with
    | .error e => .error e
    | .ok p => addBlock o b p) (.ok init)

theorem addBlocks_append (o : Oracles) (a : List Block) (b : Block) (init : Parsed) :
    addBlocks o (a ++ [b]) init =
      (match addBlock o b init with
       | .error e => .error e
       | .ok p => addBlocks o a p) := by
  simp only [addBlocks, List.foldr_append, List.foldr_cons, List.foldr_nil]
  cases addBlock o b init with
  | ok p => rfl
  | error e =>
    induction a with
    | nil => rfl
    | cons x xs ih => simp [List.foldr_cons, ih]

def withPattern (p : Str) : Except ModErr Parsed → Except ModErr (Str × Parsed)
  | .ok q => .ok (p, q)
  | .error e => .error e

/-- on `p ++ blocks` (no modifier opening in `p`, every block value free of `]`) the loop reads exactly the blocks, from
the right, and leaves `p` — or stops with the error of the first block (from the right) that does not parse -/
theorem loop_blocks (o : Oracles) (n : Nat) (p : Str) (bs : List Block) (init : Parsed)
    (hp : noOpen p = true) (hbs : ∀ x ∈ bs, x.closed) (hn : (p ++ blocksText bs).length ≤ n) :
    loop o n (p ++ blocksText bs) init = withPattern p (addBlocks o bs init) := by
  induction n generalizing bs init with
  | zero =>
    rcases List.eq_nil_or_concat bs with rfl | ⟨L, b, hbs'⟩
    · simp [loop, blocksText, addBlocks, withPattern]
    · rw [List.concat_eq_append] at hbs'; subst hbs'
      have := b.text_length_pos
      rw [blocks_length] at hn
      omega
  | succ n ih =>
    rcases List.eq_nil_or_concat bs with rfl | ⟨L, b, hbs'⟩
    · have h0 := lastHit_noOpen p [] [] none hp (Or.inl rfl)
      simp only [List.append_nil, List.nil_append] at h0
      simp [loop, blocksText, addBlocks, withPattern, h0, lastHit]
    · rw [List.concat_eq_append] at hbs'; subst hbs'
      have hL : ∀ x ∈ L, x.closed := fun x hx => hbs x (by simp [hx])
      have hb : b.closed := hbs b (by simp)
      have hhit : lastHit false [] none (p ++ blocksText (L ++ [b])) = some ⟨p ++ blocksText L, b, []⟩ := by
        rw [lastHit_noOpen p _ [] none hp (blocksText_head _), lastHit_blocks L b _ _ hL hb]
        simp
      simp only [loop, hhit, List.isEmpty_nil, Bool.not_true, Bool.false_eq_true, if_false]
      rw [addBlocks_append]
      cases hadd : addBlock o b init with
      | error e => simp [withPattern]
      | ok q =>
        have hlen : (p ++ blocksText L).length ≤ n := by
          have := b.text_length_pos
          rw [blocks_length] at hn
          omega
        exact ih L q hL hlen

/-- whatever the loop returns, the input is `remaining ++ blocks` and the answer is the reading of those blocks from the
right; when it stops with an error, the input is `r ++ blocks` and the error is the one of reading those blocks.  With fuel
for the whole text (`s.length ≤ n`) the loop only stops where the code does: `remaining` has no block at its end. -/
theorem loop_shape (o : Oracles) (n : Nat) (s : Str) (init : Parsed) :
    ∃ r bs, s = r ++ blocksText bs ∧ (∀ x ∈ bs, x.closed) ∧ loop o n s init = withPattern r (addBlocks o bs init) ∧
      (s.length ≤ n → (∃ e, addBlocks o bs init = .error e) ∨
        (∀ h, lastHit false [] none r = some h → h.rest ≠ [])) := by
  induction n generalizing s init with
  | zero =>
    refine ⟨s, [], by simp [blocksText], by simp, by simp [loop, addBlocks, withPattern], ?_⟩
    intro hs
    have : s = [] := List.eq_nil_of_length_eq_zero (by omega)
    subst this
    right; intro h hh; simp [lastHit] at hh
  | succ n ih =>
    cases hh : lastHit false [] none s with
    | none =>
      refine ⟨s, [], by simp [blocksText], by simp, by simp [loop, hh, addBlocks, withPattern], ?_⟩
      intro _; right; intro h hh'; rw [hh] at hh'; exact absurd hh' (by simp)
    | some h =>
      by_cases hrest : h.rest = []
      · obtain ⟨hs, hc⟩ := lastHit_some hh
        cases hadd : addBlock o h.blk init with
        | error e =>
          refine ⟨h.pre, [h.blk], by simp [hs, hrest, blocksText], by simpa using hc, ?_, ?_⟩
          · simp [loop, hh, hrest, hadd, addBlocks, withPattern]
          · intro _; left; exact ⟨e, by simp [addBlocks, hadd]⟩
        | ok q =>
          obtain ⟨r, bs, h1, h2, h3, h4⟩ := ih h.pre q
          refine ⟨r, bs ++ [h.blk], ?_, ?_, ?_, ?_⟩
          · rw [hs, hrest, h1, blocksText_append]; simp [blocksText]
          · intro x hx
            rcases List.mem_append.mp hx with hx | hx
            · exact h2 x hx
            · simp only [List.mem_singleton] at hx; subst hx; exact hc
          · simp only [loop, hh, hrest, List.isEmpty_nil, Bool.not_true, Bool.false_eq_true, if_false, hadd, h3]
            rw [addBlocks_append, hadd]
          · intro hlen
            have hpl : h.pre.length ≤ n := by
              have := h.blk.text_length_pos
              rw [hs] at hlen
              simp at hlen
              omega
            rw [addBlocks_append, hadd]
            exact h4 hpl
      · refine ⟨s, [], by simp [blocksText], by simp, ?_, ?_⟩
        · have : (!h.rest.isEmpty) = true := by simp [hrest]
          simp [loop, hh, this, addBlocks, withPattern]
        · intro _; right; intro h' hh'; rw [hh] at hh'
          simp only [Option.some.injEq] at hh'; subst hh'; exact hrest

/-! ## 3. the value scanners on rendered spellings -/

/-- the one law of the digit oracle the spelling theorems need: a character `\s` matches is not a decimal digit
(tested against CPython's tables on every run) -/
def H_space (o : Oracles) : Prop := ∀ c, isPySpace c = true → o.digitNA c = none

theorem lstrip_blank (b s : Str) (hb : allSpace b = true) (hs : ∀ c, s.head? = some c → isPySpace c = false) :
    lstrip (b ++ s) = s := by
  induction b with
  | nil =>
    cases s with
    | nil => rfl
    | cons c cs => exact Csv.lstrip_cons_of_not_space cs (hs c rfl)
  | cons x xs ih =>
    simp only [allSpace, List.all_cons, Bool.and_eq_true] at hb
    simp only [List.cons_append, lstrip, List.dropWhile_cons, hb.1, if_true]
    exact ih hb.2

theorem span_run (p : Char → Bool) (a rest : Str) (ha : ∀ c ∈ a, p c = true) (hr : ∀ c, rest.head? = some c → p c = false) :
    (a ++ rest).takeWhile p = a ∧ (a ++ rest).dropWhile p = rest := by
  induction a with
  | nil =>
    cases rest with
    | nil => simp
    | cons c cs => simp [hr c rfl]
  | cons x xs ih =>
    have hx := ha x (by simp)
    have := ih (fun c hc => ha c (by simp [hc]))
    simp [hx, this.1, this.2]

theorem ascii_digit_facts (o : Oracles) {c : Char} (h : isAsciiDigit c = true) :
    isD o c = true ∧ isNumChar o c = true ∧ isPySpace c = false ∧ c ≠ ']' := by
  have hn : 48 ≤ c.toNat ∧ c.toNat ≤ 57 := by simpa [isAsciiDigit] using h
  refine ⟨by simp [isD, digitVal, h], by simp [isNumChar, isD, digitVal, h], ?_, ?_⟩
  · simp only [isPySpace]
    have : c.toNat ≠ 0x85 ∧ c.toNat ≠ 0xa0 ∧ c.toNat ≠ 0x1680 ∧ c.toNat ≠ 0x2028 ∧ c.toNat ≠ 0x2029 ∧ c.toNat ≠ 0x202f ∧
        c.toNat ≠ 0x205f ∧ c.toNat ≠ 0x3000 := by omega
    simp [this]
    omega
  · intro e; subst e; simp at hn

theorem dot_facts (o : Oracles) : isNumChar o '.' = true ∧ isPySpace '.' = false := by
  refine ⟨by simp [isNumChar], by decide⟩

/-- an ASCII character that is neither a digit nor `.` is not in `[\d.]` — whatever the oracle -/
theorem ascii_not_num (o : Oracles) {c : Char} (h1 : c.toNat < 128) (h2 : isAsciiDigit c = false) (h3 : c ≠ '.') :
    isD o c = false ∧ isNumChar o c = false := by
  have : isD o c = false := by simp [isD, digitVal, h2, h1]
  exact ⟨this, by simp [isNumChar, this, h3]⟩

theorem space_not_num (o : Oracles) (hS : H_space o) {c : Char} (hc : isPySpace c = true) :
    isD o c = false ∧ isNumChar o c = false := by
  have hd : isAsciiDigit c = false := by
    cases h : isAsciiDigit c with
    | false => rfl
    | true => rw [(ascii_digit_facts o h).2.2.1] at hc; exact absurd hc (by simp)
  have hdot : c ≠ '.' := by intro e; subst e; exact absurd hc (by decide)
  have : isD o c = false := by
    simp only [isD, digitVal, hd, Bool.false_eq_true, if_false]
    split
    · rfl
    · simp [hS c hc]
  exact ⟨this, by simp [isNumChar, this, hdot]⟩

theorem blank_head_not_num (o : Oracles) (hS : H_space o) (b : Str) (hb : allSpace b = true) :
    (∀ c, b.head? = some c → isNumChar o c = false) ∧ (∀ c, b.head? = some c → isD o c = false) := by
  cases b with
  | nil => simp
  | cons x xs =>
    simp only [allSpace, List.all_cons, Bool.and_eq_true] at hb
    simp only [List.head?_cons, Option.some.injEq]
    exact ⟨fun c hc => hc ▸ (space_not_num o hS hb.1).2, fun c hc => hc ▸ (space_not_num o hS hb.1).1⟩

/-- a numeral in canonical (ASCII) spelling: digits and dots, not empty -/
def asciiNum (t : Str) : Bool := !t.isEmpty && t.all (fun c => isAsciiDigit c || c == '.')

theorem asciiNum_facts (o : Oracles) {t : Str} (h : asciiNum t = true) :
    t ≠ [] ∧ (∀ c ∈ t, isNumChar o c = true) ∧ (∀ c, t.head? = some c → isPySpace c = false) ∧ ']' ∉ t := by
  simp only [asciiNum, Bool.and_eq_true, Bool.not_eq_true', List.isEmpty_eq_false_iff, List.all_eq_true, Bool.or_eq_true,
    beq_iff_eq] at h
  have hc : ∀ c ∈ t, isNumChar o c = true ∧ isPySpace c = false ∧ c ≠ ']' := by
    intro c hc
    rcases h.2 c hc with hd | hd
    · exact ⟨(ascii_digit_facts o hd).2.1, (ascii_digit_facts o hd).2.2.1, (ascii_digit_facts o hd).2.2.2⟩
    · subst hd; exact ⟨(dot_facts o).1, (dot_facts o).2, by decide⟩
  refine ⟨h.1, fun c hm => (hc c hm).1, ?_, fun hm => (hc _ hm).2.2 rfl⟩
  intro c hh
  exact (hc c (List.mem_of_mem_head? hh)).2.1

theorem takeNum_run (o : Oracles) (t rest : Str) (ht : t ≠ []) (hall : ∀ c ∈ t, isNumChar o c = true)
    (hr : ∀ c, rest.head? = some c → isNumChar o c = false) : takeNum o (t ++ rest) = some (t, rest) := by
  obtain ⟨h1, h2⟩ := span_run (isNumChar o) t rest hall hr
  simp [takeNum, h1, h2, ht]

/-- `^\s*OP\s*([\d.]+)\s*$` on `blanks OP blanks numeral blanks` -/
theorem matchOpNum_value (o : Oracles) (hS : H_space o) (x : Char) (xs b1 b2 b3 t : Str)
    (hx : isPySpace x = false) (h1 : allSpace b1 = true) (h2 : allSpace b2 = true)
    (h3 : allSpace b3 = true) (ht : asciiNum t = true) :
    matchOpNum o (x :: xs) (b1 ++ ((x :: xs) ++ (b2 ++ (t ++ b3)))) = some t := by
  obtain ⟨t1, t2, t3, -⟩ := asciiNum_facts o ht
  have e1 : lstrip (b1 ++ ((x :: xs) ++ (b2 ++ (t ++ b3)))) = (x :: xs) ++ (b2 ++ (t ++ b3)) :=
    lstrip_blank _ _ h1 (fun c hc => by simp at hc; exact hc ▸ hx)
  have e2 : lstrip (b2 ++ (t ++ b3)) = t ++ b3 :=
    lstrip_blank _ _ h2 (fun c hc => by
      cases t with
      | nil => exact absurd rfl t1
      | cons y ys => exact t3 c (by simpa using hc))
  simp only [matchOpNum, e1, eat_append, e2, takeNum_run o t b3 t1 t2 (blank_head_not_num o hS b3 h3).1, h3, if_true]

/-- the operator of the pattern is not the first non-blank character of the value -/
theorem matchOpNum_head_ne (o : Oracles) (x : Char) (xs v : Str) (c : Char) (rest : Str)
    (hv : lstrip v = c :: rest) (hne : x ≠ c) : matchOpNum o (x :: xs) v = none := by
  simp [matchOpNum, hv, eat, hne]

/-- `>` / `<` followed by `=`: the one-character operator pattern does not match (`[\d.]+` does not start with `=`) -/
theorem matchOpNum_then_eq (o : Oracles) (x : Char) (v rest : Str) (hv : lstrip v = x :: '=' :: rest) :
    matchOpNum o [x] v = none := by
  have hne : isNumChar o '=' = false := (ascii_not_num o (by decide) (by decide) (by decide)).2
  have : lstrip ('=' :: rest) = '=' :: rest := Csv.lstrip_cons_of_not_space rest (by decide)
  simp [matchOpNum, hv, eat, this, takeNum, hne]

theorem matchRange_head_ne (o : Oracles) (v : Str) (c : Char) (rest : Str) (hv : lstrip v = c :: rest) (hne : ':' ≠ c) :
    matchRange o v = none := by
  simp [matchRange, hv, eat, hne]

/-! ### spellings: the modifier forms, with the blanks each regular expression allows -/

inductive AOp | gt | ge | lt | le | eq
deriving DecidableEq, Repr

def AOp.text : AOp → Str
  | .gt => ['>'] | .ge => ['>', '='] | .lt => ['<'] | .le => ['<', '='] | .eq => ['=']

def AOp.cond : AOp → NumLit → AmountCond
  | .gt => .gt | .ge => .ge | .lt => .lt | .le => .le | .eq => .eq

/-- the texts written at the `\s*` sites of a value pattern, in order of occurrence -/
structure Blanks where
  b1 : Str
  b2 : Str
  b3 : Str
  b4 : Str
  b5 : Str
deriving DecidableEq, Repr

def Blanks.ok (b : Blanks) : Bool := allSpace b.b1 && allSpace b.b2 && allSpace b.b3 && allSpace b.b4 && allSpace b.b5
def Blanks.none : Blanks := ⟨[], [], [], [], []⟩

theorem parseAmountMod_op (o : Oracles) (hS : H_space o) (op : AOp) (b : Blanks) (t : Str) (v : NumLit)
    (hb : b.ok = true) (ht : asciiNum t = true) (hv : o.pyFloat t = some v) :
    parseAmountMod o (b.b1 ++ (op.text ++ (b.b2 ++ (t ++ b.b3)))) = .ok (op.cond v) := by
  simp only [Blanks.ok, Bool.and_eq_true] at hb
  obtain ⟨⟨⟨⟨h1, h2⟩, h3⟩, -⟩, -⟩ := hb
  have hf : floatOf o t = .ok v := by simp [floatOf, hv]
  have hl : ∀ (x : Char) (xs : Str), isPySpace x = false →
      lstrip (b.b1 ++ ((x :: xs) ++ (b.b2 ++ (t ++ b.b3)))) = (x :: xs) ++ (b.b2 ++ (t ++ b.b3)) :=
    fun x xs hx => lstrip_blank _ _ h1 (fun c hc => by simp at hc; exact hc ▸ hx)
  cases op with
  | gt =>
    simp only [AOp.text, parseAmountMod, matchOpNum_value o hS '>' [] _ _ _ t (by decide) h1 h2 h3 ht, hf]
    rfl
  | ge =>
    have e := hl '>' ['='] (by decide)
    simp only [AOp.text, parseAmountMod, matchOpNum_then_eq o '>' _ _ e,
      matchOpNum_value o hS '>' ['='] _ _ _ t (by decide) h1 h2 h3 ht, hf]
    rfl
  | lt =>
    have e := hl '<' [] (by decide)
    simp only [AOp.text, parseAmountMod, matchOpNum_head_ne o '>' [] _ '<' _ e (by decide),
      matchOpNum_head_ne o '>' ['='] _ '<' _ e (by decide),
      matchOpNum_value o hS '<' [] _ _ _ t (by decide) h1 h2 h3 ht, hf]
    rfl
  | le =>
    have e := hl '<' ['='] (by decide)
    simp only [AOp.text, parseAmountMod, matchOpNum_head_ne o '>' [] _ '<' _ e (by decide),
      matchOpNum_head_ne o '>' ['='] _ '<' _ e (by decide), matchOpNum_then_eq o '<' _ _ e,
      matchOpNum_value o hS '<' ['='] _ _ _ t (by decide) h1 h2 h3 ht, hf]
    rfl
  | eq =>
    have e := hl '=' [] (by decide)
    simp only [AOp.text, parseAmountMod, matchOpNum_head_ne o '>' [] _ '=' _ e (by decide),
      matchOpNum_head_ne o '>' ['='] _ '=' _ e (by decide), matchOpNum_head_ne o '<' [] _ '=' _ e (by decide),
      matchOpNum_head_ne o '<' ['='] _ '=' _ e (by decide),
      matchOpNum_value o hS '=' [] _ _ _ t (by decide) h1 h2 h3 ht, hf]
    rfl

theorem parseAmountMod_range (o : Oracles) (hS : H_space o) (b : Blanks) (lo hi : Str) (vlo vhi : NumLit)
    (hb : b.ok = true) (hlo : asciiNum lo = true) (hhi : asciiNum hi = true)
    (hvlo : o.pyFloat lo = some vlo) (hvhi : o.pyFloat hi = some vhi) :
    parseAmountMod o (b.b1 ++ (':' :: (b.b2 ++ (lo ++ (b.b3 ++ ('-' :: (b.b4 ++ (hi ++ b.b5)))))))) = .ok (.range vlo vhi) := by
  simp only [Blanks.ok, Bool.and_eq_true] at hb
  obtain ⟨⟨⟨⟨h1, h2⟩, h3⟩, h4⟩, h5⟩ := hb
  obtain ⟨l1, l2, l3, -⟩ := asciiNum_facts o hlo
  obtain ⟨r1, r2, r3, -⟩ := asciiNum_facts o hhi
  have e : lstrip (b.b1 ++ (':' :: (b.b2 ++ (lo ++ (b.b3 ++ ('-' :: (b.b4 ++ (hi ++ b.b5)))))))) =
      ':' :: (b.b2 ++ (lo ++ (b.b3 ++ ('-' :: (b.b4 ++ (hi ++ b.b5)))))) :=
    lstrip_blank _ _ h1 (fun c hc => by simp at hc; exact hc ▸ (by decide))
  have e2 : lstrip (b.b2 ++ (lo ++ (b.b3 ++ ('-' :: (b.b4 ++ (hi ++ b.b5)))))) = lo ++ (b.b3 ++ ('-' :: (b.b4 ++ (hi ++ b.b5)))) :=
    lstrip_blank _ _ h2 (fun c hc => by
      cases lo with
      | nil => exact absurd rfl l1
      | cons y ys => exact l3 c (by simpa using hc))
  have hminus : isNumChar o '-' = false := (ascii_not_num o (by decide) (by decide) (by decide)).2
  have hr1 : ∀ c, (b.b3 ++ ('-' :: (b.b4 ++ (hi ++ b.b5)))).head? = some c → isNumChar o c = false := by
    intro c hc
    cases hb3 : b.b3 with
    | nil => rw [hb3] at hc; simp at hc; exact hc ▸ hminus
    | cons y ys =>
      rw [hb3] at hc h3
      exact (blank_head_not_num o hS _ h3).1 c (by simpa using hc)
  have e3 : lstrip (b.b3 ++ ('-' :: (b.b4 ++ (hi ++ b.b5)))) = '-' :: (b.b4 ++ (hi ++ b.b5)) :=
    lstrip_blank _ _ h3 (fun c hc => by simp at hc; exact hc ▸ (by decide))
  have e4 : lstrip (b.b4 ++ (hi ++ b.b5)) = hi ++ b.b5 :=
    lstrip_blank _ _ h4 (fun c hc => by
      cases hi with
      | nil => exact absurd rfl r1
      | cons y ys => exact r3 c (by simpa using hc))
  have hm : matchRange o (b.b1 ++ (':' :: (b.b2 ++ (lo ++ (b.b3 ++ ('-' :: (b.b4 ++ (hi ++ b.b5)))))))) = some (lo, hi) := by
    simp only [matchRange, e, eat, beq_self_eq_true, if_true, e2, takeNum_run o lo _ l1 l2 hr1, e3, e4,
      takeNum_run o hi b.b5 r1 r2 (blank_head_not_num o hS b.b5 h5).1, h5]
  simp only [parseAmountMod, matchOpNum_head_ne o '>' [] _ ':' _ e (by decide),
    matchOpNum_head_ne o '>' ['='] _ ':' _ e (by decide), matchOpNum_head_ne o '<' [] _ ':' _ e (by decide),
    matchOpNum_head_ne o '<' ['='] _ ':' _ e (by decide), matchOpNum_head_ne o '=' [] _ ':' _ e (by decide), hm]
  simp [floatOf, hvlo, hvhi, Except.map]

/-! ### decimal texts: `str(n)`, zero padding, ISO dates -/

open TallyVerif.Migrate (iso digits pad)

theorem digits_ascii (n : Nat) : ∀ c ∈ digits n, isAsciiDigit c = true := by
  intro c hc
  have h := Nat.isDigit_of_mem_toDigits (b := 10) (by decide) (by decide) hc
  simp only [Char.isDigit, Bool.and_eq_true, decide_eq_true_eq] at h
  have h1 : 48 ≤ c.toNat := by
    have := h.1
    exact UInt32.le_iff_toNat_le.mp this
  have h2 : c.toNat ≤ 57 := by
    have := h.2
    exact UInt32.le_iff_toNat_le.mp this
  simp [isAsciiDigit, h1, h2]

theorem pad_ascii (w : Nat) (s : Str) (hs : ∀ c ∈ s, isAsciiDigit c = true) : ∀ c ∈ pad w s, isAsciiDigit c = true := by
  intro c hc
  simp only [pad, List.mem_append, List.mem_replicate] at hc
  rcases hc with ⟨-, rfl⟩ | hc
  · decide
  · exact hs c hc

theorem pad_length (w : Nat) (s : Str) (h : s.length ≤ w) : (pad w s).length = w := by
  simp [pad]; omega

theorem natOf_ascii_aux (o : Oracles) (s : Str) (hs : ∀ c ∈ s, isAsciiDigit c = true) (init : Nat) :
    s.foldl (fun a c => 10 * a + (digitVal o c).getD 0) init =
      s.foldl (fun sofar c => 10 * sofar + (c.toNat - '0'.toNat)) init := by
  induction s generalizing init with
  | nil => rfl
  | cons c cs ih =>
    have hc := hs c (by simp)
    simp only [List.foldl_cons, digitVal, hc, if_true, Option.getD_some]
    exact ih (fun x hx => hs x (by simp [hx])) _

theorem natOf_ascii (o : Oracles) (s : Str) (hs : ∀ c ∈ s, isAsciiDigit c = true) : natOf o s = Nat.ofDigitChars 10 s 0 :=
  natOf_ascii_aux o s hs 0

theorem natOf_digits (o : Oracles) (n : Nat) : natOf o (digits n) = n := by
  rw [natOf_ascii o _ (digits_ascii n)]
  exact Nat.ofDigitChars_ten_toDigits

theorem natOf_pad_digits (o : Oracles) (w n : Nat) : natOf o (pad w (digits n)) = n := by
  rw [natOf_ascii o _ (pad_ascii w _ (digits_ascii n))]
  simp only [pad, Nat.ofDigitChars_append, Nat.ofDigitChars_replicate_zero, Nat.mul_zero]
  exact Nat.ofDigitChars_ten_toDigits

theorem digits_length_le (n k : Nat) (hk : 0 < k) (h : n < 10 ^ k) : (digits n).length ≤ k :=
  (Nat.length_toDigits_le_iff (b := 10) (by decide) hk).mpr h

theorem digits_ne_nil (n : Nat) : digits n ≠ [] := Nat.toDigits_ne_nil

theorem takeDigits_exact (o : Oracles) (s r : Str) (hs : ∀ c ∈ s, isD o c = true) :
    takeDigits o s.length (s ++ r) = some (s, r) := by
  induction s with
  | nil => simp [takeDigits]
  | cons c cs ih =>
    have hc := hs c (by simp)
    simp [takeDigits, hc, ih (fun x hx => hs x (by simp [hx]))]

/-- the three digit groups `date.isoformat()` writes -/
def isoText (d : Date) : DateText := ⟨pad 4 (digits d.y), pad 2 (digits d.m), pad 2 (digits d.d)⟩

theorem iso_eq (d : Date) : iso d = (isoText d).y ++ ('-' :: ((isoText d).m ++ ('-' :: (isoText d).d))) := by
  simp [iso, isoText]

theorem validYmd_bounds {y m d : Nat} (h : validYmd y m d = true) : 1 ≤ y ∧ y ≤ 9999 ∧ 1 ≤ m ∧ m ≤ 12 ∧ 1 ≤ d ∧ d ≤ 31 := by
  simp only [validYmd, Bool.and_eq_true, decide_eq_true_eq] at h
  obtain ⟨⟨⟨⟨⟨h1, h2⟩, h3⟩, h4⟩, h5⟩, h6⟩ := h
  refine ⟨h1, h2, h3, h4, h5, ?_⟩
  have : daysIn y m ≤ 31 := by
    unfold daysIn
    split
    · split <;> omega
    · split <;> omega
  omega

theorem isoText_facts (o : Oracles) (d : Date) (h : validYmd d.y d.m d.d = true) :
    (isoText d).y.length = 4 ∧ (isoText d).m.length = 2 ∧ (isoText d).d.length = 2 ∧
    (∀ c ∈ (isoText d).y, isAsciiDigit c = true) ∧ (∀ c ∈ (isoText d).m, isAsciiDigit c = true) ∧
    (∀ c ∈ (isoText d).d, isAsciiDigit c = true) ∧ dateOf o (isoText d) = .ok d := by
  obtain ⟨h1, h2, h3, h4, h5, h6⟩ := validYmd_bounds h
  have a1 := pad_ascii 4 _ (digits_ascii d.y)
  have a2 := pad_ascii 2 _ (digits_ascii d.m)
  have a3 := pad_ascii 2 _ (digits_ascii d.d)
  refine ⟨pad_length 4 _ (digits_length_le d.y 4 (by decide) (by omega)),
    pad_length 2 _ (digits_length_le d.m 2 (by decide) (by omega)),
    pad_length 2 _ (digits_length_le d.d 2 (by decide) (by omega)), a1, a2, a3, ?_⟩
  have hasc : (isoText d).ascii = true := by
    simp only [DateText.ascii, isoText, Bool.and_eq_true, List.all_eq_true]
    exact ⟨⟨a1, a2⟩, a3⟩
  have e : dateOf o (isoText d) = if validYmd (natOf o (isoText d).y) (natOf o (isoText d).m) (natOf o (isoText d).d) then
      .ok ⟨natOf o (isoText d).y, natOf o (isoText d).m, natOf o (isoText d).d⟩ else .error .value := by
    simp only [dateOf, hasc, if_true]
  rw [e]
  simp only [isoText, natOf_pad_digits, h, if_true]

/-- `(\d{4}-\d{2}-\d{2})` on an ISO date -/
theorem takeDate_iso (o : Oracles) (d : Date) (rest : Str) (h : validYmd d.y d.m d.d = true) :
    takeDate o (iso d ++ rest) = some (isoText d, rest) := by
  obtain ⟨l1, l2, l3, a1, a2, a3, -⟩ := isoText_facts o d h
  have d1 : ∀ c ∈ (isoText d).y, isD o c = true := fun c hc => (ascii_digit_facts o (a1 c hc)).1
  have d2 : ∀ c ∈ (isoText d).m, isD o c = true := fun c hc => (ascii_digit_facts o (a2 c hc)).1
  have d3 : ∀ c ∈ (isoText d).d, isD o c = true := fun c hc => (ascii_digit_facts o (a3 c hc)).1
  have t1 := takeDigits_exact o (isoText d).y ('-' :: ((isoText d).m ++ ('-' :: ((isoText d).d ++ rest)))) d1
  have t2 := takeDigits_exact o (isoText d).m ('-' :: ((isoText d).d ++ rest)) d2
  have t3 := takeDigits_exact o (isoText d).d rest d3
  rw [l1] at t1; rw [l2] at t2; rw [l3] at t3
  simp only [takeDate, iso_eq, List.append_assoc, List.cons_append, t1, eat, beq_self_eq_true, if_true, t2, t3]

theorem iso_head (d : Date) (h : validYmd d.y d.m d.d = true) (o : Oracles) :
    ∀ c, (iso d).head? = some c → isPySpace c = false := by
  obtain ⟨l1, -, -, a1, -, -, -⟩ := isoText_facts o d h
  intro c hc
  rw [iso_eq] at hc
  cases hy : (isoText d).y with
  | nil => rw [hy] at l1; simp at l1
  | cons x xs =>
    rw [hy] at hc a1
    simp only [List.cons_append, List.head?_cons, Option.some.injEq] at hc
    exact hc ▸ (ascii_digit_facts o (a1 x (by simp))).2.2.1

theorem iso_no_close (d : Date) : ']' ∉ iso d := by
  intro h
  simp only [iso, List.mem_append, List.mem_singleton] at h
  have key : ∀ w n, ']' ∉ pad w (digits n) := by
    intro w n hm
    have := pad_ascii w _ (digits_ascii n) _ hm
    exact absurd this (by decide)
  rcases h with (((h | h) | h) | h) | h
  · exact key _ _ h
  · exact absurd h (by decide)
  · exact key _ _ h
  · exact absurd h (by decide)
  · exact key _ _ h

/-! ### date and month modifiers -/

theorem parseDateMod_on (o : Oracles) (b : Blanks) (d : Date) (hb : b.ok = true) (hd : validYmd d.y d.m d.d = true) :
    parseDateMod o (b.b1 ++ ('=' :: (b.b2 ++ (iso d ++ b.b3)))) = .ok (.on d) := by
  simp only [Blanks.ok, Bool.and_eq_true] at hb
  obtain ⟨⟨⟨⟨h1, h2⟩, h3⟩, -⟩, -⟩ := hb
  have e : lstrip (b.b1 ++ ('=' :: (b.b2 ++ (iso d ++ b.b3)))) = '=' :: (b.b2 ++ (iso d ++ b.b3)) :=
    lstrip_blank _ _ h1 (fun c hc => by simp at hc; exact hc ▸ (by decide))
  have e2 : lstrip (b.b2 ++ (iso d ++ b.b3)) = iso d ++ b.b3 :=
    lstrip_blank _ _ h2 (fun c hc => by
      cases hi : iso d with
      | nil => have := iso_head d hd o; rw [iso_eq] at hi; obtain ⟨l1, -⟩ := isoText_facts o d hd; cases hy : (isoText d).y <;> simp_all
      | cons y ys => rw [hi] at hc; exact iso_head d hd o c (by rw [hi]; simpa using hc))
  simp only [parseDateMod, matchDateEq, e, eat, beq_self_eq_true, if_true, e2, takeDate_iso o d _ hd, h3,
    (isoText_facts o d hd).2.2.2.2.2.2]
  rfl

theorem matchDateEq_head_ne (o : Oracles) (v : Str) (c : Char) (rest : Str) (hv : lstrip v = c :: rest) (hne : '=' ≠ c) :
    matchDateEq o v = none := by
  simp [matchDateEq, hv, eat, hne]

theorem lstrip_blank_iso (b rest : Str) (d : Date) (o : Oracles) (hb : allSpace b = true) (hd : validYmd d.y d.m d.d = true) :
    lstrip (b ++ (iso d ++ rest)) = iso d ++ rest :=
  lstrip_blank _ _ hb (fun c hc => by
    obtain ⟨l1, -⟩ := isoText_facts o d hd
    have hh := iso_head d hd o
    cases hi : iso d with
    | nil => rw [iso_eq] at hi; cases hy : (isoText d).y <;> simp_all
    | cons y ys => rw [hi] at hc hh; exact hh c (by simpa using hc))

theorem parseDateMod_range (o : Oracles) (b : Blanks) (x y : Date) (hb : b.ok = true)
    (hx : validYmd x.y x.m x.d = true) (hy : validYmd y.y y.m y.d = true) :
    parseDateMod o (b.b1 ++ (':' :: (b.b2 ++ (iso x ++ (b.b3 ++ ('.' :: '.' :: (b.b4 ++ (iso y ++ b.b5)))))))) =
      .ok (.range x y) := by
  simp only [Blanks.ok, Bool.and_eq_true] at hb
  obtain ⟨⟨⟨⟨h1, h2⟩, h3⟩, h4⟩, h5⟩ := hb
  have e : lstrip (b.b1 ++ (':' :: (b.b2 ++ (iso x ++ (b.b3 ++ ('.' :: '.' :: (b.b4 ++ (iso y ++ b.b5)))))))) =
      ':' :: (b.b2 ++ (iso x ++ (b.b3 ++ ('.' :: '.' :: (b.b4 ++ (iso y ++ b.b5)))))) :=
    lstrip_blank _ _ h1 (fun c hc => by simp at hc; exact hc ▸ (by decide))
  have e2 := lstrip_blank_iso b.b2 (b.b3 ++ ('.' :: '.' :: (b.b4 ++ (iso y ++ b.b5)))) x o h2 hx
  have e3 : lstrip (b.b3 ++ ('.' :: '.' :: (b.b4 ++ (iso y ++ b.b5)))) = '.' :: '.' :: (b.b4 ++ (iso y ++ b.b5)) :=
    lstrip_blank _ _ h3 (fun c hc => by simp at hc; exact hc ▸ (by decide))
  have e4 := lstrip_blank_iso b.b4 b.b5 y o h4 hy
  have hm : matchDateRange o (b.b1 ++ (':' :: (b.b2 ++ (iso x ++ (b.b3 ++ ('.' :: '.' :: (b.b4 ++ (iso y ++ b.b5)))))))) =
      some (isoText x, isoText y) := by
    simp only [matchDateRange, e, eat, beq_self_eq_true, if_true, e2, takeDate_iso o x _ hx, e3, e4, takeDate_iso o y _ hy, h5]
  simp only [parseDateMod, matchDateEq_head_ne o _ ':' _ e (by decide), hm, (isoText_facts o x hx).2.2.2.2.2.2,
    (isoText_facts o y hy).2.2.2.2.2.2]
  rfl

theorem eatCI_self (p s : Str) : eatCI p (p ++ s) = some s := by
  induction p with
  | nil => rfl
  | cons c cs ih => simp [eatCI, ciMatch, ih]

theorem takeDate_letter (o : Oracles) (c : Char) (rest : Str) (h : isD o c = false) : takeDate o (c :: rest) = none := by
  simp [takeDate, takeDigits, h]

theorem parseDateMod_relative (o : Oracles) (b : Blanks) (n : Nat) (hb : b.ok = true)
    (hn : o.maxStrDigits = 0 ∨ (digits n).length ≤ o.maxStrDigits) :
    parseDateMod o (b.b1 ++ (':' :: (b.b2 ++ (['l', 'a', 's', 't'] ++ (digits n ++ (['d', 'a', 'y', 's'] ++ b.b3)))))) =
      .ok (.relative n) := by
  simp only [Blanks.ok, Bool.and_eq_true] at hb
  obtain ⟨⟨⟨⟨h1, h2⟩, h3⟩, -⟩, -⟩ := hb
  have e : lstrip (b.b1 ++ (':' :: (b.b2 ++ (['l', 'a', 's', 't'] ++ (digits n ++ (['d', 'a', 'y', 's'] ++ b.b3)))))) =
      ':' :: (b.b2 ++ (['l', 'a', 's', 't'] ++ (digits n ++ (['d', 'a', 'y', 's'] ++ b.b3)))) :=
    lstrip_blank _ _ h1 (fun c hc => by simp at hc; exact hc ▸ (by decide))
  have e2 : lstrip (b.b2 ++ (['l', 'a', 's', 't'] ++ (digits n ++ (['d', 'a', 'y', 's'] ++ b.b3)))) =
      ['l', 'a', 's', 't'] ++ (digits n ++ (['d', 'a', 'y', 's'] ++ b.b3)) :=
    lstrip_blank _ _ h2 (fun c hc => by simp at hc; exact hc ▸ (by decide))
  have hl : isD o 'l' = false := (ascii_not_num o (by decide) (by decide) (by decide)).1
  have hdd : isD o 'd' = false := (ascii_not_num o (by decide) (by decide) (by decide)).1
  have hspan := span_run (isD o) (digits n) (['d', 'a', 'y', 's'] ++ b.b3)
    (fun c hc => (ascii_digit_facts o (digits_ascii n c hc)).1) (fun c hc => by simp at hc; exact hc ▸ hdd)
  have hrange : matchDateRange o (b.b1 ++ (':' :: (b.b2 ++ (['l', 'a', 's', 't'] ++ (digits n ++ (['d', 'a', 'y', 's'] ++ b.b3)))))) =
      none := by
    simp only [matchDateRange, e, eat, beq_self_eq_true, if_true, e2]
    rw [show ['l', 'a', 's', 't'] ++ (digits n ++ (['d', 'a', 'y', 's'] ++ b.b3)) =
      'l' :: (['a', 's', 't'] ++ (digits n ++ (['d', 'a', 'y', 's'] ++ b.b3))) from rfl, takeDate_letter o 'l' _ hl]
  have hrel : matchRelative o (b.b1 ++ (':' :: (b.b2 ++ (['l', 'a', 's', 't'] ++ (digits n ++ (['d', 'a', 'y', 's'] ++ b.b3)))))) =
      some (digits n) := by
    simp only [matchRelative, e, eat, beq_self_eq_true, if_true, e2, eatCI_self, hspan.1, hspan.2, h3]
    simp [digits_ne_nil]
  have hint : intOf o (digits n) = .ok n := by
    simp only [intOf, natOf_digits]
    rcases hn with h0 | hle
    · simp [h0]
    · have : ¬ (digits n).length > o.maxStrDigits := by omega
      simp [this]
  simp only [parseDateMod, matchDateEq_head_ne o _ ':' _ e (by decide), hrange, hrel, hint]
  rfl

/-- the digits written for a month: `str(m)` or zero-padded to two -/
def monthText (m : Nat) (padded : Bool) : Str := if padded then pad 2 (digits m) else digits m

theorem parseMonthMod_value (o : Oracles) (hS : H_space o) (b : Blanks) (m : Nat) (padded : Bool) (hb : b.ok = true)
    (h1m : 1 ≤ m) (hm12 : m ≤ 12) :
    parseMonthMod o (b.b1 ++ ('=' :: (b.b2 ++ (monthText m padded ++ b.b3)))) = .ok (.month m) := by
  simp only [Blanks.ok, Bool.and_eq_true] at hb
  obtain ⟨⟨⟨⟨h1, h2⟩, h3⟩, -⟩, -⟩ := hb
  have hlen2 := digits_length_le m 2 (by decide) (by omega)
  have hasc : ∀ c ∈ monthText m padded, isAsciiDigit c = true := by
    unfold monthText; split
    · exact pad_ascii 2 _ (digits_ascii m)
    · exact digits_ascii m
  have hlen : (monthText m padded).length = 1 ∨ (monthText m padded).length = 2 := by
    unfold monthText; split
    · right; exact pad_length 2 _ hlen2
    · have := List.length_pos_iff.mpr (digits_ne_nil m); omega
  have hval : natOf o (monthText m padded) = m := by
    unfold monthText; split
    · exact natOf_pad_digits o 2 m
    · exact natOf_digits o m
  have hne : monthText m padded ≠ [] := by
    intro e0; rw [e0] at hlen; simp at hlen
  have e : lstrip (b.b1 ++ ('=' :: (b.b2 ++ (monthText m padded ++ b.b3)))) = '=' :: (b.b2 ++ (monthText m padded ++ b.b3)) :=
    lstrip_blank _ _ h1 (fun c hc => by simp at hc; exact hc ▸ (by decide))
  have e2 : lstrip (b.b2 ++ (monthText m padded ++ b.b3)) = monthText m padded ++ b.b3 :=
    lstrip_blank _ _ h2 (fun c hc => by
      cases hmt : monthText m padded with
      | nil => exact absurd hmt hne
      | cons y ys =>
        rw [hmt] at hc hasc
        simp only [List.cons_append, List.head?_cons, Option.some.injEq] at hc
        exact hc ▸ (ascii_digit_facts o (hasc y (by simp))).2.2.1)
  have hspan := span_run (isD o) (monthText m padded) b.b3
    (fun c hc => (ascii_digit_facts o (hasc c hc)).1) (blank_head_not_num o hS b.b3 h3).2
  have hmm : matchMonth o (b.b1 ++ ('=' :: (b.b2 ++ (monthText m padded ++ b.b3)))) = some (monthText m padded) := by
    simp only [matchMonth, e, eat, beq_self_eq_true, if_true, e2, hspan.1, hspan.2, h3, Bool.and_true]
    rcases hlen with hl | hl <;> simp [hl]
  simp only [parseMonthMod, hmm, hval]
  simp [h1m, hm12]

/-! ### the modifier forms as data, their text, the conditions they denote -/

/-- one modifier as the generator of a rule file thinks of it.  Amount texts are numerals in ASCII spelling, each with the
value `float()` gives it; dates and numbers are written the way Python prints them (`date.isoformat()`, `str(n)`) -/
inductive ModT
  | amountOp (op : AOp) (t : Str) (v : NumLit)
  | amountRange (lo hi : Str) (vlo vhi : NumLit)
  | dateOn (d : Date)
  | dateRange (a b : Date)
  | relative (n : Nat)
  | month (m : Nat) (padded : Bool)
deriving DecidableEq, Repr

def ModT.kw : ModT → Kw
  | .amountOp .. | .amountRange .. => .amount
  | .dateOn .. | .dateRange .. | .relative .. => .date
  | .month .. => .month

/-- the value text of the block, blanks `b` at the `\s*` sites -/
def ModT.value (b : Blanks) : ModT → Str
  | .amountOp op t _ => b.b1 ++ (op.text ++ (b.b2 ++ (t ++ b.b3)))
  | .amountRange lo hi _ _ => b.b1 ++ (':' :: (b.b2 ++ (lo ++ (b.b3 ++ ('-' :: (b.b4 ++ (hi ++ b.b5)))))))
  | .dateOn d => b.b1 ++ ('=' :: (b.b2 ++ (iso d ++ b.b3)))
  | .dateRange x y => b.b1 ++ (':' :: (b.b2 ++ (iso x ++ (b.b3 ++ ('.' :: '.' :: (b.b4 ++ (iso y ++ b.b5)))))))
  | .relative n => b.b1 ++ (':' :: (b.b2 ++ (['l', 'a', 's', 't'] ++ (digits n ++ (['d', 'a', 'y', 's'] ++ b.b3)))))
  | .month m padded => b.b1 ++ ('=' :: (b.b2 ++ (monthText m padded ++ b.b3)))

def ModT.block (m : ModT) (b : Blanks) : Block := ⟨m.kw, m.value b⟩

/-- what makes the form readable: the numerals are numerals `float()` accepts, the dates exist, the month is a month -/
def ModT.ok (o : Oracles) : ModT → Prop
  | .amountOp _ t v => asciiNum t = true ∧ o.pyFloat t = some v
  | .amountRange lo hi vlo vhi => asciiNum lo = true ∧ asciiNum hi = true ∧ o.pyFloat lo = some vlo ∧ o.pyFloat hi = some vhi
  | .dateOn d => validYmd d.y d.m d.d = true
  | .dateRange x y => validYmd x.y x.m x.d = true ∧ validYmd y.y y.m y.d = true
  | .relative n => o.maxStrDigits = 0 ∨ (digits n).length ≤ o.maxStrDigits
  | .month m _ => 1 ≤ m ∧ m ≤ 12

instance (o : Oracles) (m : ModT) : Decidable (m.ok o) := by
  cases m <;> simp only [ModT.ok] <;> exact inferInstance

/-- the condition the form denotes, put at the front of its list -/
def ModT.addTo : ModT → Parsed → Parsed
  | .amountOp op _ v, p => { p with amount := op.cond v :: p.amount }
  | .amountRange _ _ vlo vhi, p => { p with amount := .range vlo vhi :: p.amount }
  | .dateOn d, p => { p with date := .on d :: p.date }
  | .dateRange x y, p => { p with date := .range x y :: p.date }
  | .relative n, p => { p with date := .relative n :: p.date }
  | .month m _, p => { p with date := .month m :: p.date }

theorem addBlock_mod (o : Oracles) (hS : H_space o) (m : ModT) (b : Blanks) (p : Parsed) (hb : b.ok = true) (hm : m.ok o) :
    addBlock o (m.block b) p = .ok (m.addTo p) := by
  cases m with
  | amountOp op t v =>
    simp only [addBlock, ModT.block, ModT.kw, ModT.value, parseAmountMod_op o hS op b t v hb hm.1 hm.2]; rfl
  | amountRange lo hi vlo vhi =>
    simp only [addBlock, ModT.block, ModT.kw, ModT.value,
      parseAmountMod_range o hS b lo hi vlo vhi hb hm.1 hm.2.1 hm.2.2.1 hm.2.2.2]; rfl
  | dateOn d => simp only [addBlock, ModT.block, ModT.kw, ModT.value, parseDateMod_on o b d hb hm]; rfl
  | dateRange x y => simp only [addBlock, ModT.block, ModT.kw, ModT.value, parseDateMod_range o b x y hb hm.1 hm.2]; rfl
  | relative n => simp only [addBlock, ModT.block, ModT.kw, ModT.value, parseDateMod_relative o b n hb hm]; rfl
  | month m padded =>
    simp only [addBlock, ModT.block, ModT.kw, ModT.value, parseMonthMod_value o hS b m padded hb hm.1 hm.2]; rfl

theorem blank_no_close (b : Str) (hb : allSpace b = true) : ']' ∉ b := by
  intro h
  have := List.all_eq_true.mp hb _ h
  exact absurd this (by decide)

theorem digits_no_close (n : Nat) : ']' ∉ digits n := fun h => absurd (digits_ascii n _ h) (by decide)

theorem block_closed (o : Oracles) (m : ModT) (b : Blanks) (hb : b.ok = true) (hm : m.ok o) : (m.block b).closed := by
  simp only [Blanks.ok, Bool.and_eq_true] at hb
  obtain ⟨⟨⟨⟨h1, h2⟩, h3⟩, h4⟩, h5⟩ := hb
  have n1 := blank_no_close _ h1
  have n2 := blank_no_close _ h2
  have n3 := blank_no_close _ h3
  have n4 := blank_no_close _ h4
  have n5 := blank_no_close _ h5
  unfold Block.closed ModT.block
  cases m with
  | amountOp op t v =>
    have nt := (asciiNum_facts o hm.1).2.2.2
    have nop : ']' ∉ op.text := by cases op <;> simp [AOp.text]
    simp only [ModT.value, List.mem_append, not_or]
    exact ⟨n1, nop, n2, nt, n3⟩
  | amountRange lo hi vlo vhi =>
    have nl := (asciiNum_facts o hm.1).2.2.2
    have nh := (asciiNum_facts o hm.2.1).2.2.2
    simp only [ModT.value, List.mem_append, List.mem_cons, not_or]
    exact ⟨n1, by decide, n2, nl, n3, by decide, n4, nh, n5⟩
  | dateOn d =>
    simp only [ModT.value, List.mem_append, List.mem_cons, not_or]
    exact ⟨n1, by decide, n2, iso_no_close d, n3⟩
  | dateRange x y =>
    simp only [ModT.value, List.mem_append, List.mem_cons, not_or]
    exact ⟨n1, by decide, n2, iso_no_close x, n3, by decide, by decide, n4, iso_no_close y, n5⟩
  | relative n =>
    simp only [ModT.value, List.mem_append, List.mem_cons, not_or]
    exact ⟨n1, by decide, n2, by decide, digits_no_close n, by decide, n3⟩
  | month m padded =>
    have nm : ']' ∉ monthText m padded := by
      unfold monthText; split
      · intro h; exact absurd (pad_ascii 2 _ (digits_ascii m) _ h) (by decide)
      · exact digits_no_close m
    simp only [ModT.value, List.mem_append, List.mem_cons, not_or]
    exact ⟨n1, by decide, n2, nm, n3⟩

/-- the blocks of a list of (form, blanks) -/
def modBlocks (l : List (ModT × Blanks)) : List Block := l.map fun x => x.1.block x.2

/-- the conditions a list of forms denotes, in the order written -/
def condsOf (ms : List ModT) (init : Parsed) : Parsed := ms.foldr ModT.addTo init

theorem addBlocks_mods (o : Oracles) (hS : H_space o) (l : List (ModT × Blanks)) (init : Parsed)
    (hl : ∀ x ∈ l, x.2.ok = true ∧ x.1.ok o) :
    addBlocks o (modBlocks l) init = .ok (condsOf (l.map (·.1)) init) := by
  induction l with
  | nil => rfl
  | cons x xs ih =>
    have hx := hl x (by simp)
    have := ih (fun y hy => hl y (by simp [hy]))
    simp only [addBlocks, modBlocks, List.map_cons, List.foldr_cons] at this ⊢
    rw [this]
    exact addBlock_mod o hS x.1 x.2 _ hx.1 hx.2

theorem modBlocks_closed (o : Oracles) (l : List (ModT × Blanks)) (hl : ∀ x ∈ l, x.2.ok = true ∧ x.1.ok o) :
    ∀ b ∈ modBlocks l, b.closed := by
  intro b hb
  simp only [modBlocks, List.mem_map] at hb
  obtain ⟨x, hx, rfl⟩ := hb
  exact block_closed o x.1 x.2 (hl x hx).1 (hl x hx).2

theorem condsOf_amount (ms : List ModT) (init : Parsed) :
    (condsOf ms init).amount = (condsOf ms ⟨[], []⟩).amount ++ init.amount ∧
    (condsOf ms init).date = (condsOf ms ⟨[], []⟩).date ++ init.date := by
  induction ms with
  | nil => simp [condsOf]
  | cons m ms ih =>
    simp only [condsOf, List.foldr_cons] at ih ⊢
    cases m <;> simp [ModT.addTo, ih.1, ih.2]

/-! ## 4. the file side -/

theorem physLines_ne_nil (t : Str) (h : t ≠ []) : physLines t ≠ [] := by
  cases t with
  | nil => exact absurd rfl h
  | cons c cs =>
    simp only [physLines]
    split
    · simp
    · split <;> simp

theorem physLines_flatten (t : Str) : (physLines t).flatten = t := by
  induction t with
  | nil => rfl
  | cons c cs ih =>
    simp only [physLines]
    split
    · rename_i hc; simp [ih, eq_of_beq hc]
    · split
      · rename_i hp; rw [hp] at ih; simp at ih; simp [← ih]
      · rename_i l ls hp; rw [hp] at ih; simp at ih; simp [← ih]

/-- a physical line: text without line feed, then the line feed -/
theorem physLines_line (body rest : Str) (hb : '\n' ∉ body) :
    physLines (body ++ '\n' :: rest) = (body ++ ['\n']) :: physLines rest := by
  induction body with
  | nil => simp [physLines]
  | cons c cs ih =>
    have hc : c ≠ '\n' := fun e => hb (by simp [e])
    have := ih (fun e => hb (by simp [e]))
    simp [physLines, hc, this]

theorem physLines_append (a b : Str) (ha : a = [] ∨ a.getLast? = some '\n') :
    physLines (a ++ b) = physLines a ++ physLines b := by
  induction a with
  | nil => simp [physLines]
  | cons c cs ih =>
    have hlast : (c :: cs).getLast? = some '\n' := by
      rcases ha with h | h
      · exact absurd h (by simp)
      · exact h
    by_cases hc : c = '\n'
    · subst hc
      have hcs : cs = [] ∨ cs.getLast? = some '\n' := by
        cases cs with
        | nil => left; rfl
        | cons d ds => right; simpa [List.getLast?_cons_cons] using hlast
      simp [physLines, ih hcs]
    · have hne : cs ≠ [] := by
        intro e; subst e; simp at hlast; exact hc hlast
      have hcs : cs.getLast? = some '\n' := by
        cases cs with
        | nil => exact absurd rfl hne
        | cons d ds => simpa [List.getLast?_cons_cons] using hlast
      have hi := ih (Or.inr hcs)
      have hp := physLines_ne_nil cs hne
      simp only [List.cons_append, physLines, hc, beq_iff_eq, if_false, hi]
      cases hpl : physLines cs with
      | nil => exact absurd hpl hp
      | cons l ls => simp

/-- `'\n'` replaced by `"\r\n"` (a file written with Windows line ends) -/
def toCrlf : Str → Str
  | [] => []
  | c :: cs => if c == '\n' then '\r' :: '\n' :: toCrlf cs else c :: toCrlf cs

theorem univNl_cons (c : Char) (r : Str) (hc : c ≠ '\r') : univNl (c :: r) = c :: univNl r := by
  rw [univNl]
  · intro r' heq; exact absurd heq hc
  · intro heq; exact hc heq

theorem univNl_of_noCR (t : Str) (h : '\r' ∉ t) : univNl t = t := by
  induction t with
  | nil => rfl
  | cons c cs ih =>
    have hc : c ≠ '\r' := fun e => h (by simp [e])
    rw [univNl_cons c cs hc, ih (fun e => h (by simp [e]))]

theorem univNl_toCrlf (t : Str) (h : '\r' ∉ t) : univNl (toCrlf t) = t := by
  induction t with
  | nil => rfl
  | cons c cs ih =>
    have hc : c ≠ '\r' := fun e => h (by simp [e])
    have := ih (fun e => h (by simp [e]))
    simp only [toCrlf]
    split
    · rename_i hn
      simp [univNl, this, eq_of_beq hn]
    · rw [univNl_cons c _ hc, this]

/-! ### tables written by `csv.writer` -/

theorem mem_escapeQuotes (f : Str) (c : Char) (h : c ∈ Csv.escapeQuotes f) : c ∈ f ∨ c = '"' := by
  induction f with
  | nil => simp [Csv.escapeQuotes] at h
  | cons x xs ih =>
    simp only [Csv.escapeQuotes] at h
    split at h
    · rename_i hx
      simp only [List.mem_cons] at h
      rcases h with h | h | h
      · right; exact h
      · right; exact h
      · rcases ih h with h | h
        · left; simp [h]
        · right; exact h
    · simp only [List.mem_cons] at h
      rcases h with h | h
      · left; simp [h]
      · rcases ih h with h | h
        · left; simp [h]
        · right; exact h

theorem mem_writeField (d : Char) (f : Str) (c : Char) (h : c ∈ Csv.writeField d f) : c ∈ f ∨ c = '"' := by
  simp only [Csv.writeField] at h
  split at h
  · simp only [List.mem_cons, List.mem_append, List.not_mem_nil, or_false] at h
    rcases h with h | h | h
    · right; exact h
    · exact mem_escapeQuotes f c h
    · right; exact h
  · left; exact h

theorem mem_joinFields (d : Char) (row : List Str) (c : Char) (h : c ∈ Csv.joinFields d (row.map (Csv.writeField d))) :
    c = d ∨ c = '"' ∨ ∃ f ∈ row, c ∈ f := by
  induction row with
  | nil => simp [Csv.joinFields] at h
  | cons f fs ih =>
    cases fs with
    | nil =>
      simp only [List.map_cons, List.map_nil, Csv.joinFields] at h
      rcases mem_writeField d f c h with h | h
      · right; right; exact ⟨f, by simp, h⟩
      · right; left; exact h
    | cons g gs =>
      simp only [List.map_cons, Csv.joinFields, List.mem_append, List.mem_cons] at h
      rcases h with h | h | h
      · rcases mem_writeField d f c h with h | h
        · right; right; exact ⟨f, by simp, h⟩
        · right; left; exact h
      · left; exact h
      · rcases ih (by simpa [Csv.joinFields] using h) with h | h | ⟨x, hx, hc⟩
        · left; exact h
        · right; left; exact h
        · right; right; exact ⟨x, by simp [List.mem_cons] at hx ⊢; right; exact hx, hc⟩

/-- a written record is one physical line when no cell contains a line feed -/
theorem writeRow_line (row : List Str) (h : ∀ f ∈ row, '\n' ∉ f) :
    ∃ body, writeRow ',' row = body ++ ['\n'] ∧ '\n' ∉ body := by
  unfold Csv.writeRow
  split
  · exact ⟨['"', '"'], rfl, by decide⟩
  · refine ⟨_, rfl, ?_⟩
    intro hm
    rcases mem_joinFields ',' row '\n' hm with h1 | h1 | ⟨f, hf, hc⟩
    · exact absurd h1 (by decide)
    · exact absurd h1 (by decide)
    · exact h f hf hc

theorem mem_writeRow (row : List Str) (c : Char) (h : c ∈ writeRow ',' row) :
    c = ',' ∨ c = '"' ∨ c = '\n' ∨ ∃ f ∈ row, c ∈ f := by
  unfold Csv.writeRow at h
  split at h
  · simp only [List.mem_cons] at h
    rcases h with h | h | h | h
    · right; left; exact h
    · right; left; exact h
    · right; right; left; exact h
    · simp at h
  · simp only [List.mem_append, List.mem_singleton] at h
    rcases h with h | h
    · rcases mem_joinFields ',' row c h with h | h | h
      · left; exact h
      · right; left; exact h
      · right; right; right; exact h
    · right; right; left; exact h

theorem physLines_writeCsv (rows : List (List Str)) (h : ∀ row ∈ rows, ∀ f ∈ row, '\n' ∉ f) :
    physLines (writeCsv ',' rows) = rows.map (writeRow ',') := by
  induction rows with
  | nil => rfl
  | cons r rs ih =>
    obtain ⟨body, hb, hn⟩ := writeRow_line r (h r (by simp))
    have : writeCsv ',' (r :: rs) = body ++ '\n' :: writeCsv ',' rs := by
      simp [Csv.writeCsv, hb]
    rw [this, physLines_line body _ hn, ih (fun row hr => h row (by simp [hr]))]
    simp [hb]

theorem writeCsv_noCR (rows : List (List Str)) (h : ∀ row ∈ rows, ∀ f ∈ row, '\r' ∉ f) : '\r' ∉ writeCsv ',' rows := by
  intro hm
  simp only [Csv.writeCsv, List.mem_flatMap] at hm
  obtain ⟨row, hr, hc⟩ := hm
  rcases mem_writeRow row '\r' hc with h1 | h1 | h1 | ⟨f, hf, hcf⟩
  · exact absurd h1 (by decide)
  · exact absurd h1 (by decide)
  · exact absurd h1 (by decide)
  · exact h row hr f hf hcf

theorem readCsv_writeCsv' (rows : List (List Str)) : readCsv ',' (writeCsv ',' rows) = rows := by
  simp only [readCsv, Csv.run_writeCsv ',' (by decide) (by decide) rows]
  simp [Csv.RS.flush, Csv.RS.init]

theorem keepLine_writeRow_nil : keepLine (writeRow ',' []) = false := by decide

/-! ### the row loop -/

theorem foldl_loadStep_error (o : Oracles) (names : List Str) (e : LoadErr) (rows : List (List Str)) :
    rows.foldl (loadStep o names) (.error e) = .error e := by
  induction rows with
  | nil => rfl
  | cons r rs ih => simpa [loadStep] using ih

def mapOk (f : List Loaded → List Loaded) : Except LoadErr (List Loaded) → Except LoadErr (List Loaded)
  | .ok l => .ok (f l)
  | .error e => .error e

theorem foldl_loadStep_ok (o : Oracles) (names : List Str) (acc : List Loaded) (rows : List (List Str)) :
    rows.foldl (loadStep o names) (.ok acc) = mapOk (acc ++ ·) (loadRows o names rows) := by
  induction rows generalizing acc with
  | nil => simp [loadRows, mapOk]
  | cons r rs ih =>
    simp only [loadRows, List.foldl_cons, loadStep]
    cases hr : rowRule o names r with
    | error e => simp [foldl_loadStep_error, mapOk]
    | ok x =>
      cases x with
      | none => simp only [ih]; cases loadRows o names rs <;> simp [mapOk]
      | some l =>
        simp only [ih, List.nil_append]
        cases loadRows o names rs <;> simp [mapOk]

/-- the loop, one row at a time: the first exception ends it; `continue` rows contribute nothing -/
theorem loadRows_cons (o : Oracles) (names : List Str) (r : List Str) (rs : List (List Str)) :
    loadRows o names (r :: rs) =
      (match rowRule o names r with
       | .error e => .error e
       | .ok x => mapOk (x.toList ++ ·) (loadRows o names rs)) := by
  simp only [loadRows, List.foldl_cons, loadStep]
  cases hr : rowRule o names r with
  | error e => simp [foldl_loadStep_error]
  | ok x =>
    cases x with
    | none => simp only [Option.toList]; cases h : List.foldl (loadStep o names) (Except.ok []) rs <;> simp [mapOk]
    | some l => simpa [loadRows] using foldl_loadStep_ok o names [l] rs

theorem loadRows_nil (o : Oracles) (names : List Str) : loadRows o names [] = .ok [] := rfl

theorem loadRows_append (o : Oracles) (names : List Str) (a b : List (List Str)) :
    loadRows o names (a ++ b) =
      (match loadRows o names a with
       | .error e => .error e
       | .ok x => mapOk (x ++ ·) (loadRows o names b)) := by
  induction a with
  | nil => simp [loadRows_nil]; cases loadRows o names b <;> simp [mapOk]
  | cons r rs ih =>
    simp only [List.cons_append, loadRows_cons, ih]
    cases rowRule o names r with
    | error e => rfl
    | ok x =>
      cases loadRows o names rs with
      | error e => simp [mapOk]
      | ok l => cases loadRows o names b <;> simp [mapOk]

theorem loadRows_all_ok (o : Oracles) (names : List Str) (f : List Str → Option Loaded) (rows : List (List Str))
    (h : ∀ r ∈ rows, rowRule o names r = .ok (f r)) : loadRows o names rows = .ok (rows.filterMap f) := by
  induction rows with
  | nil => rfl
  | cons r rs ih =>
    rw [loadRows_cons, h r (by simp), ih (fun x hx => h x (by simp [hx]))]
    cases hf : f r <;> simp [mapOk, hf]

/-! ### the standard header -/

def stdNames : List Str := [kPattern, kMerchant, kCategory, kSubcategory, kTags]
def stdNames4 : List Str := [kPattern, kMerchant, kCategory, kSubcategory]

/-- what a row `pattern, merchant, category, subcategory, tags` gives under the standard header -/
def stdRule (o : Oracles) (p m c s : Str) (t : Option Str) : Option Loaded :=
  if (strip p).isEmpty then none
  else some ⟨(parseCell o (strip p)).1, some m, some c, some s, (parseCell o (strip p)).2, parseTags (some t)⟩

/-- a row of at least five cells under the five-column header; further cells are ignored -/
def stdRow (o : Oracles) : List Str → Option Loaded
  | p :: m :: c :: s :: t :: _ => stdRule o p m c s (some t)
  | _ => none

theorem rowRule_std (o : Oracles) (p m c s t : Str) (extra : List Str) :
    rowRule o stdNames (p :: m :: c :: s :: t :: extra) = .ok (stdRule o p m c s (some t)) := by
  have hd : rowDict stdNames (p :: m :: c :: s :: t :: extra) =
      [(kPattern, some p), (kMerchant, some m), (kCategory, some c), (kSubcategory, some s), (kTags, some t)] := by
    simp [rowDict, stdNames]
  have g1 : dictGet [(kPattern, some p), (kMerchant, some m), (kCategory, some c), (kSubcategory, some s), (kTags, some t)] kPattern = some (some p) := by
    simp [dictGet, List.find?, kPattern, kMerchant, kCategory, kSubcategory, kTags]
  have g2 : dictGet [(kPattern, some p), (kMerchant, some m), (kCategory, some c), (kSubcategory, some s), (kTags, some t)] kMerchant = some (some m) := by
    simp [dictGet, List.find?, kPattern, kMerchant, kCategory, kSubcategory, kTags]
  have g3 : dictGet [(kPattern, some p), (kMerchant, some m), (kCategory, some c), (kSubcategory, some s), (kTags, some t)] kCategory = some (some c) := by
    simp [dictGet, List.find?, kPattern, kMerchant, kCategory, kSubcategory, kTags]
  have g4 : dictGet [(kPattern, some p), (kMerchant, some m), (kCategory, some c), (kSubcategory, some s), (kTags, some t)] kSubcategory = some (some s) := by
    simp [dictGet, List.find?, kPattern, kMerchant, kCategory, kSubcategory, kTags]
  have g5 : dictGet [(kPattern, some p), (kMerchant, some m), (kCategory, some c), (kSubcategory, some s), (kTags, some t)] kTags = some (some t) := by
    simp [dictGet, List.find?, kPattern, kMerchant, kCategory, kSubcategory, kTags]
  simp only [rowRule, hd, g1, g2, g3, g4, g5, stdRule]
  split <;> rfl

/-! ### what every loaded tuple satisfies -/

theorem parseMonthMod_valid (o : Oracles) (v : Str) (c : DateCond) (h : parseMonthMod o v = .ok c) : c.valid = true := by
  unfold parseMonthMod at h
  split at h
  · split at h
    · rename_i hm
      simp only [Except.ok.injEq] at h
      subst h
      simpa [Migrate.DateCond.valid] using hm
    · exact absurd h (by simp)
  · exact absurd h (by simp)

theorem map_ok {α β : Type} {f : α → β} {x : Except ModErr α} {y : β} (h : Except.map f x = .ok y) : ∃ a, x = .ok a ∧ y = f a := by
  cases x with
  | error e => simp [Except.map] at h
  | ok a => exact ⟨a, rfl, by simpa [Except.map] using h.symm⟩

theorem parseDateMod_valid (o : Oracles) (v : Str) (c : DateCond) (h : parseDateMod o v = .ok c) : c.valid = true := by
  unfold parseDateMod at h
  split at h
  · obtain ⟨a, -, rfl⟩ := map_ok h; rfl
  · split at h
    · split at h
      · exact absurd h (by simp)
      · obtain ⟨a, -, rfl⟩ := map_ok h; rfl
    · split at h
      · obtain ⟨a, -, rfl⟩ := map_ok h; rfl
      · exact absurd h (by simp)

theorem addBlock_valid (o : Oracles) (b : Block) (p q : Parsed) (hp : p.valid = true) (h : addBlock o b p = .ok q) : q.valid = true := by
  unfold addBlock at h
  split at h
  · obtain ⟨a, -, rfl⟩ := map_ok h; exact hp
  · obtain ⟨a, ha, rfl⟩ := map_ok h
    simp only [Migrate.Parsed.valid, List.all_cons, Bool.and_eq_true]
    exact ⟨parseDateMod_valid o _ a ha, hp⟩
  · obtain ⟨a, ha, rfl⟩ := map_ok h
    simp only [Migrate.Parsed.valid, List.all_cons, Bool.and_eq_true]
    exact ⟨parseMonthMod_valid o _ a ha, hp⟩

theorem loop_valid (o : Oracles) (n : Nat) (s r : Str) (p q : Parsed) (hp : p.valid = true) (h : loop o n s p = .ok (r, q)) :
    q.valid = true := by
  induction n generalizing s p with
  | zero => simp only [loop, Except.ok.injEq, Prod.mk.injEq] at h; exact h.2 ▸ hp
  | succ n ih =>
    simp only [loop] at h
    split at h
    · simp only [Except.ok.injEq, Prod.mk.injEq] at h; exact h.2 ▸ hp
    · split at h
      · simp only [Except.ok.injEq, Prod.mk.injEq] at h; exact h.2 ▸ hp
      · split at h
        · exact absurd h (by simp)
        · rename_i p' hadd
          exact ih _ p' (addBlock_valid o _ p p' hp hadd) h

/-- `[month=N]` conditions that come out of the parser have 1 ≤ N ≤ 12 -/
theorem parsePattern_valid (o : Oracles) (s r : Str) (q : Parsed) (h : parsePattern o s = .ok (r, q)) : q.valid = true := by
  unfold parsePattern at h
  split at h
  · simp only [Except.ok.injEq, Prod.mk.injEq] at h; exact h.2 ▸ rfl
  · exact loop_valid o _ s r _ q rfl h

theorem parseCell_valid (o : Oracles) (p : Str) : (parseCell o p).2.valid = true := by
  unfold parseCell
  split
  · rename_i r hr
    obtain ⟨r1, r2⟩ := r
    exact parsePattern_valid o p r1 r2 hr
  · rfl

theorem strip_head (s : Str) : ∀ c, (strip s).head? = some c → isPySpace c = false := by
  intro c hc
  -- `strip s` is a prefix of `lstrip s`, whose head is not a blank
  have hpre : strip s <+: lstrip s := by
    unfold strip rstrip
    have := List.reverse_prefix.mpr (List.dropWhile_suffix (l := (lstrip s).reverse) isPySpace)
    rwa [List.reverse_reverse] at this
  obtain ⟨t, ht⟩ := hpre
  cases hs : strip s with
  | nil => rw [hs] at hc; simp at hc
  | cons x xs =>
    rw [hs] at hc ht
    simp only [List.head?_cons, Option.some.injEq] at hc
    subst hc
    have hh : (lstrip s).head? = some x := by rw [← ht]; simp
    have := List.head?_dropWhile_not isPySpace s
    unfold lstrip at hh
    rw [hh] at this
    simpa using this

theorem strip_last (s : Str) : ∀ c, (strip s).getLast? = some c → isPySpace c = false := by
  intro c hc
  unfold strip rstrip at hc
  rw [List.getLast?_reverse] at hc
  have := List.head?_dropWhile_not isPySpace (lstrip s).reverse
  rw [hc] at this
  simpa using this

theorem isSpace_eq : TallyVerif.RulesFile.isSpace = isPySpace := rfl

theorem trimmed_strip (s : Str) : Migrate.trimmed (strip s) = true := by
  simp only [Migrate.trimmed, Bool.and_eq_true, isSpace_eq]
  constructor
  · cases h : (strip s).head? with
    | none => rfl
    | some c => simp [strip_head s c h]
  · cases h : (strip s).getLast? with
    | none => rfl
    | some c => simp [strip_last s c h]

/-- every tag the loader returns is a non-empty text without blanks at its ends -/
theorem tagsOf_inv (v : Str) : ∀ t ∈ tagsOf v, t ≠ [] ∧ Migrate.trimmed t = true := by
  intro t ht
  unfold tagsOf at ht
  split at ht
  · simp at ht
  · simp only [List.mem_filter, List.mem_map, Bool.not_eq_true', List.isEmpty_eq_false_iff] at ht
    obtain ⟨⟨x, -, rfl⟩, hne⟩ := ht
    exact ⟨hne, trimmed_strip x⟩

theorem parseTags_inv (cell : Option (Option Str)) : ∀ t ∈ parseTags cell, t ≠ [] ∧ Migrate.trimmed t = true :=
  fun t ht => tagsOf_inv _ t ht

theorem rowRule_inv (o : Oracles) (names row : List Str) (l : Loaded) (h : rowRule o names row = .ok (some l)) :
    l.parsed.valid = true ∧ (∀ t ∈ l.tags, t ≠ [] ∧ Migrate.trimmed t = true) := by
  unfold rowRule at h
  simp only at h
  split at h
  · exact absurd h (by simp)
  · exact absurd h (by simp)
  · split at h
    · exact absurd h (by simp)
    · split at h
      · simp only [Except.ok.injEq, Option.some.injEq] at h
        subst h
        exact ⟨parseCell_valid o _, parseTags_inv _⟩
      · exact absurd h (by simp)

theorem loadRows_inv (o : Oracles) (names : List Str) (rows : List (List Str)) (ls : List Loaded)
    (h : loadRows o names rows = .ok ls) :
    ∀ l ∈ ls, l.parsed.valid = true ∧ (∀ t ∈ l.tags, t ≠ [] ∧ Migrate.trimmed t = true) := by
  induction rows generalizing ls with
  | nil => simp only [loadRows_nil, Except.ok.injEq] at h; subst h; simp
  | cons r rs ih =>
    rw [loadRows_cons] at h
    split at h
    · exact absurd h (by simp)
    · rename_i x hx
      cases hrs : loadRows o names rs with
      | error e => rw [hrs] at h; simp [mapOk] at h
      | ok tl =>
        rw [hrs] at h
        simp only [mapOk, Except.ok.injEq] at h
        subst h
        intro l hl
        rcases List.mem_append.mp hl with hl | hl
        · cases x with
          | none => simp at hl
          | some l0 =>
            simp only [Option.toList, List.mem_singleton] at hl
            subst hl
            exact rowRule_inv o names r l hx
        · exact ih tl hrs l hl

theorem loadLines_inv (o : Oracles) (lines : List Str) (ls : List Loaded) (h : loadLines o lines = .ok ls) :
    ∀ l ∈ ls, l.parsed.valid = true ∧ (∀ t ∈ l.tags, t ≠ [] ∧ Migrate.trimmed t = true) := by
  unfold loadLines at h
  split at h
  · simp only [Except.ok.injEq] at h; subst h; simp
  · exact loadRows_inv o _ _ ls h

end TallyVerif.Legacy
