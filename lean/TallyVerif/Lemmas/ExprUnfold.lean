import TallyVerif.Model.Expr
/-! One-step unfolding lemmas for the structurally recursive interpreter (all by `rfl`). -/
namespace TallyVerif.Expr
open TallyVerif.Py

@[simp] theorem truthy_bool (b : Bool) : truthy (.bool b) = b := rfl
@[simp] theorem mpure_apply {α : Type} (a : α) (s : Scope) : (M.pure a : M α) s = (.ok a, s) := rfl
@[simp] theorem pure_apply {α : Type} (a : α) (s : Scope) : (pure a : M α) s = (.ok a, s) := rfl
@[simp] theorem raise_apply {α : Type} (e : Err) (s : Scope) : (raise e : M α) s = (.error e, s) := rfl
@[simp] theorem liftE_apply {α : Type} (x : Except Err α) (s : Scope) : (liftE x : M α) s = (x, s) := rfl
theorem bind_apply {α β : Type} (x : M α) (f : α → M β) (s : Scope) :
    (x >>= f) s = (match x s with
      | (.ok a, s') => f a s'
      | (.error e, s') => (.error e, s')) := rfl

theorem eval_const (o : Oracles) (ctx : Ctx) (v : Val) : eval o ctx (.const v) = pure v := by rfl
theorem eval_name (o : Oracles) (ctx : Ctx) (id : String) : eval o ctx (.name id) = lookupName ctx id := by rfl
theorem eval_unop (o : Oracles) (ctx : Ctx) (op : UnOp) (e : Expr) :
    eval o ctx (.unop op e) = (do
      let v ← eval o ctx e
      match op with
      | .not => pure (.bool (!truthy v))
      | .neg => liftE (pyNeg v)) := by rfl
theorem eval_boolop (o : Oracles) (ctx : Ctx) (isAnd : Bool) (es : List Expr) :
    eval o ctx (.boolop isAnd es) = (do let b ← evalBool o ctx isAnd es; pure (.bool b)) := by rfl
theorem evalBool_nil (o : Oracles) (ctx : Ctx) (isAnd : Bool) : evalBool o ctx isAnd [] = pure isAnd := by rfl
theorem evalBool_cons (o : Oracles) (ctx : Ctx) (isAnd : Bool) (e : Expr) (es : List Expr) :
    evalBool o ctx isAnd (e :: es) = (do
      let v ← eval o ctx e
      if isAnd then (if truthy v then evalBool o ctx isAnd es else pure false)
      else (if truthy v then pure true else evalBool o ctx isAnd es)) := by rfl
theorem eval_binop (o : Oracles) (ctx : Ctx) (op : BinOp) (l r : Expr) :
    eval o ctx (.binop op l r) = (do
      let a ← eval o ctx l
      let b ← eval o ctx r
      match op with
      | .div => if isZero b then pure (.int 0) else liftE (pyArith .div a b)
      | .mod =>
        if isZero b then pure (.int 0) else
        (match asNumber a, asNumber b with
         | some x, some y =>
           (match x, y with
            | .i _, .i _ => liftE (pyArith .mod a b)
            | _, _ =>
              let bigInt := (match x with | .i n => n.natAbs ≥ 2 ^ 53 | _ => false) || (match y with | .i n => n.natAbs ≥ 2 ^ 53 | _ => false)
              if bigInt then raise (.unmodelled "big int with float") else
              let xb := B (numToFloat x); let yb := B (numToFloat y)
              match o.fmod xb yb with
              | some r => pure (.flt r)
              | none => need "fmod" [toString xb.toNat, toString yb.toNat])
         | _, _ => liftE (pyArith .mod a b))
      | _ => liftE (pyArith op a b)) := by rfl
theorem eval_cmp (o : Oracles) (ctx : Ctx) (l : Expr) (links : List Link) :
    eval o ctx (.cmp l links) = (do
      let left ← eval o ctx l
      let b ← evalLinks o ctx left links
      pure (.bool b)) := by rfl
theorem evalLinks_nil (o : Oracles) (ctx : Ctx) (left : Val) : evalLinks o ctx left [] = pure true := by rfl
theorem evalLinks_cons (o : Oracles) (ctx : Ctx) (left : Val) (op : CmpOp) (e : Expr) (rest : List Link) :
    evalLinks o ctx left (.mk op e :: rest) = (do
      let right0 ← eval o ctx e
      let (l, r) ← liftE (coerceDates o left right0)
      let b ← liftE (cmpLink o op l r)
      if b then evalLinks o ctx r rest else pure false) := by rfl
theorem eval_ifexp (o : Oracles) (ctx : Ctx) (c t e : Expr) :
    eval o ctx (.ifexp c t e) = (do
      let cv ← eval o ctx c
      if truthy cv then eval o ctx t else eval o ctx e) := by rfl
theorem eval_walrus (o : Oracles) (ctx : Ctx) (id : String) (e : Expr) :
    eval o ctx (.walrus id e) = (do
      let v ← eval o ctx e
      setVar (lowerName id) v
      pure v) := by rfl
theorem eval_listcomp (o : Oracles) (ctx : Ctx) (elt : Expr) (gens : List Comp) :
    eval o ctx (.listcomp elt gens) = (do
      let st ← evalGens o ctx gens (fun acc => do
        let v ← eval o ctx elt
        liftE (consume .collect acc v)) (emptyAcc .none)
      match st with
      | .more acc | .done acc => pure (.list acc.vals.reverse)) := by rfl
theorem evalGens_nil (o : Oracles) (ctx : Ctx) (body : Acc → M (Step Acc)) (acc : Acc) :
    evalGens o ctx [] body acc = body acc := by rfl
theorem evalGens_cons (o : Oracles) (ctx : Ctx) (target : Option String) (iter : Expr) (ifs : List Expr)
    (gs : List Comp) (body : Acc → M (Step Acc)) (acc : Acc) :
    evalGens o ctx (.mk target iter ifs :: gs) body acc = (do
      let itv ← eval o ctx iter
      match target with
      | none => exprErr "Only simple loop variables supported"
      | some x => do
        let items ← iterItems itv
        loopItems (lowerName x) (evalConds o ctx ifs) (evalGens o ctx gs body) items acc) := by rfl
theorem evalConds_nil (o : Oracles) (ctx : Ctx) : evalConds o ctx [] = pure true := by rfl
theorem evalConds_cons (o : Oracles) (ctx : Ctx) (e : Expr) (es : List Expr) :
    evalConds o ctx (e :: es) = (do
      let v ← eval o ctx e
      if truthy v then evalConds o ctx es else pure false) := by rfl
theorem eval_attr (o : Oracles) (ctx : Ctx) (e : Expr) (a : String) :
    eval o ctx (.attr e a) = rowAttr (eval o ctx e) (lowerName a) := by rfl

end TallyVerif.Expr
