import TallyVerif.Model.Expr
/-! One-step unfolding lemmas for the structurally recursive interpreter (all by `rfl`). -/
namespace TallyVerif.Expr
open TallyVerif.Py

@[simp] theorem truthy_bool (b : Bool) : truthy (.bool b) = b := rfl
@[simp] theorem mpure_apply {α : Type} (a : α) (s : Scope) : (M.pure a : M α) s = (.ok a, s) := rfl
@[simp] theorem pure_apply {α : Type} (a : α) (s : Scope) : (pure a : M α) s = (.ok a, s) := rfl
@[simp] theorem raise_apply {α : Type} (e : Err) (s : Scope) : (raise e : M α) s = (.error e, s) := rfl
@[simp] theorem liftE_apply {α : Type} (x : Except Err α) (s : Scope) : (liftE x : M α) s = (x, s) := rfl
theorem bind_apply {α β : Type} (x : M α) (f : α → M β) (s : Scope) :
    (x >>= f) s = (match x s with
      | (.ok a, s') => f a s'
      | (.error e, s') => (.error e, s')) := rfl

theorem eval_const (o : Oracles) (ctx : Ctx) (v : Val) : eval o ctx (.const v) = pure v := by rfl
theorem eval_name (o : Oracles) (ctx : Ctx) (id : String) : eval o ctx (.name id) = lookupName ctx id := by rfl
theorem eval_unop (o : Oracles) (ctx : Ctx) (op : UnOp) (e : Expr) :
    eval o ctx (.unop op e) = (do
      let v ← eval o ctx e
      match op with
      | .not => pure (.bool (!truthy v))
      | .neg => liftE (pyNeg v)) := by rfl
theorem eval_boolop (o : Oracles) (ctx : Ctx) (isAnd : Bool) (es : List Expr) :
    eval o ctx (.boolop isAnd es) = (do let b ← evalBool o ctx isAnd es; pure (.bool b)) := by rfl
theorem evalBool_nil (o : Oracles) (ctx : Ctx) (isAnd : Bool) : evalBool o ctx isAnd [] = pure isAnd := by rfl
theorem evalBool_cons (o : Oracles) (ctx : Ctx) (isAnd : Bool) (e : Expr) (es : List Expr) :
    evalBool o ctx isAnd (e :: es) = (do
      let v ← eval o ctx e
      if isAnd then (if truthy v then evalBool o ctx isAnd es else pure false)
      else (if truthy v then pure true else evalBool o ctx isAnd es)) := by rfl
theorem eval_binop (o : Oracles) (ctx : Ctx) (op : BinOp) (l r : Expr) :
    eval o ctx (.binop op l r) = (do
      let a ← eval o ctx l
      let b ← eval o ctx r
      match op with
      | .div => if isZero b then pure (.int 0) else liftE (pyArith .div a b)
      | .mod =>
        if isZero b then pure (.int 0) else
        (match asNumber a, asNumber b with
         | some x, some y =>
           (match x, y with
            | .i _, .i _ => liftE (pyArith .mod a b)
            | _, _ =>
              let bigInt := (match x with | .i n => n.natAbs ≥ 2 ^ 53 | _ => false) || (match y with | .i n => n.natAbs ≥ 2 ^ 53 | _ => false)
              if bigInt then raise (.unmodelled "big int with float") else
              let xb := B (numToFloat x); let yb := B (numToFloat y)
              match o.fmod xb yb with
              | some r => pure (.flt r)
              | none => need "fmod" [toString xb.toNat, toString yb.toNat])
         | _, _ => liftE (pyArith .mod a b))
      | _ => liftE (pyArith op a b)) := by rfl
theorem eval_cmp (o : Oracles) (ctx : Ctx) (l : Expr) (links : List Link) :
    eval o ctx (.cmp l links) = (do
      let left ← eval o ctx l
      let b ← evalLinks o ctx left links
      pure (.bool b)) := by rfl
theorem evalLinks_nil (o : Oracles) (ctx : Ctx) (left : Val) : evalLinks o ctx left [] = pure true := by rfl
theorem evalLinks_cons (o : Oracles) (ctx : Ctx) (left : Val) (op : CmpOp) (e : Expr) (rest : List Link) :
    evalLinks o ctx left (.mk op e :: rest) = (do
      let right0 ← eval o ctx e
      let (l, r) ← liftE (coerceDates o left right0)
      let b ← liftE (cmpLink o op l r)
      if b then evalLinks o ctx r rest else pure false) := by rfl
theorem eval_ifexp (o : Oracles) (ctx : Ctx) (c t e : Expr) :
    eval o ctx (.ifexp c t e) = (do
      let cv ← eval o ctx c
      if truthy cv then eval o ctx t else eval o ctx e) := by rfl
theorem eval_walrus (o : Oracles) (ctx : Ctx) (id : String) (e : Expr) :
    eval o ctx (.walrus id e) = (do
      let v ← eval o ctx e
      setVar (lowerName id) v
      pure v) := by rfl
theorem eval_listcomp (o : Oracles) (ctx : Ctx) (elt : Expr) (gens : List Comp) :
    eval o ctx (.listcomp elt gens) = (do
      let st ← evalGens o ctx gens (fun acc => do
        let v ← eval o ctx elt
        liftE (consume .collect acc v)) (emptyAcc .none)
      match st with
      | .more acc | .done acc => pure (.list acc.vals.reverse)) := by rfl
theorem evalGens_nil (o : Oracles) (ctx : Ctx) (body : Acc → M (Step Acc)) (acc : Acc) :
    evalGens o ctx [] body acc = body acc := by rfl
theorem evalGens_cons (o : Oracles) (ctx : Ctx) (target : Option String) (iter : Expr) (ifs : List Expr)
    (gs : List Comp) (body : Acc → M (Step Acc)) (acc : Acc) :
    evalGens o ctx (.mk target iter ifs :: gs) body acc = (do
      let itv ← eval o ctx iter
      match target with
      | none => exprErr "Only simple loop variables supported"
      | some x => do
        let items ← iterItems itv
        loopItems (lowerName x) (evalConds o ctx ifs) (evalGens o ctx gs body) items acc) := by rfl
theorem evalConds_nil (o : Oracles) (ctx : Ctx) : evalConds o ctx [] = pure true := by rfl
theorem evalConds_cons (o : Oracles) (ctx : Ctx) (e : Expr) (es : List Expr) :
    evalConds o ctx (e :: es) = (do
      let v ← eval o ctx e
      if truthy v then evalConds o ctx es else pure false) := by rfl
theorem eval_attr (o : Oracles) (ctx : Ctx) (e : Expr) (a : String) :
    eval o ctx (.attr e a) = rowAttr (eval o ctx e) (lowerName a) := by rfl

/-! ### the remaining constructors (used by the whole-tree renaming theorem, `Lemmas/NameCase.lean`)

`eval (.callName …)`, `eval (.callNameGen …)` and `eval (.callAttr …)` dispatch on the (lower-cased)
function / method name and on the shape of the argument list.  Their bodies are restated here with
the recursive calls abstracted (`ev`, `evArgs`, `evLazy`, `gensM`, `eltM`, `recvM`), so that facts about
the dispatch can be proved once, outside the mutual induction.  Each restatement is checked against
the definition of `eval` by `unfold eval …; rfl`. -/

theorem eval_attrName (o : Oracles) (ctx : Ctx) (id a : String) :
    eval o ctx (.attrName id a) =
      (if lowerName id == "txn" then
        (match txnAttr ctx (lowerName a) with
         | some v => pure v
         | none => exprErr "Unknown txn attribute")
      else if lowerName id == "field" then
        (match fieldBuiltin ctx (lowerName a) with
         | some v => pure v
         | none =>
           match ctx.field with
           | some f => (match f.lookup (lowerName a) with
             | some v => pure v
             | none => exprErr "Unknown field")
           | none => exprErr "Unknown field")
      else rowAttr (lookupName ctx id) (lowerName a)) := by rfl
theorem eval_callOther (o : Oracles) (ctx : Ctx) (g : Expr) (args : List Expr) :
    eval o ctx (.callOther g args) = exprErr "Only simple function calls are supported" := by rfl
theorem eval_genexp (o : Oracles) (ctx : Ctx) (elt : Expr) (gens : List Comp) :
    eval o ctx (.genexp elt gens) = raise (.unmodelled "generator object outside a consuming call") := by rfl
theorem eval_subscript (o : Oracles) (ctx : Ctx) (e i : Expr) :
    eval o ctx (.subscript e i) = (do
      let v ← eval o ctx e
      let idx ← eval o ctx i
      match v with
      | .str s =>
        (match isIntLike idx with
         | some k => (match pyIndex s.toList k with
           | some c => pure (.str (String.singleton c))
           | none => exprErr "Index error")
         | none => pyErr .typeError)
      | .list xs =>
        (match isIntLike idx with
         | some k => (match pyIndex xs k with
           | some x => pure x
           | none => exprErr "Index error")
         | none => pyErr .typeError)
      | .row kvs =>
        if !hashable idx then pyErr .typeError else
        (match idx with
         | .str k => (match kvs.lookup k with
           | some x => pure x
           | none => exprErr "Index error")
         | _ => exprErr "Index error")
      | _ => pyErr .typeError) := by rfl
theorem evalArgs_nil (o : Oracles) (ctx : Ctx) : evalArgs o ctx [] = pure [] := by rfl
theorem evalArgs_cons (o : Oracles) (ctx : Ctx) (e : Expr) (es : List Expr) :
    evalArgs o ctx (e :: es) = (do
      let v ← eval o ctx e
      let vs ← evalArgs o ctx es
      pure (v :: vs)) := by rfl
theorem evalLazyArgs_nil (o : Oracles) (ctx : Ctx) (c : Consumer) (acc : Acc) : evalLazyArgs o ctx c [] acc = pure acc := by rfl
theorem evalLazyArgs_cons (o : Oracles) (ctx : Ctx) (c : Consumer) (e : Expr) (es : List Expr) (acc : Acc) :
    evalLazyArgs o ctx c (e :: es) acc = (do
      let v ← eval o ctx e
      match consume c acc v with
      | .ok (.more a) => evalLazyArgs o ctx c es a
      | .ok (.done a) => pure a
      | .error err => raise err) := by rfl

/-- body of `eval (.callName g args)` as a function of the lower-cased function name, with the
recursive calls abstracted -/
def callNameBody (o : Oracles) (ctx : Ctx) (ev : Expr → M Val) (evArgs : List Expr → M (List Val))
    (evLazy : Consumer → List Expr → Acc → M Acc) (fn : String) (args : List Expr) : M Val :=
    match fn with
    | "exists" =>
      (match args with
       | [a] => catchExpr (do
           let v ← ev a
           if truthy v then do
             let s ← liftE (pyStr o v)
             pure (.bool (!(pyStrip s).isEmpty))
           else pure (.bool false))
           (pure (.bool false))
       | _ => exprErr "exists() requires exactly 1 argument")
    | "len" =>
      (match args with
       | [a] => do
         let v ← ev a
         match v with
         | .str s => pure (.int s.length)
         | .list xs => pure (.int xs.length)
         | .row kvs => pure (.int kvs.length)
         | _ => pyErr .typeError
       | _ => exprErr "len() requires exactly 1 argument")
    | "sum" =>
      (match args with
       | [a] => do
         let it ← ev a
         finishConsumer .sum it (.int 0)
       | [a, b] => do
         let it ← ev a
         let st ← ev b
         finishConsumer .sum it st
       | _ => exprErr "sum() requires 1 or 2 arguments")
    | "any" =>
      (match args with
       | [a] => do
         let it ← ev a
         finishConsumer .any it (.bool false)
       | _ => exprErr "any() requires exactly 1 argument")
    | "all" =>
      (match args with
       | [a] => do
         let it ← ev a
         finishConsumer .all it (.bool true)
       | _ => exprErr "all() requires exactly 1 argument")
    | "next" =>
      (match args with
       | [a] => do
         let v ← ev a
         match v with
         | .gen _ => raise (.unmodelled "next() on an escaped generator")
         | _ => pyErr .typeError
       | [a, d] => do
         let v ← ev a
         let _ ← ev d
         match v with
         | .gen _ => raise (.unmodelled "next() on an escaped generator")
         | _ => pyErr .typeError
       | _ => exprErr "next() requires 1 or 2 arguments")
    | "min" =>
      if args.length == 1 then do
        let vs ← evArgs args
        match vs with
        | [it] => finishConsumer .min it .none
        | _ => pyErr .typeError
      else do
        let st ← evLazy .min args (emptyAcc .none)
        finishAcc .min st
    | "max" =>
      if args.length == 1 then do
        let vs ← evArgs args
        match vs with
        | [it] => finishConsumer .max it .none
        | _ => pyErr .typeError
      else do
        let st ← evLazy .max args (emptyAcc .none)
        finishAcc .max st
    | _ =>
      if fn == "abs" || fn == "round" || ctx.functionNames.contains fn then do
        let vs ← evArgs args
        liftE (callFn o ctx fn vs)
      else exprErr "Unknown function"

theorem eval_callName (o : Oracles) (ctx : Ctx) (g : String) (args : List Expr) :
    eval o ctx (.callName g args) =
      callNameBody o ctx (eval o ctx) (evalArgs o ctx) (evalLazyArgs o ctx) (lowerName g) args := by
  conv => lhs; unfold eval
  unfold callNameBody
  rfl

/-- body of `eval (.callNameGen g elt gens more)`: `gensM` stands for `evalGens o ctx gens`, `eltM` for
`eval o ctx elt` -/
def callNameGenBody (o : Oracles) (ctx : Ctx) (ev : Expr → M Val) (evArgs : List Expr → M (List Val))
    (gensM : (Acc → M (Step Acc)) → Acc → M (Step Acc)) (eltM : M Val) (fn : String) (more : List Expr) : M Val :=
    match fn with
    | "exists" =>
      (match more with
       | [] => pure (.bool true)
       | _ => exprErr "exists() requires exactly 1 argument")
    | "len" =>
      (match more with
       | [] => pyErr .typeError
       | _ => exprErr "len() requires exactly 1 argument")
    | "sum" =>
      (match more with
       | [] => runGen gensM eltM .sum (.int 0)
       | [b] => do
         let st ← ev b
         match st with
         | .str _ => pyErr .typeError
         | _ => runGen gensM eltM .sum st
       | _ => exprErr "sum() requires 1 or 2 arguments")
    | "any" =>
      (match more with
       | [] => runGen gensM eltM .any (.bool false)
       | _ => exprErr "any() requires exactly 1 argument")
    | "all" =>
      (match more with
       | [] => runGen gensM eltM .all (.bool true)
       | _ => exprErr "all() requires exactly 1 argument")
    | "next" =>
      (match more with
       | [] => do
         let st ← pep479 (gensM (fun acc => do
           let v ← eltM
           liftE (consume .next acc v)) (emptyAcc .none))
         match st with
         | .done acc => pure acc.cur
         | .more _ => pyErr .stopIteration
       | [d] => do
         let dv ← ev d
         let st ← pep479 (gensM (fun acc => do
           let v ← eltM
           liftE (consume .next acc v)) (emptyAcc .none))
         match st with
         | .done acc => pure acc.cur
         | .more _ => pure dv
       | _ => exprErr "next() requires 1 or 2 arguments")
    | "min" | "max" =>
      (match more with
       | [] => runGen gensM eltM (if fn == "min" then .min else .max) .none
       | b :: _ => do
         let _ ← ev b
         pyErr .typeError)
    | _ =>
      if fn == "abs" || fn == "round" || ctx.functionNames.contains fn then do
        let vs ← evArgs more
        liftE (callFn o ctx fn (Val.gen [] :: vs))
      else exprErr "Unknown function"

theorem eval_callNameGen (o : Oracles) (ctx : Ctx) (g : String) (elt : Expr) (gens : List Comp) (more : List Expr) :
    eval o ctx (.callNameGen g elt gens more) =
      callNameGenBody o ctx (eval o ctx) (evalArgs o ctx) (evalGens o ctx gens) (eval o ctx elt) (lowerName g) more := by
  conv => lhs; unfold eval
  unfold callNameGenBody
  rfl

/-- body of `eval (.callAttr recv meth args)`: `recvM` stands for `eval o ctx recv`, `m` for the lower-cased method name -/
def callAttrBody (o : Oracles) (ev : Expr → M Val) (recvM : M Val) (m : String) (args : List Expr) : M Val := do
    let obj ← recvM
    match obj with
    | .str s =>
      (match m with
       | "lower" => do let r ← liftE (pyLower o s); pure (.str r)
       | "upper" => do let r ← liftE (pyUpper o s); pure (.str r)
       | "strip" => pure (.str (pyStrip s))
       | "startswith" =>
         (match args with
          | [a] => do
            let v ← ev a
            match v with
            | .str p => pure (.bool (strStartsWith s p))
            | _ => pyErr .typeError
          | _ => exprErr "startswith() requires 1 argument")
       | "endswith" =>
         (match args with
          | [a] => do
            let v ← ev a
            match v with
            | .str p => pure (.bool (strEndsWith s p))
            | _ => pyErr .typeError
          | _ => exprErr "endswith() requires 1 argument")
       | "replace" =>
         (match args with
          | [a, b] => do
            let va ← ev a
            let vb ← ev b
            match va, vb with
            | .str x, .str y => pure (.str (strReplace s x y))
            | _, _ => pyErr .typeError
          | _ => exprErr "replace() requires 2 arguments")
       | _ => exprErr "Unsupported method call")
    | _ => exprErr "Unsupported method call"

theorem eval_callAttr (o : Oracles) (ctx : Ctx) (recv : Expr) (meth : String) (args : List Expr) :
    eval o ctx (.callAttr recv meth args) = callAttrBody o (eval o ctx) (eval o ctx recv) (lowerName meth) args := by
  conv => lhs; unfold eval
  unfold callAttrBody
  rfl

end TallyVerif.Expr
