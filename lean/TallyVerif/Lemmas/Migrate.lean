import TallyVerif.Model.Migrate
import TallyVerif.Lemmas.RulesFile
/-! Helper lemmas for C14 (M-Migrate). -/
namespace TallyVerif.Migrate
open TallyVerif.RulesFile (Str)

/-- one-pass form of the two `str.replace` calls -/
def escChar (c : Char) : Str :=
  if c == '\\' then ['\\', '\\'] else if c == '"' then ['\\', '"'] else [c]

theorem pyEscape_true (p : Str) : pyEscape true p = p.flatMap escChar := by
  simp only [pyEscape, replaceChar, if_true, List.flatMap_assoc]
  congr 1
  funext c
  by_cases h1 : c = '\\'
  · subst h1; decide
  · by_cases h2 : c = '"'
    · subst h2; decide
    · simp [escChar, h1, h2]

theorem go_plain_esc (p : Str) (h : LineSafe p = true) : go .plain (p.flatMap escChar) = .ok p := by
  induction p with
  | nil => rfl
  | cons c p ih =>
    simp only [LineSafe, List.all_cons, Bool.and_eq_true, Bool.not_eq_true'] at h
    have ih' := ih (by simpa [LineSafe] using h.2)
    rw [List.flatMap_cons]
    by_cases h1 : c = '\\'
    · subst h1
      have : escChar '\\' = ['\\', '\\'] := by decide
      rw [this]
      show go .plain ('\\' :: '\\' :: List.flatMap escChar p) = _
      rw [go]
      have e1 : plainAct '\\' = .startEsc := by decide
      simp only [e1]
      rw [go]
      have e2 : simpleEsc? '\\' = some '\\' := by decide
      simp only [e2, ih', push]
    · by_cases h2 : c = '"'
      · subst h2
        have : escChar '"' = ['\\', '"'] := by decide
        rw [this]
        show go .plain ('\\' :: '"' :: List.flatMap escChar p) = _
        rw [go]
        have e1 : plainAct '\\' = .startEsc := by decide
        simp only [e1]
        rw [go]
        have e2 : simpleEsc? '"' = some '"' := by decide
        simp only [e2, ih', push]
      · have e0 : escChar c = [c] := by simp [escChar, h1, h2]
        rw [e0]
        show go .plain (c :: List.flatMap escChar p) = _
        rw [go]
        have e1 : plainAct c = .keep := by
          simp [plainAct, h1, h2, h.1]
        simp only [e1, ih', push]

end TallyVerif.Migrate

namespace TallyVerif.Migrate
open TallyVerif.RulesFile (Str)

/-! ### conjunctions -/

theorem hitConj_nil (t : Txn) : hitConj t [] = true := rfl

def okTrue : Except Unit Bool → Bool
  | .ok true => true
  | _ => false

@[simp] theorem okTrue_ok (b : Bool) : okTrue (.ok b) = b := by cases b <;> rfl
@[simp] theorem okTrue_error (e : Unit) : okTrue (.error e) = false := rfl

theorem hitConj_cons (t : Txn) (a : Atom) (l : List Atom) :
    hitConj t (a :: l) = (okTrue (a.eval t) && hitConj t l) := by
  simp only [hitConj, evalConj]
  cases h : a.eval t with
  | error e => simp
  | ok b => cases b <;> simp

theorem hitConj_append (t : Txn) (l₁ l₂ : List Atom) :
    hitConj t (l₁ ++ l₂) = (hitConj t l₁ && hitConj t l₂) := by
  induction l₁ with
  | nil => simp [hitConj_nil]
  | cons a l ih => simp only [List.cons_append, hitConj_cons, ih, Bool.and_assoc]

theorem hitConj_flatMap {α : Type} (t : Txn) (f : α → List Atom) (l : List α) :
    hitConj t (l.flatMap f) = l.all (fun c => hitConj t (f c)) := by
  induction l with
  | nil => rfl
  | cons c l ih => simp only [List.flatMap_cons, hitConj_append, ih, List.all_cons]

/-! ### each modifier form against its conjunct(s) -/

theorem amountAtoms_fixed (eps : NumLit) (t : Txn) (a : Int) (ha : t.amount = some a) (c : AmountCond) :
    hitConj t (amountAtoms true eps c) = evalAmountCond eps.val a c := by
  cases c <;>
    simp [amountAtoms, hitConj_cons, hitConj_nil, Atom.eval, Txn.engineAmount, ha, Cmp.onInt, evalAmountCond]

/-- every form except `=`: the unrepaired generator is right as well -/
theorem amountAtoms_pinned_ne_eq (eps : NumLit) (t : Txn) (a : Int) (ha : t.amount = some a) (c : AmountCond)
    (hc : ∀ v, c ≠ .eq v) :
    hitConj t (amountAtoms false eps c) = evalAmountCond eps.val a c := by
  cases c <;>
    simp_all [amountAtoms, hitConj_cons, hitConj_nil, Atom.eval, Txn.engineAmount, Cmp.onInt, evalAmountCond]

theorem dateAtoms_some (cutoff : Nat → Date) (t : Txn) (d : Date) (hd : t.date = some d) (c : DateCond)
    (hc : c.isRelative = false) :
    hitConj t (dateAtoms c) = evalDateCond cutoff d c := by
  cases c <;>
    simp_all [dateAtoms, hitConj_cons, hitConj_nil, Atom.eval, Cmp.onNat, evalDateCond, DateCond.isRelative]

theorem dateAtoms_none (t : Txn) (hd : t.date = none) (c : DateCond) (hv : c.valid = true)
    (hc : c.isRelative = false) :
    hitConj t (dateAtoms c) = false := by
  cases c with
  | month m =>
    simp only [DateCond.valid, Bool.and_eq_true, decide_eq_true_eq] at hv
    have : (0 == m) = false := by simp; omega
    simp [dateAtoms, hitConj_cons, Atom.eval, hd, this]
  | relative n => simp [DateCond.isRelative] at hc
  | on d => simp [dateAtoms, hitConj_cons, Atom.eval, hd]
  | range a b => simp [dateAtoms, hitConj_cons, Atom.eval, hd]

end TallyVerif.Migrate

namespace TallyVerif.Migrate
open TallyVerif.RulesFile (Str strip)

/-! ### list helpers -/

theorem find?_congr_mem {α : Type} (l : List α) (p q : α → Bool) (h : ∀ x ∈ l, p x = q x) :
    l.find? p = l.find? q := by
  induction l with
  | nil => rfl
  | cons a l ih =>
    have ha := h a (by simp)
    have ih' := ih (fun x hx => h x (by simp [hx]))
    simp only [List.find?_cons, ha, ih']

theorem all_congr_mem {α : Type} (l : List α) (p q : α → Bool) (h : ∀ x ∈ l, p x = q x) :
    l.all p = l.all q := by
  induction l with
  | nil => rfl
  | cons a l ih =>
    have ha := h a (by simp)
    have ih' := ih (fun x hx => h x (by simp [hx]))
    simp only [List.all_cons, ha, ih']

/-! ### the whole modifier part -/

theorem amount_part (eps : NumLit) (t : Txn) (a : Int) (ha : t.amount = some a) (l : List AmountCond) :
    hitConj t (l.flatMap (amountAtoms true eps)) =
      l.all (fun c => match t.amount with | none => false | some a => evalAmountCond eps.val a c) := by
  rw [hitConj_flatMap]
  apply all_congr_mem
  intro c _
  simp only [ha]
  exact amountAtoms_fixed eps t a ha c

theorem date_part (cutoff : Nat → Date) (t : Txn) (l : List DateCond)
    (hrel : l.all (fun c => !c.isRelative) = true) (hval : l.all DateCond.valid = true) :
    hitConj t (l.flatMap dateAtoms) =
      l.all (fun c => match t.date with | none => false | some d => evalDateCond cutoff d c) := by
  rw [hitConj_flatMap]
  apply all_congr_mem
  intro c hc
  have h1 : c.isRelative = false := by
    have := List.all_eq_true.mp hrel c hc
    simpa using this
  have h2 : c.valid = true := List.all_eq_true.mp hval c hc
  cases hd : t.date with
  | none => simp only []; exact dateAtoms_none t hd c h2 h1
  | some d => simp only []; exact dateAtoms_some cutoff t d hd c h1

theorem noNote_of_noRelative (fixB : Bool) (eps : NumLit) (p : Parsed) (h : p.noRelative = true) :
    (modifierExpr fixB eps p).any Atom.isNote = false := by
  simp only [modifierExpr, List.any_append, List.any_flatMap, Bool.or_eq_false_iff, List.any_eq_false]
  constructor
  · intro c _
    cases c <;> simp [amountAtoms, Atom.isNote]
    split <;> simp [Atom.isNote]
  · intro c hc
    have := List.all_eq_true.mp h c hc
    cases c <;> simp_all [dateAtoms, Atom.isNote, DateCond.isRelative]

theorem modsHit_noNote (t : Txn) (l : List Atom) (h : l.any Atom.isNote = false) : modsHit t l = hitConj t l := by
  cases l with
  | nil => rfl
  | cons a rest =>
    simp only [List.any_cons, Bool.or_eq_false_iff] at h
    simp [modsHit, h.1, h.2]

/-! ### tags -/

theorem mem_setAdd_fold (l : List Str) (acc : List Str) (x : Str) :
    x ∈ l.foldl (fun acc t => RulesFile.setAdd t acc) acc ↔ x ∈ acc ∨ x ∈ l := by
  induction l generalizing acc with
  | nil => simp
  | cons a l ih =>
    rw [List.foldl_cons, ih]
    unfold RulesFile.setAdd
    by_cases hc : acc.contains a = true
    · simp only [hc, if_true, List.mem_cons]
      have : a ∈ acc := by simpa using hc
      constructor
      · rintro (h | h); exact Or.inl h; exact Or.inr (Or.inr h)
      · rintro (h | h | h); exact Or.inl h; exact Or.inl (h ▸ this); exact Or.inr h
    · simp only [hc, List.mem_append, List.mem_cons, List.mem_singleton]
      simp only [Bool.false_eq_true, if_false, List.mem_append, List.mem_singleton]
      constructor
      · rintro ((h | h) | h); exact Or.inl h; exact Or.inr (Or.inl h); exact Or.inr (Or.inr h)
      · rintro (h | h | h); exact Or.inl (Or.inl h); exact Or.inl (Or.inr h); exact Or.inr h

theorem mem_dedupTags (l : List Str) (x : Str) : x ∈ dedupTags l ↔ x ∈ l := by
  simp [dedupTags, mem_setAdd_fold]

/-- for static tags the result does not depend on the `{expr}` evaluator -/
theorem mem_resolveTags_static (lower : Str → Str) (dyn : Str → List Str) (tags : List Str) (x : Str)
    (hs : tags.all (fun t => !isDynamic (strip t)) = true) :
    x ∈ resolveTags lower dyn tags ↔ ∃ t ∈ tags, (strip t).isEmpty = false ∧ x = lower (strip t) := by
  simp only [resolveTags, List.mem_flatMap]
  constructor
  · rintro ⟨t, ht, hx⟩
    have hd : isDynamic (strip t) = false := by
      have := List.all_eq_true.mp hs t ht
      simpa using this
    by_cases he : (strip t).isEmpty = true
    · simp [he] at hx
    · simp only [he, hd, Bool.false_eq_true, if_false, List.mem_singleton] at hx
      exact ⟨t, ht, by simpa using he, hx⟩
  · rintro ⟨t, ht, he, hx⟩
    have hd : isDynamic (strip t) = false := by
      have := List.all_eq_true.mp hs t ht
      simpa using this
    exact ⟨t, ht, by simp [he, hd, hx]⟩

end TallyVerif.Migrate

namespace TallyVerif.Migrate
open TallyVerif.RulesFile

/-! ### trimmed text and `strip` -/

theorem lstrip_of_head (l : Str) (h : match l.head? with | some c => (!isSpace c) = true | none => True) : lstrip l = l := by
  cases l with
  | nil => rfl
  | cons c t =>
    simp only [List.head?_cons, Bool.not_eq_true'] at h
    simp [lstrip, List.dropWhile_cons, h]

theorem rstrip_of_last (l : Str) (h : match l.getLast? with | some c => (!isSpace c) = true | none => True) : rstrip l = l := by
  unfold rstrip
  have : l.reverse.dropWhile isSpace = l.reverse := by
    apply lstrip_of_head
    rw [List.head?_reverse]
    exact h
  rw [this, List.reverse_reverse]

theorem strip_of_trimmed (l : Str) (h : trimmed l = true) : strip l = l := by
  simp only [trimmed, Bool.and_eq_true] at h
  unfold strip
  rw [lstrip_of_head l (by cases hh : l.head? <;> simp_all), rstrip_of_last l (by cases hh : l.getLast? <;> simp_all)]

end TallyVerif.Migrate

namespace TallyVerif.Migrate
open TallyVerif.RulesFile

/-! ### the generated lines through `MerchantEngine.parse` -/

theorem strip_ends (l : Str) (c1 c2 : Char) (h1 : l.head? = some c1) (h2 : l.getLast? = some c2)
    (n1 : isSpace c1 = false) (n2 : isSpace c2 = false) : strip l = l :=
  strip_of_trimmed l (by simp [trimmed, h1, h2, n1, n2])

/-- a `key: value` line written by the converter, as `splitProp` sees it after `strip` -/
theorem keyline (k v : Str) (c : Char) (kt : Str) (hk : k = c :: kt) (hsp : isSpace c = false) (hcol : ':' ∉ k)
    (hv : trimmed v = true) :
    splitProp (strip (k ++ ':' :: ' ' :: v)) = (lower (strip k), v) ∧
    (strip (k ++ ':' :: ' ' :: v)).head? = some c ∧ (strip (k ++ ':' :: ' ' :: v)).contains ':' = true := by
  cases v with
  | nil =>
    have e : k ++ [':', ' '] = (k ++ [':']) ++ [' '] := by simp
    have s1 : strip (k ++ [':', ' ']) = k ++ [':'] := by
      rw [e, strip_append_right _ _ (by decide)]
      exact strip_ends _ c ':' (by simp [hk]) (by simp) hsp (by decide)
    rw [s1]
    have := splitProp_key_colon k [] hcol
    refine ⟨by simpa [strip, lstrip, rstrip] using this, by simp [hk], by simp⟩
  | cons a v' =>
    simp only [trimmed, List.head?_cons, Bool.and_eq_true, Bool.not_eq_true'] at hv
    obtain ⟨ha, hlast⟩ := hv
    have hl : (k ++ ':' :: ' ' :: a :: v').getLast? = (a :: v').getLast? := by
      rw [List.getLast?_append]
      simp only [List.getLast?_cons_cons]
      cases hh : (a :: v').getLast? with
      | none => simp at hh
      | some z => rfl
    have s1 : strip (k ++ ':' :: ' ' :: a :: v') = k ++ ':' :: ' ' :: a :: v' := by
      apply strip_of_trimmed
      simp only [trimmed, hl, Bool.and_eq_true]
      refine ⟨by simp [hk, hsp], ?_⟩
      cases hh : (a :: v').getLast? with
      | none => rfl
      | some z => simp only [hh] at hlast; simpa using hlast
    rw [s1]
    have := splitProp_key_colon k (' ' :: a :: v') hcol
    have s2 : strip (' ' :: a :: v') = a :: v' := by
      have : (' ' :: a :: v') = [' '] ++ (a :: v') := rfl
      rw [this, strip_append_left _ _ (by decide)]
      apply strip_of_trimmed
      simp only [trimmed, List.head?_cons, Bool.and_eq_true, Bool.not_eq_true']
      exact ⟨ha, hlast⟩
    rw [s2] at this
    exact ⟨this, by simp [hk], by simp⟩

/-- the `current_rule` dict after the section of one tuple has been read -/
def dataOf (fixA fixB : Bool) (eps : NumLit) (c : CsvRule) : RuleData :=
  { name := c.merchant, matchExpr := some (matchText fixA fixB eps c), category := some c.category,
    subcategory := some c.subcategory,
    tags := if c.tags.isEmpty then none else some (splitTags (joinComma c.tags)) }

/-- what one generated section parses to: like `toRule`, with the tag set as `MerchantEngine.parse`
computes it from the `tags:` line -/
def toRuleP (fixA fixB : Bool) (eps : NumLit) (c : CsvRule) : Rule :=
  { name := c.merchant, merchant := c.merchant, category := c.category, subcategory := c.subcategory,
    tags := if c.tags.isEmpty then [] else splitTags (joinComma c.tags), priority := 50,
    matchExpr := matchText fixA fixB eps c, lets := [], fields := [] }

/-- per-tuple hypotheses of the structure theorem (all decidable) -/
structure RowGood (ve : Str → Bool) (fixA fixB : Bool) (eps : NumLit) (c : CsvRule) : Prop where
  merchant : trimmed c.merchant = true
  merchantNe : c.merchant ≠ []
  category : trimmed c.category = true
  subcategory : trimmed c.subcategory = true
  matchT : trimmed (matchText fixA fixB eps c) = true
  tagsT : trimmed (joinComma c.tags) = true
  valid : ve (matchText fixA fixB eps c) = true
  catOrTags : c.category ≠ [] ∨ (c.tags ≠ [] ∧ splitTags (joinComma c.tags) ≠ [])

private theorem prop_step (ve : Str → Bool) (st : MState) (d : RuleData) (n : Nat) (k v : Str) (c : Char) (kt : Str)
    (pk : PropKey) (hcur : st.cur = some d)
    (hk : k = c :: kt) (hsp : isSpace c = false) (hcol : ':' ∉ k) (hv : trimmed v = true)
    (hc1 : c ≠ '#') (hc2 : c ≠ '[') (hpk : propKey? (lower (strip k)) = some pk) (d' : RuleData)
    (happly : applyProp pk v d = .ok d') :
    step ve st n (k ++ ':' :: ' ' :: v) = .ok { st with cur := some d' } := by
  obtain ⟨h1, h2, h3⟩ := keyline k v c kt hk hsp hcol hv
  have hne : (strip (k ++ ':' :: ' ' :: v)) ≠ [] := by
    intro e; rw [e] at h2; simp at h2
  have hskip : isSkip (strip (k ++ ':' :: ' ' :: v)) = false := by
    simp only [isSkip, h2, Bool.or_eq_false_iff]
    refine ⟨by simpa using hne, by simpa using hc1⟩
  have hhead : isHeader (strip (k ++ ':' :: ' ' :: v)) = false := by
    simp only [isHeader, h2, Bool.and_eq_false_iff]
    left; simpa using hc2
  simp only [step, stepS, hskip, hhead, hcur, h3, propLine, h1, hpk, happly, Bool.false_eq_true, if_false, if_true]

end TallyVerif.Migrate

namespace TallyVerif.Migrate
open TallyVerif.RulesFile

private theorem getLast_bracket (m : Str) : ('[' :: (m ++ [']'])).getLast? = some ']' := by
  rw [show '[' :: (m ++ [']']) = ('[' :: m) ++ [']'] from rfl, List.getLast?_append]
  rfl

private theorem header_step (ve : Str → Bool) (st st1 : MState) (n : Nat) (m : Str) (hm : trimmed m = true) (hne : m ≠ [])
    (hclose : closeCur ve st = .ok st1) :
    step ve st n ('[' :: (m ++ [']'])) = .ok { st1 with cur := some { name := m }, startLine := n } := by
  have s1 : strip ('[' :: (m ++ [']'])) = '[' :: (m ++ [']']) :=
    strip_ends _ '[' ']' rfl (getLast_bracket m) (by decide) (by decide)
  have hskip : isSkip ('[' :: (m ++ [']'])) = false := by
    simp only [isSkip, List.isEmpty_cons, List.head?_cons, Bool.false_or]; decide
  have hhead : isHeader ('[' :: (m ++ [']'])) = true := by
    simp only [isHeader, List.head?_cons, getLast_bracket]; decide
  have hname : headerName ('[' :: (m ++ [']'])) = m := by
    simp only [headerName, List.drop_succ_cons, List.drop_zero, List.dropLast_concat]
    exact strip_of_trimmed m hm
  have hme : m.isEmpty = false := by
    cases m with
    | nil => exact absurd rfl hne
    | cons a t => rfl
  simp only [step, s1, stepS, hskip, hhead, hclose, hname, hme, Bool.false_eq_true, if_false, if_true]

private theorem blank_step (ve : Str → Bool) (st : MState) (n : Nat) : step ve st n [] = .ok st := rfl

private theorem run_cons_ok (ve : Str → Bool) (n : Nat) (st st' : MState) (l : Str) (ls : List Str)
    (h : step ve st n l = .ok st') : run ve n st (l :: ls) = run ve (n + 1) st' ls := by
  simp only [run, h]

/-- loop state while inside a section -/
def inRule (st1 : MState) (n : Nat) (d : RuleData) : MState := { st1 with cur := some d, startLine := n }

def dA (c : CsvRule) : RuleData := { name := c.merchant }
def dB (m : Str) (c : CsvRule) : RuleData := { dA c with matchExpr := some m }
def dC (m : Str) (c : CsvRule) : RuleData := { dB m c with category := some c.category }
def dD (m : Str) (c : CsvRule) : RuleData := { dC m c with subcategory := some c.subcategory }
def dE (m : Str) (c : CsvRule) : RuleData := { dD m c with tags := some (splitTags (joinComma c.tags)) }

theorem block_run (ve : Str → Bool) (fixA fixB : Bool) (eps : NumLit) (c : CsvRule) (g : RowGood ve fixA fixB eps c)
    (n : Nat) (st st1 : MState) (hclose : closeCur ve st = .ok st1) :
    run ve n st (ruleLines fixA fixB eps c) = .ok (inRule st1 n (dataOf fixA fixB eps c)) := by
  have h0 : step ve st n ('[' :: (c.merchant ++ [']'])) = .ok (inRule st1 n (dA c)) :=
    header_step ve st st1 n c.merchant g.merchant g.merchantNe hclose
  have h1 : step ve (inRule st1 n (dA c)) (n + 1) ("match".toList ++ ':' :: ' ' :: matchText fixA fixB eps c) =
      .ok (inRule st1 n (dB (matchText fixA fixB eps c) c)) :=
    prop_step ve (inRule st1 n (dA c)) (dA c) (n + 1) "match".toList (matchText fixA fixB eps c) 'm' "atch".toList .match rfl rfl
      (by decide) (by decide) g.matchT (by decide) (by decide) (by decide) _ rfl
  have h2 : step ve (inRule st1 n (dB (matchText fixA fixB eps c) c)) (n + 1 + 1) ("category".toList ++ ':' :: ' ' :: c.category) =
      .ok (inRule st1 n (dC (matchText fixA fixB eps c) c)) :=
    prop_step ve _ (dB (matchText fixA fixB eps c) c) (n + 1 + 1) "category".toList c.category 'c' "ategory".toList .category rfl rfl
      (by decide) (by decide) g.category (by decide) (by decide) (by decide) _ rfl
  have h3 : step ve (inRule st1 n (dC (matchText fixA fixB eps c) c)) (n + 1 + 1 + 1)
      ("subcategory".toList ++ ':' :: ' ' :: c.subcategory) = .ok (inRule st1 n (dD (matchText fixA fixB eps c) c)) :=
    prop_step ve _ (dC (matchText fixA fixB eps c) c) (n + 1 + 1 + 1) "subcategory".toList c.subcategory 's' "ubcategory".toList
      .subcategory rfl rfl (by decide) (by decide) g.subcategory (by decide) (by decide) (by decide) _ rfl
  by_cases ht : c.tags.isEmpty = true
  · have e : ruleLines fixA fixB eps c =
        [ '[' :: (c.merchant ++ [']']), "match".toList ++ ':' :: ' ' :: matchText fixA fixB eps c,
          "category".toList ++ ':' :: ' ' :: c.category, "subcategory".toList ++ ':' :: ' ' :: c.subcategory, [] ] := by
      simp [ruleLines, ht]
    rw [e, run_cons_ok _ _ _ _ _ _ h0, run_cons_ok _ _ _ _ _ _ h1, run_cons_ok _ _ _ _ _ _ h2, run_cons_ok _ _ _ _ _ _ h3,
      run_cons_ok _ _ _ _ _ _ (blank_step ve _ _)]
    simp only [run, dataOf, ht, if_true]
    rfl
  · have h4 : step ve (inRule st1 n (dD (matchText fixA fixB eps c) c)) (n + 1 + 1 + 1 + 1)
        ("tags".toList ++ ':' :: ' ' :: joinComma c.tags) = .ok (inRule st1 n (dE (matchText fixA fixB eps c) c)) :=
      prop_step ve _ (dD (matchText fixA fixB eps c) c) (n + 1 + 1 + 1 + 1) "tags".toList (joinComma c.tags) 't' "ags".toList
        .tags rfl rfl (by decide) (by decide) g.tagsT (by decide) (by decide) (by decide) _ rfl
    have e : ruleLines fixA fixB eps c =
        [ '[' :: (c.merchant ++ [']']), "match".toList ++ ':' :: ' ' :: matchText fixA fixB eps c,
          "category".toList ++ ':' :: ' ' :: c.category, "subcategory".toList ++ ':' :: ' ' :: c.subcategory,
          "tags".toList ++ ':' :: ' ' :: joinComma c.tags, [] ] := by
      simp [ruleLines, ht]
    rw [e, run_cons_ok _ _ _ _ _ _ h0, run_cons_ok _ _ _ _ _ _ h1, run_cons_ok _ _ _ _ _ _ h2, run_cons_ok _ _ _ _ _ _ h3,
      run_cons_ok _ _ _ _ _ _ h4, run_cons_ok _ _ _ _ _ _ (blank_step ve _ _)]
    simp only [run, dataOf, ht, Bool.false_eq_true, if_false]
    rfl

theorem close_block (ve : Str → Bool) (fixA fixB : Bool) (eps : NumLit) (c : CsvRule) (g : RowGood ve fixA fixB eps c)
    (n : Nat) (st1 : MState) :
    closeCur ve (inRule st1 n (dataOf fixA fixB eps c)) =
      .ok { inRule st1 n (dataOf fixA fixB eps c) with cur := none, rules := st1.rules ++ [toRuleP fixA fixB eps c] } := by
  have hct : (!hasCategory (dataOf fixA fixB eps c) && !hasTags (dataOf fixA fixB eps c)) = false := by
    rcases g.catOrTags with h | ⟨h1, h2⟩
    · have : hasCategory (dataOf fixA fixB eps c) = true := by
        simp only [hasCategory, dataOf]
        cases hc : c.category with
        | nil => exact absurd hc h
        | cons a t => rfl
      simp [this]
    · have : hasTags (dataOf fixA fixB eps c) = true := by
        have he : c.tags.isEmpty = false := by
          cases ht : c.tags with
          | nil => exact absurd ht h1
          | cons a t => rfl
        simp only [hasTags, dataOf, he, Bool.false_eq_true, if_false]
        cases hs : splitTags (joinComma c.tags) with
        | nil => exact absurd hs h2
        | cons a t => rfl
      simp [this]
  have hadd : addRule ve (dataOf fixA fixB eps c) = .ok (toRuleP fixA fixB eps c) := by
    unfold addRule
    simp only [dataOf] at hct ⊢
    simp only [hct, allValid, List.all_nil, g.valid, Bool.false_eq_true, if_false, Bool.not_true, mkRule, toRuleP]
    by_cases ht : c.tags.isEmpty = true <;> simp [ht]
  simp only [closeCur, inRule, hadd]

theorem blocks_run (ve : Str → Bool) (fixA fixB : Bool) (eps : NumLit) (cs : List CsvRule)
    (hg : ∀ c ∈ cs, RowGood ve fixA fixB eps c) :
    ∀ (n : Nat) (st st1 : MState), closeCur ve st = .ok st1 →
      ∃ st2 st3, run ve n st (cs.flatMap (ruleLines fixA fixB eps)) = .ok st2 ∧ closeCur ve st2 = .ok st3 ∧
        st3.rules = st1.rules ++ cs.map (toRuleP fixA fixB eps) ∧ st3.variables = st1.variables ∧
        st3.transforms = st1.transforms := by
  induction cs with
  | nil => intro n st st1 h; exact ⟨st, st1, rfl, h, by simp, rfl, rfl⟩
  | cons c cs ih =>
    intro n st st1 h
    have g := hg c (by simp)
    rw [List.flatMap_cons, run_append, block_run ve fixA fixB eps c g n st st1 h]
    obtain ⟨st2, st3, h1, h2, h3, h4, h5⟩ := ih (fun x hx => hg x (by simp [hx])) (n + (ruleLines fixA fixB eps c).length)
      (inRule st1 n (dataOf fixA fixB eps c)) _ (close_block ve fixA fixB eps c g n st1)
    exact ⟨st2, st3, h1, h2, by simp [h3, inRule], by simp [h4, inRule], by simp [h5, inRule]⟩

theorem header_run (ve : Str → Bool) : run ve 1 {} headerLines = .ok {} := rfl

end TallyVerif.Migrate
