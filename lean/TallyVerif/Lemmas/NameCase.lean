import TallyVerif.Lemmas.ExprUnfold
import TallyVerif.Lemmas.AsciiCase
import TallyVerif.Model.ExprNames
/-!
Whole-tree identifier renaming: `eval o ctx (e.mapNames f) = eval o ctx e` for every `f` that keeps the
lower-cased spelling of every identifier (`CasePreserving f`), by mutual structural induction over
`eval / evalArgs / evalLazyArgs / evalBool / evalConds / evalLinks / evalGens` (`loopItems` is not recursive
in the syntax: it receives the already-renamed binder, condition and body).

No side condition on binders is needed: the evaluator (model and code) lower-cases the binder when it
BINDS (`comp.target.id.lower()`, `node.target.id.lower()` for `:=`) and lower-cases the name when it LOOKS
it up (`node.id.lower()`), so a binder written `X` and used as `x` meets itself in `_scope['x']`.
-/
namespace TallyVerif.Expr
open TallyVerif.Py

/-! ### letter case of identifiers -/

/-- the renaming keeps the lower-cased spelling of every identifier -/
def CasePreserving (f : String → String) : Prop := ∀ id, lowerName (f id) = lowerName id

theorem lo_lo_ascii : ∀ n : Nat, n < 128 → (Char.ofNat n).toLower.toLower = (Char.ofNat n).toLower := by decide +kernel

theorem char_toLower_big (c : Char) (h : 128 ≤ c.toNat) : c.toLower = c := by
  unfold Char.toLower
  split
  · rename_i h'
    have h2 := UInt32.le_iff_toNat_le.mp h'.2
    have : c.val.toNat = c.toNat := rfl
    have : ('Z' : Char).val.toNat = 90 := by decide
    omega
  · rfl

theorem char_toUpper_big (c : Char) (h : 128 ≤ c.toNat) : c.toUpper = c := by
  unfold Char.toUpper
  split
  · rename_i h'
    have h2 := UInt32.le_iff_toNat_le.mp h'.2
    have : c.val.toNat = c.toNat := rfl
    have : ('z' : Char).val.toNat = 122 := by decide
    omega
  · rfl

theorem char_lower_lower (c : Char) : c.toLower.toLower = c.toLower := by
  by_cases h : c.toNat < 128
  · have := lo_lo_ascii c.toNat h
    simpa using this
  · have e := char_toLower_big c (by omega)
    rw [e, e]

theorem char_upper_lower (c : Char) : c.toUpper.toLower = c.toLower := by
  by_cases h : c.toNat < 128
  · have := lo_up_ascii c.toNat h
    simpa using this
  · rw [char_toUpper_big c (by omega)]

/-- lower-casing an identifier is idempotent (for EVERY string, ASCII or not: `lowerName` only moves A–Z) -/
theorem lowerName_lowerName (s : String) : lowerName (lowerName s) = lowerName s := by
  apply String.toList_inj.mp
  simp only [lowerName, String.toLower, String.toList_map, List.map_map]
  apply List.map_congr_left
  intro c _
  exact char_lower_lower c

theorem lowerName_toUpper (s : String) : lowerName s.toUpper = lowerName s := by
  apply String.toList_inj.mp
  simp only [lowerName, String.toLower, String.toUpper, String.toList_map, List.map_map]
  apply List.map_congr_left
  intro c _
  exact char_upper_lower c

theorem casePreserving_lower : CasePreserving lowerName := lowerName_lowerName
theorem casePreserving_upper : CasePreserving String.toUpper := lowerName_toUpper
theorem casePreserving_id : CasePreserving id := fun _ => rfl

/-- a renaming that chooses the spelling PER IDENTIFIER from a table of spellings (anything not in the
table is left alone) is case-preserving when every table entry is; the check compares character lists
(two computed `String`s are slow to compare in the kernel) -/
def tableOk (tbl : List (String × String)) : Bool :=
  tbl.all (fun kv => (lowerName kv.2).toList == (lowerName kv.1).toList)

theorem casePreserving_table (tbl : List (String × String)) (h : tableOk tbl = true) :
    CasePreserving (fun id => (tbl.lookup id).getD id) := by
  intro id
  induction tbl with
  | nil => rfl
  | cons kv tbl ih =>
    obtain ⟨k, v⟩ := kv
    simp only [tableOk, List.all_cons, Bool.and_eq_true, beq_iff_eq] at h
    simp only [List.lookup_cons]
    by_cases hk : (id == k) = true
    · have e : id = k := by simpa using hk
      have := String.toList_inj.mp h.1
      simp [e, this]
    · have hk' : (id == k) = false := by simpa using hk
      simp only [hk']
      exact ih h.2

/-! ### the three dispatching constructors, outside the induction -/

theorem lookupName_congr (ctx : Ctx) (id id' : String) (h : lowerName id = lowerName id') :
    lookupName ctx id = lookupName ctx id' := by
  simp only [lookupName, h]

theorem callNameBody_mapNames (o : Oracles) (ctx : Ctx) (ev : Expr → M Val) (evArgs : List Expr → M (List Val))
    (evLazy : Consumer → List Expr → Acc → M Acc) (fn : String) (f : String → String) (args : List Expr)
    (h1 : (mapNamesList f args).map ev = args.map ev) (h2 : evArgs (mapNamesList f args) = evArgs args)
    (h3 : ∀ c, evLazy c (mapNamesList f args) = evLazy c args) :
    callNameBody o ctx ev evArgs evLazy fn (mapNamesList f args) = callNameBody o ctx ev evArgs evLazy fn args := by
  have hl : (mapNamesList f args).length = args.length := by
    have := congrArg List.length h1; simpa using this
  unfold callNameBody
  simp only [h2, h3, hl]
  match args, h1 with
  | [], _ => rfl
  | [a], h1 =>
    simp only [mapNamesList, List.map_cons, List.map_nil, List.cons.injEq, and_true] at h1
    simp only [mapNamesList, h1]
  | [a, b], h1 =>
    simp only [mapNamesList, List.map_cons, List.map_nil, List.cons.injEq, and_true] at h1
    simp only [mapNamesList, h1.1, h1.2]
  | a :: b :: c :: rest, _ => simp only [mapNamesList]

theorem callNameGenBody_mapNames (o : Oracles) (ctx : Ctx) (ev : Expr → M Val) (evArgs : List Expr → M (List Val))
    (gensM : (Acc → M (Step Acc)) → Acc → M (Step Acc)) (eltM : M Val) (fn : String) (f : String → String)
    (more : List Expr)
    (h1 : (mapNamesList f more).map ev = more.map ev) (h2 : evArgs (mapNamesList f more) = evArgs more) :
    callNameGenBody o ctx ev evArgs gensM eltM fn (mapNamesList f more) = callNameGenBody o ctx ev evArgs gensM eltM fn more := by
  unfold callNameGenBody
  simp only [h2]
  match more, h1 with
  | [], _ => rfl
  | [a], h1 =>
    simp only [mapNamesList, List.map_cons, List.map_nil, List.cons.injEq, and_true] at h1
    simp only [mapNamesList, h1]
  | a :: b :: rest, h1 =>
    simp only [mapNamesList, List.map_cons, List.cons.injEq] at h1
    simp only [mapNamesList, h1.1]

theorem callAttrBody_mapNames (o : Oracles) (ev : Expr → M Val) (recvM : M Val) (m : String) (f : String → String)
    (args : List Expr) (h1 : (mapNamesList f args).map ev = args.map ev) :
    callAttrBody o ev recvM m (mapNamesList f args) = callAttrBody o ev recvM m args := by
  unfold callAttrBody
  match args, h1 with
  | [], _ => rfl
  | [a], h1 =>
    simp only [mapNamesList, List.map_cons, List.map_nil, List.cons.injEq, and_true] at h1
    simp only [mapNamesList, h1]
  | [a, b], h1 =>
    simp only [mapNamesList, List.map_cons, List.map_nil, List.cons.injEq, and_true] at h1
    simp only [mapNamesList, h1.1, h1.2]
  | a :: b :: c :: rest, _ => simp only [mapNamesList]

/-! ### the mutual induction -/

section
set_option linter.unusedSectionVars false     -- `hf` reaches every member through the mutual calls
variable (o : Oracles) (ctx : Ctx) (f : String → String) (hf : CasePreserving f)
include hf

mutual
theorem eval_mapNames_aux : (e : Expr) → eval o ctx (e.mapNames f) = eval o ctx e
  | .const v => rfl
  | .name id => by
    rw [Expr.mapNames, eval_name, eval_name]
    exact lookupName_congr ctx _ _ (hf id)
  | .attr e a => by
    rw [Expr.mapNames, eval_attr, eval_attr, eval_mapNames_aux e, hf a]
  | .attrName id a => by
    rw [Expr.mapNames, eval_attrName, eval_attrName, hf id, hf a, lookupName_congr ctx _ _ (hf id)]
  | .callName g args => by
    rw [Expr.mapNames, eval_callName, eval_callName, hf g]
    exact callNameBody_mapNames o ctx _ _ _ _ f args (evalEach_mapNames_aux args) (evalArgs_mapNames_aux args)
      (fun c => evalLazyArgs_mapNames_aux c args)
  | .callNameGen g elt gens more => by
    rw [Expr.mapNames, eval_callNameGen, eval_callNameGen, hf g, eval_mapNames_aux elt, evalGens_mapNames_aux gens]
    exact callNameGenBody_mapNames o ctx _ _ _ _ _ f more (evalEach_mapNames_aux more) (evalArgs_mapNames_aux more)
  | .callAttr recv meth args => by
    rw [Expr.mapNames, eval_callAttr, eval_callAttr, hf meth, eval_mapNames_aux recv]
    exact callAttrBody_mapNames o _ _ _ f args (evalEach_mapNames_aux args)
  | .callOther g args => by
    rw [Expr.mapNames, eval_callOther, eval_callOther]
  | .boolop isAnd es => by
    rw [Expr.mapNames, eval_boolop, eval_boolop, evalBool_mapNames_aux isAnd es]
  | .unop op e => by
    rw [Expr.mapNames, eval_unop, eval_unop, eval_mapNames_aux e]
  | .binop op l r => by
    rw [Expr.mapNames, eval_binop, eval_binop, eval_mapNames_aux l, eval_mapNames_aux r]
  | .cmp l links => by
    rw [Expr.mapNames, eval_cmp, eval_cmp, eval_mapNames_aux l]
    simp only [evalLinks_mapNames_aux links]
  | .ifexp c t e => by
    rw [Expr.mapNames, eval_ifexp, eval_ifexp, eval_mapNames_aux c, eval_mapNames_aux t, eval_mapNames_aux e]
  | .listcomp elt gens => by
    rw [Expr.mapNames, eval_listcomp, eval_listcomp, eval_mapNames_aux elt, evalGens_mapNames_aux gens]
  | .genexp elt gens => by
    rw [Expr.mapNames, eval_genexp, eval_genexp]
  | .subscript e i => by
    rw [Expr.mapNames, eval_subscript, eval_subscript, eval_mapNames_aux e, eval_mapNames_aux i]
  | .walrus id e => by
    rw [Expr.mapNames, eval_walrus, eval_walrus, eval_mapNames_aux e, hf id]
/-- argument lists evaluate pointwise to the same computations -/
theorem evalEach_mapNames_aux : (es : List Expr) → (mapNamesList f es).map (eval o ctx) = es.map (eval o ctx)
  | [] => rfl
  | e :: es => by
    rw [mapNamesList, List.map_cons, List.map_cons, eval_mapNames_aux e, evalEach_mapNames_aux es]
theorem evalArgs_mapNames_aux : (es : List Expr) → evalArgs o ctx (mapNamesList f es) = evalArgs o ctx es
  | [] => rfl
  | e :: es => by
    rw [mapNamesList, evalArgs_cons, evalArgs_cons, eval_mapNames_aux e, evalArgs_mapNames_aux es]
theorem evalLazyArgs_mapNames_aux (c : Consumer) : (es : List Expr) →
    evalLazyArgs o ctx c (mapNamesList f es) = evalLazyArgs o ctx c es
  | [] => rfl
  | e :: es => by
    funext acc
    rw [mapNamesList, evalLazyArgs_cons, evalLazyArgs_cons, eval_mapNames_aux e, evalLazyArgs_mapNames_aux c es]
theorem evalBool_mapNames_aux (isAnd : Bool) : (es : List Expr) →
    evalBool o ctx isAnd (mapNamesList f es) = evalBool o ctx isAnd es
  | [] => rfl
  | e :: es => by
    rw [mapNamesList, evalBool_cons, evalBool_cons, eval_mapNames_aux e, evalBool_mapNames_aux isAnd es]
theorem evalConds_mapNames_aux : (es : List Expr) → evalConds o ctx (mapNamesList f es) = evalConds o ctx es
  | [] => rfl
  | e :: es => by
    rw [mapNamesList, evalConds_cons, evalConds_cons, eval_mapNames_aux e, evalConds_mapNames_aux es]
theorem evalLinks_mapNames_aux : (links : List Link) → ∀ left : Val,
    evalLinks o ctx left (mapNamesLinks f links) = evalLinks o ctx left links
  | [] => fun _ => rfl
  | .mk op e :: rest => by
    intro left
    rw [mapNamesLinks, evalLinks_cons, evalLinks_cons, eval_mapNames_aux e]
    simp only [evalLinks_mapNames_aux rest]
theorem evalGens_mapNames_aux : (gens : List Comp) → evalGens o ctx (mapNamesComps f gens) = evalGens o ctx gens
  | [] => rfl
  | .mk target iter ifs :: gs => by
    funext body acc
    rw [mapNamesComps, evalGens_cons, evalGens_cons, eval_mapNames_aux iter, evalConds_mapNames_aux ifs,
      evalGens_mapNames_aux gs]
    cases target with
    | none => rfl
    | some x => simp only [Option.map_some, hf x]
end
end

end TallyVerif.Expr
