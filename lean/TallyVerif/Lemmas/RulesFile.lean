import TallyVerif.Model.RulesFile
/-! Helper lemmas for C17 (white-space stripping, the two loops, line-number erasure). -/
namespace TallyVerif.RulesFile

/-! ### strip -/

theorem dropWhile_append_all {p : Char → Bool} (a b : Str) (h : a.all p = true) :
    (a ++ b).dropWhile p = b.dropWhile p := by
  induction a with
  | nil => rfl
  | cons x xs ih =>
    simp only [List.all_cons, Bool.and_eq_true] at h
    simp [h.1, ih h.2]

theorem dropWhile_all_nil {p : Char → Bool} (a : Str) (h : a.all p = true) : a.dropWhile p = [] := by
  have := dropWhile_append_all (p := p) a [] h
  simpa using this

theorem dropWhile_append_not_all {p : Char → Bool} (a b : Str) (h : a.all p = false) :
    (a ++ b).dropWhile p = a.dropWhile p ++ b := by
  induction a with
  | nil => simp at h
  | cons x xs ih =>
    by_cases hx : p x = true
    · have hxs : xs.all p = false := by
        simp only [List.all_cons, hx, Bool.true_and] at h; exact h
      simp [hx, ih hxs]
    · simp [hx]

theorem dropWhile_nil_all {p : Char → Bool} (l : Str) (h : l.dropWhile p = []) : l.all p = true := by
  induction l with
  | nil => simp
  | cons x xs ih =>
    by_cases hx : p x = true
    · simp [hx] at h; simp [hx, ih h]
    · simp [hx] at h

theorem lstrip_append_left (ws l : Str) (h : ws.all isSpace = true) : lstrip (ws ++ l) = lstrip l :=
  dropWhile_append_all ws l h

theorem rstrip_append_right (l ws : Str) (h : ws.all isSpace = true) : rstrip (l ++ ws) = rstrip l := by
  unfold rstrip
  rw [List.reverse_append, dropWhile_append_all _ _ (by simpa using h)]

theorem lstrip_append_right (l ws : Str) (h : ws.all isSpace = true) :
    lstrip (l ++ ws) = if l.all isSpace then [] else lstrip l ++ ws := by
  unfold lstrip
  by_cases hl : l.all isSpace = true
  · rw [dropWhile_append_all _ _ hl, dropWhile_all_nil _ h]; simp [hl]
  · have : l.all isSpace = false := by simpa using hl
    rw [dropWhile_append_not_all _ _ this]; simp [this]

theorem strip_append_right (l ws : Str) (h : ws.all isSpace = true) : strip (l ++ ws) = strip l := by
  unfold strip
  rw [lstrip_append_right l ws h]
  by_cases hl : l.all isSpace = true
  · simp only [hl, if_true]
    have : lstrip l = [] := dropWhile_all_nil _ hl
    rw [this]
  · have : l.all isSpace = false := by simpa using hl
    simp only [this]
    exact rstrip_append_right _ _ h

theorem strip_append_left (ws l : Str) (h : ws.all isSpace = true) : strip (ws ++ l) = strip l := by
  unfold strip; rw [lstrip_append_left ws l h]

/-- white space added at either end of a line does not change what `strip` returns -/
theorem strip_pad (ws l ws' : Str) (h : ws.all isSpace = true) (h' : ws'.all isSpace = true) :
    strip (ws ++ l ++ ws') = strip l := by
  rw [strip_append_right _ _ h', strip_append_left _ _ h]


/-! ### the merchants loop -/

theorem run_append (ve : Str → Bool) (n : Nat) (st : MState) (a b : List Str) :
    run ve n st (a ++ b) =
      match run ve n st a with
      | .ok st' => run ve (n + a.length) st' b
      | .error e => .error e := by
  induction a generalizing n st with
  | nil => simp [run]
  | cons l ls ih =>
    simp only [List.cons_append, run]
    cases h : step ve st n l with
    | error e => simp
    | ok st' =>
      simp only [ih, List.length_cons]
      have : n + 1 + ls.length = n + (ls.length + 1) := by omega
      rw [this]

/-- the loop looks at a line only through `strip` -/
theorem run_congr_strip (ve : Str → Bool) (n : Nat) (st : MState) (a b : List Str)
    (h : a.map strip = b.map strip) : run ve n st a = run ve n st b := by
  induction a generalizing n st b with
  | nil => cases b with
    | nil => rfl
    | cons _ _ => simp at h
  | cons l ls ih =>
    cases b with
    | nil => simp at h
    | cons l' ls' =>
      simp only [List.map_cons, List.cons.injEq] at h
      simp only [run, step, h.1]
      cases stepS ve st n (strip l') with
      | error e => rfl
      | ok st' => exact ih _ _ _ h.2

/-- line numbers erased: from an error only its kind, from a state everything but `startLine` -/
def eraseSt (st : MState) : MState := { st with startLine := 0 }
def eraseR : Except (Nat × MErr) MState → Except MErr MState
  | .ok st => .ok (eraseSt st)
  | .error (_, k) => .error k
def eraseLine {ε α : Type} : Except (Nat × ε) α → Except ε α
  | .ok a => .ok a
  | .error (_, k) => .error k

theorem closeCur_erase (ve : Str → Bool) (st st' : MState) (h : eraseSt st = eraseSt st') :
    eraseR (closeCur ve st) = eraseR (closeCur ve st') := by
  obtain ⟨cur, sl, rules, vars, trs⟩ := st
  obtain ⟨cur', sl', rules', vars', trs'⟩ := st'
  simp only [eraseSt, MState.mk.injEq] at h
  obtain ⟨rfl, -, rfl, rfl, rfl⟩ := h
  unfold closeCur
  cases cur with
  | none => simp [eraseR, eraseSt]
  | some d =>
    simp only
    cases addRule ve d <;> simp [eraseR, eraseSt]

theorem stepS_erase (ve : Str → Bool) (st st' : MState) (n m : Nat) (s : Str)
    (h : eraseSt st = eraseSt st') : eraseR (stepS ve st n s) = eraseR (stepS ve st' m s) := by
  have hc := closeCur_erase ve st st' h
  obtain ⟨cur, sl, rules, vars, trs⟩ := st
  obtain ⟨cur', sl', rules', vars', trs'⟩ := st'
  simp only [eraseSt, MState.mk.injEq] at h
  obtain ⟨rfl, -, rfl, rfl, rfl⟩ := h
  unfold stepS
  cases h1 : isSkip s
  case true => simp [eraseR, eraseSt]
  case false =>
  cases h2 : isHeader s
  case true =>
    simp only [Bool.false_eq_true, if_false, if_true]
    revert hc
    cases closeCur ve ⟨cur, sl, rules, vars, trs⟩ <;> cases closeCur ve ⟨cur, sl', rules, vars, trs⟩ <;>
      simp only [eraseR] <;> intro hc
    · simpa using hc
    · simp at hc
    · simp at hc
    · rename_i a b
      obtain ⟨c1, s1, r1, v1, t1⟩ := a
      obtain ⟨c2, s2, r2, v2, t2⟩ := b
      simp only [eraseSt, Except.ok.injEq, MState.mk.injEq] at hc
      obtain ⟨rfl, -, rfl, rfl, rfl⟩ := hc
      cases hn : (headerName s).isEmpty <;> simp [eraseSt]
  case false =>
    simp only [Bool.false_eq_true, if_false]
    cases cur with
    | none =>
      simp only [eraseR, eraseSt, topLine]
      cases s.contains '=' <;> simp only [Bool.false_eq_true, if_false, if_true]
      cases matchTopAssign s with
      | none => rfl
      | some x => obtain ⟨b, l, r⟩ := x; cases b <;> rfl
    | some d =>
      simp only
      cases s.contains ':' <;> simp only [Bool.false_eq_true, if_false, if_true]
      · simp [eraseR]
      · cases propLine s d <;> simp [eraseR, eraseSt]

theorem eraseR_ok_or_error (x y : Except (Nat × MErr) MState) (h : eraseR x = eraseR y) :
    (∃ a b, x = .ok a ∧ y = .ok b ∧ eraseSt a = eraseSt b) ∨
    (∃ n m k, x = .error (n, k) ∧ y = .error (m, k)) := by
  cases x with
  | ok a => cases y with
    | ok b => left; exact ⟨a, b, rfl, rfl, by simpa [eraseR] using h⟩
    | error e => obtain ⟨_, _⟩ := e; simp [eraseR] at h
  | error e => cases y with
    | ok b => obtain ⟨_, _⟩ := e; simp [eraseR] at h
    | error e' =>
      obtain ⟨n, k⟩ := e; obtain ⟨m, k'⟩ := e'
      right; simp [eraseR] at h; exact ⟨n, m, k, rfl, by rw [h]⟩

/-- renumbering the lines changes only the line numbers in the outcome -/
theorem run_erase (ve : Str → Bool) (n m : Nat) (st st' : MState) (ls : List Str)
    (h : eraseSt st = eraseSt st') : eraseR (run ve n st ls) = eraseR (run ve m st' ls) := by
  induction ls generalizing n m st st' with
  | nil => simp [run, eraseR, h]
  | cons l ls ih =>
    simp only [run, step]
    rcases eraseR_ok_or_error _ _ (stepS_erase ve st st' n m (strip l) h) with
      ⟨a, b, ha, hb, hab⟩ | ⟨n', m', k, ha, hb⟩
    · rw [ha, hb]; exact ih _ _ _ _ hab
    · rw [ha, hb]; simp [eraseR]

def nonSkipLine (l : Str) : Bool := !isSkip (strip l)

/-- blank and comment lines are invisible apart from the line numbers -/
theorem run_filter_skip (ve : Str → Bool) (n m : Nat) (st st' : MState) (ls : List Str)
    (h : eraseSt st = eraseSt st') :
    eraseR (run ve n st ls) = eraseR (run ve m st' (ls.filter nonSkipLine)) := by
  induction ls generalizing n m st st' with
  | nil => simp [run, eraseR, h]
  | cons l ls ih =>
    by_cases hs : isSkip (strip l) = true
    · have : (l :: ls).filter nonSkipLine = ls.filter nonSkipLine := by simp [nonSkipLine, hs]
      rw [this]
      have : run ve n st (l :: ls) = run ve (n + 1) st ls := by simp [run, step, stepS, hs]
      rw [this]; exact ih _ _ _ _ h
    · have : (l :: ls).filter nonSkipLine = l :: ls.filter nonSkipLine := by simp [nonSkipLine, hs]
      rw [this]
      simp only [run, step]
      rcases eraseR_ok_or_error _ _ (stepS_erase ve st st' n m (strip l) h) with
        ⟨a, b, ha, hb, hab⟩ | ⟨n', m', k, ha, hb⟩
      · rw [ha, hb]; exact ih _ _ _ _ hab
      · rw [ha, hb]; simp [eraseR]

theorem finish_erase (ve : Str → Bool) (x y : Except (Nat × MErr) MState) (h : eraseR x = eraseR y) :
    eraseLine (match x with | .ok st => finish ve st | .error e => .error e) =
    eraseLine (match y with | .ok st => finish ve st | .error e => .error e) := by
  rcases eraseR_ok_or_error _ _ h with ⟨a, b, rfl, rfl, hab⟩ | ⟨n, m, k, rfl, rfl⟩
  · simp only [finish]
    rcases eraseR_ok_or_error _ _ (closeCur_erase ve a b hab) with ⟨a', b', ha, hb, hab'⟩ | ⟨n, m, k, ha, hb⟩
    · rw [ha, hb]
      obtain ⟨c1, s1, r1, v1, t1⟩ := a'
      obtain ⟨c2, s2, r2, v2, t2⟩ := b'
      simp only [eraseSt, MState.mk.injEq] at hab'
      obtain ⟨-, -, rfl, rfl, rfl⟩ := hab'
      rfl
    · rw [ha, hb]; rfl
  · rfl


/-! ### section headers and rule names (merchants) -/

def isHeaderLine (l : Str) : Bool := !isSkip (strip l) && isHeader (strip l)
/-- the names between the brackets of the header lines, in file order -/
def headerNames (lines : List Str) : List Str := (lines.filter isHeaderLine).map fun l => headerName (strip l)
def namesOf (st : MState) : List Str :=
  st.rules.map (·.name) ++ (match st.cur with | some d => [d.name] | none => [])

/-- everything `_add_rule` checked when it accepts a rule -/
theorem addRule_ok (ve : Str → Bool) (d : RuleData) (r : Rule) (h : addRule ve d = .ok r) :
    ∃ m, d.matchExpr = some m ∧ r = mkRule d m ∧ ve m = true ∧ allValid ve d.lets = true ∧
      allValid ve d.fields = true ∧ (hasCategory d || hasTags d) = true := by
  unfold addRule at h
  cases hm : d.matchExpr with
  | none => simp [hm] at h
  | some m =>
    refine ⟨m, rfl, ?_⟩
    cases h1 : hasCategory d <;> cases h2 : hasTags d <;> cases h3 : allValid ve d.lets <;>
      cases h4 : allValid ve d.fields <;> cases h5 : ve m <;>
      simp [hm, h1, h2, h3, h4, h5] at h ⊢ <;> exact h.symm

theorem addRule_name (ve : Str → Bool) (d : RuleData) (r : Rule) (h : addRule ve d = .ok r) : r.name = d.name := by
  obtain ⟨m, _, hr, _⟩ := addRule_ok ve d r h
  rw [hr]; rfl

theorem applyProp_name (k : PropKey) (v : Str) (d d' : RuleData) (h : applyProp k v d = .ok d') : d'.name = d.name := by
  cases k <;> simp only [applyProp] at h
  · split at h
    · simp only [Except.ok.injEq] at h; rw [← h]
    · simp at h
  · split at h
    · simp only [Except.ok.injEq] at h; rw [← h]
    · simp at h
  · simp only [Except.ok.injEq] at h; rw [← h]
  · simp only [Except.ok.injEq] at h; rw [← h]
  · simp only [Except.ok.injEq] at h; rw [← h]
  · simp only [Except.ok.injEq] at h; rw [← h]
  · simp only [Except.ok.injEq] at h; rw [← h]
  · split at h
    · simp only [Except.ok.injEq] at h; rw [← h]
    · simp at h

theorem propLine_name (s : Str) (d d' : RuleData) (h : propLine s d = .ok d') : d'.name = d.name := by
  unfold propLine at h
  split at h
  · exact applyProp_name _ _ _ _ h
  · simp at h

theorem closeCur_names (ve : Str → Bool) (st st' : MState) (h : closeCur ve st = .ok st') :
    namesOf st' = namesOf st ∧ st'.cur = none := by
  unfold closeCur at h
  cases hc : st.cur with
  | none => simp only [hc, Except.ok.injEq] at h; subst h; exact ⟨rfl, hc⟩
  | some d =>
    simp only [hc] at h
    cases ha : addRule ve d with
    | error e => simp [ha] at h
    | ok r =>
      simp only [ha, Except.ok.injEq] at h
      subst h
      simp [namesOf, hc, addRule_name ve d r ha]

theorem step_names (ve : Str → Bool) (st st' : MState) (n : Nat) (l : Str) (h : step ve st n l = .ok st') :
    namesOf st' = namesOf st ++ (if isHeaderLine l then [headerName (strip l)] else []) := by
  unfold step stepS at h
  cases h1 : isSkip (strip l)
  case true => simp only [h1, if_true, Except.ok.injEq] at h; subst h; simp [isHeaderLine, h1]
  case false =>
  cases h2 : isHeader (strip l)
  case true =>
    simp only [h1, h2, Bool.false_eq_true, if_false, if_true] at h
    cases hc : closeCur ve st with
    | error e => simp [hc] at h
    | ok st1 =>
      simp only [hc] at h
      obtain ⟨hn, hcur⟩ := closeCur_names ve st st1 hc
      split at h
      · simp at h
      · simp only [Except.ok.injEq] at h
        subst h
        simp only [isHeaderLine, h1, h2, Bool.not_false, Bool.and_self, if_true, ← hn]
        simp [namesOf, hcur]
  case false =>
    simp only [h1, h2, Bool.false_eq_true, if_false] at h
    have hh : isHeaderLine l = false := by simp [isHeaderLine, h2]
    simp only [hh, Bool.false_eq_true, if_false, List.append_nil]
    cases hc : st.cur with
    | none =>
      simp only [hc, Except.ok.injEq] at h; subst h
      simp only [namesOf, topLine]
      split
      · split <;> simp [hc]
      · simp [hc]
    | some d =>
      simp only [hc] at h
      split at h
      · cases hp : propLine (strip l) d with
        | error e => simp [hp] at h
        | ok d' =>
          simp only [hp, Except.ok.injEq] at h; subst h
          simp [namesOf, hc, propLine_name _ _ _ hp]
      · simp at h

theorem run_names (ve : Str → Bool) (n : Nat) (st st' : MState) (ls : List Str) (h : run ve n st ls = .ok st') :
    namesOf st' = namesOf st ++ headerNames ls := by
  induction ls generalizing n st with
  | nil => simp only [run, Except.ok.injEq] at h; subst h; simp [headerNames]
  | cons l ls ih =>
    simp only [run] at h
    cases hs : step ve st n l with
    | error e => simp [hs] at h
    | ok st1 =>
      simp only [hs] at h
      rw [ih _ _ h, step_names ve st st1 n l hs]
      cases hh : isHeaderLine l <;> simp [headerNames, hh]

theorem step_cur_isSome (ve : Str → Bool) (st st' : MState) (n : Nat) (l : Str) (h : step ve st n l = .ok st')
    (hc : st.cur.isSome = true ∨ isHeaderLine l = true) : st'.cur.isSome = true := by
  unfold step stepS at h
  cases h1 : isSkip (strip l)
  case true =>
    simp only [h1, if_true, Except.ok.injEq] at h; subst h
    rcases hc with hc | hc
    · exact hc
    · simp [isHeaderLine, h1] at hc
  case false =>
  cases h2 : isHeader (strip l)
  case true =>
    simp only [h1, h2, Bool.false_eq_true, if_false, if_true] at h
    cases hcc : closeCur ve st with
    | error e => simp [hcc] at h
    | ok st1 =>
      simp only [hcc] at h
      split at h
      · simp at h
      · simp only [Except.ok.injEq] at h; subst h; rfl
  case false =>
    simp only [h1, h2, Bool.false_eq_true, if_false] at h
    have hc' : st.cur.isSome = true := by
      rcases hc with hc | hc
      · exact hc
      · simp [isHeaderLine, h2] at hc
    cases hcur : st.cur with
    | none => simp [hcur] at hc'
    | some d =>
      simp only [hcur] at h
      split at h
      · cases hp : propLine (strip l) d with
        | error e => simp [hp] at h
        | ok d' => simp only [hp, Except.ok.injEq] at h; subst h; rfl
      · simp at h

theorem run_cur_isSome (ve : Str → Bool) (n : Nat) (st st' : MState) (ls : List Str) (h : run ve n st ls = .ok st')
    (hc : st.cur.isSome = true ∨ ∃ l ∈ ls, isHeaderLine l = true) : st'.cur.isSome = true := by
  induction ls generalizing n st with
  | nil =>
    simp only [run, Except.ok.injEq] at h; subst h
    rcases hc with hc | ⟨l, hl, _⟩
    · exact hc
    · simp at hl
  | cons l ls ih =>
    simp only [run] at h
    cases hs : step ve st n l with
    | error e => simp [hs] at h
    | ok st1 =>
      simp only [hs] at h
      apply ih _ _ h
      by_cases hh : isHeaderLine l = true
      · left; exact step_cur_isSome ve st st1 n l hs (Or.inr hh)
      · rcases hc with hc | ⟨x, hx, hxh⟩
        · left; exact step_cur_isSome ve st st1 n l hs (Or.inl hc)
        · rcases List.mem_cons.mp hx with rfl | hx'
          · exact absurd hxh hh
          · right; exact ⟨x, hx', hxh⟩

/-! ### swapping two adjacent property lines with different keys (merchants) -/

def okPart {ε α : Type} : Except ε α → Option α
  | .ok a => some a
  | .error _ => none

def bindE {ε α β : Type} (x : Except ε α) (f : α → Except ε β) : Except ε β :=
  match x with
  | .ok a => f a
  | .error e => .error e

theorem applyProp_comm (k1 k2 : PropKey) (v1 v2 : Str) (d : RuleData) (hne : k1 ≠ k2) :
    okPart (bindE (applyProp k1 v1 d) (applyProp k2 v2)) = okPart (bindE (applyProp k2 v2 d) (applyProp k1 v1)) := by
  cases h1 : matchLetAssign v1 <;> cases h2 : matchLetAssign v2 <;> cases h3 : pyInt v1 <;> cases h4 : pyInt v2 <;>
  cases k1 <;> cases k2 <;>
    first
    | exact absurd rfl hne
    | simp [applyProp, bindE, okPart, h1, h2, h3, h4]

/-- a stripped line is a `key: value` line whose key is the known property `k` -/
def propKeyOf (l : Str) : Option PropKey :=
  if isSkip (strip l) || isHeader (strip l) || !(strip l).contains ':' then none
  else propKey? (splitProp (strip l)).1

theorem propLine_comm (s1 s2 : Str) (d : RuleData) (k1 k2 : PropKey)
    (hk1 : propKey? (splitProp s1).1 = some k1) (hk2 : propKey? (splitProp s2).1 = some k2) (hne : k1 ≠ k2) :
    okPart (bindE (propLine s1 d) (propLine s2)) = okPart (bindE (propLine s2 d) (propLine s1)) := by
  have h1 : ∀ d, propLine s1 d = applyProp k1 (splitProp s1).2 d := by intro d; simp [propLine, hk1]
  have h2 : ∀ d, propLine s2 d = applyProp k2 (splitProp s2).2 d := by intro d; simp [propLine, hk2]
  have e1 : propLine s1 = applyProp k1 (splitProp s1).2 := funext h1
  have e2 : propLine s2 = applyProp k2 (splitProp s2).2 := funext h2
  rw [e1, e2]
  exact applyProp_comm k1 k2 _ _ d hne

theorem run_two_props (ve : Str → Bool) (n : Nat) (st : MState) (d : RuleData) (l1 l2 : Str) (post : List Str)
    (k1 k2 : PropKey) (hcur : st.cur = some d) (h1 : propKeyOf l1 = some k1) (h2 : propKeyOf l2 = some k2) :
    okPart (bindE (run ve n st (l1 :: l2 :: post)) (finish ve)) =
      match okPart (bindE (propLine (strip l1) d) (propLine (strip l2))) with
      | some d' => okPart (bindE (run ve (n + 2) { st with cur := some d' } post) (finish ve))
      | none => none := by
  have a1 : isSkip (strip l1) = false ∧ isHeader (strip l1) = false ∧ (strip l1).contains ':' = true := by
    unfold propKeyOf at h1
    split at h1
    · simp at h1
    · rename_i hc; simpa [or_assoc, not_or] using hc
  have a2 : isSkip (strip l2) = false ∧ isHeader (strip l2) = false ∧ (strip l2).contains ':' = true := by
    unfold propKeyOf at h2
    split at h2
    · simp at h2
    · rename_i hc; simpa [or_assoc, not_or] using hc
  simp only [run, step, stepS, a1.1, a1.2.1, a1.2.2, hcur, Bool.false_eq_true, if_false, if_true]
  cases hp1 : propLine (strip l1) d with
  | error e => simp [bindE, okPart]
  | ok d1 =>
    simp only [a2.1, a2.2.1, a2.2.2, Bool.false_eq_true, if_false, if_true, bindE]
    cases hp2 : propLine (strip l2) d1 with
    | error e => simp [okPart]
    | ok d2 => simp [okPart]

theorem propKeyOf_key (l : Str) (k : PropKey) (h : propKeyOf l = some k) : propKey? (splitProp (strip l)).1 = some k := by
  unfold propKeyOf at h
  split at h
  · simp at h
  · exact h

/-- swapping two adjacent property lines with different keys inside a rule: same accepted result -/
theorem run_swap_props (ve : Str → Bool) (n : Nat) (st : MState) (d : RuleData) (l1 l2 : Str) (post : List Str)
    (k1 k2 : PropKey) (hcur : st.cur = some d) (h1 : propKeyOf l1 = some k1) (h2 : propKeyOf l2 = some k2)
    (hne : k1 ≠ k2) :
    okPart (bindE (run ve n st (l1 :: l2 :: post)) (finish ve)) =
    okPart (bindE (run ve n st (l2 :: l1 :: post)) (finish ve)) := by
  rw [run_two_props ve n st d l1 l2 post k1 k2 hcur h1 h2, run_two_props ve n st d l2 l1 post k2 k1 hcur h2 h1,
    propLine_comm (strip l1) (strip l2) d k1 k2 (propKeyOf_key l1 k1 h1) (propKeyOf_key l2 k2 h2) hne]

/-! ### key letter case (merchants) -/

theorem splitProp_key_colon (key rest : Str) (hc : ':' ∉ key) :
    splitProp (key ++ ':' :: rest) = (lower (strip key), strip rest) := by
  have h1 : ∀ key : Str, ':' ∉ key → (key ++ ':' :: rest).takeWhile (· != ':') = key := by
    intro key hc
    induction key with
    | nil => simp
    | cons x xs ih =>
      have hx : x ≠ ':' := fun h => hc (by simp [h])
      have hxs : ':' ∉ xs := fun h => hc (by simp [h])
      simp [hx, ih hxs]
  have h2 : ∀ key : Str, ':' ∉ key → (key ++ ':' :: rest).dropWhile (· != ':') = ':' :: rest := by
    intro key hc
    induction key with
    | nil => simp
    | cons x xs ih =>
      have hx : x ≠ ':' := fun h => hc (by simp [h])
      have hxs : ':' ∉ xs := fun h => hc (by simp [h])
      simp [hx, ih hxs]
  have h1 := h1 key hc
  have h2 := h2 key hc
  simp [splitProp, h1, h2]

/-- inside a rule, a non-header `key: value` line is read through `lower (strip key)` and `strip value` only -/
theorem stepS_key_case (ve : Str → Bool) (st : MState) (d : RuleData) (n : Nat) (s s' key key' rest : Str)
    (hcur : st.cur = some d) (hl : s = key ++ ':' :: rest) (hl' : s' = key' ++ ':' :: rest)
    (hc : ':' ∉ key) (hc' : ':' ∉ key')
    (hs : isSkip s = false ∧ isHeader s = false) (hs' : isSkip s' = false ∧ isHeader s' = false)
    (hlow : lower (strip key) = lower (strip key')) : stepS ve st n s = stepS ve st n s' := by
  have c1 : s.contains ':' = true := by simp [hl]
  have c2 : s'.contains ':' = true := by simp [hl']
  have p : propLine s d = propLine s' d := by
    simp only [propLine, hl, hl', splitProp_key_colon key rest hc, splitProp_key_colon key' rest hc', hlow]
  simp only [stepS, hs.1, hs.2, hs'.1, hs'.2, hcur, c1, c2, p, Bool.false_eq_true, if_false, if_true]

/-! ### the views loop -/

theorem vrun_append (ve : Str → Bool) (w : Char → Bool) (n : Nat) (st : VState) (a b : List Str) :
    vrun ve w n st (a ++ b) =
      match vrun ve w n st a with
      | .ok st' => vrun ve w (n + a.length) st' b
      | .error e => .error e := by
  induction a generalizing n st with
  | nil => simp [vrun]
  | cons l ls ih =>
    simp only [List.cons_append, vrun]
    cases h : vstep ve w st n l with
    | error e => simp
    | ok st' =>
      simp only [ih, List.length_cons]
      have : n + 1 + ls.length = n + (ls.length + 1) := by omega
      rw [this]

/-- everything the views loop reads from a raw line -/
def vkey (l : Str) : Bool × Option Str × Str := (isSkipRaw l, matchSectionHeader l, strip l)

theorem vstep_congr (ve : Str → Bool) (w : Char → Bool) (st : VState) (n : Nat) (l l' : Str)
    (h : vkey l = vkey l') : vstep ve w st n l = vstep ve w st n l' := by
  simp only [vkey, Prod.mk.injEq] at h
  simp only [vstep, h.1, h.2.1, h.2.2]

theorem vrun_congr (ve : Str → Bool) (w : Char → Bool) (n : Nat) (st : VState) (a b : List Str)
    (h : a.map vkey = b.map vkey) : vrun ve w n st a = vrun ve w n st b := by
  induction a generalizing n st b with
  | nil => cases b with
    | nil => rfl
    | cons _ _ => simp at h
  | cons l ls ih =>
    cases b with
    | nil => simp at h
    | cons l' ls' =>
      simp only [List.map_cons, List.cons.injEq] at h
      simp only [vrun, vstep_congr ve w st n l l' h.1]
      cases vstep ve w st n l' with
      | error e => rfl
      | ok st' => exact ih _ _ _ h.2

theorem isSpace_ne_lbracket (c : Char) (h : isSpace c = true) : c ≠ '[' := by
  intro hc; subst hc; revert h; decide
theorem isSpace_ne_rbracket (c : Char) (h : isSpace c = true) : c ≠ ']' := by
  intro hc; subst hc; revert h; decide

theorem isSkipRaw_append_right (l ws : Str) (h : ws.all isSpace = true) :
    isSkipRaw (l ++ ws) = isSkipRaw l := by
  unfold isSkipRaw
  rw [lstrip_append_right l ws h]
  by_cases hl : l.all isSpace = true
  · have : lstrip l = [] := dropWhile_all_nil _ hl
    simp [hl, this]
  · have hl' : l.all isSpace = false := by simpa using hl
    simp only [hl']
    cases hx : lstrip l with
    | nil =>
      -- impossible: a non-blank line has a non-empty lstrip; both sides agree anyway
      exact absurd (dropWhile_nil_all l hx) hl
    | cons x xs => simp [isSkip]

theorem isSkipRaw_append_left (ws l : Str) (h : ws.all isSpace = true) :
    isSkipRaw (ws ++ l) = isSkipRaw l := by
  unfold isSkipRaw; rw [lstrip_append_left ws l h]

theorem all_isSpace_ne_rbracket (ws : Str) (h : ws.all isSpace = true) : ws.all (· != ']') = true := by
  induction ws with
  | nil => rfl
  | cons x xs ih =>
    simp only [List.all_cons, Bool.and_eq_true] at h ⊢
    exact ⟨by simpa using isSpace_ne_rbracket x h.1, ih h.2⟩

theorem matchSectionHeader_append_right (l ws : Str) (h : ws.all isSpace = true) :
    matchSectionHeader (l ++ ws) = matchSectionHeader l := by
  cases l with
  | nil =>
    cases ws with
    | nil => rfl
    | cons c cs =>
      simp only [List.all_cons, Bool.and_eq_true] at h
      have := isSpace_ne_lbracket c h.1
      simp only [List.nil_append]
      unfold matchSectionHeader
      split
      · rename_i heq; simp at heq; exact absurd heq.1 this
      · rfl
  | cons c rest =>
    by_cases hc : c = '['
    · subst hc
      simp only [List.cons_append, matchSectionHeader]
      by_cases hall : rest.all (· != ']') = true
      · rw [dropWhile_append_all _ _ hall, dropWhile_all_nil _ (all_isSpace_ne_rbracket ws h),
          dropWhile_all_nil _ hall]
      · have hall' : rest.all (· != ']') = false := by simpa using hall
        rw [dropWhile_append_not_all _ _ hall']
        have htw : (rest ++ ws).takeWhile (· != ']') = rest.takeWhile (· != ']') := by
          clear h
          induction rest with
          | nil => simp at hall'
          | cons x xs ih =>
            by_cases hx : (x != ']') = true
            · have : xs.all (· != ']') = false := by
                simp only [List.all_cons, hx, Bool.true_and] at hall'; exact hall'
              simp [hx, ih (by simp [this]) this]
            · simp [hx]
        rw [htw]
        cases hd : rest.dropWhile (· != ']') with
        | nil => exact absurd (dropWhile_nil_all rest hd) hall
        | cons y tail =>
          simp only [List.cons_append]
          by_cases hy : y = ']'
          · subst hy
            simp only [List.all_append, h, Bool.and_true]
          · split
            · rename_i heq; simp at heq; exact absurd heq.1 hy
            · split
              · rename_i heq; simp at heq; exact absurd heq.1 hy
              · rfl
    · simp only [List.cons_append]
      unfold matchSectionHeader
      split
      · rename_i heq; simp at heq; exact absurd heq.1 hc
      · split
        · rename_i heq; simp at heq; exact absurd heq.1 hc
        · rfl

theorem matchSectionHeader_indented (ws l : Str) (h : ws.all isSpace = true) (hne : ws ≠ []) :
    matchSectionHeader (ws ++ l) = none := by
  cases ws with
  | nil => exact absurd rfl hne
  | cons c cs =>
    simp only [List.all_cons, Bool.and_eq_true] at h
    have := isSpace_ne_lbracket c h.1
    simp only [List.cons_append]
    unfold matchSectionHeader
    split
    · rename_i heq; simp at heq; exact absurd heq.1 this
    · rfl

theorem vkey_append_right (l ws : Str) (h : ws.all isSpace = true) : vkey (l ++ ws) = vkey l := by
  simp only [vkey, isSkipRaw_append_right l ws h, matchSectionHeader_append_right l ws h,
    strip_append_right l ws h]

theorem vkey_indent (ws l : Str) (h : ws.all isSpace = true) (hl : matchSectionHeader l = none) :
    vkey (ws ++ l) = vkey l := by
  by_cases hne : ws = []
  · subst hne; rfl
  · simp only [vkey, isSkipRaw_append_left ws l h, matchSectionHeader_indented ws l h hne, hl,
      strip_append_left ws l h]

def eraseVSt (st : VState) : VState := { st with startLine := 0 }
def eraseVR : Except (Nat × VErr) VState → Except VErr VState
  | .ok st => .ok (eraseVSt st)
  | .error (_, k) => .error k

theorem eraseVR_ok_or_error (x y : Except (Nat × VErr) VState) (h : eraseVR x = eraseVR y) :
    (∃ a b, x = .ok a ∧ y = .ok b ∧ eraseVSt a = eraseVSt b) ∨
    (∃ n m k, x = .error (n, k) ∧ y = .error (m, k)) := by
  cases x with
  | ok a => cases y with
    | ok b => left; exact ⟨a, b, rfl, rfl, by simpa [eraseVR] using h⟩
    | error e => obtain ⟨_, _⟩ := e; simp [eraseVR] at h
  | error e => cases y with
    | ok b => obtain ⟨_, _⟩ := e; simp [eraseVR] at h
    | error e' =>
      obtain ⟨n, k⟩ := e; obtain ⟨m, k'⟩ := e'
      right; simp [eraseVR] at h; exact ⟨n, m, k, rfl, by rw [h]⟩

theorem closeSection_erase (st st' : VState) (h : eraseVSt st = eraseVSt st') :
    eraseVR (closeSection st) = eraseVR (closeSection st') := by
  obtain ⟨cur, sl, secs, gl⟩ := st
  obtain ⟨cur', sl', secs', gl'⟩ := st'
  simp only [eraseVSt, VState.mk.injEq] at h
  obtain ⟨rfl, -, rfl, rfl⟩ := h
  unfold closeSection
  cases cur with
  | none => simp [eraseVR, eraseVSt]
  | some sec =>
    simp only
    cases sec.filterExpr.isEmpty <;> simp [eraseVR, eraseVSt]

theorem vstep_erase (ve : Str → Bool) (w : Char → Bool) (st st' : VState) (n m : Nat) (l : Str)
    (h : eraseVSt st = eraseVSt st') : eraseVR (vstep ve w st n l) = eraseVR (vstep ve w st' m l) := by
  have hc := closeSection_erase st st' h
  obtain ⟨cur, sl, secs, gl⟩ := st
  obtain ⟨cur', sl', secs', gl'⟩ := st'
  simp only [eraseVSt, VState.mk.injEq] at h
  obtain ⟨rfl, -, rfl, rfl⟩ := h
  unfold vstep
  cases h1 : isSkipRaw l
  case true => simp [eraseVR, eraseVSt]
  case false =>
  simp only [Bool.false_eq_true, if_false]
  cases h2 : matchSectionHeader l with
  | some name =>
    simp only
    rcases eraseVR_ok_or_error _ _ hc with ⟨a, b, ha, hb, hab⟩ | ⟨n', m', k, ha, hb⟩
    · rw [ha, hb]
      obtain ⟨c1, s1, r1, g1⟩ := a
      obtain ⟨c2, s2, r2, g2⟩ := b
      simp only [eraseVSt, VState.mk.injEq] at hab
      obtain ⟨rfl, -, rfl, rfl⟩ := hab
      simp [eraseVR, eraseVSt]
    · rw [ha, hb]; simp [eraseVR]
  | none =>
    simp only [vbodyS]
    cases matchKeyDecl ['f', 'i', 'l', 't', 'e', 'r', ':'] (strip l) with
    | some g =>
      simp only
      cases cur with
      | none => simp [eraseVR]
      | some sec => simp only; cases ve (strip g) <;> simp [eraseVR, eraseVSt]
    | none =>
      simp only
      cases matchKeyDecl ['d', 'e', 's', 'c', 'r', 'i', 'p', 't', 'i', 'o', 'n', ':'] (strip l) with
      | some g =>
        simp only
        cases cur <;> simp [eraseVR, eraseVSt]
      | none =>
        simp only
        cases matchVarDecl w (strip l) with
        | none => simp [eraseVR]
        | some x =>
          obtain ⟨nm, e⟩ := x
          simp only
          cases ve (strip e) <;> simp only [Bool.false_eq_true, if_false, if_true]
          · simp [eraseVR]
          · cases cur <;> simp [eraseVR, eraseVSt]

theorem vrun_erase (ve : Str → Bool) (w : Char → Bool) (n m : Nat) (st st' : VState) (ls : List Str)
    (h : eraseVSt st = eraseVSt st') : eraseVR (vrun ve w n st ls) = eraseVR (vrun ve w m st' ls) := by
  induction ls generalizing n m st st' with
  | nil => simp [vrun, eraseVR, h]
  | cons l ls ih =>
    simp only [vrun]
    rcases eraseVR_ok_or_error _ _ (vstep_erase ve w st st' n m l h) with
      ⟨a, b, ha, hb, hab⟩ | ⟨n', m', k, ha, hb⟩
    · rw [ha, hb]; exact ih _ _ _ _ hab
    · rw [ha, hb]; simp [eraseVR]

def nonSkipRaw (l : Str) : Bool := !isSkipRaw l

theorem vrun_filter_skip (ve : Str → Bool) (w : Char → Bool) (n m : Nat) (st st' : VState) (ls : List Str)
    (h : eraseVSt st = eraseVSt st') :
    eraseVR (vrun ve w n st ls) = eraseVR (vrun ve w m st' (ls.filter nonSkipRaw)) := by
  induction ls generalizing n m st st' with
  | nil => simp [vrun, eraseVR, h]
  | cons l ls ih =>
    by_cases hs : isSkipRaw l = true
    · have : (l :: ls).filter nonSkipRaw = ls.filter nonSkipRaw := by simp [nonSkipRaw, hs]
      rw [this]
      have : vrun ve w n st (l :: ls) = vrun ve w (n + 1) st ls := by simp [vrun, vstep, hs]
      rw [this]; exact ih _ _ _ _ h
    · have : (l :: ls).filter nonSkipRaw = l :: ls.filter nonSkipRaw := by simp [nonSkipRaw, hs]
      rw [this]
      simp only [vrun]
      rcases eraseVR_ok_or_error _ _ (vstep_erase ve w st st' n m l h) with
        ⟨a, b, ha, hb, hab⟩ | ⟨n', m', k, ha, hb⟩
      · rw [ha, hb]; exact ih _ _ _ _ hab
      · rw [ha, hb]; simp [eraseVR]

theorem vfinish_erase (x y : Except (Nat × VErr) VState) (h : eraseVR x = eraseVR y) :
    eraseLine (match x with | .ok st => vfinish st | .error e => .error e) =
    eraseLine (match y with | .ok st => vfinish st | .error e => .error e) := by
  rcases eraseVR_ok_or_error _ _ h with ⟨a, b, rfl, rfl, hab⟩ | ⟨n, m, k, rfl, rfl⟩
  · simp only [vfinish]
    rcases eraseVR_ok_or_error _ _ (closeSection_erase a b hab) with ⟨a', b', ha, hb, hab'⟩ | ⟨n, m, k, ha, hb⟩
    · rw [ha, hb]
      obtain ⟨c1, s1, r1, g1⟩ := a'
      obtain ⟨c2, s2, r2, g2⟩ := b'
      simp only [eraseVSt, VState.mk.injEq] at hab'
      obtain ⟨-, -, rfl, rfl⟩ := hab'
      rfl
    · rw [ha, hb]; rfl
  · rfl


/-! ### section headers and view names -/

def vheaderNames (lines : List Str) : List Str :=
  lines.filterMap fun l => if isSkipRaw l then none else (matchSectionHeader l).map strip
def vnamesOf (st : VState) : List Str :=
  st.sections.map (·.name) ++ (match st.cur with | some d => [d.name] | none => [])

theorem closeSection_names (st st' : VState) (h : closeSection st = .ok st') :
    vnamesOf st' = vnamesOf st ∧ st'.cur = none := by
  unfold closeSection at h
  cases hc : st.cur with
  | none => simp only [hc, Except.ok.injEq] at h; subst h; exact ⟨rfl, hc⟩
  | some d =>
    simp only [hc] at h
    split at h
    · simp at h
    · simp only [Except.ok.injEq] at h; subst h; simp [vnamesOf, hc]

theorem vbodyS_names (ve : Str → Bool) (w : Char → Bool) (st st' : VState) (n : Nat) (s : Str)
    (h : vbodyS ve w st n s = .ok st') : vnamesOf st' = vnamesOf st := by
  unfold vbodyS at h
  split at h
  · cases hc : st.cur with
    | none => simp [hc] at h
    | some sec =>
      simp only [hc] at h
      split at h
      · simp only [Except.ok.injEq] at h; subst h; simp [vnamesOf, hc]
      · simp at h
  · split at h
    · cases hc : st.cur with
      | none => simp [hc] at h
      | some sec => simp only [hc, Except.ok.injEq] at h; subst h; simp [vnamesOf, hc]
    · split at h
      · split at h
        · cases hc : st.cur with
          | none => simp only [hc, Except.ok.injEq] at h; subst h; simp [vnamesOf, hc]
          | some sec => simp only [hc, Except.ok.injEq] at h; subst h; simp [vnamesOf, hc]
        · simp at h
      · simp at h

theorem vstep_names (ve : Str → Bool) (w : Char → Bool) (st st' : VState) (n : Nat) (l : Str)
    (h : vstep ve w st n l = .ok st') : vnamesOf st' = vnamesOf st ++ vheaderNames [l] := by
  unfold vstep at h
  cases h1 : isSkipRaw l
  case true => simp only [h1, if_true, Except.ok.injEq] at h; subst h; simp [vheaderNames, h1]
  case false =>
    simp only [h1, Bool.false_eq_true, if_false] at h
    cases h2 : matchSectionHeader l with
    | none =>
      simp only [h2] at h
      simp [vheaderNames, h1, h2, vbodyS_names ve w st st' n _ h]
    | some name =>
      simp only [h2] at h
      cases hc : closeSection st with
      | error e => simp [hc] at h
      | ok st1 =>
        simp only [hc, Except.ok.injEq] at h
        obtain ⟨hn, hcur⟩ := closeSection_names st st1 hc
        subst h
        simp only [vheaderNames, List.filterMap_cons, h1, Bool.false_eq_true, if_false, h2, Option.map_some,
          List.filterMap_nil, ← hn]
        simp [vnamesOf, hcur]

theorem vrun_names (ve : Str → Bool) (w : Char → Bool) (n : Nat) (st st' : VState) (ls : List Str)
    (h : vrun ve w n st ls = .ok st') : vnamesOf st' = vnamesOf st ++ vheaderNames ls := by
  induction ls generalizing n st with
  | nil => simp only [vrun, Except.ok.injEq] at h; subst h; simp [vheaderNames]
  | cons l ls ih =>
    simp only [vrun] at h
    cases hs : vstep ve w st n l with
    | error e => simp [hs] at h
    | ok st1 =>
      simp only [hs] at h
      rw [ih _ _ h, vstep_names ve w st st1 n l hs]
      simp [vheaderNames, List.filterMap_cons]
      cases isSkipRaw l <;> cases matchSectionHeader l <;> simp

end TallyVerif.RulesFile
