import TallyVerif.Lemmas.Assoc
/-! Facts about `analyze` over exact amounts (`intNum`). Core Lean only. -/
namespace TallyVerif.Totals
open TallyVerif TallyVerif.Gen

/-- Σ f over a list, as the left fold Python's `+=` loop performs. -/
def sumBy {τ : Type} (f : τ → Int) (l : List τ) : Int := l.foldl (fun acc t => acc + f t) 0

theorem foldl_add_init {τ : Type} (f : τ → Int) (l : List τ) (a : Int) :
    l.foldl (fun acc t => acc + f t) a = a + sumBy f l := by
  unfold sumBy
  induction l generalizing a with
  | nil => simp
  | cons t l ih => simp only [List.foldl_cons]; rw [ih, ih (0 + f t)]; omega

@[simp] theorem sumBy_nil {τ : Type} (f : τ → Int) : sumBy f [] = 0 := rfl

theorem sumBy_cons {τ : Type} (f : τ → Int) (t : τ) (l : List τ) : sumBy f (t :: l) = f t + sumBy f l := by
  simp only [sumBy, List.foldl_cons]; rw [foldl_add_init]; simp [sumBy]

theorem sumBy_append {τ : Type} (f : τ → Int) (l₁ l₂ : List τ) :
    sumBy f (l₁ ++ l₂) = sumBy f l₁ + sumBy f l₂ := by
  induction l₁ with
  | nil => simp
  | cons t l ih => simp only [List.cons_append, sumBy_cons, ih]; omega

theorem sumBy_perm {τ : Type} (f : τ → Int) {l l' : List τ} (p : l.Perm l') : sumBy f l = sumBy f l' := by
  unfold sumBy
  exact p.foldl_eq' (fun x _ y _ z => by omega) 0

/-- Σ of the values of a dictionary -/
def sumVals {κ : Type} (m : List (κ × Int)) : Int := sumBy (fun kv => kv.2) m

def sumCounts {κ : Type} (m : List (κ × (Nat × Int))) : Nat := m.foldl (fun acc kv => acc + kv.2.1) 0
def sumTotals {κ : Type} (m : List (κ × (Nat × Int))) : Int := sumBy (fun kv => kv.2.2) m

theorem sumVals_upsert {κ : Type} [BEq κ] (k : κ) (a : Int) (m : List (κ × Int)) :
    sumVals (upsert k 0 (fun x => x + a) m) = sumVals m + a := by
  unfold sumVals
  induction m with
  | nil => simp [upsert, sumBy_cons]
  | cons kv m ih =>
    obtain ⟨k', v⟩ := kv
    by_cases h : (k' == k) = true
    · simp only [upsert, h, if_true, sumBy_cons]; omega
    · simp only [upsert, h, sumBy_cons]; simp only [Bool.false_eq_true, if_false, sumBy_cons]; rw [ih]; omega

theorem sumTotals_upsert {κ : Type} [BEq κ] (k : κ) (a : Int) (m : List (κ × (Nat × Int))) :
    sumTotals (upsert k (0, 0) (fun p => (p.1 + 1, p.2 + a)) m) = sumTotals m + a := by
  unfold sumTotals
  induction m with
  | nil => simp [upsert, sumBy_cons]
  | cons kv m ih =>
    obtain ⟨k', c, v⟩ := kv
    by_cases h : (k' == k) = true
    · simp only [upsert, h, if_true, sumBy_cons]; omega
    · simp only [upsert, h, sumBy_cons]; simp only [Bool.false_eq_true, if_false, sumBy_cons]; rw [ih]; omega

theorem foldl_addNat_init {τ : Type} (f : τ → Nat) (l : List τ) (a : Nat) :
    l.foldl (fun acc t => acc + f t) a = a + l.foldl (fun acc t => acc + f t) 0 := by
  induction l generalizing a with
  | nil => simp
  | cons t l ih => simp only [List.foldl_cons]; rw [ih, ih (0 + f t)]; omega

theorem sumCounts_upsert {κ : Type} [BEq κ] (k : κ) (a : Int) (m : List (κ × (Nat × Int))) :
    sumCounts (upsert k (0, 0) (fun p => (p.1 + 1, p.2 + a)) m) = sumCounts m + 1 := by
  unfold sumCounts
  induction m with
  | nil => simp [upsert]
  | cons kv m ih =>
    obtain ⟨k', c, v⟩ := kv
    by_cases h : (k' == k) = true
    · simp only [upsert, h, if_true, List.foldl_cons]
      rw [foldl_addNat_init, foldl_addNat_init (a := 0 + c)]; omega
    · simp only [upsert, h, List.foldl_cons]; simp only [Bool.false_eq_true, if_false, List.foldl_cons]
      rw [foldl_addNat_init, ih, foldl_addNat_init (a := 0 + c)]; omega

end TallyVerif.Totals
