import TallyVerif.Lemmas.ExprUnfold
/-! Facts about the mutable `_scope` dictionary (association list). -/
namespace TallyVerif.Expr
open TallyVerif.Py

theorem lookup_none_filter (s : Scope) (x : String) (h : s.lookup x = none) :
    s.filter (fun kv => kv.1 != x) = s := by
  induction s with
  | nil => rfl
  | cons kv s ih =>
    obtain ⟨k, v⟩ := kv
    simp only [List.lookup_cons] at h
    by_cases hk : (x == k) = true
    · simp [hk] at h
    · have hk' : (x == k) = false := by simpa using hk
      simp only [hk'] at h
      have hne : (k != x) = true := by
        simp only [bne_iff_ne, ne_eq]; intro e; subst e; simp at hk'
      simp only [List.filter_cons, hne, if_true]
      rw [ih h]

theorem lookup_append_fresh (s : Scope) (x : String) (v : Val) (h : s.lookup x = none) :
    (s ++ [(x, v)]).lookup x = some v := by
  induction s with
  | nil => simp [List.lookup_cons]
  | cons kv s ih =>
    obtain ⟨k, w⟩ := kv
    simp only [List.lookup_cons] at h
    by_cases hk : (x == k) = true
    · simp [hk] at h
    · have hk' : (x == k) = false := by simpa using hk
      simp only [hk'] at h
      simp only [List.cons_append, List.lookup_cons, hk']
      exact ih h

theorem setVar_fresh (s : Scope) (x : String) (v : Val) (h : s.lookup x = none) :
    setVar x v s = (.ok (), s ++ [(x, v)]) := by
  simp [setVar, h]

theorem delVar_after_fresh (s : Scope) (x : String) (v : Val) (h : s.lookup x = none) :
    delVar x (s ++ [(x, v)]) = (.ok (), s) := by
  simp [delVar, List.filter_append, lookup_none_filter s x h]

theorem getScope_apply (s : Scope) : getScope s = (.ok s, s) := rfl

end TallyVerif.Expr
