import TallyVerif.Model.Csv
/-! Helper lemmas for the `Csv` component (property C05): the row loop is a `filterMap`, inversion of
`parseRow`, `strip` / digit / thousands-grouping facts used by the amount round-trip theorems. -/
namespace TallyVerif.Csv

/-- the transaction a row yields, if any (Spec view of one loop iteration) -/
def rowTxn (o : Oracles) (cfg : Cfg) (row : List Str) : Option Txn :=
  match parseRow o cfg row with
  | .ok t => some t
  | .error _ => none

/-- does the row raise an exception that the per-row `except` does not catch? -/
def rowFatal (o : Oracles) (cfg : Cfg) (row : List Str) : Bool :=
  match parseRow o cfg row with
  | .ok _ => false
  | .error e => e.fatal

theorem foldl_step_error (o : Oracles) (cfg : Cfg) (e : Err) (rows : List (List Str)) :
    rows.foldl (step o cfg) (.error e) = .error e := by
  induction rows with
  | nil => rfl
  | cons r rs ih => simpa [List.foldl_cons, step] using ih

theorem foldl_step_ok (o : Oracles) (cfg : Cfg) (rows : List (List Str))
    (h : ∀ r ∈ rows, rowFatal o cfg r = false) (acc : List Txn) :
    rows.foldl (step o cfg) (.ok acc) = .ok (acc ++ rows.filterMap (rowTxn o cfg)) := by
  induction rows generalizing acc with
  | nil => simp
  | cons r rs ih =>
    have hr := h r (by simp)
    have hrs : ∀ r' ∈ rs, rowFatal o cfg r' = false := fun r' hr' => h r' (by simp [hr'])
    rw [List.foldl_cons]
    unfold rowFatal at hr
    cases hp : parseRow o cfg r with
    | ok t =>
      simp only [step, hp]
      rw [ih hrs]; simp [rowTxn, hp]
    | error e =>
      rw [hp] at hr
      have hr' : e.fatal = false := hr
      simp only [step, hp, hr', Bool.false_eq_true, if_false]
      rw [ih hrs]; simp [rowTxn, hp]

theorem foldl_step_fatal (o : Oracles) (cfg : Cfg) (pre : List (List Str)) (r : List Str) (post : List (List Str))
    (hpre : ∀ r' ∈ pre, rowFatal o cfg r' = false) (e : Err) (he : parseRow o cfg r = .error e) (hf : e.fatal = true) :
    (pre ++ r :: post).foldl (step o cfg) (.ok []) = .error e := by
  rw [List.foldl_append, foldl_step_ok o cfg pre hpre, List.foldl_cons]
  simp only [step, he, hf]
  exact foldl_step_error o cfg e post


/-- the transaction built from the pieces of an accepted row -/
def mkTxn (cfg : Cfg) (row : List Str) (desc : Str) (caps : List (Str × Str)) (dt : Str) (q : F64) : Txn :=
  { date := dt, rawDescription := desc, amount := applySign cfg.spec q, source := sourceOf cfg,
    location := locationOf cfg.spec row desc, isCredit := (applySign cfg.spec q).ltZero,
    field := if caps.isEmpty then none else some caps }

/-- inversion of `parseRow`: a row is accepted exactly when every stage succeeds -/
theorem parseRow_ok_iff (o : Oracles) (cfg : Cfg) (row : List Str) (t : Txn) :
    parseRow o cfg row = .ok t ↔
      maxCol cfg.spec < row.length ∧
      ∃ desc caps tok dt q,
        describe cfg.spec row = .ok (desc, caps) ∧
        (cell row cfg.spec.dateCol).isEmpty = false ∧ desc.isEmpty = false ∧ (cell row cfg.spec.amountCol).isEmpty = false ∧
        dateToken cfg.spec (cell row cfg.spec.dateCol) = some tok ∧
        o.strptime cfg.spec.dateFormat tok = .ok dt ∧
        rawAmount o cfg row = some q ∧
        (cfg.skipNonFinite = true → q.isFinite = true) ∧
        (applySign cfg.spec q).isZero = false ∧
        t = mkTxn cfg row desc caps dt q := by
  unfold parseRow rawAmount
  dsimp only
  constructor
  · intro h
    split at h
    · cases h
    · rename_i hlen
      refine ⟨by omega, ?_⟩
      split at h
      · cases h
      · rename_i desc caps hd
        split at h
        · cases h
        · rename_i hne
          split at h
          · cases h
          · rename_i tok htok
            split at h
            · cases h
            · rename_i dt hdt
              split at h
              · cases h
              · rename_i q hq
                split at h
                · cases h
                · rename_i hfin
                  split at h
                  · cases h
                  · rename_i hz
                    simp only [Bool.or_eq_true, not_or, Bool.not_eq_true] at hne
                    refine ⟨desc, caps, tok, dt, q, hd, hne.1.1, hne.1.2, hne.2, htok, hdt, hq, ?_, by simpa using hz, ?_⟩
                    · intro hs; simp [hs] at hfin; exact hfin
                    · cases h; rfl
  · rintro ⟨hlen, desc, caps, tok, dt, q, hd, h1, h2, h3, htok, hdt, hq, hfin, hz, rfl⟩
    have hlen' : ¬ row.length ≤ maxCol cfg.spec := by omega
    simp only [hlen', if_false, hd, h1, h2, h3, htok, hdt, hq, hz, Bool.or_self, Bool.false_eq_true, mkTxn]
    by_cases hs : cfg.skipNonFinite = true
    · simp [hs, hfin hs]
    · simp [hs]


/-! ### strip -/
theorem lstrip_cons_of_not_space {c : Char} (r : Str) (h : isPySpace c = false) : lstrip (c :: r) = c :: r := by
  simp [lstrip, h]

theorem rstrip_concat_of_not_space {c : Char} (r : Str) (h : isPySpace c = false) : rstrip (r ++ [c]) = r ++ [c] := by
  simp [rstrip, h]

theorem rstrip_concat_space (r : Str) : rstrip (r ++ [' ']) = rstrip r := by
  have : isPySpace ' ' = true := by decide
  simp [rstrip, this]

theorem strip_eq_self (s : Str) (hh : ∀ c, s.head? = some c → isPySpace c = false)
    (hl : ∀ c, s.getLast? = some c → isPySpace c = false) : strip s = s := by
  unfold strip
  have h1 : lstrip s = s := by
    cases s with
    | nil => rfl
    | cons c r => exact lstrip_cons_of_not_space r (hh c rfl)
  rw [h1]
  rcases List.eq_nil_or_concat s with rfl | ⟨r, c, rfl⟩
  · rfl
  · simpa [List.concat_eq_append] using rstrip_concat_of_not_space r (hl c (by simp))

/-! ### digits -/
theorem digitChar_toNat {d : Nat} (h : d < 10) : (digitChar d).toNat = 48 + d := by
  have : ∀ d : Fin 10, (digitChar d.1).toNat = 48 + d.1 := by decide
  exact this ⟨d, h⟩

theorem digitVal_digitChar {d : Nat} (h : d < 10) : digitVal? (digitChar d) = some d := by
  have : ∀ d : Fin 10, digitVal? (digitChar d.1) = some d.1 := by decide
  exact this ⟨d, h⟩

/-- characters of a rendered number body: digits and the three separators -/
def bodyChar (c : Char) : Bool := (digitVal? c).isSome || c == ',' || c == '.' || c == ' '

theorem bodyChar_digitChar {d : Nat} (h : d < 10) : bodyChar (digitChar d) = true := by
  simp [bodyChar, digitVal_digitChar h]

theorem digit_facts {d : Nat} (h : d < 10) :
    isPySpace (digitChar d) = false ∧ isCurrency (digitChar d) = false ∧ digitChar d ≠ ',' ∧ digitChar d ≠ '.' ∧
    digitChar d ≠ ' ' ∧ digitChar d ≠ '(' ∧ digitChar d ≠ '-' ∧ digitChar d ≠ '+' := by
  have : ∀ d : Fin 10, isPySpace (digitChar d.1) = false ∧ isCurrency (digitChar d.1) = false ∧ digitChar d.1 ≠ ',' ∧
      digitChar d.1 ≠ '.' ∧ digitChar d.1 ≠ ' ' ∧ digitChar d.1 ≠ '(' ∧ digitChar d.1 ≠ '-' ∧ digitChar d.1 ≠ '+' := by decide
  exact this ⟨d, h⟩

/-! ### thousands grouping -/
theorem groupRev_filter (sep : Char) (p : Char → Bool) (hp : p sep = false) (l : Str) :
    (groupRev sep l).filter p = l.filter p := by
  fun_induction groupRev sep l with
  | case1 a b c d rest ih => simp [List.filter_cons, hp, ih]
  | case2 l h => rfl

theorem group3_filter (sep : Char) (p : Char → Bool) (hp : p sep = false) (l : Str) :
    (group3 sep l).filter p = l.filter p := by
  simp [group3, List.filter_reverse, groupRev_filter sep p hp]

theorem groupRev_ne_nil (sep : Char) (l : Str) (h : l ≠ []) : groupRev sep l ≠ [] := by
  fun_induction groupRev sep l with
  | case1 a b c d rest ih => simp
  | case2 l h' => exact h

theorem groupRev_getLast? (sep : Char) (l : Str) : (groupRev sep l).getLast? = l.getLast? := by
  fun_induction groupRev sep l with
  | case1 a b c d rest ih =>
    obtain ⟨y, ys, hy⟩ := List.exists_cons_of_ne_nil (groupRev_ne_nil sep (d :: rest) (by simp))
    rw [hy] at ih
    simp [List.getLast?_cons_cons, hy, ih]
  | case2 l h => rfl

theorem group3_head? (sep : Char) (l : Str) : (group3 sep l).head? = l.head? := by
  simp [group3, List.head?_reverse, groupRev_getLast?, List.getLast?_reverse]

/-! ### scanning digits -/
theorem scanFrac_two (acc : Nat) (any : Bool) {d1 d2 : Nat} (h1 : d1 < 10) (h2 : d2 < 10) :
    scanFrac acc 0 any [digitChar d1, digitChar d2] = some (10 * (10 * acc + d1) + d2, 2) := by
  simp [scanFrac, digitVal_digitChar h1, digitVal_digitChar h2]

theorem scanInt_digits (ds : List Nat) (hds : ∀ d ∈ ds, d < 10) (acc : Nat) (any : Bool) (rest : Str) :
    scanInt acc any (ds.map digitChar ++ rest) =
      scanInt (ds.foldl (fun a d => 10 * a + d) acc) (any || !ds.isEmpty) rest := by
  induction ds generalizing acc any with
  | nil => simp
  | cons d ds ih =>
    have hd : d < 10 := hds d (by simp)
    have hne : (digitChar d == '.') = false := by simpa using (digit_facts hd).2.2.2.1
    simp only [List.map_cons, List.cons_append, scanInt, hne, Bool.false_eq_true, if_false, digitVal_digitChar hd]
    rw [ih (fun d' h' => hds d' (by simp [h']))]
    simp


/-! ### amount round trip -/

/-- last step of `cleanAmount`: drop the thousands separators, decimal comma → point -/
def normSep (eu : Bool) (s : Str) : Str :=
  if eu then (s.filter fun c => c != '.' && c != ' ').map (fun c => if c == ',' then '.' else c)
  else s.filter fun c => c != ','

theorem cleanAmount_eq (eu : Bool) (cell : Str) :
    cleanAmount eu cell =
      ((strip cell).head? == some '(' && (strip cell).getLast? == some ')',
       normSep eu (strip ((if (strip cell).head? == some '(' && (strip cell).getLast? == some ')'
          then ((strip cell).drop 1).dropLast else strip cell).filter fun c => !isCurrency c))) := by
  unfold cleanAmount normSep; rfl

theorem bodyChar_facts {c : Char} (h : bodyChar c = true) :
    isCurrency c = false ∧ c ≠ '(' ∧ c ≠ '-' ∧ c ≠ '+' := by
  have key : ∀ x : Char, (x = '$' ∨ x = '€' ∨ x = '£' ∨ x = '¥' ∨ x = '(' ∨ x = '-' ∨ x = '+') → bodyChar x = false := by
    intro x hx
    rcases hx with rfl | rfl | rfl | rfl | rfl | rfl | rfl <;> decide
  refine ⟨?_, ?_, ?_, ?_⟩
  · cases hc : isCurrency c with
    | false => rfl
    | true =>
      simp only [isCurrency, Bool.or_eq_true, beq_iff_eq] at hc
      have := key c (by rcases hc with ((h1 | h1) | h1) | h1 <;> simp [h1])
      simp [this] at h
  · intro hc; have := key c (by simp [hc]); simp [this] at h
  · intro hc; have := key c (by simp [hc]); simp [this] at h
  · intro hc; have := key c (by simp [hc]); simp [this] at h

theorem currency_facts {c : Char} (h : isCurrency c = true) : isPySpace c = false ∧ c ≠ '(' ∧ c ≠ ')' := by
  simp only [isCurrency, Bool.or_eq_true, beq_iff_eq] at h
  rcases h with ((rfl | rfl) | rfl) | rfl <;> decide

theorem normSep_minus (eu : Bool) (s : Str) : normSep eu ('-' :: s) = '-' :: normSep eu s := by
  cases eu <;> simp [normSep]

theorem normSep_minus' (eu : Bool) (s : Str) : ['-'] ++ normSep eu s = normSep eu ('-' :: s) := by
  rw [normSep_minus]; rfl

theorem filter_cur_body (B : Str) (hb : ∀ c ∈ B, bodyChar c = true) : B.filter (fun c => !isCurrency c) = B := by
  rw [List.filter_eq_self]; intro c hc; simp [(bodyChar_facts (hb c hc)).1]

/-- Everything `parse_amount` does before `float()`, on a rendered number: the parentheses are recognised and
removed, the currency symbol (and the blank before it) disappears, a leading minus stays. -/
theorem cleanAmount_render_core (eu : Bool) (st : Style) (negative : Bool) (B B0 : Str) (x : Char)
    (hb : ∀ c ∈ B, bodyChar c = true)
    (hh : ∀ c, B.head? = some c → isPySpace c = false)
    (hl : B = B0 ++ [x]) (hx : isPySpace x = false)
    (hsym : ∀ c, st.symbol = some c → isCurrency c = true) :
    cleanAmount eu (if negative then (if st.paren then '(' :: withSymbol st B ++ [')'] else '-' :: withSymbol st B)
                    else withSymbol st B) =
      (negative && st.paren, (if negative && !st.paren then ['-'] else []) ++ normSep eu B) := by
  have hfB := filter_cur_body B hb
  have hBne : B ≠ [] := by rw [hl]; simp
  obtain ⟨y, ys, hy⟩ := List.exists_cons_of_ne_nil hBne
  have hyS : isPySpace y = false := hh y (by simp [hy])
  have hyB := bodyChar_facts (hb y (by simp [hy]))
  have hstripB : strip B = B := strip_eq_self B hh (by intro c hc; rw [hl] at hc; simp at hc; exact hc ▸ hx)
  have hstripB' : strip (B ++ [' ']) = B := by
    unfold strip
    have : lstrip (B ++ [' ']) = B ++ [' '] := by rw [hy]; exact lstrip_cons_of_not_space _ hyS
    rw [this, rstrip_concat_space, hl, rstrip_concat_of_not_space _ hx]
  have fin : ∀ (cell inner res : Str) (p : Bool), strip cell = cell →
      (cell.head? == some '(' && cell.getLast? == some ')') = p →
      (if p then (cell.drop 1).dropLast else cell) = inner →
      strip (inner.filter fun c => !isCurrency c) = res → cleanAmount eu cell = (p, normSep eu res) := by
    intro cell inner res p h1 h2 h3 h4
    rw [cleanAmount_eq, h1, h2]
    cases p <;> simp_all
  have hcur : ∀ c, st.symbol = some c → isPySpace c = false ∧ c ≠ '(' ∧ c ≠ ')' ∧ isCurrency c = true :=
    fun c hc => ⟨(currency_facts (hsym c hc)).1, (currency_facts (hsym c hc)).2.1, (currency_facts (hsym c hc)).2.2, hsym c hc⟩
  have hsp : isPySpace ' ' = true := by decide
  have hdl : ∀ (c z : Char) (l : Str), (c :: (l ++ [z])).dropLast = c :: l := by
    intro c z l; rw [← List.cons_append, List.dropLast_concat]
  have hspc : isCurrency ' ' = false := by decide
  have hmin : isPySpace '-' = false ∧ isCurrency '-' = false := by decide
  have hpo : isPySpace '(' = false ∧ isPySpace ')' = false := by decide
  have hstripmB : strip ('-' :: B) = '-' :: B := by
    apply strip_eq_self
    · intro c hc; simp at hc; subst hc; exact hmin.1
    · intro c hc; rw [hl] at hc; simp [List.getLast?_cons, List.getLast?_append] at hc; exact hc ▸ hx
  have hstripmB' : strip ('-' :: B ++ [' ']) = '-' :: B := by
    unfold strip
    have : lstrip ('-' :: B ++ [' ']) = '-' :: B ++ [' '] := lstrip_cons_of_not_space _ hmin.1
    rw [this]
    have : '-' :: B ++ [' '] = ('-' :: B) ++ [' '] := rfl
    rw [this, rstrip_concat_space, hl]
    have : '-' :: (B0 ++ [x]) = ('-' :: B0) ++ [x] := rfl
    rw [this, rstrip_concat_of_not_space _ hx]
  cases negative <;> cases hpar : st.paren <;> cases hs : st.symbol with
  | none =>
    simp only [withSymbol, hs, Bool.false_eq_true, if_false, if_true, Bool.false_and, Bool.true_and, Bool.and_false,
      Bool.and_true, Bool.not_true, Bool.not_false, List.nil_append, normSep_minus']
    refine fin _ _ _ _ ?_ ?_ rfl ?_
    all_goals first
      | (apply strip_eq_self
         · intro z hz; simp [hy] at hz; subst hz; first | exact hmin.1 | exact hyS | exact hpo.1
         · intro z hz; rw [hl] at hz; simp [List.getLast?_cons, List.getLast?_append] at hz; subst hz
           first | exact hx | exact hpo.2)
      | (simp [hy, List.getLast?_cons, List.getLast?_append, hyB.2.1]; done)
      | (simp [List.filter_cons, List.filter_append, hfB, hmin.2, hspc, List.dropLast_concat, hdl]
         first | exact hstripB | exact hstripB' | exact hstripmB | exact hstripmB')
  | some c =>
    obtain ⟨hc1, hc2, hc3, hc4⟩ := hcur c hs
    cases hpos : st.symPos <;>
    simp only [withSymbol, hs, hpos, Bool.false_eq_true, if_false, if_true, Bool.false_and, Bool.true_and, Bool.and_false,
      Bool.and_true, Bool.not_true, Bool.not_false, List.nil_append, normSep_minus'] <;>
    refine fin _ _ _ _ ?_ ?_ rfl ?_
    all_goals first
      | (apply strip_eq_self
         · intro z hz; simp [hy] at hz; subst hz; first | exact hmin.1 | exact hc1 | exact hyS | exact hpo.1
         · intro z hz; rw [hl] at hz; simp [List.getLast?_cons, List.getLast?_append] at hz; subst hz
           first | exact hx | exact hc1 | exact hpo.2)
      | (simp [hy, List.getLast?_cons, List.getLast?_append, hyB.2.1, hc2]; done)
      | (simp [List.filter_cons, List.filter_append, hfB, hc4, hmin.2, hspc, List.dropLast_concat, hdl]
         first | exact hstripB | exact hstripB' | exact hstripmB | exact hstripmB')


/-! ### the rendered body -/
theorem mem_groupRev (sep : Char) (l : Str) (c : Char) (h : c ∈ groupRev sep l) : c ∈ l ∨ c = sep := by
  fun_induction groupRev sep l with
  | case1 a b c' d rest ih =>
    simp only [List.mem_cons] at h ⊢
    rcases h with h | h | h | h | h
    · simp [h]
    · simp [h]
    · simp [h]
    · simp [h]
    · rcases ih h with h' | h'
      · simp only [List.mem_cons] at h'; rcases h' with h' | h' <;> simp [h']
      · simp [h']
  | case2 l h' => exact Or.inl h

theorem mem_group3 (sep : Char) (l : Str) (c : Char) (h : c ∈ group3 sep l) : c ∈ l ∨ c = sep := by
  simp only [group3, List.mem_reverse] at h
  simpa using mem_groupRev sep l.reverse c h

theorem renderBody_chars (eu : Bool) (st : Style) (whole : List Nat) (d1 d2 : Nat)
    (hw : ∀ d ∈ whole, d < 10) (h1 : d1 < 10) (h2 : d2 < 10) :
    ∀ c ∈ renderBody eu st whole d1 d2, bodyChar c = true := by
  have hwc : ∀ c ∈ whole.map digitChar, bodyChar c = true := by
    intro c hc; simp only [List.mem_map] at hc; obtain ⟨d, hd, rfl⟩ := hc; exact bodyChar_digitChar (hw d hd)
  intro c hc
  simp only [renderBody, List.mem_append, List.mem_cons, List.not_mem_nil, or_false] at hc
  rcases hc with hc | hc | hc | hc
  · split at hc
    · rcases mem_group3 _ _ _ hc with h | h
      · exact hwc c h
      · subst h; cases eu <;> cases st.blankSep <;> decide
    · exact hwc c hc
  · subst hc; cases eu <;> decide
  · subst hc; exact bodyChar_digitChar h1
  · subst hc; exact bodyChar_digitChar h2

theorem renderBody_head (eu : Bool) (st : Style) (whole : List Nat) (d1 d2 : Nat) (hw : ∀ d ∈ whole, d < 10) :
    ∀ c, (renderBody eu st whole d1 d2).head? = some c → isPySpace c = false := by
  intro c hc
  simp only [renderBody, List.head?_append] at hc
  have hwh : ∀ c, (whole.map digitChar).head? = some c → isPySpace c = false := by
    intro c hc
    cases whole with
    | nil => simp at hc
    | cons d ds => simp at hc; subst hc; exact (digit_facts (hw d (by simp))).1
  cases hwd : (whole.map digitChar).head? with
  | some y =>
    have : (if st.thousands = true then group3 (if eu = true then if st.blankSep = true then ' ' else '.' else ',')
        (whole.map digitChar) else whole.map digitChar).head? = some y := by
      split
      · rw [group3_head?]; exact hwd
      · exact hwd
    rw [this] at hc; simp at hc; subst hc; exact hwh _ hwd
  | none =>
    have : (if st.thousands = true then group3 (if eu = true then if st.blankSep = true then ' ' else '.' else ',')
        (whole.map digitChar) else whole.map digitChar).head? = none := by
      split
      · rw [group3_head?]; exact hwd
      · exact hwd
    rw [this] at hc; simp at hc; subst hc; cases eu <;> decide

theorem normSep_renderBody (eu : Bool) (st : Style) (whole : List Nat) (d1 d2 : Nat)
    (hw : ∀ d ∈ whole, d < 10) (h1 : d1 < 10) (h2 : d2 < 10) :
    normSep eu (renderBody eu st whole d1 d2) = whole.map digitChar ++ ['.', digitChar d1, digitChar d2] := by
  have f1 := digit_facts h1
  have f2 := digit_facts h2
  have hwf : ∀ p : Char → Bool, (∀ d, d < 10 → p (digitChar d) = true) → (whole.map digitChar).filter p = whole.map digitChar := by
    intro p hp; rw [List.filter_eq_self]; intro c hc
    simp only [List.mem_map] at hc; obtain ⟨d, hd, rfl⟩ := hc; exact hp d (hw d hd)
  have hmap : (whole.map digitChar).map (fun c => if c == ',' then '.' else c) = whole.map digitChar := by
    rw [List.map_map]; apply List.map_congr_left; intro d hd
    simp [(digit_facts (hw d hd)).2.2.1]
  cases eu with
  | false =>
    have hp : ∀ d, d < 10 → (fun c : Char => c != ',') (digitChar d) = true := by
      intro d hd; simp [(digit_facts hd).2.2.1]
    simp only [normSep, renderBody, Bool.false_eq_true, if_false, List.filter_append]
    have : (if st.thousands = true then group3 ',' (whole.map digitChar) else whole.map digitChar).filter (fun c => c != ',')
        = whole.map digitChar := by
      split
      · rw [group3_filter _ _ (by decide)]; exact hwf _ hp
      · exact hwf _ hp
    rw [this]
    simp [List.filter_cons, f1.2.2.1, f2.2.2.1]
  | true =>
    have hp : ∀ d, d < 10 → (fun c : Char => c != '.' && c != ' ') (digitChar d) = true := by
      intro d hd; simp [(digit_facts hd).2.2.2.1, (digit_facts hd).2.2.2.2.1]
    simp only [normSep, renderBody, if_true, List.filter_append, List.map_append]
    have : (if st.thousands = true then group3 (if st.blankSep = true then ' ' else '.') (whole.map digitChar)
        else whole.map digitChar).filter (fun c => c != '.' && c != ' ') = whole.map digitChar := by
      split
      · rw [group3_filter _ _ (by cases st.blankSep <;> decide)]; exact hwf _ hp
      · exact hwf _ hp
    rw [this, hmap]
    simp [List.filter_cons, f1.2.2.1, f1.2.2.2.1, f1.2.2.2.2.1, f2.2.2.1, f2.2.2.2.1, f2.2.2.2.2.1]

theorem scanInt_dot (acc : Nat) (any : Bool) (cs : Str) : scanInt acc any ('.' :: cs) = scanFrac acc 0 any cs := by
  simp [scanInt]

theorem decimalValue_digits (neg : Bool) (whole : List Nat) (d1 d2 : Nat)
    (hw : ∀ d ∈ whole, d < 10) (h1 : d1 < 10) (h2 : d2 < 10) :
    decimalValue ((if neg then ['-'] else []) ++ (whole.map digitChar ++ ['.', digitChar d1, digitChar d2])) =
      some (if neg then -((ofDigits whole * 100 + d1 * 10 + d2 : Nat) : Int) else ((ofDigits whole * 100 + d1 * 10 + d2 : Nat) : Int), 2) := by
  have key : scanInt 0 false (whole.map digitChar ++ ['.', digitChar d1, digitChar d2]) =
      some (ofDigits whole * 100 + d1 * 10 + d2, 2) := by
    rw [scanInt_digits whole hw, scanInt_dot, scanFrac_two _ _ h1 h2]
    simp only [ofDigits, Option.some.injEq, Prod.mk.injEq, and_true]
    omega
  cases neg with
  | true =>
    simp only [if_true, List.singleton_append, decimalValue, key, Option.map_some]
  | false =>
    simp only [Bool.false_eq_true, if_false, List.nil_append]
    unfold decimalValue
    split
    · rename_i r heq
      cases whole with
      | nil => simp at heq
      | cons d ds => simp at heq; exact absurd heq.1 (digit_facts (hw d (by simp))).2.2.2.2.2.2.1
    · rename_i r heq
      cases whole with
      | nil => simp at heq
      | cons d ds => simp at heq; exact absurd heq.1 (digit_facts (hw d (by simp))).2.2.2.2.2.2.2
    · rw [key]; rfl

/-- **Round trip.** A number of cents written the way statements write it (optional thousands grouping, optional
currency symbol before / after / after a blank, negative as `-…` or `(…)`), in either decimal convention, is read
back by `parse_amount`'s cleaning + the decimal grammar as exactly that number of cents / 100. -/
theorem amount_roundtrip (eu : Bool) (st : Style) (negative : Bool) (whole : List Nat) (d1 d2 : Nat)
    (hw : ∀ d ∈ whole, d < 10) (h1 : d1 < 10) (h2 : d2 < 10)
    (hsym : ∀ c, st.symbol = some c → isCurrency c = true) :
    parseAmountExact eu (render eu st negative whole d1 d2) = some (centsOf negative whole d1 d2, 2) := by
  have hB := renderBody_chars eu st whole d1 d2 hw h1 h2
  have hH := renderBody_head eu st whole d1 d2 hw
  have hL : ∃ B0, renderBody eu st whole d1 d2 = B0 ++ [digitChar d2] := by
    refine ⟨(if st.thousands then group3 (if eu then (if st.blankSep then ' ' else '.') else ',') (whole.map digitChar)
      else whole.map digitChar) ++ [if eu then ',' else '.', digitChar d1], ?_⟩
    simp [renderBody]
  obtain ⟨B0, hB0⟩ := hL
  have hc := cleanAmount_render_core eu st negative _ B0 _ hB hH hB0 (digit_facts h2).1 hsym
  unfold parseAmountExact render
  simp only []
  rw [hc]
  simp only [normSep_renderBody eu st whole d1 d2 hw h1 h2]
  rw [decimalValue_digits _ whole d1 d2 hw h1 h2]
  cases negative <;> cases st.paren <;> simp [centsOf]


/-! ### digits of a number -/
theorem ofDigits_concat (l : List Nat) (d : Nat) : ofDigits (l ++ [d]) = 10 * ofDigits l + d := by
  simp [ofDigits, List.foldl_append]

theorem ofDigits_digitsOf (n : Nat) : ofDigits (digitsOf n) = n := by
  fun_induction digitsOf n with
  | case1 n h => simp [ofDigits]
  | case2 n h ih => rw [ofDigits_concat, ih]; omega

theorem digitsOf_lt (n : Nat) : ∀ d ∈ digitsOf n, d < 10 := by
  fun_induction digitsOf n with
  | case1 n h => intro d hd; simp at hd; omega
  | case2 n h ih =>
    intro d hd
    simp only [List.mem_append, List.mem_singleton] at hd
    rcases hd with hd | hd
    · exact ih d hd
    · omega

/-! ### sign modes on bit patterns -/
theorem applySign_mag (s : Spec) (q : F64) : (applySign s q).mag = q.mag := by
  unfold applySign; split
  · rfl
  · split <;> rfl

theorem applySign_isZero (s : Spec) (q : F64) : (applySign s q).isZero = q.isZero := by
  simp [F64.isZero, applySign_mag]

/-! ### the column guard -/
theorem le_foldl_max (l : List Nat) (a i : Nat) (h : i ≤ a ∨ i ∈ l) : i ≤ l.foldl max a := by
  induction l generalizing a with
  | nil => simpa using h
  | cons x xs ih =>
    rw [List.foldl_cons]; apply ih
    rcases h with h | h
    · left; omega
    · simp only [List.mem_cons] at h
      rcases h with h | h
      · left; omega
      · right; exact h

theorem required_lt_length (s : Spec) (row : List Str) (i : Nat) (hi : i ∈ requiredCols s)
    (h : maxCol s < row.length) : i < row.length := by
  have := le_foldl_max (requiredCols s) 0 i (Or.inr hi)
  unfold maxCol at h; omega


/-! ### description templates: `str.format` fills `{name}` with the captured cell -/

inductive Seg
  | lit (s : Str)
  | ref (n : Str)

def escapeChar (c : Char) : Str := if c == '{' then ['{', '{'] else if c == '}' then ['}', '}'] else [c]

/-- literal text with braces doubled -/
def escapeLit : Str → Str
  | [] => []
  | c :: r => escapeChar c ++ escapeLit r

/-- the template string a list of segments stands for -/
def renderSegs : List Seg → Str
  | [] => []
  | .lit s :: r => escapeLit s ++ renderSegs r
  | .ref n :: r => '{' :: n ++ '}' :: renderSegs r

/-- the text the template should produce -/
def fillSegs (caps : List (Str × Str)) : List Seg → Str
  | [] => []
  | .lit s :: r => s ++ fillSegs caps r
  | .ref n :: r => (lookupCap caps n).getD [] ++ fillSegs caps r

/-- a field name `str.format` treats as a plain keyword: not empty / all digits (positional), no `{ } ! : . [` -/
def plainName (n : Str) : Bool :=
  !allDigits n && n.all fun c => c != '{' && c != '}' && !isFieldSpecial c

def segsOk (caps : List (Str × Str)) : List Seg → Bool
  | [] => true
  | .lit _ :: r => segsOk caps r
  | .ref n :: r => plainName n && (lookupCap caps n).isSome && segsOk caps r

theorem fmtScan_lit_char (caps : List (Str × Str)) (out : Str) (c : Char) (rest : Str) :
    fmtScan caps none out (escapeChar c ++ rest) = fmtScan caps none (out ++ [c]) rest := by
  unfold escapeChar
  by_cases h1 : c = '{'
  · subst h1; simp [fmtScan]
  · by_cases h2 : c = '}'
    · subst h2; simp [fmtScan]
    · simp only [beq_iff_eq, h1, h2, if_false, List.singleton_append]
      rw [fmtScan.eq_def]
      split <;> simp_all

theorem fmtScan_lit (caps : List (Str × Str)) (s : Str) (out rest : Str) :
    fmtScan caps none out (escapeLit s ++ rest) = fmtScan caps none (out ++ s) rest := by
  induction s generalizing out with
  | nil => simp [escapeLit]
  | cons c r ih => simp only [escapeLit, List.append_assoc]; rw [fmtScan_lit_char, ih]; simp

theorem fmtScan_name (caps : List (Str × Str)) (n nm out rest : Str)
    (hn : n.all (fun c => c != '{' && c != '}' && !isFieldSpecial c) = true) :
    fmtScan caps (some nm) out (n ++ '}' :: rest) = fmtScan caps (some (nm ++ n)) out ('}' :: rest) := by
  induction n generalizing nm with
  | nil => simp
  | cons c r ih =>
    simp only [List.all_cons, Bool.and_eq_true, bne_iff_ne, ne_eq, Bool.not_eq_true'] at hn
    obtain ⟨⟨⟨h1, h2⟩, h3⟩, hr⟩ := hn
    rw [List.cons_append, fmtScan.eq_def]
    split <;> simp_all

theorem fmtScan_segs (caps : List (Str × Str)) (segs : List Seg) (out : Str) (h : segsOk caps segs = true) :
    fmtScan caps none out (renderSegs segs) = .ok (out ++ fillSegs caps segs) := by
  induction segs generalizing out with
  | nil => simp [renderSegs, fillSegs, fmtScan]
  | cons sg r ih =>
    cases sg with
    | lit s =>
      simp only [segsOk] at h
      simp only [renderSegs, fillSegs]
      rw [fmtScan_lit, ih _ h]; simp
    | ref n =>
      simp only [segsOk, Bool.and_eq_true] at h
      obtain ⟨⟨hp, hl⟩, hr⟩ := h
      simp only [plainName, Bool.and_eq_true, Bool.not_eq_true'] at hp
      obtain ⟨v, hv⟩ := Option.isSome_iff_exists.mp hl
      simp only [renderSegs, fillSegs, hv, Option.getD_some]
      have hopen : fmtScan caps none out ('{' :: n ++ '}' :: renderSegs r) =
          fmtScan caps (some []) out (n ++ '}' :: renderSegs r) := by
        cases n with
        | nil => simp [allDigits] at hp
        | cons c n' =>
          have hc : c ≠ '{' := by
            have := hp.2; simp only [List.all_cons, Bool.and_eq_true, bne_iff_ne, ne_eq] at this; exact this.1.1.1
          rw [List.cons_append, List.cons_append, fmtScan.eq_def]
          split <;> first | (simp_all; done) | grind
      rw [hopen, fmtScan_name caps n [] out _ hp.2, List.nil_append, fmtScan.eq_def]
      split <;> first | (simp_all; done) | grind


/-- the template's references are plain names among the captured column names (a property of the spec alone) -/
def refsOk (names : List Str) : List Seg → Bool
  | [] => true
  | .lit _ :: r => refsOk names r
  | .ref n :: r => plainName n && names.contains n && refsOk names r

theorem lookupCap_isSome (row : List Str) (cc : List (Str × Nat)) (n : Str) :
    (lookupCap (captureCells row cc) n).isSome = (cc.map (·.1)).contains n := by
  induction cc with
  | nil => rfl
  | cons p r ih =>
    obtain ⟨k, i⟩ := p
    simp only [captureCells, List.map_cons, lookupCap, List.contains_cons] at ih ⊢
    by_cases h : k = n
    · subst h; simp
    · have h' : ¬ n = k := fun e => h e.symm
      simp [h, h', ih]

theorem segsOk_of_refsOk (row : List Str) (cc : List (Str × Nat)) (segs : List Seg)
    (h : refsOk (cc.map (·.1)) segs = true) : segsOk (captureCells row cc) segs = true := by
  induction segs with
  | nil => rfl
  | cons sg r ih =>
    cases sg with
    | lit s => simp only [refsOk] at h; simp only [segsOk]; exact ih h
    | ref n =>
      simp only [refsOk, Bool.and_eq_true] at h
      simp only [segsOk, Bool.and_eq_true, lookupCap_isSome]
      exact ⟨⟨h.1.1, h.1.2⟩, ih h.2⟩

/-! ## tokenisation: the csv reader automaton, the writer, the regex line loop -/

theorem runCsv_append (d : Char) (s : RS) (a b : Str) :
    runCsv d s (a ++ b) = ((runCsv d s a).1 ++ (runCsv d (runCsv d s a).2 b).1, (runCsv d (runCsv d s a).2 b).2) := by
  induction a generalizing s with
  | nil => simp [runCsv]
  | cons c cs ih =>
    simp only [List.cons_append, runCsv]
    cases h : rstep d s c with
    | mk s' o =>
      cases o with
      | none => simp only [ih]
      | some r => simp only [ih, List.cons_append]

/-- characters that are data in an unquoted field -/
def plainChar (d : Char) (c : Char) : Prop := c ≠ d ∧ c ≠ '"' ∧ c ≠ '\n'

theorem not_needsQuote (d : Char) (f : Str) (h : needsQuote d f = false) : ∀ c ∈ f, plainChar d c := by
  intro c hc
  simp only [needsQuote, List.any_eq_false] at h
  have := h c hc
  simp only [Bool.or_eq_true, beq_iff_eq, not_or] at this
  exact ⟨this.1.1, this.1.2, this.2⟩

/-- inside an unquoted field plain characters accumulate -/
theorem run_inField (d : Char) (f : Str) (h : ∀ c ∈ f, plainChar d c) (fld : Str) (row : List Str) :
    runCsv d ⟨.inField, fld, row⟩ f = ([], ⟨.inField, fld ++ f, row⟩) := by
  induction f generalizing fld with
  | nil => simp [runCsv]
  | cons c cs ih =>
    obtain ⟨h1, h2, h3⟩ := h c (by simp)
    have hs : rstep d ⟨.inField, fld, row⟩ c = (⟨.inField, fld ++ [c], row⟩, none) := by
      simp [rstep, h1, h3, RS.add]
    simp only [runCsv, hs]
    rw [ih (fun x hx => h x (by simp [hx]))]
    simp

/-- inside a quoted field the escaped text reads back as the text -/
theorem run_inQuoted (d : Char) (f fld : Str) (row : List Str) :
    runCsv d ⟨.inQuoted, fld, row⟩ (escapeQuotes f) = ([], ⟨.inQuoted, fld ++ f, row⟩) := by
  induction f generalizing fld with
  | nil => simp [runCsv, escapeQuotes]
  | cons c cs ih =>
    by_cases hc : c = '"'
    · subst hc
      simp only [escapeQuotes, if_true, runCsv, rstep, RS.add]
      rw [ih]; simp
    · simp only [escapeQuotes, hc, if_false, runCsv, rstep, RS.add]
      rw [ih]; simp

/-- the states in which a field may begin: after a delimiter, or at the start of a record -/
def FieldStart (s : RS) : Prop := s.field = [] ∧ (s.st = .startField ∨ s = RS.init)

/-- the state after the text of a field `f` has been read, `row` being the fields before it -/
def FieldDone (s : RS) (f : Str) (row : List Str) : Prop :=
  s.field = f ∧ s.row = row ∧
    (s.st = .quoteInQuoted ∨ s.st = .inField ∨ (s.st = .startField ∧ f = []) ∨ (s = RS.init ∧ f = [] ∧ row = []))

theorem run_writeField (d : Char) (f : Str) (s : RS) (hs : FieldStart s) :
    ∃ s', runCsv d s (writeField d f) = ([], s') ∧ FieldDone s' f s.row ∧ (s' = RS.init → s = RS.init ∧ f = []) := by
  obtain ⟨hf, hst⟩ := hs
  obtain ⟨st, fld, row⟩ := s
  simp only at hf; subst hf
  have hsf : ∀ c, c ≠ '\n' → rstep d ⟨st, [], row⟩ c = stepStartField d ⟨st, [], row⟩ c := by
    intro c hc
    rcases hst with h | h
    · simp only at h; subst h; rfl
    · simp only [RS.init, RS.mk.injEq] at h; obtain ⟨h, -, -⟩ := h; subst h; simp [rstep, hc]
  by_cases hq : needsQuote d f = true
  · -- quoted
    refine ⟨⟨.quoteInQuoted, f, row⟩, ?_, ⟨rfl, rfl, Or.inl rfl⟩, by simp [RS.init]⟩
    simp only [writeField, hq, if_true, runCsv, hsf '"' (by decide), stepStartField]
    simp only [show ('"' : Char) ≠ '\n' from by decide, if_false]
    rw [runCsv_append, run_inQuoted]
    simp [runCsv, rstep]
  · have hq' : needsQuote d f = false := by simpa using hq
    have hp := not_needsQuote d f hq'
    simp only [writeField, hq', Bool.false_eq_true, if_false]
    cases f with
    | nil =>
      refine ⟨⟨st, [], row⟩, by simp [runCsv], ⟨rfl, rfl, ?_⟩, ?_⟩
      · rcases hst with h | h
        · exact Or.inr (Or.inr (Or.inl ⟨h, rfl⟩))
        · simp only [RS.init, RS.mk.injEq] at h
          obtain ⟨h1, -, h3⟩ := h; subst h1; subst h3
          exact Or.inr (Or.inr (Or.inr ⟨rfl, rfl, rfl⟩))
      · intro h; exact ⟨h, rfl⟩
    | cons c cs =>
      obtain ⟨h1, h2, h3⟩ := hp c (by simp)
      refine ⟨⟨.inField, c :: cs, row⟩, ?_, ⟨rfl, rfl, Or.inr (Or.inl rfl)⟩, by simp [RS.init]⟩
      simp only [runCsv, hsf c h3, stepStartField, h3, h2, h1, if_false, RS.add, List.nil_append]
      rw [run_inField d cs (fun x hx => hp x (by simp [hx]))]
      simp

theorem step_delim_done (d : Char) (hd1 : d ≠ '"') (hd2 : d ≠ '\n') (s : RS) (f : Str) (row : List Str)
    (h : FieldDone s f row) : rstep d s d = (⟨.startField, [], row ++ [f]⟩, none) := by
  obtain ⟨st, fld, rw'⟩ := s
  obtain ⟨h1, h2, h3⟩ := h
  simp only at h1 h2; subst h1; subst h2
  rcases h3 with h | h | ⟨h, hf⟩ | ⟨h, hf, hr⟩
  · simp only at h; subst h; simp [rstep, hd1, RS.save]
  · simp only at h; subst h; simp [rstep, hd2, RS.save]
  · simp only at h; subst h; simp [rstep, stepStartField, hd1, hd2, RS.save]
  · simp only [RS.init, RS.mk.injEq] at h; obtain ⟨h, -, -⟩ := h; subst h
    simp [rstep, stepStartField, hd1, hd2, RS.save]

theorem step_newline_done (d : Char) (hd2 : d ≠ '\n') (s : RS) (f : Str) (row : List Str)
    (h : FieldDone s f row) (hn : s ≠ RS.init) : rstep d s '\n' = (RS.init, some (row ++ [f])) := by
  obtain ⟨st, fld, rw'⟩ := s
  obtain ⟨h1, h2, h3⟩ := h
  simp only at h1 h2; subst h1; subst h2
  have hd2' : ('\n' : Char) ≠ d := fun e => hd2 e.symm
  rcases h3 with h | h | ⟨h, hf⟩ | ⟨h, hf, hr⟩
  · simp only at h; subst h; simp [rstep, hd2', RS.emit]
  · simp only at h; subst h; simp [rstep, RS.emit]
  · simp only at h; subst h; simp [rstep, stepStartField, RS.emit]
  · exact absurd h hn

/-- a written record (other than the lone empty field) is read back as itself, continuing the fields `s.row` -/
theorem run_writeFields (d : Char) (hd1 : d ≠ '"') (hd2 : d ≠ '\n') (fs : List Str) (hne : fs ≠ []) (s : RS)
    (hs : FieldStart s) (hx : ¬ (s = RS.init ∧ fs = [[]])) :
    runCsv d s (joinFields d (fs.map (writeField d)) ++ ['\n']) = ([s.row ++ fs], RS.init) := by
  induction fs generalizing s with
  | nil => exact absurd rfl hne
  | cons f rest ih =>
    obtain ⟨s', hr, hdone, hinit⟩ := run_writeField d f s hs
    cases rest with
    | nil =>
      simp only [List.map_cons, List.map_nil, joinFields]
      rw [runCsv_append, hr]
      have hn : s' ≠ RS.init := by
        intro e; obtain ⟨e1, e2⟩ := hinit e; exact hx ⟨e1, by rw [e2]⟩
      simp [runCsv, step_newline_done d hd2 s' f s.row hdone hn]
    | cons g rest' =>
      simp only [List.map_cons, joinFields]
      rw [List.append_assoc, runCsv_append, hr]
      simp only [List.cons_append, runCsv, step_delim_done d hd1 hd2 s' f s.row hdone, List.nil_append]
      have := ih (by simp) ⟨.startField, [], s.row ++ [f]⟩ ⟨rfl, Or.inl rfl⟩ (by simp [RS.init])
      simp only [List.map_cons] at this
      rw [this]; simp

theorem run_writeRow (d : Char) (hd1 : d ≠ '"') (hd2 : d ≠ '\n') (row : List Str) :
    runCsv d RS.init (writeRow d row) = ([row], RS.init) := by
  by_cases h1 : row = [[]]
  · subst h1
    have hd2' : ('\n' : Char) ≠ d := fun e => hd2 e.symm
    simp [writeRow, runCsv, rstep, stepStartField, RS.init, RS.emit, hd2']
  · by_cases h0 : row = []
    · subst h0; simp [writeRow, joinFields, runCsv, rstep, RS.init]
    · have hw : writeRow d row = joinFields d (row.map (writeField d)) ++ ['\n'] := by
        unfold writeRow; split
        · exact absurd rfl h1
        · rfl
      rw [hw, run_writeFields d hd1 hd2 row h0 RS.init ⟨rfl, Or.inr rfl⟩ (fun h => h1 h.2)]
      simp [RS.init]

theorem run_writeCsv (d : Char) (hd1 : d ≠ '"') (hd2 : d ≠ '\n') (rows : List (List Str)) :
    runCsv d RS.init (writeCsv d rows) = (rows, RS.init) := by
  induction rows with
  | nil => simp [writeCsv, runCsv]
  | cons r rs ih =>
    have : writeCsv d (r :: rs) = writeRow d r ++ writeCsv d rs := by simp [writeCsv]
    rw [this, runCsv_append, run_writeRow d hd1 hd2 r, ih]
    simp

/-- the index loop of the `regex:` branch, started at line number `i` -/
theorem regexLoop_succ (m : Str → Option (List Str)) (h : Bool) (i : Nat) (ls : List Str) :
    regexLoop m h (i + 1) ls = ls.filterMap (lineRow m) := by
  induction ls generalizing i with
  | nil => simp [regexLoop]
  | cons l ls ih =>
    simp only [regexLoop, List.filterMap_cons, lineRow, ih]
    by_cases he : (strip l).isEmpty = true
    · simp [he]
    · simp only [he, Bool.false_eq_true, if_false]
      cases m (strip l) <;> simp


end TallyVerif.Csv
