import TallyVerif.Model.Discover
import TallyVerif.Lemmas.RulesFile
/-! Helper lemmas for C19: the cleaning pipeline only ever keeps a contiguous piece of the upper-cased
description (plus white space), words and escaping commute, the literal decoder undoes the two escapings. -/
namespace TallyVerif.Discover
open TallyVerif.RulesFile

/-! ### "a piece of `U`, followed by white space" -/

/-- `x` is a contiguous piece `p` of `U` followed by white space `t` -/
def InfWs (x U : Str) : Prop := ∃ a p t b, x = p ++ t ∧ U = a ++ p ++ b ∧ t.all isSpace = true

theorem InfWs.refl (U : Str) : InfWs U U := ⟨[], U, [], [], by simp, by simp, rfl⟩

theorem all_take {p : Char → Bool} (t : Str) (n : Nat) (h : t.all p = true) : (t.take n).all p = true := by
  rw [List.all_eq_true] at *
  intro x hx; exact h x (List.mem_of_mem_take hx)

theorem all_drop {p : Char → Bool} (t : Str) (n : Nat) (h : t.all p = true) : (t.drop n).all p = true := by
  rw [List.all_eq_true] at *
  intro x hx; exact h x (List.mem_of_mem_drop hx)

theorem InfWs.take_append {x U : Str} (h : InfWs x U) (n : Nat) (tl : Str) (htl : tl.all isSpace = true) :
    InfWs (x.take n ++ tl) U := by
  obtain ⟨a, p, t, b, hx, hU, ht⟩ := h
  refine ⟨a, p.take n, t.take (n - p.length) ++ tl, p.drop n ++ b, ?_, ?_, ?_⟩
  · subst hx; simp [List.take_append]
  · rw [hU]; simp only [List.append_assoc]; rw [← List.append_assoc (p.take n), List.take_append_drop]
  · simp [List.all_append, all_take t _ ht, htl]

theorem InfWs.drop {x U : Str} (h : InfWs x U) (n : Nat) : InfWs (x.drop n) U := by
  obtain ⟨a, p, t, b, hx, hU, ht⟩ := h
  refine ⟨a ++ p.take n, p.drop n, t.drop (n - p.length), b, ?_, ?_, all_drop t _ ht⟩
  · subst hx; simp [List.drop_append]
  · rw [hU]; simp only [List.append_assoc]; rw [← List.append_assoc (p.take n), List.take_append_drop]

/-- the tail a `cutAt` test hands back is white space -/
def WsTail (P : Str → Option Str) : Prop := ∀ s tl, P s = some tl → tl.all isSpace = true

theorem cutAt_take (P : Str → Option Str) (hP : WsTail P) (x : Str) :
    ∃ n tl, cutAt P x = x.take n ++ tl ∧ tl.all isSpace = true := by
  induction x with
  | nil => exact ⟨0, [], rfl, rfl⟩
  | cons c cs ih =>
    unfold cutAt
    split
    · rename_i tl h; exact ⟨0, tl, by simp, hP _ _ h⟩
    · obtain ⟨n, tl, h1, h2⟩ := ih
      exact ⟨n + 1, tl, by simp [h1], h2⟩

theorem InfWs.cutAt {x U : Str} (h : InfWs x U) (P : Str → Option Str) (hP : WsTail P) : InfWs (cutAt P x) U := by
  obtain ⟨n, tl, h1, h2⟩ := cutAt_take P hP x
  rw [h1]; exact h.take_append n tl h2

theorem tailNL_ws (s : Str) : (tailNL s).all isSpace = true := by
  unfold tailNL; split <;> decide

theorem afterWs_ws (k : Str → Option Str) (hk : ∀ r tl, k r = some tl → tl.all isSpace = true) (s tl : Str)
    (h : afterWs s k = some tl) : tl.all isSpace = true := by
  unfold afterWs at h
  split at h
  · split at h
    · exact hk _ _ h
    · cases h
  · cases h

theorem atEnd_ws (r tl : Str) (h : atEnd r = some tl) : tl.all isSpace = true := by
  unfold atEnd at h
  split at h <;> first | (cases h; decide) | cases h

theorem numP_ws (o : Oracles) : WsTail (numP o) := by
  intro s tl h
  refine afterWs_ws _ ?_ s tl h
  intro r tl h; split at h
  · cases h; exact tailNL_ws _
  · cases h

theorem stateP_ws (o : Oracles) (ci : Bool) : WsTail (stateP o ci) := by
  intro s tl h
  refine afterWs_ws _ ?_ s tl h
  intro r tl h; split at h
  · exact atEnd_ws _ _ h
  · cases h

theorem zipP_ws (o : Oracles) : WsTail (zipP o) := by
  intro s tl h
  refine afterWs_ws _ ?_ s tl h
  intro r tl h; split at h
  · exact atEnd_ws _ _ h
  · cases h

theorem storeCutP_ws (o : Oracles) : WsTail (storeCutP o) := by
  intro s tl h
  refine afterWs_ws _ ?_ s tl h
  intro r tl h; split at h
  · split at h
    · cases h; exact tailNL_ws _
    · cases h
  · cases h

theorem InfWs.dropPrefixes {x U : Str} (h : InfWs x U) (ps : List Str) : InfWs (dropPrefixes ps x) U := by
  unfold Discover.dropPrefixes
  induction ps generalizing x with
  | nil => exact h
  | cons p ps ih =>
    simp only [List.foldl_cons]
    split
    · exact ih (h.drop _)
    · exact ih h

theorem dropWhile_eq_drop (p : Char → Bool) (l : Str) : ∃ n, l.dropWhile p = l.drop n := by
  induction l with
  | nil => exact ⟨0, rfl⟩
  | cons c cs ih =>
    by_cases hc : p c = true
    · obtain ⟨n, hn⟩ := ih; exact ⟨n + 1, by simp [hc, hn]⟩
    · exact ⟨0, by simp [hc]⟩

theorem rstrip_eq_take (l : Str) : ∃ n, rstrip l = l.take n := by
  unfold rstrip
  have h := List.takeWhile_append_dropWhile (p := isSpace) (l := l.reverse)
  have h2 : l = (l.reverse.dropWhile isSpace).reverse ++ (l.reverse.takeWhile isSpace).reverse := by
    have := congrArg List.reverse h
    rw [List.reverse_append, List.reverse_reverse] at this
    exact this.symm
  refine ⟨(l.reverse.dropWhile isSpace).reverse.length, ?_⟩
  conv => rhs; rw [h2]
  simp

/-- `strip` keeps a contiguous piece -/
theorem strip_infix (p : Str) : ∃ a b, p = a ++ strip p ++ b := by
  unfold strip lstrip
  obtain ⟨k, hk⟩ := dropWhile_eq_drop isSpace p
  obtain ⟨m, hm⟩ := rstrip_eq_take (p.dropWhile isSpace)
  rw [hm, hk]
  refine ⟨p.take k, (p.drop k).drop m, ?_⟩
  rw [List.append_assoc, List.take_append_drop, List.take_append_drop]

theorem InfWs.strip {x U : Str} (h : InfWs x U) : ∃ a b, U = a ++ strip x ++ b := by
  obtain ⟨a, p, t, b, hx, hU, ht⟩ := h
  subst hx
  rw [strip_append_right _ _ ht]
  obtain ⟨a', b', hp⟩ := strip_infix p
  refine ⟨a ++ a', b' ++ b, ?_⟩
  rw [hU]; conv => lhs; rw [hp]
  simp [List.append_assoc]

/-- the three "cut the tail" rules keep a piece of the upper-cased description -/
theorem preStoreU_infws (o : Oracles) (U : Str) : InfWs (preStoreU o U) U :=
  (((InfWs.refl _).cutAt _ (numP_ws o)).cutAt _ (stateP_ws o false)).cutAt _ (zipP_ws o)

theorem preStore_infws (o : Oracles) (d : Str) : InfWs (preStore o d) (upper o d) := preStoreU_infws o _

/-- repaired pipeline: the cleaned text is a contiguous piece of the upper-cased text it starts from -/
theorem Fixed.cleanU_infix (o : Oracles) (U : Str) : ∃ a b, U = a ++ Fixed.cleanU o U ++ b :=
  (((preStoreU_infws o U).cutAt _ (storeCutP_ws o)).dropPrefixes patPrefixes).strip

theorem Fixed.clean_infix (o : Oracles) (d : Str) : ∃ a b, upper o d = a ++ Fixed.clean o d ++ b :=
  Fixed.cleanU_infix o _

/-- current pipeline: the same, provided deleting store numbers removes at most a tail -/
theorem clean_infix (o : Oracles) (d : Str)
    (h : (delStore o 0 (preStore o d)).isPrefixOf (preStore o d) = true) :
    ∃ a b, upper o d = a ++ clean o d ++ b := by
  have hp : delStore o 0 (preStore o d) <+: preStore o d := List.isPrefixOf_iff_prefix.mp h
  have ht : delStore o 0 (preStore o d) = (preStore o d).take (delStore o 0 (preStore o d)).length :=
    List.prefix_iff_eq_take.mp hp
  have h4 : InfWs (delStore o 0 (preStore o d)) (upper o d) := by
    rw [ht]; simpa using (preStore_infws o d).take_append _ [] rfl
  exact (h4.dropPrefixes patPrefixes).strip

/-! ### `isInfixB`, `containsCI` -/

theorem isInfixB_append (p a b : Str) : isInfixB p (a ++ p ++ b) = true := by
  induction a with
  | nil =>
    cases hp : p ++ b with
    | nil =>
      obtain ⟨h1, h2⟩ := List.append_eq_nil_iff.mp hp
      subst h1 h2; rfl
    | cons c cs =>
      have h : p.isPrefixOf (p ++ b) = true := List.isPrefixOf_iff_prefix.mpr (List.prefix_append p b)
      rw [hp] at h
      simp [isInfixB, hp, h]
  | cons c cs ih =>
    show (p.isPrefixOf (c :: (cs ++ p ++ b)) || isInfixB p (cs ++ p ++ b)) = true
    rw [ih]; simp

/-- `str.upper()` is idempotent on every non-ASCII character (a law of the oracle, tested on every run) -/
def UpperIdem (o : Oracles) : Prop := ∀ c, isAscii c = false → (o.upNA c).flatMap (upperC o) = o.upNA c

theorem upChar_ascii_idem : ∀ n : Fin 128, isAscii (upChar (Char.ofNat n)) = true ∧
    upChar (upChar (Char.ofNat n)) = upChar (Char.ofNat n) := by decide +kernel

theorem upperC_idem (o : Oracles) (h : UpperIdem o) (c : Char) : (upperC o c).flatMap (upperC o) = upperC o c := by
  unfold upperC
  by_cases hc : isAscii c = true
  · have hlt : c.toNat < 128 := by simpa [isAscii] using hc
    have := upChar_ascii_idem ⟨c.toNat, hlt⟩
    simp only [Char.ofNat_toNat] at this
    simp [hc, this.1, this.2]
  · have hc' : isAscii c = false := by simpa using hc
    simp only [hc']
    exact h c hc'

theorem upper_idem (o : Oracles) (h : UpperIdem o) (s : Str) : upper o (upper o s) = upper o s := by
  unfold upper
  induction s with
  | nil => rfl
  | cons c cs ih => simp only [List.flatMap_cons, List.flatMap_append, ih, upperC_idem o h c]

theorem upper_append (o : Oracles) (a b : Str) : upper o (a ++ b) = upper o a ++ upper o b := by
  simp [upper]

/-- a piece of the upper-cased description is found by `contains` -/
theorem containsCI_of_infix (o : Oracles) (h : UpperIdem o) (c d a b : Str) (hU : upper o d = a ++ c ++ b) :
    containsCI o c d = true := by
  unfold containsCI
  have := upper_idem o h d
  rw [hU] at this
  rw [hU, ← this, upper_append, upper_append]
  exact isInfixB_append _ _ _

theorem upperIdem_ascii : UpperIdem asciiOracles := by
  intro c hc; simp [asciiOracles, upperC, hc]

/-! ### words -/

def NoSpace (w : Str) : Prop := w.all (fun c => !isSpace c) = true

theorem splitGo_fst_nospace (s : Str) : NoSpace (splitGo s).1 := by
  unfold NoSpace
  induction s with
  | nil => rfl
  | cons c cs ih =>
    unfold splitGo
    by_cases hc : isSpace c = true
    · simp [hc]
    · simp [hc, ih]

theorem splitGo_nospace_append (u s : Str) (hu : NoSpace u) :
    splitGo (u ++ s) = (u ++ (splitGo s).1, (splitGo s).2) := by
  unfold NoSpace at hu
  induction u with
  | nil => simp
  | cons c u ih =>
    simp only [List.all_cons, Bool.and_eq_true, Bool.not_eq_true'] at hu
    simp [splitGo, hu.1, ih hu.2]

theorem consNE_map (f : Str → Str) (hf : ∀ w, (f w).isEmpty = w.isEmpty) (w : Str) (ws : List Str) :
    (consNE w ws).map f = consNE (f w) (ws.map f) := by
  unfold consNE
  rw [hf w]; split <;> simp

/-- a per-character rewriting that keeps white space as it is and turns every other character into a
non-empty white-space-free string commutes with `split()` -/
theorem splitGo_flatMap (f : Char → Str) (hs : ∀ c, isSpace c = true → f c = [c])
    (hn : ∀ c, isSpace c = false → f c ≠ [] ∧ NoSpace (f c)) (s : Str) :
    splitGo (s.flatMap f) = ((splitGo s).1.flatMap f, (splitGo s).2.map (·.flatMap f)) := by
  have hemp : ∀ w, NoSpace w → (w.flatMap f).isEmpty = w.isEmpty := by
    intro w hw
    cases w with
    | nil => rfl
    | cons c cs =>
      simp only [NoSpace, List.all_cons, Bool.and_eq_true, Bool.not_eq_true'] at hw
      have := (hn c hw.1).1
      cases hfc : f c with
      | nil => exact absurd hfc this
      | cons x xs => simp [hfc]
  induction s with
  | nil => rfl
  | cons c cs ih =>
    by_cases hc : isSpace c = true
    · simp only [List.flatMap_cons, hs c hc, List.singleton_append]
      unfold splitGo
      simp only [hc, if_true, ih]
      congr 1
      unfold consNE
      rw [hemp _ (splitGo_fst_nospace cs)]
      split <;> simp
    · have hc' : isSpace c = false := by simpa using hc
      simp only [List.flatMap_cons]
      rw [splitGo_nospace_append _ _ (hn c hc').2, ih]
      conv => rhs; unfold splitGo
      simp [hc']

theorem splitWs_flatMap (f : Char → Str) (hs : ∀ c, isSpace c = true → f c = [c])
    (hn : ∀ c, isSpace c = false → f c ≠ [] ∧ NoSpace (f c)) (s : Str) :
    splitWs (s.flatMap f) = (splitWs s).map (·.flatMap f) := by
  unfold splitWs
  rw [splitGo_flatMap f hs hn s]
  unfold consNE
  have hemp : ((splitGo s).1.flatMap f).isEmpty = (splitGo s).1.isEmpty := by
    have hw := splitGo_fst_nospace s
    cases h : (splitGo s).1 with
    | nil => rfl
    | cons c cs =>
      rw [h] at hw
      simp only [NoSpace, List.all_cons, Bool.and_eq_true, Bool.not_eq_true'] at hw
      have := (hn c hw.1).1
      cases hfc : f c with
      | nil => exact absurd hfc this
      | cons x xs => simp [hfc]
  simp only [hemp]
  split <;> simp

theorem meta_not_space : ∀ c ∈ metaChars, isSpace c = false := by decide +kernel

theorem isMeta_not_space (c : Char) (h : isMeta c = true) : isSpace c = false := by
  apply meta_not_space
  simpa [isMeta] using h

theorem escC_space (c : Char) (h : isSpace c = true) : escC c = [c] := by
  unfold escC
  by_cases hm : isMeta c = true
  · rw [isMeta_not_space c hm] at h; cases h
  · simp [hm]

theorem escC_nospace (c : Char) (h : isSpace c = false) : escC c ≠ [] ∧ NoSpace (escC c) := by
  unfold escC NoSpace
  split
  · refine ⟨by simp, ?_⟩
    simp only [List.all_cons, List.all_nil, Bool.and_true, h]
    decide
  · simp [h]

/-- escaping and splitting commute: the words of the escaped text are the escaped words -/
theorem splitWs_escapeRe (x : Str) : splitWs (escapeRe x) = (splitWs x).map escapeRe :=
  splitWs_flatMap escC escC_space escC_nospace x

/-! ### the pattern as escaped words, and what the literal decoder makes of it -/

theorem patternOf_words (x : Str) (h : (splitWs x).take 3 ≠ []) :
    patternOf x = joinWith reWs (((splitWs x).take 3).map escapeRe) := by
  have e : (splitWs (escapeRe x)).take 3 = ((splitWs x).take 3).map escapeRe := by
    rw [splitWs_escapeRe, List.map_take]
  show (if ((splitWs (escapeRe x)).take 3).isEmpty then escapeRe x
        else joinWith reWs ((splitWs (escapeRe x)).take 3)) = _
  rw [e]
  cases hh : List.take 3 (splitWs x) with
  | nil => exact absurd hh h
  | cons a as => rfl

theorem quoteEsc_append (a b : Str) : quoteEsc (a ++ b) = quoteEsc a ++ quoteEsc b := by
  simp [quoteEsc]

theorem quoteEsc_joinWith (ws : List Str) :
    quoteEsc (joinWith reWs ws) = joinWith reWs (ws.map quoteEsc) := by
  induction ws with
  | nil => rfl
  | cons w ws ih =>
    cases ws with
    | nil => rfl
    | cons w' ws =>
      simp only [joinWith, List.map_cons, quoteEsc_append] at *
      rw [ih]; rfl

/-- what the loaded `contains("…")` literal holds for one word: metacharacters other than the backslash
keep the backslash that `suggest_pattern` put in front of them -/
def litC (c : Char) : Str := if isMeta c && c != '\\' then ['\\', c] else [c]
def litWord (w : Str) : Str := w.flatMap litC

/-- a character that can stand in a word of a loadable suggestion -/
def WordChar (c : Char) : Prop := isSpace c = false ∧ c.toNat ≠ 0

theorem meta_facts : ∀ c ∈ metaChars, (c == '"') = false ∧ (c == '\'') = false ∧ escLetters.contains c = false ∧
    (c == '\r') = false ∧ (c.toNat == 0) = false := by decide +kernel

theorem pyLit_encC (c : Char) (hc : WordChar c) (rest : Str) :
    pyLit false (quoteEsc (escC c) ++ rest) = (pyLit false rest).map (litC c ++ ·) := by
  obtain ⟨hs, h0⟩ := hc
  by_cases hm : isMeta c = true
  · have hmem : c ∈ metaChars := by simpa [isMeta] using hm
    obtain ⟨hq, hq', he, hr, hz⟩ := meta_facts c hmem
    have hq2 : ¬ c = '"' := by simpa using hq
    have hq'2 : ¬ c = '\'' := by simpa using hq'
    have he2 : c ∉ escLetters := by simpa using he
    have hr2 : ¬ c = '\r' := by simpa using hr
    by_cases hb : c = '\\'
    · subst hb
      have e1 : quoteEsc (escC '\\') = ['\\', '\\'] := by decide +kernel
      have e2 : litC '\\' = ['\\'] := by decide +kernel
      rw [e1, e2]; simp [pyLit]
    · have e1 : quoteEsc (escC c) = ['\\', c] := by simp [escC, hm, quoteEsc, hq2]
      have e2 : litC c = ['\\', c] := by simp [litC, hm, hb]
      rw [e1, e2]
      simp [pyLit, hb, hq2, hq'2, he2, hr2, h0]
  · have hm' : isMeta c = false := by simpa using hm
    have hb : ¬ c = '\\' := by
      intro hcb; subst hcb; exact absurd (by decide +kernel : isMeta '\\' = true) hm
    have hn : ¬ c = '\n' := by
      intro hcn; subst hcn; exact absurd hs (by decide +kernel)
    have hr : ¬ c = '\r' := by
      intro hcr; subst hcr; exact absurd hs (by decide +kernel)
    have e2 : litC c = [c] := by simp [litC, hm']
    rw [e2]
    by_cases hq : c = '"'
    · subst hq
      have e1 : quoteEsc (escC '"') = ['\\', '"'] := by decide +kernel
      rw [e1]; simp [pyLit]
    · have e1 : quoteEsc (escC c) = [c] := by simp [escC, hm', quoteEsc, hq]
      rw [e1]
      simp [pyLit, hb, hq, hn, hr, h0]

def WordOk (w : Str) : Prop := ∀ c ∈ w, WordChar c

theorem pyLit_encWord (w : Str) (hw : WordOk w) (rest : Str) :
    pyLit false (quoteEsc (escapeRe w) ++ rest) = (pyLit false rest).map (litWord w ++ ·) := by
  induction w with
  | nil => simp [escapeRe, quoteEsc, litWord]
  | cons c cs ih =>
    have hc : WordChar c := hw c (by simp)
    have hcs : WordOk cs := fun x hx => hw x (by simp [hx])
    have : quoteEsc (escapeRe (c :: cs)) = quoteEsc (escC c) ++ quoteEsc (escapeRe cs) := by
      simp [escapeRe, quoteEsc]
    rw [this, List.append_assoc, pyLit_encC c hc, ih hcs]
    cases pyLit false rest <;> simp [litWord]

theorem pyLit_reWs (rest : Str) : pyLit false (reWs ++ rest) = (pyLit false rest).map (reWs ++ ·) := by
  have : pyLit false (reWs ++ rest) =
      ((pyLit false rest).map ('*' :: ·)).map (fun l => '\\' :: 's' :: l) := by
    simp [reWs, pyLit, escLetters]
  rw [this]; cases pyLit false rest <;> rfl

theorem pyLit_words (ws : List Str) (h : ∀ w ∈ ws, WordOk w) :
    pyLit false (joinWith reWs (ws.map fun w => quoteEsc (escapeRe w))) = some (joinWith reWs (ws.map litWord)) := by
  induction ws with
  | nil => rfl
  | cons w ws ih =>
    cases ws with
    | nil =>
      have := pyLit_encWord w (h w (by simp)) []
      simpa [joinWith, pyLit] using this
    | cons w' ws =>
      have ih' := ih (fun x hx => h x (by simp [hx]))
      simp only [List.map_cons, joinWith] at *
      rw [List.append_assoc, pyLit_encWord w (h w (by simp)), pyLit_reWs, ih']
      simp

theorem splitGo_snd_nospace (s : Str) : ∀ w ∈ (splitGo s).2, NoSpace w := by
  induction s with
  | nil => intro w hw; simp [splitGo] at hw
  | cons c cs ih =>
    intro w hw
    unfold splitGo at hw
    by_cases hc : isSpace c = true
    · simp only [hc, if_true] at hw
      unfold consNE at hw
      split at hw
      · exact ih w hw
      · rcases List.mem_cons.mp hw with h | h
        · rw [h]; exact splitGo_fst_nospace cs
        · exact ih w h
    · simp only [hc] at hw
      exact ih w hw

theorem splitWs_nospace (s : Str) : ∀ w ∈ splitWs s, NoSpace w := by
  intro w hw
  unfold splitWs consNE at hw
  split at hw
  · exact splitGo_snd_nospace s w hw
  · rcases List.mem_cons.mp hw with h | h
    · rw [h]; exact splitGo_fst_nospace s
    · exact splitGo_snd_nospace s w h

theorem splitGo_mem (s : Str) : (∀ c ∈ (splitGo s).1, c ∈ s) ∧ (∀ w ∈ (splitGo s).2, ∀ c ∈ w, c ∈ s) := by
  induction s with
  | nil => simp [splitGo]
  | cons x xs ih =>
    unfold splitGo
    by_cases hx : isSpace x = true
    · simp only [hx, if_true]
      refine ⟨by simp, ?_⟩
      intro w hw c hc
      unfold consNE at hw
      split at hw
      · exact List.mem_cons_of_mem _ (ih.2 w hw c hc)
      · rcases List.mem_cons.mp hw with h | h
        · subst h; exact List.mem_cons_of_mem _ (ih.1 c hc)
        · exact List.mem_cons_of_mem _ (ih.2 w h c hc)
    · simp only [hx]
      refine ⟨?_, fun w hw c hc => List.mem_cons_of_mem _ (ih.2 w hw c hc)⟩
      intro c hc
      rcases List.mem_cons.mp hc with h | h
      · simp [h]
      · exact List.mem_cons_of_mem _ (ih.1 c h)

theorem splitWs_mem (s : Str) : ∀ w ∈ splitWs s, ∀ c ∈ w, c ∈ s := by
  intro w hw c hc
  unfold splitWs consNE at hw
  split at hw
  · exact (splitGo_mem s).2 w hw c hc
  · rcases List.mem_cons.mp hw with h | h
    · subst h; exact (splitGo_mem s).1 c hc
    · exact (splitGo_mem s).2 w h c hc

/-- no NUL character -/
def NoNul (x : Str) : Prop := ∀ c ∈ x, c.toNat ≠ 0

theorem splitWs_wordOk (x : Str) (h : NoNul x) : ∀ w ∈ splitWs x, WordOk w := by
  intro w hw c hc
  refine ⟨?_, h c (splitWs_mem x w hw c hc)⟩
  have := splitWs_nospace x w hw
  unfold NoSpace at this
  rw [List.all_eq_true] at this
  simpa using this c hc

/-- the literal that `contains("…")` carries, for any text whose words are taken by `patternOf` -/
theorem literalOf_patternOf (x : Str) (h0 : NoNul x) (hne : (splitWs x).take 3 ≠ []) :
    literalOf (patternOf x) = some (joinWith reWs (((splitWs x).take 3).map litWord)) := by
  unfold literalOf pyStrLit
  rw [patternOf_words x hne, quoteEsc_joinWith, List.map_map]
  exact pyLit_words _ (fun w hw => splitWs_wordOk x h0 w (List.mem_of_mem_take hw))

/-! ### the language of the emitted regex -/

theorem consNE_nil (l : List Str) : consNE [] l = l := rfl

theorem splitWs_cons_space (c : Char) (cs : Str) (h : isSpace c = true) : splitWs (c :: cs) = splitWs cs := by
  unfold splitWs
  conv => lhs; unfold splitGo
  simp [h, consNE_nil]

theorem splitWs_cons_nospace (c : Char) (cs : Str) (h : isSpace c = false) :
    splitWs (c :: cs) = (c :: (splitGo cs).1) :: (splitGo cs).2 := by
  unfold splitWs
  conv => lhs; unfold splitGo
  simp [h, consNE]

theorem splitWs_dropWhile (c : Str) : splitWs (c.dropWhile isSpace) = splitWs c := by
  induction c with
  | nil => rfl
  | cons x xs ih =>
    by_cases hx : isSpace x = true
    · simp [hx, ih, splitWs_cons_space]
    · simp [hx]

theorem splitWs_all_space (t : Str) (h : t.all isSpace = true) : splitWs t = [] := by
  induction t with
  | nil => rfl
  | cons x xs ih =>
    simp only [List.all_cons, Bool.and_eq_true] at h
    rw [splitWs_cons_space x xs h.1, ih h.2]

theorem splitGo_spec (s : Str) :
    ∃ tail, s = (splitGo s).1 ++ tail ∧ (splitGo s).2 = splitWs tail ∧ tail.length ≤ s.length := by
  induction s with
  | nil => exact ⟨[], rfl, rfl, Nat.le_refl _⟩
  | cons c cs ih =>
    by_cases hc : isSpace c = true
    · refine ⟨c :: cs, ?_, ?_, Nat.le_refl _⟩
      · unfold splitGo; simp [hc]
      · rw [splitWs_cons_space c cs hc]
        unfold splitGo; simp [hc, splitWs]
    · obtain ⟨tail, h1, h2, h3⟩ := ih
      refine ⟨tail, ?_, ?_, Nat.le_succ_of_le h3⟩
      · have : (splitGo (c :: cs)).1 = c :: (splitGo cs).1 := by
          conv => lhs; unfold splitGo
          simp [hc]
        rw [this, List.cons_append, ← h1]
      · have : (splitGo (c :: cs)).2 = (splitGo cs).2 := by
          conv => lhs; unfold splitGo
          simp [hc]
        rw [this]; exact h2

theorem langAt_words (k : Nat) : ∀ c : Str, c.length ≤ k → ∀ n rest,
    Fixed.langAt ((splitWs c).take n) (c.dropWhile isSpace ++ rest) = true := by
  induction k with
  | zero =>
    intro c hc n rest
    have : c = [] := List.eq_nil_of_length_eq_zero (Nat.le_zero.mp hc)
    subst this; simp [splitWs, splitGo, consNE, Fixed.langAt]
  | succ k ih =>
    intro c hc n rest
    rw [← splitWs_dropWhile c]
    have hlen : (c.dropWhile isSpace).length ≤ c.length := by
      obtain ⟨m, hm⟩ := dropWhile_eq_drop isSpace c
      rw [hm]; simp
    cases hc' : c.dropWhile isSpace with
    | nil => simp [splitWs, splitGo, consNE, Fixed.langAt]
    | cons x cs =>
      have hx : isSpace x = false := by
        have := List.head_dropWhile_not isSpace (l := c) (by rw [hc']; simp)
        simpa [hc'] using this
      obtain ⟨tail, h1, h2, h3⟩ := splitGo_spec cs
      rw [splitWs_cons_nospace x cs hx, h2]
      cases n with
      | zero => simp [Fixed.langAt]
      | succ m =>
        have hpre : (x :: (splitGo cs).1).isPrefixOf (x :: cs ++ rest) = true := by
          apply List.isPrefixOf_iff_prefix.mpr
          refine ⟨tail ++ rest, ?_⟩
          conv => rhs; rw [h1]
          simp
        simp only [List.take_succ_cons]
        cases hw : (splitWs tail).take m with
        | nil => simpa [Fixed.langAt] using hpre
        | cons w' more =>
          have htl : tail.length ≤ k := by
            have : (x :: cs).length ≤ k + 1 := by rw [← hc']; exact Nat.le_trans hlen hc
            simp at this; omega
          have hns : tail.all isSpace = false := by
            cases hall : tail.all isSpace with
            | false => rfl
            | true => rw [splitWs_all_space tail hall] at hw; simp at hw
          have hdrop : (x :: cs ++ rest).drop (x :: (splitGo cs).1).length = tail ++ rest := by
            have : x :: cs ++ rest = (x :: (splitGo cs).1) ++ (tail ++ rest) := by
              conv => lhs; rw [h1]
              simp
            rw [this, List.drop_left]
          have := ih tail htl m rest
          rw [hw] at this
          simp only [Fixed.langAt, hpre, Bool.true_and, hdrop]
          rw [dropWhile_append_not_all _ _ hns]
          exact this

theorem langSearch_append_left (words : List Str) (a t : Str) (h : Fixed.langAt words t = true) :
    Fixed.langSearch words (a ++ t) = true := by
  induction a with
  | nil =>
    cases t with
    | nil => simpa [Fixed.langSearch] using h
    | cons c cs => simp [Fixed.langSearch, h]
  | cons c cs ih => simp [Fixed.langSearch, ih]

/-- any text that contains `c` contains a member of the language of the first `n` words of `c` -/
theorem langSearch_of_infix (n : Nat) (U a c b : Str) (hU : U = a ++ c ++ b) :
    Fixed.langSearch ((splitWs c).take n) U = true := by
  have hc : c = c.takeWhile isSpace ++ c.dropWhile isSpace := (List.takeWhile_append_dropWhile).symm
  have : U = (a ++ c.takeWhile isSpace) ++ (c.dropWhile isSpace ++ b) := by
    rw [hU]; simp only [List.append_assoc]; rw [← List.append_assoc (c.takeWhile isSpace), ← hc]
  rw [this]
  exact langSearch_append_left _ _ _ (langAt_words c.length c (Nat.le_refl _) n b)

/-! ### loading the rule block -/

theorem getLast?_append_ne (l m : Str) (h : m ≠ []) : (l ++ m).getLast? = m.getLast? := by
  rw [List.getLast?_append]
  cases m with
  | nil => exact absurd rfl h
  | cons x xs =>
    cases hh : (x :: xs).getLast? with
    | none => simp at hh
    | some b => rfl

theorem strip_trimmed (l : Str) (h : trimmedB l = true) : strip l = l := by
  unfold trimmedB at h
  split at h
  · rename_i a b ha hb
    simp only [Bool.and_eq_true, Bool.not_eq_true'] at h
    have h1 : lstrip l = l := by
      cases l with
      | nil => rfl
      | cons x xs =>
        simp only [List.head?_cons, Option.some.injEq] at ha
        subst ha; simp [lstrip, h.1]
    have h2 : rstrip l = l := by
      unfold rstrip
      have hr : l.reverse.head? = some b := by rw [List.head?_reverse]; exact hb
      cases hrev : l.reverse with
      | nil => simp [hrev] at hr
      | cons y ys =>
        rw [hrev] at hr
        simp only [List.head?_cons, Option.some.injEq] at hr
        subst hr
        simp only [List.dropWhile_cons, h.2]
        rw [← hrev]; simp
    unfold strip; rw [h1, h2]
  · cases h

theorem trimmedB_getLast (pre v : Str) (c : Char) (t : Str) (hpre : pre = c :: t) (hc : isSpace c = false)
    (hv : trimmedB v = true) : trimmedB (pre ++ v) = true := by
  unfold trimmedB at hv ⊢
  split at hv
  · rename_i a b ha hb
    have hvne : v ≠ [] := by intro h; subst h; simp at ha
    have h1 : (pre ++ v).head? = some c := by subst hpre; rfl
    have h2 : (pre ++ v).getLast? = some b := by
      rw [getLast?_append_ne _ _ hvne]; exact hb
    simp only [h1, h2]
    simp only [Bool.and_eq_true, Bool.not_eq_true'] at hv ⊢
    exact ⟨hc, hv.2⟩
  · cases hv

/-- a `key: value` line inside a rule block sets that property -/
theorem step_kwLine (ve : Str → Bool) (st : MState) (n : Nat) (d : RuleData) (key v : Str) (k : PropKey)
    (c : Char) (t : Str) (hcur : st.cur = some d) (hkey : key = c :: t) (hc : isSpace c = false)
    (hc1 : c ≠ '#') (hc2 : c ≠ '[') (h1 : ':' ∉ key) (h2 : propKey? (lower (RulesFile.strip key)) = some k)
    (hv : trimmedB v = true) :
    step ve st n (kwLine key v) =
      (match applyProp k v d with
       | .ok d' => .ok { st with cur := some d' }
       | .error e => .error (n, e)) := by
  have htr : trimmedB (kwLine key v) = true := by
    have : kwLine key v = (key ++ [':', ' ']) ++ v := by simp [kwLine]
    rw [this]
    exact trimmedB_getLast (key ++ [':', ' ']) v c (t ++ [':', ' ']) (by rw [hkey]; rfl) hc hv
  unfold step
  rw [strip_trimmed _ htr]
  have hskip : isSkip (kwLine key v) = false := by
    subst hkey; simp [isSkip, kwLine, hc1]
  have hhead : isHeader (kwLine key v) = false := by
    subst hkey; simp [isHeader, kwLine, hc2]
  have hcol : (kwLine key v).contains ':' = true := by simp [kwLine]
  have hsp : splitProp (kwLine key v) = (lower (RulesFile.strip key), v) := by
    unfold kwLine
    rw [splitProp_key_colon key _ h1]
    have : RulesFile.strip (' ' :: v) = v := by
      have := strip_append_left [' '] v (by decide)
      simp only [List.singleton_append] at this
      rw [this, strip_trimmed v hv]
    rw [this]
  simp only [stepS, hskip, hhead, hcur, hcol, propLine, hsp, h2, Bool.false_eq_true, if_false, if_true]
  cases applyProp k v d <;> rfl

theorem step_header (ve : Str → Bool) (st : MState) (n : Nat) (name : Str) (hcur : st.cur = none)
    (hn : trimmedB name = true) :
    step ve st n ('[' :: name ++ [']']) = .ok { st with cur := some { name := name }, startLine := n } := by
  have hne : name ≠ [] := by intro h; subst h; simp [trimmedB] at hn
  have htr : trimmedB ('[' :: name ++ [']']) = true := by
    have : '[' :: name ++ [']'] = ['['] ++ (name ++ [']']) := rfl
    rw [this]
    refine trimmedB_getLast ['['] _ '[' [] rfl (by decide) ?_
    unfold trimmedB at hn ⊢
    split at hn
    · rename_i a b ha hb
      have h1 : (name ++ [']']).head? = some a := by
        cases name with
        | nil => exact absurd rfl hne
        | cons x xs => simpa using ha
      have h2 : (name ++ [']']).getLast? = some ']' := List.getLast?_concat
      simp only [h1, h2]
      simp only [Bool.and_eq_true, Bool.not_eq_true'] at hn ⊢
      exact ⟨hn.1, by decide⟩
    · cases hn
  unfold step
  rw [strip_trimmed _ htr]
  have hskip : isSkip ('[' :: name ++ [']']) = false := by simp [isSkip]
  have hlast : ('[' :: name ++ [']']).getLast? = some ']' := by
    have : '[' :: name ++ [']'] = ('[' :: name) ++ [']'] := rfl
    rw [this, List.getLast?_concat]
  have hhead : isHeader ('[' :: name ++ [']']) = true := by
    unfold isHeader; rw [hlast]; simp
  have hname : headerName ('[' :: name ++ [']']) = name := by
    simp [headerName, strip_trimmed name hn]
  have hemp : name.isEmpty = false := by cases name with
    | nil => exact absurd rfl hne
    | cons x xs => rfl
  simp only [stepS, hskip, hhead, closeCur, hcur, hname, hemp, Bool.false_eq_true, if_false, if_true]

theorem trimmedB_ne_nil (x : Str) (h : trimmedB x = true) : x.isEmpty = false := by
  cases x with
  | nil => simp [trimmedB] at h
  | cons a as => rfl

/-- the rule the block is read as -/
def loadedRule (e name cat sub : Str) (tags : List Str) : Rule :=
  { name := name, merchant := name, category := cat, subcategory := sub,
    tags := if tags.isEmpty then [] else splitTags (joinWith [',', ' '] tags),
    priority := 50, matchExpr := e, lets := [], fields := [] }

/-- a rule block `[name] / match: e / category: cat / subcategory: sub ( / tags: …)` whose parts carry no
white space at their ends and whose match expression the expression parser accepts is read as exactly
one rule with those parts -/
theorem ruleLines_load (ve : Str → Bool) (e name cat sub : Str) (tags : List Str)
    (he : trimmedB e = true) (hve : ve e = true) (hn : trimmedB name = true) (hc : trimmedB cat = true)
    (hs : trimmedB sub = true) (ht : tags.isEmpty = true ∨ trimmedB (joinWith [',', ' '] tags) = true) :
    RulesFile.Impl.parseRulesFile ve (ruleLines e name cat sub tags) =
      .ok { rules := [loadedRule e name cat sub tags], variables := [], transforms := [] } := by
  have s1 := step_header ve {} 1 name rfl hn
  have s2 := step_kwLine ve { cur := some { name := name }, startLine := 1 } 2 { name := name } kMatch e .match
    'm' ['a', 't', 'c', 'h'] rfl rfl (by decide) (by decide) (by decide) (by decide) (by decide) he
  have s3 := step_kwLine ve { cur := some { name := name, matchExpr := some e }, startLine := 1 } 3
    { name := name, matchExpr := some e } kCategory cat .category
    'c' ['a', 't', 'e', 'g', 'o', 'r', 'y'] rfl rfl (by decide) (by decide) (by decide) (by decide) (by decide) hc
  have s4 := step_kwLine ve { cur := some { name := name, matchExpr := some e, category := some cat }, startLine := 1 } 4
    { name := name, matchExpr := some e, category := some cat } kSubcategory sub .subcategory
    's' ['u', 'b', 'c', 'a', 't', 'e', 'g', 'o', 'r', 'y'] rfl rfl (by decide) (by decide) (by decide) (by decide)
    (by decide) hs
  simp only [applyProp] at s2 s3 s4
  have hcat : hasCategory { name := name, matchExpr := some e, category := some cat, subcategory := some sub } = true := by
    simp [hasCategory, trimmedB_ne_nil cat hc]
  have hnm : name.isEmpty = false := trimmedB_ne_nil name hn
  by_cases htag : tags.isEmpty = true
  · simp only [RulesFile.Impl.parseRulesFile, ruleLines, htag, if_true, List.append_nil, run, s1, s2, s3, s4, finish,
      closeCur, addRule, hasCategory, hasTags, allValid, hve, mkRule, loadedRule]
    simp [trimmedB_ne_nil cat hc]
  · have htag' : tags.isEmpty = false := by simpa using htag
    have htr : trimmedB (joinWith [',', ' '] tags) = true := by
      rcases ht with h | h
      · exact absurd h htag
      · exact h
    have s5 := step_kwLine ve
      { cur := some { name := name, matchExpr := some e, category := some cat, subcategory := some sub }, startLine := 1 } 5
      { name := name, matchExpr := some e, category := some cat, subcategory := some sub } kTags (joinWith [',', ' '] tags) .tags
      't' ['a', 'g', 's'] rfl rfl (by decide) (by decide) (by decide) (by decide) (by decide) htr
    simp only [applyProp] at s5
    simp only [List.cons_append] at s1
    simp only [RulesFile.Impl.parseRulesFile, ruleLines, htag', Bool.false_eq_true, if_false, List.cons_append, List.nil_append,
      run, s1, s2, s3, s4, s5, finish, closeCur, addRule, hasCategory, hasTags, allValid, hve, mkRule, loadedRule]
    simp [trimmedB_ne_nil cat hc]

/-! ### pieces of the main theorems -/

theorem isInfixB_nil (t : Str) : isInfixB [] t = true := by
  cases t <;> simp [isInfixB]

theorem splitWs_nil_all_space (x : Str) (h : splitWs x = []) : x.all isSpace = true := by
  induction x with
  | nil => rfl
  | cons c cs ih =>
    by_cases hc : isSpace c = true
    · rw [splitWs_cons_space c cs hc] at h
      simp [hc, ih h]
    · rw [splitWs_cons_nospace c cs (by simpa using hc)] at h
      cases h

theorem strip_all_space_nil (y : Str) (h : (RulesFile.strip y).all isSpace = true) : RulesFile.strip y = [] := by
  unfold RulesFile.strip at *
  cases hl : lstrip y with
  | nil => rfl
  | cons a t =>
    rw [hl] at h
    have ha : isSpace a = false := by
      have := List.head_dropWhile_not isSpace (l := y) (by
        have : lstrip y = y.dropWhile isSpace := rfl
        rw [← this, hl]; simp)
      have e : y.dropWhile isSpace = a :: t := hl
      simpa [e] using this
    obtain ⟨n, hn⟩ := rstrip_eq_take (a :: t)
    rw [hn] at h
    rw [hn]
    cases n with
    | zero => rfl
    | succ m => simp [ha] at h

theorem splitWs_single (c : Str) (hne : c ≠ []) (hns : NoSpace c) : splitWs c = [c] := by
  have := splitGo_nospace_append c [] hns
  simp only [List.append_nil] at this
  unfold splitWs
  rw [this]
  cases c with
  | nil => exact absurd rfl hne
  | cons x xs => simp [splitGo, consNE]

theorem litWord_plain (w : Str) (h : ∀ c ∈ w, (isMeta c && c != '\\') = false) : litWord w = w := by
  induction w with
  | nil => rfl
  | cons c cs ih =>
    have hc := h c (by simp)
    have hcs := ih (fun x hx => h x (by simp [hx]))
    simp only [litWord, List.flatMap_cons] at *
    rw [hcs]; simp [litC, hc]

theorem matchExprText_trimmed (p : Str) : trimmedB (matchExprText p) = true := by
  have h2 : (matchExprText p).getLast? = some ')' := by
    have : matchExprText p = (['c', 'o', 'n', 't', 'a', 'i', 'n', 's', '(', '"'] ++ quoteEsc p ++ ['"']) ++ [')'] := by
      simp [matchExprText]
    rw [this, List.getLast?_concat]
  have h1 : (matchExprText p).head? = some 'c' := rfl
  unfold trimmedB; rw [h1, h2]; decide

theorem Fixed.matchExprText_trimmed (p : Str) : trimmedB (Fixed.matchExprText p) = true := by
  unfold Fixed.matchExprText
  split
  · have h2 : (['r', 'e', 'g', 'e', 'x', '(', 'r', '"'] ++ quoteEsc p ++ ['"', ')']).getLast? = some ')' := by
      have : ['r', 'e', 'g', 'e', 'x', '(', 'r', '"'] ++ quoteEsc p ++ ['"', ')'] =
          (['r', 'e', 'g', 'e', 'x', '(', 'r', '"'] ++ quoteEsc p ++ ['"']) ++ [')'] := by simp
      rw [this, List.getLast?_concat]
    have h1 : (['r', 'e', 'g', 'e', 'x', '(', 'r', '"'] ++ quoteEsc p ++ ['"', ')']).head? = some 'r' := rfl
    unfold trimmedB; rw [h1, h2]; decide
  · exact Discover.matchExprText_trimmed p

end TallyVerif.Discover
