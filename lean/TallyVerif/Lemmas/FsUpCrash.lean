import TallyVerif.Model.Fs
/-! Exhaustive kernel-checked evaluation of the C15 safety check on the REPAIRED step order
(`Variants.repaired`): every budget shape of one settings kind × every crash snapshot × every in-flight
state, resp. every single-event fault.  `decide +kernel`: no axioms.  (FsUpCrash) -/
namespace TallyVerif.Fs
set_option maxRecDepth 100000
theorem upCrash_absent :
    ((shapesOf .absent).all fun s => crashCheck .repaired .upMigrate (s.fs id)) = true := by decide +kernel

theorem upCrash_plain :
    ((shapesOf .plain).all fun s => crashCheck .repaired .upMigrate (s.fs id)) = true := by decide +kernel

theorem upCrash_commentMF :
    ((shapesOf .commentMF).all fun s => crashCheck .repaired .upMigrate (s.fs id)) = true := by decide +kernel

theorem upCrash_keyRules :
    ((shapesOf .keyRules).all fun s => crashCheck .repaired .upMigrate (s.fs id)) = true := by decide +kernel

theorem upCrash_keyOther :
    ((shapesOf .keyOther).all fun s => crashCheck .repaired .upMigrate (s.fs id)) = true := by decide +kernel

end TallyVerif.Fs
