import TallyVerif.Model.Report
/-! Helper lemmas for Props/C12.lean -/
namespace TallyVerif.Report

theorem char_range (c : Char) : c.toNat < 55296 ∨ (57343 < c.toNat ∧ c.toNat < 1114112) := by
  have h : c.val.toNat.isValidChar := c.valid
  exact h

theorem char_eq_of_toNat {c d : Char} (h : c.toNat = d.toNat) : c = d := Char.toNat_inj.mp h

theorem toNat_ne_of_ne {c d : Char} (h : c ≠ d) : c.toNat ≠ d.toNat := fun h2 => h (Char.toNat_inj.mp h2)

/-! ### hex -/

theorem hexVal_hexDigit : ∀ d, d < 16 → hexVal (hexDigit d) = some d := by decide

theorem hexDigit_range : ∀ d, d < 16 → (48 ≤ (hexDigit d).toNat ∧ (hexDigit d).toNat ≤ 57) ∨
    (97 ≤ (hexDigit d).toNat ∧ (hexDigit d).toNat ≤ 102) := by decide

theorem parseHex4_hex4 (n : Nat) (h : n < 65536) (rest : List Char) :
    parseHex4 (hex4 n ++ rest) = some (n, rest) := by
  simp only [hex4, List.cons_append, List.nil_append, parseHex4]
  rw [hexVal_hexDigit _ (Nat.mod_lt _ (by decide)), hexVal_hexDigit _ (Nat.mod_lt _ (by decide)),
    hexVal_hexDigit _ (Nat.mod_lt _ (by decide)), hexVal_hexDigit _ (Nat.mod_lt _ (by decide))]
  simp only [Option.some.injEq, Prod.mk.injEq, and_true]
  omega

/-! ### decoder steps -/

theorem dec_plain (c : Char) (f : Nat) (rest : List Char) (h1 : c ≠ '"') (h2 : c ≠ '\\') (h3 : 32 ≤ c.toNat) :
    decAux (f + 1) (c :: rest) = (decAux f rest).map (c :: ·) := by
  have : ¬ c.toNat < 32 := by omega
  simp only [decAux, h1, h2, this, if_false]

theorem dec_u (n : Nat) (hn : n < 65536) (hs : ¬ (55296 ≤ n ∧ n ≤ 57343)) (f : Nat) (rest : List Char) :
    decAux (f + 1) ('\\' :: 'u' :: (hex4 n ++ rest)) = (decAux f rest).map (Char.ofNat n :: ·) := by
  have e1 : ('\\' : Char) ≠ '"' := by decide
  have a : ¬ (55296 ≤ n ∧ n ≤ 56319) := by omega
  have b : ¬ (56320 ≤ n ∧ n ≤ 57343) := by omega
  simp only [decAux, e1, if_false, if_true, parseHex4_hex4 n hn, a, b]

theorem dec_pair (hi lo : Nat) (h1 : 55296 ≤ hi ∧ hi ≤ 56319) (h2 : 56320 ≤ lo ∧ lo ≤ 57343) (f : Nat) (rest : List Char) :
    decAux (f + 1) (('\\' :: 'u' :: hex4 hi) ++ ('\\' :: 'u' :: hex4 lo) ++ rest)
      = (decAux f rest).map (Char.ofNat (65536 + ((hi - 55296) * 1024 + (lo - 56320))) :: ·) := by
  have e1 : ('\\' : Char) ≠ '"' := by decide
  have p1 : parseHex4 (hex4 hi ++ ('\\' :: 'u' :: (hex4 lo ++ rest))) = some (hi, '\\' :: 'u' :: (hex4 lo ++ rest)) :=
    parseHex4_hex4 hi (by omega) _
  have p2 : parseLow ('\\' :: 'u' :: (hex4 lo ++ rest)) = some (lo, rest) := by
    simp only [parseLow, and_self, if_true, parseHex4_hex4 lo (by omega : lo < 65536), h2]
  simp only [List.cons_append, List.append_assoc, decAux, e1, if_false, if_true, p1, h1, and_self, p2]

theorem dec_simple (e ch : Char) (he : simpleEsc e = some ch) (hu : e ≠ 'u') (f : Nat) (rest : List Char) :
    decAux (f + 1) ('\\' :: e :: rest) = (decAux f rest).map (ch :: ·) := by
  have e1 : ('\\' : Char) ≠ '"' := by decide
  simp only [decAux, e1, if_false, if_true, hu, he]

/-- one encoded character is decoded back to itself -/
theorem dec_step (c : Char) (f : Nat) (rest : List Char) :
    decAux (f + 1) (escChar c ++ rest) = (decAux f rest).map (c :: ·) := by
  unfold escChar
  split
  · next h => subst h; exact dec_simple '"' '"' (by decide) (by decide) f rest
  split
  · next h => subst h; exact dec_simple '\\' '\\' (by decide) (by decide) f rest
  split
  · next h => subst h; exact dec_simple 'n' '\n' (by decide) (by decide) f rest
  split
  · next h => subst h; exact dec_simple 'r' '\r' (by decide) (by decide) f rest
  split
  · next h => subst h; exact dec_simple 't' '\t' (by decide) (by decide) f rest
  split
  · next h => subst h; exact dec_simple 'b' '\x08' (by decide) (by decide) f rest
  split
  · next h => subst h; exact dec_simple 'f' '\x0c' (by decide) (by decide) f rest
  split
  · next h1 h2 _ _ _ _ _ h => exact dec_plain c f rest h1 h2 h.1
  split
  · next h =>
    have := char_range c
    have := dec_u c.toNat h (by omega) f rest
    rw [Char.ofNat_toNat] at this
    exact this
  · next h =>
    have hr := char_range c
    have := dec_pair (55296 + (c.toNat - 65536) / 1024) (56320 + (c.toNat - 65536) % 1024) (by omega) (by omega) f rest
    have e : 65536 + ((55296 + (c.toNat - 65536) / 1024 - 55296) * 1024 + (56320 + (c.toNat - 65536) % 1024 - 56320)) = c.toNat := by omega
    rw [e, Char.ofNat_toNat] at this
    exact this

theorem escChar_length_pos (c : Char) : 1 ≤ (escChar c).length := by
  unfold escChar
  repeat' split
  all_goals simp [hex4]

theorem length_le_encBody (s : List Char) : s.length ≤ (encBody s).length := by
  induction s with
  | nil => simp [encBody]
  | cons c t ih =>
    have := escChar_length_pos c
    simp only [encBody, List.flatMap_cons, List.length_append, List.length_cons] at *
    omega

theorem decAux_encBody (s : List Char) : ∀ f, s.length + 1 ≤ f → decAux f (encBody s ++ ['"']) = some s := by
  induction s with
  | nil =>
    intro f hf
    obtain ⟨f', rfl⟩ : ∃ f', f = f' + 1 := ⟨f - 1, by simp at hf; omega⟩
    simp [encBody, decAux]
  | cons c t ih =>
    intro f hf
    obtain ⟨f', rfl⟩ : ∃ f', f = f' + 1 := ⟨f - 1, by simp at hf; omega⟩
    simp only [encBody, List.flatMap_cons, List.append_assoc]
    rw [dec_step]
    have := ih f' (by simp at hf; omega)
    simp only [encBody] at this
    rw [this]; rfl

/-! ### what the encoder emits -/

/-- printable ASCII other than `<` -/
def Good (x : Char) : Prop := 32 ≤ x.toNat ∧ x.toNat ≤ 126 ∧ x ≠ '<'
instance (x : Char) : Decidable (Good x) := by unfold Good; infer_instance

theorem hexDigit_good : ∀ d, d < 16 → Good (hexDigit d) := by decide

theorem hex4_good (n : Nat) : ∀ x ∈ hex4 n, Good x := by
  intro x h
  simp only [hex4, List.mem_cons, List.not_mem_nil, or_false] at h
  rcases h with h | h | h | h <;> subst h <;> exact hexDigit_good _ (Nat.mod_lt _ (by decide))

theorem u_good (n : Nat) : ∀ x ∈ '\\' :: 'u' :: hex4 n, Good x := by
  intro x h
  simp only [List.mem_cons] at h
  rcases h with h | h | h
  · subst h; decide
  · subst h; decide
  · exact hex4_good n x h

/-- an encoded character is either the character itself (printable ASCII) or consists of
printable ASCII other than `<` -/
theorem escChar_cases (c : Char) :
    (escChar c = [c] ∧ 32 ≤ c.toNat ∧ c.toNat ≤ 126) ∨ (∀ x ∈ escChar c, Good x) := by
  unfold escChar
  split; · right; decide
  split; · right; decide
  split; · right; decide
  split; · right; decide
  split; · right; decide
  split; · right; decide
  split; · right; decide
  split
  · next h => left; exact ⟨rfl, h⟩
  split
  · right; exact u_good _
  · right
    intro x h
    simp only [List.mem_append] at h
    rcases h with h | h
    · exact u_good _ x h
    · exact u_good _ x h

/-! ### embedding -/

theorem embedRepaired_no_lt (t : List Char) : '<' ∉ embedRepaired t := by
  induction t with
  | nil => simp [embedRepaired]
  | cons c t ih =>
    simp only [embedRepaired, List.flatMap_cons, List.mem_append, not_or] at *
    refine ⟨?_, ih⟩
    split
    · decide
    · next h => simp only [List.mem_cons, List.not_mem_nil, or_false]; exact fun e => h e.symm

theorem endTagAt_lt {t : List Char} (h : endTagAt t = true) : '<' ∈ t := by
  match t, h with
  | a :: b :: s :: c :: r :: i :: p :: t :: e :: _, h =>
    simp only [endTagAt, Bool.and_eq_true, decide_eq_true_eq] at h
    simp [h.1.1.1.1.1.1.1.1]

theorem scriptDataEnds_lt {t : List Char} (h : scriptDataEnds t = true) : '<' ∈ t := by
  induction t with
  | nil => simp [scriptDataEnds] at h
  | cons c t ih =>
    simp only [scriptDataEnds, Bool.or_eq_true] at h
    rcases h with h | h
    · exact endTagAt_lt h
    · exact List.mem_cons_of_mem _ (ih h)

theorem embedRepaired_id {t : List Char} (h : '<' ∉ t) : embedRepaired t = t := by
  induction t with
  | nil => rfl
  | cons c t ih =>
    simp only [List.mem_cons, not_or] at h
    have hc : c ≠ '<' := fun e => h.1 e.symm
    have := ih h.2
    simp only [embedRepaired, List.flatMap_cons, hc, if_false] at *
    rw [this]; rfl

theorem embedRepaired_append (a b : List Char) : embedRepaired (a ++ b) = embedRepaired a ++ embedRepaired b := by
  simp [embedRepaired, List.flatMap_append]

/-- the encoder of the repaired pipeline, character by character -/
def escCharLt (c : Char) : List Char := if c = '<' then ltEscape else escChar c

theorem embedRepaired_escChar (c : Char) : embedRepaired (escChar c) = escCharLt c := by
  unfold escCharLt
  split
  · next h => subst h; decide
  · next h =>
    apply embedRepaired_id
    rcases escChar_cases c with hc | hc
    · rw [hc.1]; simp only [List.mem_cons, List.not_mem_nil, or_false]; exact fun e => h e.symm
    · intro hm; exact (hc _ hm).2.2 rfl

theorem embedRepaired_encBody (s : List Char) : embedRepaired (encBody s) = s.flatMap escCharLt := by
  induction s with
  | nil => rfl
  | cons c t ih =>
    simp only [encBody, List.flatMap_cons] at *
    rw [embedRepaired_append, embedRepaired_escChar, ih]

theorem dec_step_lt (c : Char) (f : Nat) (rest : List Char) :
    decAux (f + 1) (escCharLt c ++ rest) = (decAux f rest).map (c :: ·) := by
  unfold escCharLt
  split
  · next h =>
    subst h
    exact dec_u 60 (by decide) (by decide) f rest
  · exact dec_step c f rest

theorem escCharLt_length_pos (c : Char) : 1 ≤ (escCharLt c).length := by
  unfold escCharLt; split
  · decide
  · exact escChar_length_pos c

theorem length_le_flatMap_lt (s : List Char) : s.length ≤ (s.flatMap escCharLt).length := by
  induction s with
  | nil => simp
  | cons c t ih =>
    have := escCharLt_length_pos c
    simp only [List.flatMap_cons, List.length_append, List.length_cons] at *
    omega

theorem decAux_flatMap_lt (s : List Char) : ∀ f, s.length + 1 ≤ f → decAux f (s.flatMap escCharLt ++ ['"']) = some s := by
  induction s with
  | nil =>
    intro f hf
    obtain ⟨f', rfl⟩ : ∃ f', f = f' + 1 := ⟨f - 1, by simp at hf; omega⟩
    simp [decAux]
  | cons c t ih =>
    intro f hf
    obtain ⟨f', rfl⟩ : ∃ f', f = f' + 1 := ⟨f - 1, by simp at hf; omega⟩
    simp only [List.flatMap_cons, List.append_assoc]
    rw [dec_step_lt, ih f' (by simp at hf; omega)]; rfl

/-! ### merchant ids -/

def idMap (c : Char) : Char := if c = ' ' then '_' else c

theorem makeMerchantId_safe {s : List Char} (h : idSafe s = true) : makeMerchantId s = s.map idMap := by
  simp only [idSafe, List.all_eq_true, Bool.and_eq_true, decide_eq_true_eq] at h
  have h1 : s.filter (· ≠ '\'') = s := List.filter_eq_self.mpr (fun c hc => by simpa using (h c hc).1.1)
  have h2 : s.filter (· ≠ '"') = s := List.filter_eq_self.mpr (fun c hc => by simpa using (h c hc).1.2)
  unfold makeMerchantId
  rw [h1, h2]; rfl

theorem idMap_inj {c d : Char} (hc : c ≠ '_') (hd : d ≠ '_') (h : idMap c = idMap d) : c = d := by
  unfold idMap at h
  split at h <;> split at h
  · next a b => rw [a, b]
  · exact absurd h.symm hd
  · exact absurd h hc
  · exact h

theorem map_idMap_inj : ∀ (a b : List Char), idSafe a = true → idSafe b = true → a.map idMap = b.map idMap → a = b
  | [], [], _, _, _ => rfl
  | [], _ :: _, _, _, h => by simp at h
  | _ :: _, [], _, _, h => by simp at h
  | c :: a, d :: b, ha, hb, h => by
    simp only [idSafe, List.all_cons, Bool.and_eq_true, decide_eq_true_eq] at ha hb
    simp only [List.map_cons, List.cons.injEq] at h
    rw [idMap_inj ha.1.2 hb.1.2 h.1, map_idMap_inj a b (by simpa [idSafe] using ha.2) (by simpa [idSafe] using hb.2) h.2]

/-! ### unique merchant ids (allocation table) -/

theorem toDigits_ten_inj {a b : Nat} (h : Nat.toDigits 10 a = Nat.toDigits 10 b) : a = b := by
  have := congrArg (fun l => Nat.ofDigitChars 10 l 0) h
  simpa [Nat.ofDigitChars_ten_toDigits] using this

/-- distinct candidate numbers give distinct candidate ids (whatever the base contains) -/
theorem idCandidate_inj (base : List Char) {a b : Nat} (ha : 1 ≤ a) (hb : 1 ≤ b)
    (h : idCandidate base a = idCandidate base b) : a = b := by
  unfold idCandidate at h
  split at h <;> split at h
  · omega
  · have := congrArg List.length h
    simp only [List.length_append, List.length_cons] at this
    omega
  · have := congrArg List.length h
    simp only [List.length_append, List.length_cons] at this
    omega
  · have h' := List.append_cancel_left h
    simp only [List.cons.injEq, true_and] at h'
    exact toDigits_ten_inj h'

/-- the model loop returns the first candidate from `n` on that it did not find in `used` -/
theorem firstFree_spec (used : List (List Char)) (base : List Char) : ∀ (fuel n : Nat),
    ∃ k, n ≤ k ∧ k ≤ n + fuel ∧ firstFree used base fuel n = idCandidate base k ∧
      ∀ j, n ≤ j → j < k → idCandidate base j ∈ used
  | 0, n => ⟨n, Nat.le_refl _, by omega, rfl, fun j h1 h2 => by omega⟩
  | fuel + 1, n => by
    simp only [firstFree]
    split
    · next hm =>
      obtain ⟨k, h1, h2, h3, h4⟩ := firstFree_spec used base fuel (n + 1)
      refine ⟨k, by omega, by omega, h3, fun j hj hk => ?_⟩
      by_cases e : j = n
      · subst e; exact hm
      · exact h4 j (by omega) hk
    · exact ⟨n, Nat.le_refl _, by omega, rfl, fun j h1 h2 => by omega⟩

/-- pigeonhole: if all of `used` except at most `fuel` entries (`rem`) are candidates with a smaller number, the
loop ends on a candidate that is not in `used` -/
theorem firstFree_not_mem_aux (used : List (List Char)) (base : List Char) : ∀ (fuel n : Nat) (rem : List (List Char)),
    1 ≤ n → (∀ u ∈ used, u ∈ rem ∨ ∃ k, 1 ≤ k ∧ k < n ∧ u = idCandidate base k) → rem.length ≤ fuel →
    firstFree used base fuel n ∉ used
  | 0, n, rem, hn, hcov, hlen => by
    simp only [firstFree]
    intro hm
    have hr : rem = [] := List.eq_nil_of_length_eq_zero (by omega)
    rcases hcov _ hm with h | ⟨k, hk1, hk2, hk⟩
    · simp [hr] at h
    · have := idCandidate_inj base hn hk1 hk; omega
  | fuel + 1, n, rem, hn, hcov, hlen => by
    simp only [firstFree]
    split
    · next hm =>
      have hin : idCandidate base n ∈ rem := by
        rcases hcov _ hm with h | ⟨k, hk1, hk2, hk⟩
        · exact h
        · have := idCandidate_inj base hn hk1 hk; omega
      apply firstFree_not_mem_aux used base fuel (n + 1) (rem.erase (idCandidate base n)) (by omega)
      · intro u hu
        by_cases e : u = idCandidate base n
        · exact Or.inr ⟨n, hn, by omega, e⟩
        · rcases hcov u hu with h | ⟨k, hk1, hk2, hk⟩
          · exact Or.inl ((List.mem_erase_of_ne e).mpr h)
          · exact Or.inr ⟨k, hk1, by omega, hk⟩
      · rw [List.length_erase_of_mem hin]
        have : 1 ≤ rem.length := List.length_pos_of_mem hin
        omega
    · next hm => exact hm

/-- with as much fuel as there are ids handed out, the id found is new: the fuel never runs out -/
theorem firstFree_not_mem (used : List (List Char)) (base : List Char) :
    firstFree used base used.length 1 ∉ used :=
  firstFree_not_mem_aux used base used.length 1 used (Nat.le_refl _) (fun _ hu => Or.inl hu) (Nat.le_refl _)

theorem allocOne_keys (tbl : IdTable) (name : List Char) :
    (allocOne tbl name).map (·.1) = if name ∈ tbl.map (·.1) then tbl.map (·.1) else tbl.map (·.1) ++ [name] := by
  unfold allocOne
  split <;> simp

theorem allocOne_mem_keys (tbl : IdTable) (name : List Char) : name ∈ (allocOne tbl name).map (·.1) := by
  rw [allocOne_keys]; split
  · assumption
  · simp

theorem allocOne_keys_mono (tbl : IdTable) (name x : List Char) (h : x ∈ tbl.map (·.1)) :
    x ∈ (allocOne tbl name).map (·.1) := by
  rw [allocOne_keys]; split
  · exact h
  · exact List.mem_append_left _ h

/-- invariant of the table: no two names share an id, no name occurs twice -/
def TableOk (tbl : IdTable) : Prop := (tbl.map (·.2)).Nodup ∧ (tbl.map (·.1)).Nodup

theorem allocOne_ok (tbl : IdTable) (name : List Char) (h : TableOk tbl) : TableOk (allocOne tbl name) := by
  unfold allocOne
  split
  · exact h
  · next hn =>
    have hfree := firstFree_not_mem (tbl.map (·.2)) (makeMerchantId name)
    simp only [List.length_map] at hfree
    refine ⟨?_, ?_⟩
    · simp only [List.map_append, List.map_cons, List.map_nil]
      refine List.nodup_append.mpr ⟨h.1, by simp, ?_⟩
      intro a ha b hb
      simp only [List.mem_cons, List.not_mem_nil, or_false] at hb
      subst hb
      exact fun e => hfree (e ▸ ha)
    · simp only [List.map_append, List.map_cons, List.map_nil]
      refine List.nodup_append.mpr ⟨h.2, by simp, ?_⟩
      intro a ha b hb
      simp only [List.mem_cons, List.not_mem_nil, or_false] at hb
      subst hb
      exact fun e => hn (e ▸ ha)

theorem foldl_allocOne_ok (names : List (List Char)) : ∀ (tbl : IdTable), TableOk tbl → TableOk (names.foldl allocOne tbl) := by
  induction names with
  | nil => intro tbl h; exact h
  | cons n names ih => intro tbl h; exact ih _ (allocOne_ok tbl n h)

theorem foldl_allocOne_keys_mono (names : List (List Char)) : ∀ (tbl : IdTable) (x : List Char),
    x ∈ tbl.map (·.1) → x ∈ (names.foldl allocOne tbl).map (·.1) := by
  induction names with
  | nil => intro tbl x h; exact h
  | cons n names ih => intro tbl x h; exact ih _ x (allocOne_keys_mono tbl n x h)

theorem foldl_allocOne_total (names : List (List Char)) : ∀ (tbl : IdTable) (x : List Char),
    x ∈ names → x ∈ (names.foldl allocOne tbl).map (·.1) := by
  induction names with
  | nil => intro tbl x h; simp at h
  | cons n names ih =>
    intro tbl x h
    simp only [List.mem_cons] at h
    rcases h with h | h
    · subst h; exact foldl_allocOne_keys_mono names _ _ (allocOne_mem_keys tbl x)
    · exact ih _ x h

/-- distinct names in, the same names out, in order (no merchant is dropped or reordered by the table) -/
theorem foldl_allocOne_keys_nodup (names : List (List Char)) : ∀ (tbl : IdTable), names.Nodup →
    (∀ x ∈ names, x ∉ tbl.map (·.1)) → (names.foldl allocOne tbl).map (·.1) = tbl.map (·.1) ++ names := by
  induction names with
  | nil => intro tbl _ _; simp
  | cons n names ih =>
    intro tbl hnd hdis
    have hn : n ∉ tbl.map (·.1) := hdis n (by simp)
    have hnd' := List.nodup_cons.mp hnd
    simp only [List.foldl_cons]
    rw [ih (allocOne tbl n) hnd'.2]
    · rw [allocOne_keys, if_neg hn]; simp
    · intro x hx
      rw [allocOne_keys, if_neg hn]
      simp only [List.mem_append, List.mem_cons, List.not_mem_nil, or_false, not_or]
      exact ⟨hdis x (by simp [hx]), fun e => hnd'.1 (e ▸ hx)⟩

theorem nodup_map_snd_inj {tbl : IdTable} (h : (tbl.map (·.2)).Nodup) {a b i : List Char}
    (ha : (a, i) ∈ tbl) (hb : (b, i) ∈ tbl) : a = b := by
  induction tbl with
  | nil => simp at ha
  | cons p tbl ih =>
    simp only [List.map_cons, List.nodup_cons] at h
    simp only [List.mem_cons] at ha hb
    rcases ha with ha | ha <;> rcases hb with hb | hb
    · rw [← ha] at hb; exact (Prod.mk.inj hb).1.symm
    · exact absurd (List.mem_map.mpr ⟨(b, i), hb, by rw [← ha]⟩) h.1
    · exact absurd (List.mem_map.mpr ⟨(a, i), ha, by rw [← hb]⟩) h.1
    · exact ih h.2 ha hb

theorem idsDistinct_of_nodup : ∀ (rows : List MRow), (rows.map (·.id)).Nodup → idsDistinct rows = true
  | [], _ => rfl
  | r :: rows, h => by
    simp only [List.map_cons, List.nodup_cons] at h
    simp only [idsDistinct, Bool.and_eq_true, List.all_eq_true, decide_eq_true_eq]
    exact ⟨fun r' hr' e => h.1 (List.mem_map.mpr ⟨r', hr', e⟩), idsDistinct_of_nodup rows h.2⟩

/-! ### str.replace -/

theorem replaceGo_drop (pat rep : List Char) : ∀ (l : List Char) (n : Nat),
    replaceGo pat rep l n = replaceGo pat rep (l.drop n) 0
  | [], n => by simp [replaceGo]
  | _ :: _, 0 => by simp
  | _ :: rest, n + 1 => by simp only [replaceGo, List.drop_succ_cons]; exact replaceGo_drop pat rep rest n

theorem replaceGo_none (pat rep : List Char) : ∀ (hay : List Char), findAt pat hay = none → replaceGo pat rep hay 0 = hay
  | [], _ => by simp [replaceGo]
  | c :: rest, h => by
    simp only [findAt] at h
    split at h
    · simp at h
    · next hp =>
      simp only [Option.map_eq_none_iff] at h
      simp only [replaceGo, hp, Bool.false_eq_true, if_false, replaceGo_none pat rep rest h]

theorem replaceGo_some (pat rep : List Char) (hp : 1 ≤ pat.length) : ∀ (hay : List Char) (k : Nat), findAt pat hay = some k →
    replaceGo pat rep hay 0 = hay.take k ++ rep ++ replaceGo pat rep (hay.drop (k + pat.length)) 0
  | [], k, h => by
    have : pat.isEmpty = false := by cases pat <;> simp_all
    simp [findAt, this] at h
  | c :: rest, k, h => by
    simp only [findAt] at h
    split at h
    · next hpre =>
      simp only [Option.some.injEq] at h
      subst h
      simp only [replaceGo, hpre, if_true, List.take_zero, List.nil_append, Nat.zero_add]
      rw [replaceGo_drop]
      obtain ⟨m, hm⟩ : ∃ m, pat.length = m + 1 := ⟨pat.length - 1, by omega⟩
      rw [hm]; simp
    · next hpre =>
      simp only [Option.map_eq_some_iff] at h
      obtain ⟨k', hk', rfl⟩ := h
      have := replaceGo_some pat rep hp rest k' hk'
      simp only [replaceGo, hpre, Bool.false_eq_true, if_false, this]
      have e : k' + 1 + pat.length = (k' + pat.length) + 1 := by omega
      rw [e]; simp

/-! ### category view -/

theorem dictSet_fresh (d : List (List Char × MRow)) (k : List Char) (v : MRow) (h : ∀ p ∈ d, p.1 ≠ k) :
    dictSet d k v = d ++ [(k, v)] := by
  induction d with
  | nil => rfl
  | cons p d ih =>
    obtain ⟨k', v'⟩ := p
    have h1 : k' ≠ k := h (k', v') (by simp)
    simp only [dictSet, h1, if_false, List.cons_append, List.cons.injEq, true_and]
    exact ih (fun p hp => h p (by simp [hp]))

theorem allMerchants_go (rows : List MRow) : ∀ (d : List (List Char × MRow)), idsDistinct rows = true →
    (∀ p ∈ d, ∀ r ∈ rows, p.1 ≠ r.id) →
    rows.foldl (fun d r => dictSet d r.id r) d = d ++ rows.map (fun r => (r.id, r)) := by
  induction rows with
  | nil => intro d _ _; simp
  | cons r rows ih =>
    intro d hd hf
    simp only [idsDistinct, Bool.and_eq_true, List.all_eq_true, decide_eq_true_eq] at hd
    simp only [List.foldl_cons]
    rw [dictSet_fresh d r.id r (fun p hp => hf p hp r (by simp))]
    rw [ih _ hd.2]
    · simp
    · intro p hp r' hr'
      simp only [List.mem_append, List.mem_cons, List.not_mem_nil, or_false] at hp
      rcases hp with hp | hp
      · exact hf p hp r' (by simp [hr'])
      · subst hp; exact fun e => hd.1 r' hr' e.symm

theorem allMerchants_distinct {rows : List MRow} (h : idsDistinct rows = true) :
    allMerchants rows = rows.map (fun r => (r.id, r)) := by
  have := allMerchants_go rows [] h (by simp)
  simpa [allMerchants] using this

theorem addTo_sum (acc : List (List Char × Int)) (k : List Char) (v : Int) :
    ((addTo acc k v).map (·.2)).sum = (acc.map (·.2)).sum + v := by
  induction acc with
  | nil => simp [addTo]
  | cons p acc ih =>
    obtain ⟨k', t⟩ := p
    simp only [addTo]
    split
    · simp only [List.map_cons, List.sum_cons]; omega
    · simp only [List.map_cons, List.sum_cons, ih]; omega

theorem foldl_addTo_sum (l : List (List Char × MRow)) : ∀ (acc : List (List Char × Int)),
    ((l.foldl (fun acc kv => addTo acc kv.2.cat kv.2.ytd) acc).map (·.2)).sum
      = (acc.map (·.2)).sum + (l.map (·.2.ytd)).sum := by
  induction l with
  | nil => intro acc; simp
  | cons p l ih =>
    intro acc
    simp only [List.foldl_cons, ih, addTo_sum, List.map_cons, List.sum_cons]; omega

end TallyVerif.Report
