import TallyVerif.Model.Strptime
import TallyVerif.Lemmas.Csv
/-! Helper lemmas for the `Strptime` component (property C05).

Part A: the backtracking matcher `matchItems` computes the FIRST choice vector, in the priority order of the regular
expression (alternatives in the order written, `\s+` longest first), under which the pattern matches a prefix of the text
(`matchWith` = the pattern with every choice fixed; `Prior` = the priority order). -/
namespace TallyVerif.Strptime
open TallyVerif.Csv (Str isPySpace)

/-! ## Part A: `matchItems` = first match in priority order -/

/-- The pattern with all choices made: `v` gives, per item, the index of the alternative taken (group), the number of
white-space characters consumed (`\s+`), `0` (literal). -/
def matchWith (T : Tables) : List Item → List Nat → Str → Option (Caps × Str)
  | [], [], s => some ([], s)
  | .lit c :: is, 0 :: v, t :: r => if T.ciMatch c t then matchWith T is v r else none
  | .spaces _ :: is, k :: v, s => if 1 ≤ k ∧ k ≤ spaceRun s then matchWith T is v (s.drop k) else none
  | .group n alts :: is, i :: v, s =>
    match alts[i]? with
    | none => none
    | some alt =>
      match matchAlt T alt s with
      | none => none
      | some (m, r) => (matchWith T is v r).map fun (caps, rest) => ((n, m) :: caps, rest)
  | _, _, _ => none

/-- which of two choices for one item the regex engine tries first -/
def Better : Item → Nat → Nat → Prop
  | .group _ _, a, b => a < b
  | .spaces _, a, b => b < a
  | .lit _, _, _ => False

/-- `Prior is v' v`: the engine tries the choice vector `v'` before `v` (lexicographic, first item most significant) -/
def Prior : List Item → List Nat → List Nat → Prop
  | it :: is, a :: v', b :: v => Better it a b ∨ (a = b ∧ Prior is v' v)
  | _, _, _ => False

/-- `r` is the result of the first choice vector in priority order that matches -/
def IsFirst (T : Tables) (is : List Item) (s : Str) (r : Caps × Str) : Prop :=
  ∃ v, matchWith T is v s = some r ∧ ∀ v', Prior is v' v → matchWith T is v' s = none

theorem firstSome_eq_some {α β : Type} (f : α → Option β) (l : List α) (b : β) :
    firstSome f l = some b ↔
      ∃ (i : Nat) (a : α), l[i]? = some a ∧ f a = some b ∧ ∀ (j : Nat) (a' : α), j < i → l[j]? = some a' → f a' = none := by
  induction l with
  | nil => simp [firstSome]
  | cons x xs ih =>
    simp only [firstSome]
    cases hx : f x with
    | some b' =>
      constructor
      · intro h
        cases h
        exact ⟨0, x, rfl, hx, fun j a' hj => absurd hj (Nat.not_lt_zero _)⟩
      · rintro ⟨i, a, hi, ha, hmin⟩
        cases i with
        | zero => simp at hi; subst hi; rw [hx] at ha; exact ha
        | succ i =>
          have := hmin 0 x (Nat.succ_pos _) rfl
          rw [hx] at this; cases this
    | none =>
      rw [ih]
      constructor
      · rintro ⟨i, a, hi, ha, hmin⟩
        refine ⟨i + 1, a, by simpa using hi, ha, ?_⟩
        intro j a' hj hj'
        cases j with
        | zero => simp at hj'; subst hj'; exact hx
        | succ j => exact hmin j a' (by omega) (by simpa using hj')
      · rintro ⟨i, a, hi, ha, hmin⟩
        cases i with
        | zero => simp at hi; subst hi; rw [hx] at ha; cases ha
        | succ i =>
          refine ⟨i, a, by simpa using hi, ha, ?_⟩
          intro j a' hj hj'
          exact hmin (j + 1) a' (by omega) (by simpa using hj')

theorem firstSome_eq_none {α β : Type} (f : α → Option β) (l : List α) :
    firstSome f l = none ↔ ∀ a ∈ l, f a = none := by
  induction l with
  | nil => simp [firstSome]
  | cons x xs ih =>
    simp only [firstSome]
    cases hx : f x with
    | some b' => simp [hx]
    | none => simp [ih, hx]

theorem tryDown_eq_some {β : Type} (f : Nat → Option β) (n : Nat) (b : β) :
    tryDown f n = some b ↔ ∃ k, 1 ≤ k ∧ k ≤ n ∧ f k = some b ∧ ∀ k', k < k' → k' ≤ n → f k' = none := by
  induction n with
  | zero => simp [tryDown]; intro k h1 h2; omega
  | succ n ih =>
    simp only [tryDown]
    cases hx : f (n + 1) with
    | some b' =>
      constructor
      · intro h; cases h
        exact ⟨n + 1, by omega, by omega, hx, fun k' h1 h2 => by omega⟩
      · rintro ⟨k, h1, h2, hk, hmin⟩
        by_cases hkn : k = n + 1
        · subst hkn; rw [hx] at hk; exact hk
        · have := hmin (n + 1) (by omega) (by omega)
          rw [hx] at this; cases this
    | none =>
      rw [ih]
      constructor
      · rintro ⟨k, h1, h2, hk, hmin⟩
        refine ⟨k, h1, by omega, hk, ?_⟩
        intro k' h3 h4
        by_cases hkn : k' = n + 1
        · subst hkn; exact hx
        · exact hmin k' h3 (by omega)
      · rintro ⟨k, h1, h2, hk, hmin⟩
        have hkn : k ≠ n + 1 := by intro h; subst h; rw [hx] at hk; cases hk
        exact ⟨k, h1, by omega, hk, fun k' h3 h4 => hmin k' h3 (by omega)⟩

theorem tryDown_eq_none {β : Type} (f : Nat → Option β) (n : Nat) :
    tryDown f n = none ↔ ∀ k, 1 ≤ k → k ≤ n → f k = none := by
  induction n with
  | zero => simp [tryDown]; intro k h1 h2; omega
  | succ n ih =>
    simp only [tryDown]
    cases hx : f (n + 1) with
    | some b' =>
      simp only [reduceCtorEq, false_iff]
      intro h
      have := h (n + 1) (by omega) (by omega)
      rw [hx] at this; cases this
    | none =>
      rw [ih]
      constructor
      · intro h k h1 h2
        by_cases hkn : k = n + 1
        · subst hkn; exact hx
        · exact h k h1 (by omega)
      · intro h k h1 h2
        exact h k h1 (by omega)

theorem prior_lit_iff (c : Char) (is : List Item) (v' v : List Nat) :
    Prior (.lit c :: is) v' v ↔ ∃ a w' w, v' = a :: w' ∧ v = a :: w ∧ Prior is w' w := by
  constructor
  · intro h
    cases v' with
    | nil => simp [Prior] at h
    | cons a w' =>
      cases v with
      | nil => simp [Prior] at h
      | cons b w =>
        simp only [Prior, Better, false_or] at h
        exact ⟨a, w', w, rfl, by rw [h.1], h.2⟩
  · rintro ⟨a, w', w, rfl, rfl, h⟩
    simp only [Prior, Better, false_or]; exact ⟨trivial, h⟩

/-- **The backtracking matcher finds the first match in priority order.**  `matchItems` returns `r` exactly when `r` is the
result of a choice vector under which the pattern matches and every vector the engine would try earlier does not match;
it returns nothing exactly when no choice vector matches. -/
theorem matchItems_first (T : Tables) (is : List Item) :
    ∀ s, (∀ r, matchItems T is s = some r ↔ IsFirst T is s r) ∧
         (matchItems T is s = none ↔ ∀ v, matchWith T is v s = none) := by
  induction is with
  | nil =>
    intro s
    refine ⟨fun r => ?_, ?_⟩
    · simp only [matchItems, IsFirst]
      constructor
      · intro h; exact ⟨[], by simpa [matchWith] using h, fun v' hp => by simp [Prior] at hp⟩
      · rintro ⟨v, h, -⟩
        cases v with
        | nil => simpa [matchWith] using h
        | cons a v => simp [matchWith] at h
    · simp only [matchItems, reduceCtorEq, false_iff]
      intro h; have := h []; simp [matchWith] at this
  | cons it is ih =>
    intro s
    cases it with
    | lit c =>
      cases s with
      | nil =>
        have hall : ∀ v, matchWith T (.lit c :: is) v [] = none := by
          intro v; cases v with
          | nil => rfl
          | cons a w => cases a <;> rfl
        refine ⟨fun r => ?_, ?_⟩
        · simp only [matchItems, reduceCtorEq, false_iff]
          rintro ⟨v, h, -⟩; rw [hall] at h; cases h
        · simp only [matchItems, true_iff]; exact hall
      | cons t r0 =>
        by_cases hc : T.ciMatch c t = true
        · have hmw : ∀ w, matchWith T (.lit c :: is) (0 :: w) (t :: r0) = matchWith T is w r0 := by
            intro w; simp [matchWith, hc]
          have hbad : ∀ v, (∀ w, v ≠ 0 :: w) → matchWith T (.lit c :: is) v (t :: r0) = none := by
            intro v hv; cases v with
            | nil => rfl
            | cons a w => cases a with
              | zero => exact absurd rfl (hv w)
              | succ a => rfl
          refine ⟨fun r => ?_, ?_⟩
          · simp only [matchItems, hc, if_true]
            rw [(ih r0).1 r]
            constructor
            · rintro ⟨w, hw, hmin⟩
              refine ⟨0 :: w, by rw [hmw]; exact hw, ?_⟩
              intro v' hp
              obtain ⟨a, w', w2, rfl, h2, hp'⟩ := (prior_lit_iff c is v' (0 :: w)).mp hp
              cases h2
              rw [hmw]; exact hmin w' hp'
            · rintro ⟨v, hv, hmin⟩
              by_cases hv0 : ∃ w, v = 0 :: w
              · obtain ⟨w, rfl⟩ := hv0
                refine ⟨w, by rw [hmw] at hv; exact hv, ?_⟩
                intro w' hp
                have := hmin (0 :: w') ((prior_lit_iff c is _ _).mpr ⟨0, w', w, rfl, rfl, hp⟩)
                rw [hmw] at this; exact this
              · rw [hbad v (fun w hw => hv0 ⟨w, hw⟩)] at hv; cases hv
          · simp only [matchItems, hc, if_true]
            rw [(ih r0).2]
            constructor
            · intro h v
              by_cases hv0 : ∃ w, v = 0 :: w
              · obtain ⟨w, rfl⟩ := hv0; rw [hmw]; exact h w
              · exact hbad v (fun w hw => hv0 ⟨w, hw⟩)
            · intro h w; rw [← hmw]; exact h _
        · have hall : ∀ v, matchWith T (.lit c :: is) v (t :: r0) = none := by
            intro v; cases v with
            | nil => rfl
            | cons a w => cases a with
              | zero => simp [matchWith, hc]
              | succ a => rfl
          refine ⟨fun r => ?_, ?_⟩
          · simp only [matchItems, hc, Bool.false_eq_true, if_false, reduceCtorEq, false_iff]
            rintro ⟨v, h, -⟩; rw [hall] at h; cases h
          · simp only [matchItems, hc, Bool.false_eq_true, if_false, true_iff]; exact hall
    | spaces run =>
      have hmw : ∀ k w, matchWith T (.spaces run :: is) (k :: w) s =
          if 1 ≤ k ∧ k ≤ spaceRun s then matchWith T is w (s.drop k) else none := by
        intro k w; simp [matchWith]
      have hnil : matchWith T (.spaces run :: is) [] s = none := by simp [matchWith]
      refine ⟨fun r => ?_, ?_⟩
      · simp only [matchItems]
        rw [tryDown_eq_some]
        constructor
        · rintro ⟨k, h1, h2, hk, hmin⟩
          obtain ⟨w, hw, hwmin⟩ := ((ih (s.drop k)).1 r).mp hk
          refine ⟨k :: w, by rw [hmw, if_pos ⟨h1, h2⟩]; exact hw, ?_⟩
          intro v' hp
          cases v' with
          | nil => exact hnil
          | cons a w' =>
            rw [hmw]
            by_cases hr : 1 ≤ a ∧ a ≤ spaceRun s
            · rw [if_pos hr]
              simp only [Prior, Better] at hp
              rcases hp with hlt | ⟨rfl, hp'⟩
              · exact ((ih (s.drop a)).2.mp (hmin a hlt hr.2)) w'
              · exact hwmin w' hp'
            · rw [if_neg hr]
        · rintro ⟨v, hv, hmin⟩
          cases v with
          | nil => rw [hnil] at hv; cases hv
          | cons k w =>
            rw [hmw] at hv
            by_cases hr : 1 ≤ k ∧ k ≤ spaceRun s
            · rw [if_pos hr] at hv
              refine ⟨k, hr.1, hr.2, ?_, ?_⟩
              · refine ((ih (s.drop k)).1 r).mpr ⟨w, hv, ?_⟩
                intro w' hp
                have := hmin (k :: w') (by simp only [Prior]; exact Or.inr ⟨trivial, hp⟩)
                rw [hmw, if_pos hr] at this; exact this
              · intro k' hlt hle
                refine (ih (s.drop k')).2.mpr ?_
                intro w'
                have := hmin (k' :: w') (by simp only [Prior, Better]; exact Or.inl hlt)
                rw [hmw, if_pos ⟨by omega, hle⟩] at this; exact this
            · rw [if_neg hr] at hv; cases hv
      · simp only [matchItems]
        rw [tryDown_eq_none]
        constructor
        · intro h v
          cases v with
          | nil => exact hnil
          | cons k w =>
            rw [hmw]
            by_cases hr : 1 ≤ k ∧ k ≤ spaceRun s
            · rw [if_pos hr]; exact ((ih (s.drop k)).2.mp (h k hr.1 hr.2)) w
            · rw [if_neg hr]
        · intro h k h1 h2
          refine (ih (s.drop k)).2.mpr ?_
          intro w
          have := h (k :: w)
          rw [hmw, if_pos ⟨h1, h2⟩] at this; exact this
    | group n alts =>
      -- the function `firstSome` runs over the alternatives
      let g : List CC → Option (Caps × Str) := fun alt =>
        match matchAlt T alt s with
        | none => none
        | some (m, r) => (matchItems T is r).map fun (caps, rest) => ((n, m) :: caps, rest)
      have hmi : matchItems T (.group n alts :: is) s = firstSome g alts := rfl
      have hnil : matchWith T (.group n alts :: is) [] s = none := by simp [matchWith]
      have hmw_none : ∀ i w, alts[i]? = none → matchWith T (.group n alts :: is) (i :: w) s = none := by
        intro i w h; simp [matchWith, h]
      have hmw_alt_none : ∀ i w alt, alts[i]? = some alt → matchAlt T alt s = none →
          matchWith T (.group n alts :: is) (i :: w) s = none := by
        intro i w alt h h2; simp [matchWith, h, h2]
      have hmw_some : ∀ i w alt m r, alts[i]? = some alt → matchAlt T alt s = some (m, r) →
          matchWith T (.group n alts :: is) (i :: w) s =
            (matchWith T is w r).map fun (caps, rest) => ((n, m) :: caps, rest) := by
        intro i w alt m r h h2; simp [matchWith, h, h2]
      have hg_none : ∀ alt, g alt = none ↔
          (matchAlt T alt s = none ∨ ∃ m r, matchAlt T alt s = some (m, r) ∧ ∀ w, matchWith T is w r = none) := by
        intro alt
        simp only [g]
        cases hma : matchAlt T alt s with
        | none => simp
        | some mr =>
          obtain ⟨m, r⟩ := mr
          simp only [Option.map_eq_none_iff, reduceCtorEq, false_or, Option.some.injEq, Prod.mk.injEq]
          rw [(ih r).2]
          constructor
          · intro h; exact ⟨m, r, ⟨rfl, rfl⟩, h⟩
          · rintro ⟨m', r', ⟨rfl, rfl⟩, h⟩; exact h
      refine ⟨fun res => ?_, ?_⟩
      · rw [hmi, firstSome_eq_some]
        constructor
        · rintro ⟨i, alt, hi, hga, hmin⟩
          simp only [g] at hga
          cases hma : matchAlt T alt s with
          | none => rw [hma] at hga; cases hga
          | some mr =>
            obtain ⟨m, r⟩ := mr
            rw [hma] at hga
            simp only [Option.map_eq_some_iff] at hga
            obtain ⟨⟨caps, rest⟩, hmi', rfl⟩ := hga
            obtain ⟨w, hw, hwmin⟩ := ((ih r).1 (caps, rest)).mp hmi'
            refine ⟨i :: w, by rw [hmw_some i w alt m r hi hma, hw]; rfl, ?_⟩
            intro v' hp
            cases v' with
            | nil => exact hnil
            | cons a w' =>
              simp only [Prior, Better] at hp
              rcases hp with hlt | ⟨rfl, hp'⟩
              · cases ha : alts[a]? with
                | none => exact hmw_none a w' ha
                | some alt' =>
                  rcases (hg_none alt').mp (hmin a alt' hlt ha) with h | ⟨m', r', h, hall⟩
                  · exact hmw_alt_none a w' alt' ha h
                  · rw [hmw_some a w' alt' m' r' ha h, hall w']; rfl
              · rw [hmw_some a w' alt m r hi hma, hwmin w' hp']; rfl
        · rintro ⟨v, hv, hmin⟩
          cases v with
          | nil => rw [hnil] at hv; cases hv
          | cons i w =>
            cases hi : alts[i]? with
            | none => rw [hmw_none i w hi] at hv; cases hv
            | some alt =>
              cases hma : matchAlt T alt s with
              | none => rw [hmw_alt_none i w alt hi hma] at hv; cases hv
              | some mr =>
                obtain ⟨m, r⟩ := mr
                rw [hmw_some i w alt m r hi hma] at hv
                simp only [Option.map_eq_some_iff] at hv
                obtain ⟨⟨caps, rest⟩, hw, rfl⟩ := hv
                refine ⟨i, alt, hi, ?_, ?_⟩
                · simp only [g, hma]
                  have : matchItems T is r = some (caps, rest) := by
                    refine ((ih r).1 (caps, rest)).mpr ⟨w, hw, ?_⟩
                    intro w' hp
                    have := hmin (i :: w') (by simp only [Prior]; exact Or.inr ⟨trivial, hp⟩)
                    rw [hmw_some i w' alt m r hi hma] at this
                    simpa using this
                  rw [this]; rfl
                · intro j alt' hlt hj
                  refine (hg_none alt').mpr ?_
                  cases hma' : matchAlt T alt' s with
                  | none => exact Or.inl rfl
                  | some mr' =>
                    obtain ⟨m', r'⟩ := mr'
                    refine Or.inr ⟨m', r', rfl, ?_⟩
                    intro w'
                    have := hmin (j :: w') (by simp only [Prior, Better]; exact Or.inl hlt)
                    rw [hmw_some j w' alt' m' r' hj hma'] at this
                    simpa using this
      · rw [hmi, firstSome_eq_none]
        constructor
        · intro h v
          cases v with
          | nil => exact hnil
          | cons i w =>
            cases hi : alts[i]? with
            | none => exact hmw_none i w hi
            | some alt =>
              have hmem : alt ∈ alts := List.mem_of_getElem? hi
              rcases (hg_none alt).mp (h alt hmem) with h1 | ⟨m, r, h1, hall⟩
              · exact hmw_alt_none i w alt hi h1
              · rw [hmw_some i w alt m r hi h1, hall w]; rfl
        · intro h alt hmem
          refine (hg_none alt).mpr ?_
          obtain ⟨i, hi⟩ := List.getElem?_of_mem hmem
          cases hma : matchAlt T alt s with
          | none => exact Or.inl rfl
          | some mr =>
            obtain ⟨m, r⟩ := mr
            refine Or.inr ⟨m, r, rfl, ?_⟩
            intro w
            have := h (i :: w)
            rw [hmw_some i w alt m r hi hma] at this
            simpa using this

end TallyVerif.Strptime
