import TallyVerif.Model.Strptime
import TallyVerif.Lemmas.Csv
/-! Helper lemmas for the `Strptime` component (property C05).

Part A: the backtracking matcher `matchItems` computes the FIRST choice vector, in the priority order of the regular
expression (alternatives in the order written, `\s+` longest first), under which the pattern matches a prefix of the text
(`matchWith` = the pattern with every choice fixed; `Prior` = the priority order). -/
namespace TallyVerif.Strptime
open TallyVerif.Csv (Str isPySpace)

/-! ## Part A: `matchItems` = first match in priority order -/

/-- The pattern with all choices made: `v` gives, per item, the index of the alternative taken (group), the number of
white-space characters consumed (`\s+`), `0` (literal). -/
def matchWith (T : Tables) : List Item → List Nat → Str → Option (Caps × Str)
  | [], [], s => some ([], s)
  | .lit c :: is, 0 :: v, t :: r => if T.ciMatch c t then matchWith T is v r else none
  | .spaces _ :: is, k :: v, s => if 1 ≤ k ∧ k ≤ spaceRun s then matchWith T is v (s.drop k) else none
  | .group n alts :: is, i :: v, s =>
    match alts[i]? with
    | none => none
    | some alt =>
      match matchAlt T alt s with
      | none => none
      | some (m, r) => (matchWith T is v r).map fun (caps, rest) => ((n, m) :: caps, rest)
  | _, _, _ => none

/-- which of two choices for one item the regex engine tries first -/
def Better : Item → Nat → Nat → Prop
  | .group _ _, a, b => a < b
  | .spaces _, a, b => b < a
  | .lit _, _, _ => False

/-- `Prior is v' v`: the engine tries the choice vector `v'` before `v` (lexicographic, first item most significant) -/
def Prior : List Item → List Nat → List Nat → Prop
  | it :: is, a :: v', b :: v => Better it a b ∨ (a = b ∧ Prior is v' v)
  | _, _, _ => False

/-- `r` is the result of the first choice vector in priority order that matches -/
def IsFirst (T : Tables) (is : List Item) (s : Str) (r : Caps × Str) : Prop :=
  ∃ v, matchWith T is v s = some r ∧ ∀ v', Prior is v' v → matchWith T is v' s = none

theorem firstSome_eq_some {α β : Type} (f : α → Option β) (l : List α) (b : β) :
    firstSome f l = some b ↔
      ∃ (i : Nat) (a : α), l[i]? = some a ∧ f a = some b ∧ ∀ (j : Nat) (a' : α), j < i → l[j]? = some a' → f a' = none := by
  induction l with
  | nil => simp [firstSome]
  | cons x xs ih =>
    simp only [firstSome]
    cases hx : f x with
    | some b' =>
      constructor
      · intro h
        cases h
        exact ⟨0, x, rfl, hx, fun j a' hj => absurd hj (Nat.not_lt_zero _)⟩
      · rintro ⟨i, a, hi, ha, hmin⟩
        cases i with
        | zero => simp at hi; subst hi; rw [hx] at ha; exact ha
        | succ i =>
          have := hmin 0 x (Nat.succ_pos _) rfl
          rw [hx] at this; cases this
    | none =>
      rw [ih]
      constructor
      · rintro ⟨i, a, hi, ha, hmin⟩
        refine ⟨i + 1, a, by simpa using hi, ha, ?_⟩
        intro j a' hj hj'
        cases j with
        | zero => simp at hj'; subst hj'; exact hx
        | succ j => exact hmin j a' (by omega) (by simpa using hj')
      · rintro ⟨i, a, hi, ha, hmin⟩
        cases i with
        | zero => simp at hi; subst hi; rw [hx] at ha; cases ha
        | succ i =>
          refine ⟨i, a, by simpa using hi, ha, ?_⟩
          intro j a' hj hj'
          exact hmin (j + 1) a' (by omega) (by simpa using hj')

theorem firstSome_eq_none {α β : Type} (f : α → Option β) (l : List α) :
    firstSome f l = none ↔ ∀ a ∈ l, f a = none := by
  induction l with
  | nil => simp [firstSome]
  | cons x xs ih =>
    simp only [firstSome]
    cases hx : f x with
    | some b' => simp [hx]
    | none => simp [ih, hx]

theorem tryDown_eq_some {β : Type} (f : Nat → Option β) (n : Nat) (b : β) :
    tryDown f n = some b ↔ ∃ k, 1 ≤ k ∧ k ≤ n ∧ f k = some b ∧ ∀ k', k < k' → k' ≤ n → f k' = none := by
  induction n with
  | zero => simp [tryDown]; intro k h1 h2; omega
  | succ n ih =>
    simp only [tryDown]
    cases hx : f (n + 1) with
    | some b' =>
      constructor
      · intro h; cases h
        exact ⟨n + 1, by omega, by omega, hx, fun k' h1 h2 => by omega⟩
      · rintro ⟨k, h1, h2, hk, hmin⟩
        by_cases hkn : k = n + 1
        · subst hkn; rw [hx] at hk; exact hk
        · have := hmin (n + 1) (by omega) (by omega)
          rw [hx] at this; cases this
    | none =>
      rw [ih]
      constructor
      · rintro ⟨k, h1, h2, hk, hmin⟩
        refine ⟨k, h1, by omega, hk, ?_⟩
        intro k' h3 h4
        by_cases hkn : k' = n + 1
        · subst hkn; exact hx
        · exact hmin k' h3 (by omega)
      · rintro ⟨k, h1, h2, hk, hmin⟩
        have hkn : k ≠ n + 1 := by intro h; subst h; rw [hx] at hk; cases hk
        exact ⟨k, h1, by omega, hk, fun k' h3 h4 => hmin k' h3 (by omega)⟩

theorem tryDown_eq_none {β : Type} (f : Nat → Option β) (n : Nat) :
    tryDown f n = none ↔ ∀ k, 1 ≤ k → k ≤ n → f k = none := by
  induction n with
  | zero => simp [tryDown]; intro k h1 h2; omega
  | succ n ih =>
    simp only [tryDown]
    cases hx : f (n + 1) with
    | some b' =>
      simp only [reduceCtorEq, false_iff]
      intro h
      have := h (n + 1) (by omega) (by omega)
      rw [hx] at this; cases this
    | none =>
      rw [ih]
      constructor
      · intro h k h1 h2
        by_cases hkn : k = n + 1
        · subst hkn; exact hx
        · exact h k h1 (by omega)
      · intro h k h1 h2
        exact h k h1 (by omega)

theorem prior_lit_iff (c : Char) (is : List Item) (v' v : List Nat) :
    Prior (.lit c :: is) v' v ↔ ∃ a w' w, v' = a :: w' ∧ v = a :: w ∧ Prior is w' w := by
  constructor
  · intro h
    cases v' with
    | nil => simp [Prior] at h
    | cons a w' =>
      cases v with
      | nil => simp [Prior] at h
      | cons b w =>
        simp only [Prior, Better, false_or] at h
        exact ⟨a, w', w, rfl, by rw [h.1], h.2⟩
  · rintro ⟨a, w', w, rfl, rfl, h⟩
    simp only [Prior, Better, false_or]; exact ⟨trivial, h⟩

/-- **The backtracking matcher finds the first match in priority order.**  `matchItems` returns `r` exactly when `r` is the
result of a choice vector under which the pattern matches and every vector the engine would try earlier does not match;
it returns nothing exactly when no choice vector matches. -/
theorem matchItems_first (T : Tables) (is : List Item) :
    ∀ s, (∀ r, matchItems T is s = some r ↔ IsFirst T is s r) ∧
         (matchItems T is s = none ↔ ∀ v, matchWith T is v s = none) := by
  induction is with
  | nil =>
    intro s
    refine ⟨fun r => ?_, ?_⟩
    · simp only [matchItems, IsFirst]
      constructor
      · intro h; exact ⟨[], by simpa [matchWith] using h, fun v' hp => by simp [Prior] at hp⟩
      · rintro ⟨v, h, -⟩
        cases v with
        | nil => simpa [matchWith] using h
        | cons a v => simp [matchWith] at h
    · simp only [matchItems, reduceCtorEq, false_iff]
      intro h; have := h []; simp [matchWith] at this
  | cons it is ih =>
    intro s
    cases it with
    | lit c =>
      cases s with
      | nil =>
        have hall : ∀ v, matchWith T (.lit c :: is) v [] = none := by
          intro v; cases v with
          | nil => rfl
          | cons a w => cases a <;> rfl
        refine ⟨fun r => ?_, ?_⟩
        · simp only [matchItems, reduceCtorEq, false_iff]
          rintro ⟨v, h, -⟩; rw [hall] at h; cases h
        · simp only [matchItems, true_iff]; exact hall
      | cons t r0 =>
        by_cases hc : T.ciMatch c t = true
        · have hmw : ∀ w, matchWith T (.lit c :: is) (0 :: w) (t :: r0) = matchWith T is w r0 := by
            intro w; simp [matchWith, hc]
          have hbad : ∀ v, (∀ w, v ≠ 0 :: w) → matchWith T (.lit c :: is) v (t :: r0) = none := by
            intro v hv; cases v with
            | nil => rfl
            | cons a w => cases a with
              | zero => exact absurd rfl (hv w)
              | succ a => rfl
          refine ⟨fun r => ?_, ?_⟩
          · simp only [matchItems, hc, if_true]
            rw [(ih r0).1 r]
            constructor
            · rintro ⟨w, hw, hmin⟩
              refine ⟨0 :: w, by rw [hmw]; exact hw, ?_⟩
              intro v' hp
              obtain ⟨a, w', w2, rfl, h2, hp'⟩ := (prior_lit_iff c is v' (0 :: w)).mp hp
              cases h2
              rw [hmw]; exact hmin w' hp'
            · rintro ⟨v, hv, hmin⟩
              by_cases hv0 : ∃ w, v = 0 :: w
              · obtain ⟨w, rfl⟩ := hv0
                refine ⟨w, by rw [hmw] at hv; exact hv, ?_⟩
                intro w' hp
                have := hmin (0 :: w') ((prior_lit_iff c is _ _).mpr ⟨0, w', w, rfl, rfl, hp⟩)
                rw [hmw] at this; exact this
              · rw [hbad v (fun w hw => hv0 ⟨w, hw⟩)] at hv; cases hv
          · simp only [matchItems, hc, if_true]
            rw [(ih r0).2]
            constructor
            · intro h v
              by_cases hv0 : ∃ w, v = 0 :: w
              · obtain ⟨w, rfl⟩ := hv0; rw [hmw]; exact h w
              · exact hbad v (fun w hw => hv0 ⟨w, hw⟩)
            · intro h w; rw [← hmw]; exact h _
        · have hall : ∀ v, matchWith T (.lit c :: is) v (t :: r0) = none := by
            intro v; cases v with
            | nil => rfl
            | cons a w => cases a with
              | zero => simp [matchWith, hc]
              | succ a => rfl
          refine ⟨fun r => ?_, ?_⟩
          · simp only [matchItems, hc, Bool.false_eq_true, if_false, reduceCtorEq, false_iff]
            rintro ⟨v, h, -⟩; rw [hall] at h; cases h
          · simp only [matchItems, hc, Bool.false_eq_true, if_false, true_iff]; exact hall
    | spaces run =>
      have hmw : ∀ k w, matchWith T (.spaces run :: is) (k :: w) s =
          if 1 ≤ k ∧ k ≤ spaceRun s then matchWith T is w (s.drop k) else none := by
        intro k w; simp [matchWith]
      have hnil : matchWith T (.spaces run :: is) [] s = none := by simp [matchWith]
      refine ⟨fun r => ?_, ?_⟩
      · simp only [matchItems]
        rw [tryDown_eq_some]
        constructor
        · rintro ⟨k, h1, h2, hk, hmin⟩
          obtain ⟨w, hw, hwmin⟩ := ((ih (s.drop k)).1 r).mp hk
          refine ⟨k :: w, by rw [hmw, if_pos ⟨h1, h2⟩]; exact hw, ?_⟩
          intro v' hp
          cases v' with
          | nil => exact hnil
          | cons a w' =>
            rw [hmw]
            by_cases hr : 1 ≤ a ∧ a ≤ spaceRun s
            · rw [if_pos hr]
              simp only [Prior, Better] at hp
              rcases hp with hlt | ⟨rfl, hp'⟩
              · exact ((ih (s.drop a)).2.mp (hmin a hlt hr.2)) w'
              · exact hwmin w' hp'
            · rw [if_neg hr]
        · rintro ⟨v, hv, hmin⟩
          cases v with
          | nil => rw [hnil] at hv; cases hv
          | cons k w =>
            rw [hmw] at hv
            by_cases hr : 1 ≤ k ∧ k ≤ spaceRun s
            · rw [if_pos hr] at hv
              refine ⟨k, hr.1, hr.2, ?_, ?_⟩
              · refine ((ih (s.drop k)).1 r).mpr ⟨w, hv, ?_⟩
                intro w' hp
                have := hmin (k :: w') (by simp only [Prior]; exact Or.inr ⟨trivial, hp⟩)
                rw [hmw, if_pos hr] at this; exact this
              · intro k' hlt hle
                refine (ih (s.drop k')).2.mpr ?_
                intro w'
                have := hmin (k' :: w') (by simp only [Prior, Better]; exact Or.inl hlt)
                rw [hmw, if_pos ⟨by omega, hle⟩] at this; exact this
            · rw [if_neg hr] at hv; cases hv
      · simp only [matchItems]
        rw [tryDown_eq_none]
        constructor
        · intro h v
          cases v with
          | nil => exact hnil
          | cons k w =>
            rw [hmw]
            by_cases hr : 1 ≤ k ∧ k ≤ spaceRun s
            · rw [if_pos hr]; exact ((ih (s.drop k)).2.mp (h k hr.1 hr.2)) w
            · rw [if_neg hr]
        · intro h k h1 h2
          refine (ih (s.drop k)).2.mpr ?_
          intro w
          have := h (k :: w)
          rw [hmw, if_pos ⟨h1, h2⟩] at this; exact this
    | group n alts =>
      -- the function `firstSome` runs over the alternatives
      let g : List CC → Option (Caps × Str) := fun alt =>
        match matchAlt T alt s with
        | none => none
        | some (m, r) => (matchItems T is r).map fun (caps, rest) => ((n, m) :: caps, rest)
      have hmi : matchItems T (.group n alts :: is) s = firstSome g alts := rfl
      have hnil : matchWith T (.group n alts :: is) [] s = none := by simp [matchWith]
      have hmw_none : ∀ i w, alts[i]? = none → matchWith T (.group n alts :: is) (i :: w) s = none := by
        intro i w h; simp [matchWith, h]
      have hmw_alt_none : ∀ i w alt, alts[i]? = some alt → matchAlt T alt s = none →
          matchWith T (.group n alts :: is) (i :: w) s = none := by
        intro i w alt h h2; simp [matchWith, h, h2]
      have hmw_some : ∀ i w alt m r, alts[i]? = some alt → matchAlt T alt s = some (m, r) →
          matchWith T (.group n alts :: is) (i :: w) s =
            (matchWith T is w r).map fun (caps, rest) => ((n, m) :: caps, rest) := by
        intro i w alt m r h h2; simp [matchWith, h, h2]
      have hg_none : ∀ alt, g alt = none ↔
          (matchAlt T alt s = none ∨ ∃ m r, matchAlt T alt s = some (m, r) ∧ ∀ w, matchWith T is w r = none) := by
        intro alt
        simp only [g]
        cases hma : matchAlt T alt s with
        | none => simp
        | some mr =>
          obtain ⟨m, r⟩ := mr
          simp only [Option.map_eq_none_iff, reduceCtorEq, false_or, Option.some.injEq, Prod.mk.injEq]
          rw [(ih r).2]
          constructor
          · intro h; exact ⟨m, r, ⟨rfl, rfl⟩, h⟩
          · rintro ⟨m', r', ⟨rfl, rfl⟩, h⟩; exact h
      refine ⟨fun res => ?_, ?_⟩
      · rw [hmi, firstSome_eq_some]
        constructor
        · rintro ⟨i, alt, hi, hga, hmin⟩
          simp only [g] at hga
          cases hma : matchAlt T alt s with
          | none => rw [hma] at hga; cases hga
          | some mr =>
            obtain ⟨m, r⟩ := mr
            rw [hma] at hga
            simp only [Option.map_eq_some_iff] at hga
            obtain ⟨⟨caps, rest⟩, hmi', rfl⟩ := hga
            obtain ⟨w, hw, hwmin⟩ := ((ih r).1 (caps, rest)).mp hmi'
            refine ⟨i :: w, by rw [hmw_some i w alt m r hi hma, hw]; rfl, ?_⟩
            intro v' hp
            cases v' with
            | nil => exact hnil
            | cons a w' =>
              simp only [Prior, Better] at hp
              rcases hp with hlt | ⟨rfl, hp'⟩
              · cases ha : alts[a]? with
                | none => exact hmw_none a w' ha
                | some alt' =>
                  rcases (hg_none alt').mp (hmin a alt' hlt ha) with h | ⟨m', r', h, hall⟩
                  · exact hmw_alt_none a w' alt' ha h
                  · rw [hmw_some a w' alt' m' r' ha h, hall w']; rfl
              · rw [hmw_some a w' alt m r hi hma, hwmin w' hp']; rfl
        · rintro ⟨v, hv, hmin⟩
          cases v with
          | nil => rw [hnil] at hv; cases hv
          | cons i w =>
            cases hi : alts[i]? with
            | none => rw [hmw_none i w hi] at hv; cases hv
            | some alt =>
              cases hma : matchAlt T alt s with
              | none => rw [hmw_alt_none i w alt hi hma] at hv; cases hv
              | some mr =>
                obtain ⟨m, r⟩ := mr
                rw [hmw_some i w alt m r hi hma] at hv
                simp only [Option.map_eq_some_iff] at hv
                obtain ⟨⟨caps, rest⟩, hw, rfl⟩ := hv
                refine ⟨i, alt, hi, ?_, ?_⟩
                · simp only [g, hma]
                  have : matchItems T is r = some (caps, rest) := by
                    refine ((ih r).1 (caps, rest)).mpr ⟨w, hw, ?_⟩
                    intro w' hp
                    have := hmin (i :: w') (by simp only [Prior]; exact Or.inr ⟨trivial, hp⟩)
                    rw [hmw_some i w' alt m r hi hma] at this
                    simpa using this
                  rw [this]; rfl
                · intro j alt' hlt hj
                  refine (hg_none alt').mpr ?_
                  cases hma' : matchAlt T alt' s with
                  | none => exact Or.inl rfl
                  | some mr' =>
                    obtain ⟨m', r'⟩ := mr'
                    refine Or.inr ⟨m', r', rfl, ?_⟩
                    intro w'
                    have := hmin (j :: w') (by simp only [Prior, Better]; exact Or.inl hlt)
                    rw [hmw_some j w' alt' m' r' hj hma'] at this
                    simpa using this
      · rw [hmi, firstSome_eq_none]
        constructor
        · intro h v
          cases v with
          | nil => exact hnil
          | cons i w =>
            cases hi : alts[i]? with
            | none => exact hmw_none i w hi
            | some alt =>
              have hmem : alt ∈ alts := List.mem_of_getElem? hi
              rcases (hg_none alt).mp (h alt hmem) with h1 | ⟨m, r, h1, hall⟩
              · exact hmw_alt_none i w alt hi h1
              · rw [hmw_some i w alt m r hi h1, hall w]; rfl
        · intro h alt hmem
          refine (hg_none alt).mpr ?_
          obtain ⟨i, hi⟩ := List.getElem?_of_mem hmem
          cases hma : matchAlt T alt s with
          | none => exact Or.inl rfl
          | some mr =>
            obtain ⟨m, r⟩ := mr
            refine Or.inr ⟨m, r, rfl, ?_⟩
            intro w
            have := h (i :: w)
            rw [hmw_some i w alt m r hi hma] at this
            simpa using this

/-! ## Part B: reading back what `strftime` wrote -/

open TallyVerif.Csv (digitChar)

theorem digitChar_ascii {d : Nat} (h : d < 10) : isAscii (digitChar d) = true := by
  have : ∀ d : Fin 10, isAscii (digitChar d.1) = true := by decide
  exact this ⟨d, h⟩

theorem digitChar_not_space {d : Nat} (h : d < 10) : isPySpace (digitChar d) = false := by
  have : ∀ d : Fin 10, isPySpace (digitChar d.1) = false := by decide
  exact this ⟨d, h⟩

theorem T_digitChar {T : Tables} (hT : TablesOk T) {d : Nat} (h : d < 10) : T.digitVal (digitChar d) = some d := by
  rw [hT.digit_ascii _ (digitChar_ascii h)]; exact Csv.digitVal_digitChar h

theorem pyInt_of_no_space (T : Tables) (s : Str) (hh : ∀ c, s.head? = some c → isPySpace c = false)
    (hl : ∀ c, s.getLast? = some c → isPySpace c = false) : pyInt T s = natOfDigits T 0 false s := by
  unfold pyInt; rw [Csv.strip_eq_self s hh hl]

theorem pyInt_single {T : Tables} (hT : TablesOk T) {n : Nat} (h : n < 10) : pyInt T [digitChar n] = some n := by
  rw [pyInt_of_no_space]
  · simp [natOfDigits, T_digitChar hT h]
  · intro c hc; simp at hc; subst hc; exact digitChar_not_space h
  · intro c hc; simp at hc; subst hc; exact digitChar_not_space h

theorem pyInt_pad2 {T : Tables} (hT : TablesOk T) {n : Nat} (h : n < 100) : pyInt T (pad2 n) = some n := by
  have h1 : n / 10 % 10 < 10 := by omega
  have h2 : n % 10 < 10 := by omega
  rw [pyInt_of_no_space]
  · simp only [pad2, natOfDigits, T_digitChar hT h1, T_digitChar hT h2, if_true, Option.some.injEq]; omega
  · intro c hc; simp [pad2] at hc; subst hc; exact digitChar_not_space h1
  · intro c hc; simp [pad2] at hc; subst hc; exact digitChar_not_space h2

theorem pyInt_pad4 {T : Tables} (hT : TablesOk T) {n : Nat} (h : n < 10000) : pyInt T (pad4 n) = some n := by
  have h1 : n / 1000 % 10 < 10 := by omega
  have h2 : n / 100 % 10 < 10 := by omega
  have h3 : n / 10 % 10 < 10 := by omega
  have h4 : n % 10 < 10 := by omega
  rw [pyInt_of_no_space]
  · simp only [pad4, natOfDigits, T_digitChar hT h1, T_digitChar hT h2, T_digitChar hT h3, T_digitChar hT h4, if_true,
      Option.some.injEq]; omega
  · intro c hc; simp [pad4] at hc; subst hc; exact digitChar_not_space h1
  · intro c hc; simp [pad4] at hc; subst hc; exact digitChar_not_space h4

theorem pyInt_num2 {T : Tables} (hT : TablesOk T) (sp : Spell) {n : Nat} (h : n < 100) : pyInt T (num2 sp n) = some n := by
  unfold num2
  split
  · rename_i hc; exact pyInt_single hT hc.2
  · exact pyInt_pad2 hT h

/-! ### one group: the first alternative that matches locally -/

/-- the first alternative (in the order written) that matches at the start of the text, on its own -/
def firstLocal (T : Tables) (alts : List (List CC)) (s : Str) : Option (Str × Str) :=
  firstSome (fun alt => matchAlt T alt s) alts

/-- if the first alternative that matches locally lets the rest of the pattern match, the engine never looks further -/
theorem matchItems_group_of_firstLocal (T : Tables) (n : Char) (alts : List (List CC)) (is : List Item) (s m r : Str)
    (caps : Caps) (rest : Str) (h1 : firstLocal T alts s = some (m, r)) (h2 : matchItems T is r = some (caps, rest)) :
    matchItems T (.group n alts :: is) s = some ((n, m) :: caps, rest) := by
  simp only [matchItems]
  unfold firstLocal at h1
  induction alts with
  | nil => simp [firstSome] at h1
  | cons alt as ih =>
    simp only [firstSome] at h1 ⊢
    cases hma : matchAlt T alt s with
    | none => rw [hma] at h1; simp only at h1 ⊢; exact ih h1
    | some mr =>
      rw [hma] at h1
      simp only [Option.some.injEq] at h1
      subst h1
      simp [h2]

def CC.nonCi : CC → Bool
  | .ci _ => false
  | _ => true

/-- a class that only an ASCII digit can match -/
def CC.numeric : CC → Bool
  | .digit => true
  | .range lo hi => 48 ≤ lo.toNat && hi.toNat ≤ 57
  | .exact c => 48 ≤ c.toNat && c.toNat ≤ 57
  | .ci _ => false

theorem digitVal?_of_range {c : Char} (h1 : 48 ≤ c.toNat) (h2 : c.toNat ≤ 57) : (Csv.digitVal? c).isSome = true := by
  simp [Csv.digitVal?, h1, h2]

theorem numeric_not_matches {T : Tables} (hT : TablesOk T) (cc : CC) (c : Char) (hc : cc.numeric = true)
    (hd : T.digitVal c = none) : cc.matches T c = false := by
  have key : ∀ (h1 : 48 ≤ c.toNat) (h2 : c.toNat ≤ 57), False := by
    intro h1 h2
    have ha : isAscii c = true := by simp [isAscii]; omega
    rw [hT.digit_ascii c ha] at hd
    have := digitVal?_of_range h1 h2
    rw [hd] at this; cases this
  cases cc with
  | digit => simp [CC.matches, hd]
  | range lo hi =>
    simp only [CC.numeric, Bool.and_eq_true, decide_eq_true_eq] at hc
    simp only [CC.matches, Bool.and_eq_false_imp, decide_eq_true_eq, decide_eq_false_iff_not]
    intro h1 h2
    exact key (by omega) (by omega)
  | exact e =>
    simp only [CC.numeric, Bool.and_eq_true, decide_eq_true_eq] at hc
    simp only [CC.matches, beq_eq_false_iff_ne, ne_eq]
    intro h; subst h
    exact key hc.1 hc.2
  | ci e => simp [CC.numeric] at hc

/-- what follows a piece does not begin with a digit -/
def BoundaryOk (T : Tables) (rest : Str) : Prop := ∀ c r, rest = c :: r → T.digitVal c = none

theorem matchAlt_long_none {T : Tables} (hT : TablesOk T) (alt : List CC) (p rest : Str) (hlen : p.length < alt.length)
    (hnum : (alt.getD p.length .digit).numeric = true) (hb : BoundaryOk T rest) : matchAlt T alt (p ++ rest) = none := by
  induction alt generalizing p with
  | nil => simp at hlen
  | cons cc ccs ih =>
    cases p with
    | nil =>
      simp only [List.length_nil, List.getD_cons_zero] at hnum
      cases rest with
      | nil => rfl
      | cons h r =>
        simp [matchAlt, numeric_not_matches hT cc h hnum (hb h r rfl)]
    | cons t p' =>
      simp only [List.cons_append, matchAlt]
      split
      · rw [ih p' (by simpa using hlen) (by simpa using hnum)]; rfl
      · rfl

theorem matchAlt_short (T : Tables) (alt : List CC) (p rest : Str) (hlen : alt.length ≤ p.length) :
    matchAlt T alt (p ++ rest) = (matchAlt T alt p).map fun (m, r) => (m, r ++ rest) := by
  induction alt generalizing p with
  | nil => simp [matchAlt]
  | cons cc ccs ih =>
    cases p with
    | nil => simp at hlen
    | cons t p' =>
      simp only [List.cons_append, matchAlt]
      split
      · rw [ih p' (by simpa using hlen)]
        cases matchAlt T ccs p' <;> simp
      · rfl

theorem cc_matches_ascii {T : Tables} (hT : TablesOk T) (cc : CC) (t : Char) (hcc : cc.nonCi = true) (ht : isAscii t = true) :
    cc.matches T t = cc.matches asciiTables t := by
  cases cc with
  | digit => simp [CC.matches, hT.digit_ascii t ht, asciiTables]
  | range lo hi => rfl
  | exact e => rfl
  | ci e => simp [CC.nonCi] at hcc

theorem matchAlt_ascii {T : Tables} (hT : TablesOk T) (alt : List CC) (p : Str) (halt : alt.all CC.nonCi = true)
    (hp : p.all isAscii = true) : matchAlt T alt p = matchAlt asciiTables alt p := by
  induction alt generalizing p with
  | nil => rfl
  | cons cc ccs ih =>
    cases p with
    | nil => rfl
    | cons t p' =>
      simp only [List.all_cons, Bool.and_eq_true] at halt hp
      simp only [matchAlt, cc_matches_ascii hT cc t halt.1 hp.1, ih p' halt.2 hp.2]

/-- the first alternative no longer than the piece that matches the piece (ASCII tables): what `firstLocal` computes
when the longer alternatives cannot match -/
def firstShort (alts : List (List CC)) (p : Str) : Option (Str × Str) :=
  firstSome (fun alt => if alt.length ≤ p.length then matchAlt asciiTables alt p else none) alts

/-- the alternatives consist of digit classes and uncased literals, and an alternative longer than `n` has a digit class
at position `n` -/
def altsOkFor (n : Nat) (alts : List (List CC)) : Bool :=
  alts.all fun alt => alt.all CC.nonCi && (decide (alt.length ≤ n) || (alt.getD n .digit).numeric)

theorem firstLocal_numeric {T : Tables} (hT : TablesOk T) (alts : List (List CC)) (p rest : Str)
    (hp : p.all isAscii = true) (ha : altsOkFor p.length alts = true)
    (hb : (alts.all fun alt => decide (alt.length ≤ p.length)) = true ∨ BoundaryOk T rest) :
    firstLocal T alts (p ++ rest) = (firstShort alts p).map fun (m, r) => (m, r ++ rest) := by
  unfold firstLocal firstShort
  induction alts with
  | nil => rfl
  | cons alt as ih =>
    simp only [altsOkFor, List.all_cons, Bool.and_eq_true, Bool.or_eq_true, decide_eq_true_eq] at ha hb
    have ih' := ih (by simp only [altsOkFor]; exact ha.2) (by
      rcases hb with hb | hb
      · exact Or.inl hb.2
      · exact Or.inr hb)
    simp only [firstSome]
    by_cases hlen : alt.length ≤ p.length
    · rw [matchAlt_short T alt p rest hlen, matchAlt_ascii hT alt p ha.1.1 hp, if_pos hlen]
      cases hm : matchAlt asciiTables alt p with
      | none => simpa using ih'
      | some mr => simp
    · have hbo : BoundaryOk T rest := by
        rcases hb with hb | hb
        · exact absurd hb.1 hlen
        · exact hb
      have hnum : (alt.getD p.length .digit).numeric = true := by
        rcases ha.1.2 with h | h
        · exact absurd h hlen
        · exact h
      rw [matchAlt_long_none hT alt p rest (by omega) hnum hbo, if_neg hlen]
      simpa using ih'

/-! ### the numeric directives -/

/-- the alternatives of the directive `%k` -/
def dirAlts (k : Char) : List (List CC) :=
  match directive k with
  | .group a => a
  | _ => []

/-- the values `strftime` writes for `%k` -/
def inRange (k : Char) (v : Nat) : Bool :=
  if k = 'd' then 1 ≤ v && v ≤ 31 else if k = 'm' then 1 ≤ v && v ≤ 12 else if k = 'H' then v ≤ 23 else v ≤ 59

/-- everything the proof needs to know about `%k` and the value `v`, as one decidable fact -/
def numFact (k : Char) (v : Nat) : Bool :=
  altsOkFor 2 (dirAlts k) && altsOkFor 1 (dirAlts k) && (dirAlts k).all (fun alt => decide (alt.length ≤ 2)) &&
  firstShort (dirAlts k) (pad2 v) == some (pad2 v, []) &&
  (decide (10 ≤ v) || firstShort (dirAlts k) [digitChar v] == some ([digitChar v], []))

theorem numFact_all (k : Char) (hk : numericVar k = true) (v : Nat) (hv : inRange k v = true) : numFact k v = true := by
  have hd : ∀ v : Fin 60, inRange 'd' v.1 = true → numFact 'd' v.1 = true := by decide
  have hm : ∀ v : Fin 60, inRange 'm' v.1 = true → numFact 'm' v.1 = true := by decide
  have hH : ∀ v : Fin 60, inRange 'H' v.1 = true → numFact 'H' v.1 = true := by decide
  have hM : ∀ v : Fin 60, inRange 'M' v.1 = true → numFact 'M' v.1 = true := by decide
  have hS : ∀ v : Fin 60, inRange 'S' v.1 = true → numFact 'S' v.1 = true := by decide
  have hv60 : v < 60 := by
    unfold inRange at hv
    split at hv
    · simp at hv; omega
    · split at hv
      · simp at hv; omega
      · split at hv <;> simp at hv <;> omega
  simp only [numericVar, Bool.or_eq_true, beq_iff_eq] at hk
  rcases hk with (((rfl | rfl) | rfl) | rfl) | rfl
  · exact hm ⟨v, hv60⟩ hv
  · exact hd ⟨v, hv60⟩ hv
  · exact hH ⟨v, hv60⟩ hv
  · exact hM ⟨v, hv60⟩ hv
  · exact hS ⟨v, hv60⟩ hv

theorem pad2_ascii (n : Nat) : (pad2 n).all isAscii = true := by
  simp [pad2, digitChar_ascii (show n / 10 % 10 < 10 by omega), digitChar_ascii (show n % 10 < 10 by omega)]

/-- a day / month / hour / minute / second written with two digits - or with one, when no digit follows - is what the
directive's first locally matching alternative takes -/
theorem firstLocal_num2 {T : Tables} (hT : TablesOk T) (k : Char) (hk : numericVar k = true) (sp : Spell) (v : Nat)
    (hv : inRange k v = true) (rest : Str) (hb : sp.unpad = true → BoundaryOk T rest) :
    firstLocal T (dirAlts k) (num2 sp v ++ rest) = some (num2 sp v, rest) := by
  have hf := numFact_all k hk v hv
  simp only [numFact, Bool.and_eq_true, Bool.or_eq_true, decide_eq_true_eq, beq_iff_eq] at hf
  obtain ⟨⟨⟨⟨h2, h1⟩, hall⟩, hp2⟩, hp1⟩ := hf
  unfold num2
  split
  · rename_i hc
    have hlt : v < 10 := hc.2
    rw [firstLocal_numeric hT (dirAlts k) [digitChar v] rest (by simp [digitChar_ascii hlt]) (by simpa using h1)
      (Or.inr (hb hc.1))]
    rcases hp1 with h | h
    · omega
    · rw [h]; rfl
  · rw [firstLocal_numeric hT (dirAlts k) (pad2 v) rest (pad2_ascii v) (by simpa [pad2] using h2)
      (Or.inl (by simpa [pad2] using hall)), hp2]; rfl

theorem firstLocal_pad2_y {T : Tables} (hT : TablesOk T) (v : Nat) (rest : Str) :
    firstLocal T (dirAlts 'y') (pad2 v ++ rest) = some (pad2 v, rest) := by
  have h1 : v / 10 % 10 < 10 := by omega
  have h2 : v % 10 < 10 := by omega
  have hd : dirAlts 'y' = [[CC.digit, CC.digit]] := rfl
  simp [firstLocal, hd, firstSome, pad2, matchAlt, CC.matches, T_digitChar hT h1, T_digitChar hT h2]

theorem firstLocal_pad4_Y {T : Tables} (hT : TablesOk T) (v : Nat) (rest : Str) :
    firstLocal T (dirAlts 'Y') (pad4 v ++ rest) = some (pad4 v, rest) := by
  have h1 : v / 1000 % 10 < 10 := by omega
  have h2 : v / 100 % 10 < 10 := by omega
  have h3 : v / 10 % 10 < 10 := by omega
  have h4 : v % 10 < 10 := by omega
  have hd : dirAlts 'Y' = [[CC.digit, CC.digit, CC.digit, CC.digit]] := rfl
  simp [firstLocal, hd, firstSome, pad4, matchAlt, CC.matches, T_digitChar hT h1, T_digitChar hT h2,
    T_digitChar hT h3, T_digitChar hT h4]

/-! ### the month names -/

def isLowerAscii (s : Str) : Bool := s.all fun c => isAscii c && asciiLower c == c

/-- the two texts differ at a position both have -/
def differ : Str → Str → Bool
  | a :: as, b :: bs => a != b || differ as bs
  | _, _ => false

theorem matchAlt_ci_self {T : Tables} (hT : TablesOk T) (name w rest : Str) (hname : isLowerAscii name = true)
    (hw1 : w.map asciiLower = name) (hw2 : w.all isAscii = true) :
    matchAlt T (name.map CC.ci) (w ++ rest) = some (w, rest) := by
  induction w generalizing name with
  | nil => subst hw1; rfl
  | cons t w' ih =>
    subst hw1
    simp only [isLowerAscii, List.map_cons, List.all_cons, Bool.and_eq_true, beq_iff_eq] at hname hw2
    have hc : T.ciMatch (asciiLower t) t = true := by
      rw [hT.ci_ascii _ _ hname.1.1 hw2.1, hname.1.2]; simp
    simp only [List.map_cons, List.cons_append, matchAlt, CC.matches, hc, if_true]
    rw [ih (w'.map asciiLower) (by simpa [isLowerAscii] using hname.2) rfl hw2.2]; rfl

theorem matchAlt_ci_differ {T : Tables} (hT : TablesOk T) (alt name w rest : Str) (halt : isLowerAscii alt = true)
    (hw1 : w.map asciiLower = name) (hw2 : w.all isAscii = true) (hd : differ alt name = true) :
    matchAlt T (alt.map CC.ci) (w ++ rest) = none := by
  induction alt generalizing name w with
  | nil => simp [differ] at hd
  | cons a as ih =>
    cases w with
    | nil => subst hw1; simp [differ] at hd
    | cons t w' =>
      subst hw1
      simp only [isLowerAscii, List.all_cons, Bool.and_eq_true, beq_iff_eq] at halt hw2
      simp only [List.map_cons, differ, Bool.or_eq_true, bne_iff_ne, ne_eq] at hd
      have hc : T.ciMatch a t = (a == asciiLower t) := by
        rw [hT.ci_ascii _ _ halt.1.1 hw2.1, halt.1.2]
      simp only [List.map_cons, List.cons_append, matchAlt, CC.matches, hc]
      by_cases hab : a = asciiLower t
      · rcases hd with hd | hd
        · exact absurd hab hd
        · simp only [hab, beq_self_eq_true, if_true]
          rw [ih (w'.map asciiLower) w' (by simpa [isLowerAscii] using halt.2) rfl hw2.2 hd]; rfl
      · simp [hab]

/-- going through the alternatives in order, everything before `name` differs from it within its own length -/
def firstIsName : List Str → Str → Bool
  | [], _ => false
  | a :: as, name => if a = name then true else differ a name && firstIsName as name

theorem firstLocal_name {T : Tables} (hT : TablesOk T) (sorted : List Str) (name w rest : Str)
    (hs : sorted.all isLowerAscii = true) (hf : firstIsName sorted name = true)
    (hw1 : w.map asciiLower = name) (hw2 : w.all isAscii = true) :
    firstLocal T (sorted.map fun n => n.map CC.ci) (w ++ rest) = some (w, rest) := by
  unfold firstLocal
  induction sorted with
  | nil => simp [firstIsName] at hf
  | cons a as ih =>
    simp only [List.all_cons, Bool.and_eq_true] at hs
    simp only [firstIsName] at hf
    simp only [List.map_cons, firstSome]
    by_cases ha : a = name
    · subst ha
      rw [matchAlt_ci_self hT a w rest hs.1 hw1 hw2]
    · simp only [ha, if_false, Bool.and_eq_true] at hf
      rw [matchAlt_ci_differ hT a name w rest hs.1 hw1 hw2 hf.1]
      exact ih hs.2 hf.2

/-- everything the proof needs to know about the month names, as one decidable fact per month -/
def monthFact (m : Nat) : Bool :=
  firstIsName (sortByLenDesc aMonth) (aMonth.getD m []) && nameOk (aMonthCap.getD m []) (aMonth.getD m []) &&
  indexFrom 1 (aMonth.getD m []) aMonth == some (m + 1) &&
  firstIsName (sortByLenDesc fMonth) (fMonth.getD m []) && nameOk (fMonthCap.getD m []) (fMonth.getD m []) &&
  indexFrom 1 (fMonth.getD m []) fMonth == some (m + 1)

theorem monthFact_all (m : Nat) (h : m < 12) : monthFact m = true := by
  have : ∀ m : Fin 12, monthFact m.1 = true := by decide
  exact this ⟨m, h⟩

theorem months_lower : (sortByLenDesc aMonth).all isLowerAscii = true ∧ (sortByLenDesc fMonth).all isLowerAscii = true := by
  decide

/-! ### the shape of a compiled format -/

def isSpaces : Item → Bool
  | .spaces _ => true
  | _ => false

def startsWithSpaces : List Item → Bool
  | it :: _ => isSpaces it
  | [] => false

def itemShape : Item → Bool
  | .lit c => !isPySpace c
  | .spaces run => !run.isEmpty && run.all isPySpace
  | .group k alts => alts == dirAlts k

/-- what `scan` produces: literals are not white space, white-space runs are non-empty, maximal (no two in a row) and
consist of white space, a group carries the alternatives of its directive -/
def wellShaped : List Item → Bool
  | [] => true
  | it :: is => itemShape it && !(isSpaces it && startsWithSpaces is) && wellShaped is

theorem wellShaped_consSpace (c : Char) (hc : isPySpace c = true) (items : List Item) (h : wellShaped items = true) :
    wellShaped (consSpace c items) = true := by
  cases items with
  | nil => simp [consSpace, wellShaped, itemShape, hc, isSpaces, startsWithSpaces]
  | cons it is =>
    cases it with
    | spaces run =>
      simp only [wellShaped, itemShape, isSpaces, Bool.true_and, Bool.and_eq_true, Bool.not_eq_true'] at h
      simp only [consSpace, wellShaped, itemShape, isSpaces, Bool.true_and, Bool.and_eq_true, Bool.not_eq_true',
        List.all_cons, hc]
      simp only [List.isEmpty_cons, true_and]
      exact ⟨⟨h.1.1.2, h.1.2⟩, h.2⟩
    | lit c' =>
      simp only [consSpace, wellShaped, itemShape, isSpaces, startsWithSpaces, hc, List.all_cons, List.all_nil] at h ⊢
      simpa using h
    | group k alts =>
      simp only [consSpace, wellShaped, itemShape, isSpaces, startsWithSpaces, hc, List.all_cons, List.all_nil] at h ⊢
      simpa using h

theorem scan_wellShaped (fmt : Str) : ∀ items, scan fmt = .ok items → wellShaped items = true := by
  have hp : isPySpace '%' = false := by decide
  have key : ∀ (n : Nat) (fmt : Str), fmt.length ≤ n → ∀ items, scan fmt = .ok items → wellShaped items = true := by
    intro n
    induction n with
    | zero =>
      intro fmt hl items h
      cases fmt with
      | nil => simp [scan] at h; subst h; rfl
      | cons c r => simp at hl
    | succ n ih =>
      intro fmt hl items h
      cases fmt with
      | nil => simp [scan] at h; subst h; rfl
      | cons c r =>
        rw [scan.eq_def] at h; simp only at h
        split at h
        · split at h
          · cases h
          · rename_i k r'
            split at h
            · cases h
            · have hl' : r'.length ≤ n := by simp at hl; omega
              split at h
              · cases h
              · cases h
              · cases hr : scan r' with
                | error e => simp [hr, Except.map] at h
                | ok its =>
                  simp only [hr, Except.map, Except.ok.injEq] at h
                  subst h
                  have := ih r' hl' its hr
                  simp only [wellShaped, itemShape, isSpaces, this, hp, Bool.not_false, Bool.false_and, Bool.and_self]
              · rename_i alts hd
                cases hr : scan r' with
                | error e => simp [hr, Except.map] at h
                | ok its =>
                  simp only [hr, Except.map, Except.ok.injEq] at h
                  subst h
                  have := ih r' hl' its hr
                  have hda : dirAlts k = alts := by unfold dirAlts; rw [hd]
                  simp only [wellShaped, itemShape, isSpaces, this, hda, beq_self_eq_true, Bool.false_and, Bool.not_false,
                    Bool.and_self]
        · have hl' : r.length ≤ n := by simp at hl; omega
          split at h
          · rename_i hc
            cases hr : scan r with
            | error e => simp [hr, Except.map] at h
            | ok its =>
              simp only [hr, Except.map, Except.ok.injEq] at h
              subst h
              exact wellShaped_consSpace c hc its (ih r hl' its hr)
          · rename_i hc
            cases hr : scan r with
            | error e => simp [hr, Except.map] at h
            | ok its =>
              simp only [hr, Except.map, Except.ok.injEq] at h
              subst h
              have := ih r hl' its hr
              simp [wellShaped, itemShape, isSpaces, this, hc]
  exact key fmt.length fmt (Nat.le_refl _)

/-! ### every item of the format reads back its own piece of the text -/

/-- the fields are in the ranges `strftime` writes (true of every valid date-time) -/
def FieldsOk (t : DateTime) : Prop :=
  1 ≤ t.month ∧ t.month ≤ 12 ∧ 1 ≤ t.day ∧ t.day ≤ 31 ∧ t.hour ≤ 23 ∧ t.minute ≤ 59 ∧ t.second ≤ 59 ∧ t.year ≤ 9999

theorem daysInMonth_le (y m : Nat) : daysInMonth y m ≤ 31 := by
  unfold daysInMonth; split
  · split <;> omega
  · split <;> omega

theorem fieldsOk_of_valid (t : DateTime) (h : t.valid = true) : FieldsOk t := by
  simp only [DateTime.valid, validDate, Bool.and_eq_true, decide_eq_true_eq] at h
  have := daysInMonth_le t.year t.month
  unfold FieldsOk; omega

theorem renderable_cases {k : Char} (h : renderable k = true) :
    k = 'Y' ∨ k = 'y' ∨ k = 'm' ∨ k = 'd' ∨ k = 'b' ∨ k = 'B' ∨ k = 'H' ∨ k = 'M' ∨ k = 'S' := by
  simp only [renderable, Bool.or_eq_true, beq_iff_eq] at h
  rcases h with (((((((h | h) | h) | h) | h) | h) | h) | h) | h <;> simp [h]

/-- the month name as written is a spelling of the month's name (the default spelling: by the table; another one: by `spellOk`) -/
theorem month_word_ok {T : Tables} (sp : Spell) (t : DateTime) (ht : FieldsOk t) (alts : List (List CC)) (next : List Item) :
    (spellOk T sp t (.group 'b' alts) next = true →
      nameOk (sp.name.getD (aMonthCap.getD (t.month - 1) [])) (aMonth.getD (t.month - 1) []) = true) ∧
    (spellOk T sp t (.group 'B' alts) next = true →
      nameOk (sp.name.getD (fMonthCap.getD (t.month - 1) [])) (fMonth.getD (t.month - 1) []) = true) := by
  have hm := monthFact_all (t.month - 1) (by unfold FieldsOk at ht; omega)
  simp only [monthFact, Bool.and_eq_true, beq_iff_eq] at hm
  constructor
  · intro hs
    cases hn : sp.name with
    | none => simpa using hm.1.1.1.1.2
    | some w => have := hs; simp [spellOk, hn] at this; simpa using this.2
  · intro hs
    cases hn : sp.name with
    | none => simpa using hm.1.2
    | some w => have := hs; simp [spellOk, hn] at this; simpa using this.2

theorem nameOk_parts {w name : Str} (h : nameOk w name = true) :
    w.map asciiLower = name ∧ w.all isAscii = true ∧
      ∃ c r, w = c :: r ∧ isAscii c = true ∧ isPySpace c = false ∧ Csv.digitVal? c = none := by
  simp only [nameOk, Bool.and_eq_true, beq_iff_eq, Bool.not_eq_true', List.isEmpty_eq_false_iff] at h
  obtain ⟨⟨h1, h2⟩, h3⟩ := h
  refine ⟨h1, ?_, ?_⟩
  · rw [List.all_eq_true] at h2 ⊢
    intro c hc; have := h2 c hc; simp only [Bool.and_eq_true] at this; exact this.1.1
  · cases w with
    | nil => exact absurd rfl h3
    | cons c r =>
      have := (List.all_eq_true.mp h2) c (by simp)
      simp only [Bool.and_eq_true, Bool.not_eq_true', Option.isNone_iff_eq_none] at this
      exact ⟨c, r, rfl, this.1.1, this.1.2, this.2⟩

theorem inRange_of_fields {t : DateTime} (ht : FieldsOk t) :
    inRange 'm' t.month = true ∧ inRange 'd' t.day = true ∧ inRange 'H' t.hour = true ∧ inRange 'M' t.minute = true ∧
      inRange 'S' t.second = true := by
  unfold FieldsOk at ht
  simp [inRange]; omega

theorem dirAlts_b : dirAlts 'b' = (sortByLenDesc aMonth).map fun n => n.map CC.ci := rfl
theorem dirAlts_B : dirAlts 'B' = (sortByLenDesc fMonth).map fun n => n.map CC.ci := rfl

/-- **one directive**: the first alternative of `%k` that matches at the start of (what was written for `%k`) ++ (anything
that respects the spelling's condition) takes exactly what was written -/
theorem piece_group {T : Tables} (hT : TablesOk T) (sp : Spell) (t : DateTime) (k : Char) (alts : List (List CC))
    (next : List Item) (R : Str) (ht : FieldsOk t) (hk : renderable k = true) (hshape : alts = dirAlts k)
    (hs : spellOk T sp t (.group k alts) next = true) (hR : nextNonDigit T next = true → BoundaryOk T R) :
    firstLocal T alts (renderGroup sp t k ++ R) = some (renderGroup sp t k, R) := by
  subst hshape
  obtain ⟨rm, rd, rH, rM, rS⟩ := inRange_of_fields ht
  have hb : ∀ k', numericVar k' = true → k = k' → sp.unpad = true → BoundaryOk T R := by
    intro k' hk' hkk hu
    subst hkk
    simp only [spellOk, hu, hk', Bool.and_self, if_true, Bool.and_eq_true] at hs
    exact hR hs.1
  rcases renderable_cases hk with rfl | rfl | rfl | rfl | rfl | rfl | rfl | rfl | rfl
  · simpa [renderGroup] using firstLocal_pad4_Y hT t.year R
  · simpa [renderGroup] using firstLocal_pad2_y hT (t.year % 100) R
  · simpa [renderGroup] using firstLocal_num2 hT 'm' (by decide) sp t.month rm R (hb 'm' (by decide) rfl)
  · simpa [renderGroup] using firstLocal_num2 hT 'd' (by decide) sp t.day rd R (hb 'd' (by decide) rfl)
  · obtain ⟨h1, h2, -⟩ := nameOk_parts ((month_word_ok sp t ht _ next).1 hs)
    simpa [renderGroup, dirAlts_b] using firstLocal_name hT (sortByLenDesc aMonth) _ _ R months_lower.1
      (by have := monthFact_all (t.month - 1) (by unfold FieldsOk at ht; omega)
          simp only [monthFact, Bool.and_eq_true] at this; exact this.1.1.1.1.1) h1 h2
  · obtain ⟨h1, h2, -⟩ := nameOk_parts ((month_word_ok sp t ht _ next).2 hs)
    simpa [renderGroup, dirAlts_B] using firstLocal_name hT (sortByLenDesc fMonth) _ _ R months_lower.2
      (by have := monthFact_all (t.month - 1) (by unfold FieldsOk at ht; omega)
          simp only [monthFact, Bool.and_eq_true] at this; exact this.1.1.2) h1 h2
  · simpa [renderGroup] using firstLocal_num2 hT 'H' (by decide) sp t.hour rH R (hb 'H' (by decide) rfl)
  · simpa [renderGroup] using firstLocal_num2 hT 'M' (by decide) sp t.minute rM R (hb 'M' (by decide) rfl)
  · simpa [renderGroup] using firstLocal_num2 hT 'S' (by decide) sp t.second rS R (hb 'S' (by decide) rfl)

theorem num2_head (sp : Spell) (n : Nat) : ∃ d r, d < 10 ∧ num2 sp n = digitChar d :: r := by
  unfold num2; split
  · rename_i h; exact ⟨n, [], h.2, rfl⟩
  · exact ⟨n / 10 % 10, [digitChar (n % 10)], by omega, rfl⟩

/-- what is written for a directive is not empty, does not begin with white space, and - for a month name - does not
begin with a digit -/
theorem piece_head {T : Tables} (hT : TablesOk T) (sp : Spell) (t : DateTime) (k : Char) (alts : List (List CC))
    (next : List Item) (ht : FieldsOk t) (hk : renderable k = true) (hs : spellOk T sp t (.group k alts) next = true) :
    ∃ c r, renderGroup sp t k = c :: r ∧ isPySpace c = false ∧ ((k = 'b' ∨ k = 'B') → T.digitVal c = none) := by
  have hnum : ∀ n, ∃ c r, num2 sp n = c :: r ∧ isPySpace c = false := by
    intro n; obtain ⟨d, r, hd, h⟩ := num2_head sp n; exact ⟨_, r, h, digitChar_not_space hd⟩
  have hname : ∀ w name, nameOk w name = true → ∃ c r, w = c :: r ∧ isPySpace c = false ∧ T.digitVal c = none := by
    intro w name h
    obtain ⟨-, -, c, r, rfl, ha, hsp, hd⟩ := nameOk_parts h
    exact ⟨c, r, rfl, hsp, by rw [hT.digit_ascii c ha]; exact hd⟩
  rcases renderable_cases hk with rfl | rfl | rfl | rfl | rfl | rfl | rfl | rfl | rfl
  · exact ⟨_, _, rfl, digitChar_not_space (by omega), by simp⟩
  · exact ⟨_, _, rfl, digitChar_not_space (by omega), by simp⟩
  · obtain ⟨c, r, h, hc⟩ := hnum t.month; exact ⟨c, r, by simpa [renderGroup] using h, hc, by simp⟩
  · obtain ⟨c, r, h, hc⟩ := hnum t.day; exact ⟨c, r, by simpa [renderGroup] using h, hc, by simp⟩
  · obtain ⟨c, r, h, hc, hd⟩ := hname _ _ ((month_word_ok sp t ht alts next).1 hs)
    exact ⟨c, r, by simpa [renderGroup] using h, hc, fun _ => hd⟩
  · obtain ⟨c, r, h, hc, hd⟩ := hname _ _ ((month_word_ok sp t ht alts next).2 hs)
    exact ⟨c, r, by simpa [renderGroup] using h, hc, fun _ => hd⟩
  · obtain ⟨c, r, h, hc⟩ := hnum t.hour; exact ⟨c, r, by simpa [renderGroup] using h, hc, by simp⟩
  · obtain ⟨c, r, h, hc⟩ := hnum t.minute; exact ⟨c, r, by simpa [renderGroup] using h, hc, by simp⟩
  · obtain ⟨c, r, h, hc⟩ := hnum t.second; exact ⟨c, r, by simpa [renderGroup] using h, hc, by simp⟩

/-- the white space written for a white-space run -/
theorem blanks_ok {T : Tables} (sp : Spell) (t : DateTime) (run : Str) (next : List Item)
    (hshape : itemShape (.spaces run) = true) (hs : spellOk T sp t (.spaces run) next = true) :
    sp.blanks.getD run ≠ [] ∧ (sp.blanks.getD run).all isPySpace = true := by
  cases hb : sp.blanks with
  | none =>
    simp only [itemShape, Bool.and_eq_true, Bool.not_eq_true', List.isEmpty_eq_false_iff] at hshape
    simpa using hshape
  | some ws =>
    simp only [spellOk, hb, Bool.and_eq_true, Bool.not_eq_true', List.isEmpty_eq_false_iff] at hs
    simpa using hs

def HeadNonSpace (s : Str) : Prop := ∀ c r, s = c :: r → isPySpace c = false

/-- the text written for an item list: its first character, by the first item -/
theorem render_head {T : Tables} (hT : TablesOk T) (t : DateTime) (ht : FieldsOk t) (it : Item) (is : List Item)
    (sps : List Spell) (hw : wellShaped (it :: is) = true) (hr : (groupNames (it :: is)).all renderable = true)
    (hs : spellsOk T sps (it :: is) t = true) :
    ∃ c r, renderItems sps (it :: is) t = c :: r ∧ (isSpaces it = false → isPySpace c = false) ∧
      (nextNonDigit T (it :: is) = true → T.digitVal c = none) := by
  simp only [wellShaped, Bool.and_eq_true] at hw
  simp only [spellsOk, Bool.and_eq_true] at hs
  cases it with
  | lit c =>
    refine ⟨c, renderItems sps.tail is t, rfl, fun _ => by simpa [itemShape] using hw.1.1, ?_⟩
    intro h; simpa [nextNonDigit] using h
  | spaces run =>
    obtain ⟨hne, hall⟩ := blanks_ok (sps.headD {}) t run is hw.1.1 hs.1
    cases hws : (sps.headD {}).blanks.getD run with
    | nil => exact absurd hws hne
    | cons c r =>
      rw [hws] at hall
      simp only [List.all_cons, Bool.and_eq_true] at hall
      refine ⟨c, r ++ renderItems sps.tail is t, by show (sps.headD {}).blanks.getD run ++ _ = _; rw [hws]; rfl, fun h => by simp [isSpaces] at h, ?_⟩
      intro _; exact hT.space_not_digit c hall.1
  | group k alts =>
    have hk : renderable k = true := by
      simp only [groupNames, List.all_cons, Bool.and_eq_true] at hr; exact hr.1
    obtain ⟨c, r, h, hc, hd⟩ := piece_head hT (sps.headD {}) t k alts is ht hk hs.1
    refine ⟨c, r ++ renderItems sps.tail is t, by show renderGroup (sps.headD {}) t k ++ _ = _; rw [h]; rfl, fun _ => hc, ?_⟩
    intro hn
    simp only [nextNonDigit, Bool.or_eq_true, beq_iff_eq] at hn
    exact hd hn

theorem render_boundary {T : Tables} (hT : TablesOk T) (t : DateTime) (ht : FieldsOk t) (is : List Item) (sps : List Spell)
    (hw : wellShaped is = true) (hr : (groupNames is).all renderable = true) (hs : spellsOk T sps is t = true)
    (hn : nextNonDigit T is = true) : BoundaryOk T (renderItems sps is t) := by
  cases is with
  | nil => intro c r h; simp [renderItems] at h
  | cons it is =>
    obtain ⟨c, r, h, -, hd⟩ := render_head hT t ht it is sps hw hr hs
    intro c' r' h'; rw [h] at h'; cases h'; exact hd hn

theorem render_nonspace {T : Tables} (hT : TablesOk T) (t : DateTime) (ht : FieldsOk t) (is : List Item) (sps : List Spell)
    (hw : wellShaped is = true) (hr : (groupNames is).all renderable = true) (hs : spellsOk T sps is t = true)
    (hn : startsWithSpaces is = false) : HeadNonSpace (renderItems sps is t) := by
  cases is with
  | nil => intro c r h; simp [renderItems] at h
  | cons it is =>
    obtain ⟨c, r, h, hc, -⟩ := render_head hT t ht it is sps hw hr hs
    intro c' r' h'; rw [h] at h'; cases h'; exact hc (by simpa [startsWithSpaces] using hn)

theorem spaceRun_append (ws R : Str) (hws : ws.all isPySpace = true) (hR : HeadNonSpace R) :
    spaceRun (ws ++ R) = ws.length := by
  induction ws with
  | nil =>
    cases R with
    | nil => rfl
    | cons c r => simp [spaceRun, hR c r rfl]
  | cons w ws ih =>
    simp only [List.all_cons, Bool.and_eq_true] at hws
    simp [spaceRun, hws.1, ih hws.2]

/-- the captured groups of the written text, in group order -/
def capsOf : List Spell → List Item → DateTime → Caps
  | _, [], _ => []
  | sps, .group k _ :: is, t => (k, renderGroup (sps.headD {}) t k) :: capsOf sps.tail is t
  | sps, _ :: is, t => capsOf sps.tail is t

theorem groupNames_tail_renderable {it : Item} {is : List Item} (h : (groupNames (it :: is)).all renderable = true) :
    (groupNames is).all renderable = true := by
  cases it <;> simp_all [groupNames]

/-- **The compiled format matches the text written under it, entirely, and captures what was written for each directive.** -/
theorem matchItems_render {T : Tables} (hT : TablesOk T) (t : DateTime) (ht : FieldsOk t) :
    ∀ (items : List Item) (sps : List Spell), wellShaped items = true → (groupNames items).all renderable = true →
      spellsOk T sps items t = true →
      matchItems T items (renderItems sps items t) = some (capsOf sps items t, []) := by
  intro items
  induction items with
  | nil => intro sps _ _ _; rfl
  | cons it is ih =>
    intro sps hw hr hs
    have hw' := hw
    have hs' := hs
    simp only [wellShaped, Bool.and_eq_true] at hw
    simp only [spellsOk, Bool.and_eq_true] at hs
    have hr' := groupNames_tail_renderable hr
    have IH := ih sps.tail hw.2 hr' hs.2
    cases it with
    | lit c =>
      simp only [renderItems, renderItem, List.singleton_append, matchItems, hT.ci_refl c, if_true, capsOf]
      exact IH
    | spaces run =>
      obtain ⟨hne, hall⟩ := blanks_ok (sps.headD {}) t run is hw.1.1 hs.1
      have hnsp : startsWithSpaces is = false := by
        have := hw.1.2; simpa [isSpaces] using this
      have hrun := spaceRun_append _ _ hall (render_nonspace hT t ht is sps.tail hw.2 hr' hs.2 hnsp)
      simp only [renderItems, renderItem, matchItems, capsOf, hrun]
      cases hl : ((sps.headD {}).blanks.getD run).length with
      | zero => exact absurd (List.length_eq_zero_iff.mp hl) hne
      | succ n =>
        simp only [tryDown]
        rw [← hl, List.drop_left, IH]
    | group k alts =>
      have hk : renderable k = true := by
        simp only [groupNames, List.all_cons, Bool.and_eq_true] at hr; exact hr.1
      have hshape : alts = dirAlts k := by simpa [itemShape] using hw.1.1
      have hfl := piece_group hT (sps.headD {}) t k alts is (renderItems sps.tail is t) ht hk hshape hs.1
        (fun hn => render_boundary hT t ht is sps.tail hw.2 hr' hs.2 hn)
      simp only [renderItems, renderItem, capsOf]
      exact matchItems_group_of_firstLocal T k alts is _ _ _ _ _ hfl IH

/-! ### conversion of the captured groups -/

/-- the accumulator of the conversion loop once the directives `has` have been seen -/
def accOf (has : Char → Bool) (t : DateTime) : Acc :=
  { year := if has 'Y' || has 'y' then some t.year else none
    month := if has 'm' || has 'b' || has 'B' then t.month else 1
    day := if has 'd' then t.day else 1
    hour := if has 'H' then t.hour else 0
    minute := if has 'M' then t.minute else 0
    second := if has 'S' then t.second else 0 }

theorem lowerStr_ascii {T : Tables} (hT : TablesOk T) (w : Str) (hw : w.all isAscii = true) :
    lowerStr T w = w.map asciiLower := by
  induction w with
  | nil => rfl
  | cons c r ih =>
    simp only [List.all_cons, Bool.and_eq_true] at hw
    simp only [lowerStr, List.flatMap_cons, hT.lower_ascii c hw.1, List.map_cons, List.singleton_append] at ih ⊢
    rw [← ih hw.2]

theorem intOr_ok {T : Tables} {s : Str} {n : Nat} (h : pyInt T s = some n) : intOr T s = .ok n := by
  simp [intOr, h]

theorem convertOne_piece {T : Tables} (hT : TablesOk T) (all : Caps) (has : Char → Bool) (sp : Spell) (t : DateTime)
    (k : Char) (alts : List (List CC)) (next : List Item) (ht : FieldsOk t) (hk : renderable k = true)
    (hs : spellOk T sp t (.group k alts) next = true) (hy : k = 'y' → 1969 ≤ t.year ∧ t.year ≤ 2068) :
    convertOne T all (accOf has t) k (renderGroup sp t k) = .ok (accOf (fun c => has c || c == k) t) := by
  have hf := ht
  unfold FieldsOk at hf
  have hmonth : ∀ (w name : Str) (names : List Str), nameOk w name = true → indexFrom 1 name names = some t.month →
      indexFrom 1 (lowerStr T w) names = some t.month := by
    intro w name names hn hi
    obtain ⟨h1, h2, -⟩ := nameOk_parts hn
    rw [lowerStr_ascii hT w h2, h1]; exact hi
  have hm := monthFact_all (t.month - 1) (by omega)
  simp only [monthFact, Bool.and_eq_true, beq_iff_eq] at hm
  have hsucc : t.month - 1 + 1 = t.month := by omega
  rcases renderable_cases hk with rfl | rfl | rfl | rfl | rfl | rfl | rfl | rfl | rfl
  · simp [convertOne, renderGroup, intOr_ok (pyInt_pad4 hT (show t.year < 10000 by omega)), Except.map, accOf]
  · have h := hy rfl
    have : (if t.year % 100 ≤ 68 then t.year % 100 + 2000 else t.year % 100 + 1900) = t.year := by split <;> omega
    simp [convertOne, renderGroup, intOr_ok (pyInt_pad2 hT (show t.year % 100 < 100 by omega)), Except.map, accOf, this]
  · simp [convertOne, renderGroup, intOr_ok (pyInt_num2 hT sp (show t.month < 100 by omega)), Except.map, accOf]
  · simp [convertOne, renderGroup, intOr_ok (pyInt_num2 hT sp (show t.day < 100 by omega)), Except.map, accOf]
  · have := hmonth _ _ aMonth ((month_word_ok sp t ht alts next).1 hs) (by rw [hm.1.1.1.2, hsucc])
    simp only [List.getD_eq_getElem?_getD] at this
    simp [convertOne, renderGroup, this, accOf]
  · have := hmonth _ _ fMonth ((month_word_ok sp t ht alts next).2 hs) (by rw [hm.2, hsucc])
    simp only [List.getD_eq_getElem?_getD] at this
    simp [convertOne, renderGroup, this, accOf]
  · simp [convertOne, renderGroup, intOr_ok (pyInt_num2 hT sp (show t.hour < 100 by omega)), Except.map, accOf]
  · simp [convertOne, renderGroup, intOr_ok (pyInt_num2 hT sp (show t.minute < 100 by omega)), Except.map, accOf]
  · simp [convertOne, renderGroup, intOr_ok (pyInt_num2 hT sp (show t.second < 100 by omega)), Except.map, accOf]

theorem convertGo_render {T : Tables} (hT : TablesOk T) (t : DateTime) (ht : FieldsOk t) (all : Caps) :
    ∀ (items : List Item) (sps : List Spell) (has : Char → Bool), (groupNames items).all renderable = true →
      spellsOk T sps items t = true → yearFits (groupNames items) t = true →
      convertGo T all (accOf has t) (capsOf sps items t) =
        .ok (accOf (fun c => has c || (groupNames items).contains c) t) := by
  intro items
  induction items with
  | nil => intro sps has _ _ _; simp [capsOf, convertGo, groupNames]
  | cons it is ih =>
    intro sps has hr hs hy
    simp only [spellsOk, Bool.and_eq_true] at hs
    have hr' := groupNames_tail_renderable hr
    cases it with
    | lit c => simpa [capsOf, groupNames] using ih sps.tail has hr' hs.2 (by simpa [groupNames] using hy)
    | spaces run => simpa [capsOf, groupNames] using ih sps.tail has hr' hs.2 (by simpa [groupNames] using hy)
    | group k alts =>
      have hk : renderable k = true := by
        simp only [groupNames, List.all_cons, Bool.and_eq_true] at hr; exact hr.1
      have hyk : k = 'y' → 1969 ≤ t.year ∧ t.year ≤ 2068 := by
        intro h; subst h
        simpa [yearFits, groupNames] using hy
      have hy' : yearFits (groupNames is) t = true := by
        simp only [yearFits, groupNames, List.contains_cons] at hy ⊢
        by_cases h : (groupNames is).contains 'y' = true
        · rw [if_pos h]; rw [if_pos (by rw [h]; simp)] at hy; exact hy
        · rw [if_neg h]
      simp only [capsOf, convertGo, convertOne_piece hT all has (sps.headD {}) t k alts is ht hk hs.1 hyk]
      rw [ih sps.tail _ hr' hs.2 hy']
      congr 2
      funext c
      simp only [groupNames, List.contains_cons, Bool.or_assoc]

def restrictBy (has : Char → Bool) (t : DateTime) : DateTime :=
  { year := t.year, month := t.month, day := t.day, hour := if has 'H' then t.hour else 0,
    minute := if has 'M' then t.minute else 0, second := if has 'S' then t.second else 0, micro := 0 }

theorem finish_accOf (has : Char → Bool) (t : DateTime) (hv : t.valid = true) (hY : (has 'Y' || has 'y') = true)
    (hm : (has 'm' || has 'b' || has 'B') = true) (hd : has 'd' = true) :
    finish (accOf has t) = .ok (restrictBy has t) := by
  simp only [DateTime.valid, Bool.and_eq_true, decide_eq_true_eq] at hv
  have hvd : validDate t.year t.month t.day = true := hv.1.1.1.1
  have hval : (restrictBy has t).valid = true := by
    cases hH : has 'H' <;> cases hM : has 'M' <;> cases hS : has 'S' <;>
      simp [restrictBy, DateTime.valid, hvd, hH, hM, hS] <;> omega
  simp only [finish, yearOf, leapFixOf, ymdOf, accOf, hY, hm, hd, if_true, Option.isNone_some, Bool.false_and, hvd, checked]
  simp only [restrictBy] at hval ⊢
  simp [hval]

theorem compile_ok_scan {fmt : Str} {items : List Item} (h : compile fmt = .ok items) :
    scan fmt = .ok items ∧ hasDup (groupNames items) = false := by
  unfold compile at h
  split at h
  · cases h
  · rename_i its hs
    split at h
    · cases h
    · rename_i hd
      cases h
      exact ⟨hs, by simpa using hd⟩

/-- reading back what was written under the compiled format `items` -/
theorem strptime_of_items {T : Tables} (hT : TablesOk T) (fmt : Str) (items : List Item) (sps : List Spell) (t : DateTime)
    (hc : compile fmt = .ok items) (hn : namesOk (groupNames items) = true) (hv : t.valid = true)
    (hy : yearFits (groupNames items) t = true) (hs : spellsOk T sps items t = true) :
    strptime T fmt (renderItems sps items t) = .ok (restrict (groupNames items) t) := by
  have ht := fieldsOk_of_valid t hv
  have hw := scan_wellShaped fmt items (compile_ok_scan hc).1
  simp only [namesOk, Bool.and_eq_true] at hn
  obtain ⟨⟨⟨hren, hY⟩, hM⟩, hD⟩ := hn
  have hmatch := matchItems_render hT t ht items sps hw hren hs
  have hconv := convertGo_render hT t ht (capsOf sps items t) items sps (fun _ => false) hren hs hy
  have hacc0 : accOf (fun _ => false) t = {} := by simp [accOf]
  rw [hacc0] at hconv
  have hfin := finish_accOf (fun c => false || (groupNames items).contains c) t hv (by simpa using hY) (by simpa using hM)
    (by simpa using hD)
  have hres : restrictBy (fun c => false || (groupNames items).contains c) t = restrict (groupNames items) t := by
    simp [restrictBy, restrict]
  simp only [strptime, hc, hmatch, convert, hconv, hfin, hres, ne_eq, not_true_eq_false, if_false]

/-! ### what `strptime` returns is a date; what it accepts is in the format's language -/

theorem checked_ok (x t : DateTime) (h : checked x = .ok t) : t.valid = true := by
  unfold checked at h
  split at h
  · cases h; assumption
  · cases h

theorem finish_valid (a : Acc) (t : DateTime) (h : finish a = .ok t) : t.valid = true := by
  unfold finish at h
  split at h
  · cases h
  · exact checked_ok _ _ h

theorem strptime_ok_parts {T : Tables} {fmt s : Str} {t : DateTime} (h : strptime T fmt s = .ok t) :
    ∃ items caps a, compile fmt = .ok items ∧ matchItems T items s = some (caps, []) ∧ convert T caps = .ok a ∧
      finish a = .ok t := by
  unfold strptime at h
  split at h
  · cases h
  · rename_i items hc
    split at h
    · cases h
    · rename_i caps rest hm
      split at h
      · cases h
      · rename_i hrest
        split at h
        · cases h
        · rename_i a ha
          have : rest = [] := by simpa using hrest
          subst this
          exact ⟨items, caps, a, hc, hm, ha, h⟩

/-! ### white space around the date, and the token `parse_generic_csv` cuts out -/

open TallyVerif.Csv (strip lstrip rstrip firstToken dateToken)

def NoSpace (s : Str) : Prop := ∀ c ∈ s, isPySpace c = false

theorem lstrip_spaces_append (pre s : Str) (hpre : pre.all isPySpace = true) : lstrip (pre ++ s) = lstrip s := by
  induction pre with
  | nil => rfl
  | cons c r ih =>
    simp only [List.all_cons, Bool.and_eq_true] at hpre
    simp only [lstrip, List.cons_append, List.dropWhile_cons, hpre.1, if_true]
    exact ih hpre.2

theorem rstrip_append_spaces (s post : Str) (hpost : post.all isPySpace = true) : rstrip (s ++ post) = rstrip s := by
  unfold rstrip
  rw [List.reverse_append]
  have : ∀ (a b : Str), a.all isPySpace = true → (a ++ b).dropWhile isPySpace = b.dropWhile isPySpace := by
    intro a b ha
    induction a with
    | nil => rfl
    | cons c r ih =>
      simp only [List.all_cons, Bool.and_eq_true] at ha
      simp only [List.cons_append, List.dropWhile_cons, ha.1, if_true]
      exact ih ha.2
  rw [this _ _ (by simpa using hpost)]

theorem rstrip_of_last (s : Str) (h : ∀ c, s.getLast? = some c → isPySpace c = false) : rstrip s = s := by
  rcases List.eq_nil_or_concat s with rfl | ⟨r, c, rfl⟩
  · rfl
  · simpa [List.concat_eq_append] using Csv.rstrip_concat_of_not_space r (h c (by simp))

theorem lstrip_all_space (s : Str) (h : s.all isPySpace = true) : lstrip s = [] := by
  induction s with
  | nil => rfl
  | cons c r ih =>
    simp only [List.all_cons, Bool.and_eq_true] at h
    simp only [lstrip, List.dropWhile_cons, h.1, if_true]; exact ih h.2

/-- the date format contains a blank: the whole cell, stripped, is handed to `strptime` -/
theorem dateToken_whole (spec : Csv.Spec) (pre tok post : Str) (hfmt : spec.dateFormat.any isPySpace = true)
    (hhead : ∀ c, tok.head? = some c → isPySpace c = false) (hlast : ∀ c, tok.getLast? = some c → isPySpace c = false)
    (hpre : pre.all isPySpace = true) (hpost : post.all isPySpace = true) :
    dateToken spec (strip (pre ++ tok ++ post)) = some tok := by
  have h1 : strip (pre ++ tok ++ post) = tok := by
    unfold strip
    rw [List.append_assoc, lstrip_spaces_append pre _ hpre]
    cases tok with
    | nil => rw [List.nil_append, lstrip_all_space post hpost]; rfl
    | cons c r =>
      rw [show lstrip (c :: r ++ post) = c :: r ++ post from Csv.lstrip_cons_of_not_space _ (hhead c rfl)]
      rw [rstrip_append_spaces _ _ hpost, rstrip_of_last _ hlast]
  unfold dateToken
  rw [if_pos hfmt, h1]

theorem dropWhile_append_all (p : Char → Bool) (x y : Str) (h : x.all p = true) :
    (x ++ y).dropWhile p = y.dropWhile p := by
  induction x with
  | nil => rfl
  | cons c r ih =>
    simp only [List.all_cons, Bool.and_eq_true] at h
    simp only [List.cons_append, List.dropWhile_cons, h.1, if_true]; exact ih h.2

theorem dropWhile_append_not_all (p : Char → Bool) (x y : Str) (h : x.all p = false) :
    (x ++ y).dropWhile p = x.dropWhile p ++ y := by
  induction x with
  | nil => simp at h
  | cons c r ih =>
    simp only [List.cons_append, List.dropWhile_cons]
    by_cases hc : p c = true
    · simp only [hc, if_true]
      exact ih (by simpa [hc] using h)
    · simp [hc]

/-- trailing white space is removed from what follows a text that does not end in white space -/
theorem rstrip_append_of_last (a b : Str) (ha : a ≠ []) (hlast : ∀ c, a.getLast? = some c → isPySpace c = false) :
    rstrip (a ++ b) = a ++ rstrip b := by
  have hra : a.reverse.dropWhile isPySpace = a.reverse := by
    rcases List.eq_nil_or_concat a with rfl | ⟨r, c, rfl⟩
    · exact absurd rfl ha
    · have := hlast c (by simp)
      simp [this]
  unfold rstrip
  rw [List.reverse_append]
  cases hb : b.reverse.all isPySpace with
  | true =>
    rw [dropWhile_append_all _ _ _ hb, hra]
    have : b.reverse.dropWhile isPySpace = [] := by
      have := dropWhile_append_all isPySpace b.reverse [] hb
      simpa using this
    rw [this]; simp
  | false =>
    rw [dropWhile_append_not_all _ _ _ hb]; simp

theorem rstrip_prefix (s : Str) : rstrip s <+: s := by
  unfold rstrip
  have := List.dropWhile_suffix isPySpace (l := s.reverse)
  have h2 := List.reverse_prefix.mpr this
  simpa using h2

/-- the date format contains no blank: the first white-space separated token of the cell is handed to `strptime` - blanks
around the date and a trailing token (a weekday, a time …) are cut off -/
theorem dateToken_first (spec : Csv.Spec) (pre tok post : Str) (hfmt : spec.dateFormat.any isPySpace = false)
    (hne : tok ≠ []) (htok : NoSpace tok) (hpre : pre.all isPySpace = true)
    (hpost : post = [] ∨ ∃ c r, post = c :: r ∧ isPySpace c = true) :
    dateToken spec (strip (pre ++ tok ++ post)) = some tok := by
  obtain ⟨c0, r0, rfl⟩ := List.exists_cons_of_ne_nil hne
  have hc0 : isPySpace c0 = false := htok c0 (by simp)
  have hlast : ∀ c, (c0 :: r0).getLast? = some c → isPySpace c = false := by
    intro c hc; exact htok c (List.mem_of_getLast? hc)
  -- the stripped cell is the token followed by nothing or by something that begins with white space
  have hs : strip (pre ++ (c0 :: r0) ++ post) = (c0 :: r0) ++ rstrip post := by
    unfold strip
    rw [List.append_assoc, lstrip_spaces_append pre _ hpre,
      show lstrip (c0 :: r0 ++ post) = c0 :: r0 ++ post from Csv.lstrip_cons_of_not_space _ hc0,
      rstrip_append_of_last _ _ hne hlast]
  have hp : rstrip post = [] ∨ ∃ c r, rstrip post = c :: r ∧ isPySpace c = true := by
    cases hr : rstrip post with
    | nil => exact Or.inl rfl
    | cons c r =>
      right
      obtain ⟨suf, hsuf⟩ := rstrip_prefix post
      rw [hr] at hsuf
      rcases hpost with rfl | ⟨c', r', rfl, hc'⟩
      · simp at hsuf
      · simp only [List.cons_append, List.cons.injEq] at hsuf
        exact ⟨c, r, rfl, by rw [hsuf.1]; exact hc'⟩
  have hft : firstToken ((c0 :: r0) ++ rstrip post) = some (c0 :: r0) := by
    unfold firstToken
    rw [show lstrip (c0 :: r0 ++ rstrip post) = c0 :: r0 ++ rstrip post from Csv.lstrip_cons_of_not_space _ hc0]
    simp only [List.cons_append, Option.some.injEq]
    have : ∀ (a b : Str), NoSpace a → (b = [] ∨ ∃ c r, b = c :: r ∧ isPySpace c = true) →
        (a ++ b).takeWhile (fun c => !isPySpace c) = a := by
      intro a b ha hb
      induction a with
      | nil =>
        rcases hb with rfl | ⟨c, r, rfl, hc⟩
        · rfl
        · simp [hc]
      | cons x xs ih =>
        have hx : isPySpace x = false := ha x (by simp)
        simp only [List.cons_append, List.takeWhile_cons, hx, Bool.not_false, if_true]
        rw [ih (fun c hc => ha c (by simp [hc]))]
    exact this (c0 :: r0) (rstrip post) htok hp
  unfold dateToken
  rw [if_neg (by rw [hfmt]; exact Bool.false_ne_true), hs]
  exact hft

/-! ### the written text has no white space of its own (apart from the format's white-space runs) -/

theorem num2_no_space (sp : Spell) (n : Nat) : NoSpace (num2 sp n) := by
  intro c hc
  unfold num2 at hc
  split at hc
  · rename_i h; simp at hc; subst hc; exact digitChar_not_space h.2
  · simp [pad2] at hc; rcases hc with rfl | rfl <;> exact digitChar_not_space (by omega)

theorem piece_no_space {T : Tables} (sp : Spell) (t : DateTime) (k : Char) (alts : List (List CC)) (next : List Item)
    (ht : FieldsOk t) (hk : renderable k = true) (hs : spellOk T sp t (.group k alts) next = true) :
    NoSpace (renderGroup sp t k) := by
  have hname : ∀ w name, nameOk w name = true → NoSpace w := by
    intro w name h c hc
    simp only [nameOk, Bool.and_eq_true] at h
    have := (List.all_eq_true.mp h.1.2) c hc
    simp only [Bool.and_eq_true, Bool.not_eq_true'] at this
    exact this.1.2
  rcases renderable_cases hk with rfl | rfl | rfl | rfl | rfl | rfl | rfl | rfl | rfl
  · intro c hc; simp [renderGroup, pad4] at hc
    rcases hc with rfl | rfl | rfl | rfl <;> exact digitChar_not_space (by omega)
  · intro c hc; simp [renderGroup, pad2] at hc
    rcases hc with rfl | rfl <;> exact digitChar_not_space (by omega)
  · simpa [renderGroup] using num2_no_space sp t.month
  · simpa [renderGroup] using num2_no_space sp t.day
  · have := hname _ _ ((month_word_ok sp t ht alts next).1 hs); simpa [renderGroup] using this
  · have := hname _ _ ((month_word_ok sp t ht alts next).2 hs); simpa [renderGroup] using this
  · simpa [renderGroup] using num2_no_space sp t.hour
  · simpa [renderGroup] using num2_no_space sp t.minute
  · simpa [renderGroup] using num2_no_space sp t.second

theorem renderItem_no_space {T : Tables} (sp : Spell) (t : DateTime) (it : Item) (next : List Item) (ht : FieldsOk t)
    (hsp : isSpaces it = false) (hshape : itemShape it = true) (hk : ∀ k alts, it = .group k alts → renderable k = true)
    (hs : spellOk T sp t it next = true) : NoSpace (renderItem sp t it) := by
  cases it with
  | lit c => intro x hx; simp [renderItem] at hx; subst hx; simpa [itemShape] using hshape
  | spaces run => simp [isSpaces] at hsp
  | group k alts => exact piece_no_space sp t k alts next ht (hk k alts rfl) hs

def noSpacesItems (items : List Item) : Bool := items.all fun it => !isSpaces it

/-- a format without white space writes a text without white space -/
theorem render_no_space {T : Tables} (t : DateTime) (ht : FieldsOk t) :
    ∀ (items : List Item) (sps : List Spell), wellShaped items = true → (groupNames items).all renderable = true →
      spellsOk T sps items t = true → noSpacesItems items = true → NoSpace (renderItems sps items t) := by
  intro items
  induction items with
  | nil => intro _ _ _ _ _ c hc; simp [renderItems] at hc
  | cons it is ih =>
    intro sps hw hr hs hn
    simp only [wellShaped, Bool.and_eq_true] at hw
    simp only [spellsOk, Bool.and_eq_true] at hs
    simp only [noSpacesItems, List.all_cons, Bool.and_eq_true, Bool.not_eq_true'] at hn
    have hk : ∀ k alts, it = .group k alts → renderable k = true := by
      intro k alts h; subst h
      simp only [groupNames, List.all_cons, Bool.and_eq_true] at hr; exact hr.1
    have h1 := renderItem_no_space (sps.headD {}) t it is ht hn.1 hw.1.1 hk hs.1
    have h2 := ih sps.tail hw.2 (groupNames_tail_renderable hr) hs.2 (by simpa [noSpacesItems] using hn.2)
    intro c hc
    simp only [renderItems, List.mem_append] at hc
    rcases hc with hc | hc
    · exact h1 c hc
    · exact h2 c hc

def lastNotSpaces (items : List Item) : Bool :=
  match items.getLast? with
  | some it => !isSpaces it
  | none => true

/-- the written text does not end in white space unless the format does -/
theorem render_last {T : Tables} (hT : TablesOk T) (t : DateTime) (ht : FieldsOk t) :
    ∀ (items : List Item) (sps : List Spell), wellShaped items = true → (groupNames items).all renderable = true →
      spellsOk T sps items t = true → lastNotSpaces items = true →
      ∀ c, (renderItems sps items t).getLast? = some c → isPySpace c = false := by
  intro items
  induction items with
  | nil => intro _ _ _ _ _ c hc; simp [renderItems] at hc
  | cons it is ih =>
    intro sps hw hr hs hl c hc
    have hw0 := hw
    have hs0 := hs
    simp only [wellShaped, Bool.and_eq_true] at hw
    simp only [spellsOk, Bool.and_eq_true] at hs
    have hr' := groupNames_tail_renderable hr
    cases is with
    | nil =>
      have hsp : isSpaces it = false := by simpa [lastNotSpaces] using hl
      have hk : ∀ k alts, it = .group k alts → renderable k = true := by
        intro k alts h; subst h
        simp only [groupNames, List.all_cons, Bool.and_eq_true] at hr; exact hr.1
      have h1 := renderItem_no_space (sps.headD {}) t it [] ht hsp hw.1.1 hk hs.1
      simp only [renderItems, List.append_nil] at hc
      exact h1 c (List.mem_of_getLast? hc)
    | cons it' is' =>
      obtain ⟨c', r', hR, -, -⟩ := render_head hT t ht it' is' sps.tail hw.2 hr' hs.2
      have hl' : lastNotSpaces (it' :: is') = true := by simpa [lastNotSpaces] using hl
      refine ih sps.tail hw.2 hr' hs.2 hl' c ?_
      simp only [renderItems] at hc hR ⊢
      rw [List.getLast?_append, hR] at hc
      rw [hR]
      simpa using hc

/-! ### which errors can come from where -/

theorem intOr_map_err {T : Tables} {v : Str} {f : Nat → Acc} {e : StrpErr} (h : (intOr T v).map f = .error e) :
    e = .outOfRange := by
  unfold intOr at h
  split at h
  · simp [Except.map] at h
  · simp [Except.map] at h; exact h.symm

theorem convertOne_err {T : Tables} {all : Caps} {a : Acc} {k : Char} {v : Str} {e : StrpErr}
    (h : convertOne T all a k v = .error e) : e = .outOfRange ∨ e = .notInList := by
  unfold convertOne at h
  split at h
  all_goals first
    | exact Or.inl (intOr_map_err h)
    | (split at h
       · cases h
       · cases h; exact Or.inr rfl)
    | cases h

theorem convertGo_err {T : Tables} {all : Caps} {e : StrpErr} :
    ∀ (caps : Caps) (a : Acc), convertGo T all a caps = .error e → e = .outOfRange ∨ e = .notInList := by
  intro caps
  induction caps with
  | nil => intro a h; cases h
  | cons kv r ih =>
    intro a h
    obtain ⟨k, v⟩ := kv
    simp only [convertGo] at h
    split at h
    · rename_i e' he; cases h; exact convertOne_err he
    · exact ih _ h

theorem dateOfYday_err {y j : Nat} {e : StrpErr} (h : dateOfYday y j = .error e) : e = .outOfRange := by
  unfold dateOfYday at h
  split at h
  · split at h
    · cases h
    · cases h; rfl
  · split at h
    · cases h
    · split at h
      · cases h
      · cases h; rfl

theorem ymdOf_err {y : Nat} {a : Acc} {e : StrpErr} (h : ymdOf y a = .error e) : e = .outOfRange := by
  unfold ymdOf at h
  split at h
  · split at h
    · cases h
    · cases h; rfl
  · split at h
    · exact dateOfYday_err h
    · cases h; rfl

theorem checked_err {x : DateTime} {e : StrpErr} (h : checked x = .error e) : e = .outOfRange := by
  unfold checked at h
  split at h
  · cases h
  · cases h; rfl

theorem finish_err {a : Acc} {e : StrpErr} (h : finish a = .error e) : e = .outOfRange := by
  unfold finish at h
  split at h
  · rename_i e' he; cases h; exact ymdOf_err he
  · exact checked_err h

/-- once the format compiles, `strptime` can only fail with a `ValueError` -/
theorem strptime_err_of_compile_ok {T : Tables} {fmt s : Str} {items : List Item} {e : StrpErr}
    (hc : compile fmt = .ok items) (h : strptime T fmt s = .error e) : e.toDateErr = .valueError := by
  unfold strptime at h
  rw [hc] at h
  dsimp only at h
  split at h
  · cases h; rfl
  · split at h
    · cases h; rfl
    · split at h
      · rename_i e' he
        cases h
        rcases convertGo_err _ _ he with rfl | rfl <;> rfl
      · rw [finish_err h]; rfl

theorem strptime_err_of_compile_err {T : Tables} {fmt s : Str} {e : StrpErr} (hc : compile fmt = .error e) :
    strptime T fmt s = .error e := by
  unfold strptime; rw [hc]

theorem spellsOk_nil (T : Tables) (items : List Item) (t : DateTime) : spellsOk T [] items t = true := by
  induction items with
  | nil => rfl
  | cons it is ih =>
    simp only [spellsOk, List.tail_nil, ih, Bool.and_true]
    cases it <;> simp [spellOk]

theorem asciiTables_ok : TablesOk asciiTables where
  digit_ascii _ _ := rfl
  ci_ascii _ _ _ _ := rfl
  ci_refl c := by simp [asciiTables]
  space_not_digit c h := by
    simp only [asciiTables, Csv.digitVal?]
    split
    · rename_i hd
      simp only [Bool.and_eq_true, decide_eq_true_eq] at hd
      simp only [isPySpace, Bool.or_eq_true, Bool.and_eq_true, decide_eq_true_eq, beq_iff_eq] at h
      omega
    · rfl
  lower_ascii _ _ := rfl

/-- a format string without white space compiles to a pattern without `\s+` -/
theorem scan_noSpaces (fmt : Str) (hfmt : fmt.all (fun c => !isPySpace c) = true) :
    ∀ items, scan fmt = .ok items → noSpacesItems items = true := by
  have key : ∀ (n : Nat) (fmt : Str), fmt.length ≤ n → fmt.all (fun c => !isPySpace c) = true →
      ∀ items, scan fmt = .ok items → noSpacesItems items = true := by
    intro n
    induction n with
    | zero =>
      intro fmt hl _ items h
      cases fmt with
      | nil => simp [scan] at h; subst h; rfl
      | cons c r => simp at hl
    | succ n ih =>
      intro fmt hl hall items h
      cases fmt with
      | nil => simp [scan] at h; subst h; rfl
      | cons c r =>
        simp only [List.all_cons, Bool.and_eq_true, Bool.not_eq_true'] at hall
        rw [scan.eq_def] at h; simp only at h
        split at h
        · split at h
          · cases h
          · rename_i k r'
            have hall' : r'.all (fun c => !isPySpace c) = true := by
              have := hall.2; simp only [List.all_cons, Bool.and_eq_true] at this; exact this.2
            have hl' : r'.length ≤ n := by simp at hl; omega
            split at h
            · cases h
            · split at h
              · cases h
              · cases h
              · cases hr : scan r' with
                | error e => simp [hr, Except.map] at h
                | ok its =>
                  simp only [hr, Except.map, Except.ok.injEq] at h
                  subst h
                  simpa [noSpacesItems, isSpaces] using ih r' hl' hall' its hr
              · cases hr : scan r' with
                | error e => simp [hr, Except.map] at h
                | ok its =>
                  simp only [hr, Except.map, Except.ok.injEq] at h
                  subst h
                  simpa [noSpacesItems, isSpaces] using ih r' hl' hall' its hr
        · have hl' : r.length ≤ n := by simp at hl; omega
          rw [if_neg (by rw [hall.1]; exact Bool.false_ne_true)] at h
          cases hr : scan r with
          | error e => simp [hr, Except.map] at h
          | ok its =>
            simp only [hr, Except.map, Except.ok.injEq] at h
            subst h
            simpa [noSpacesItems, isSpaces] using ih r hl' hall.2 its hr
  exact key fmt.length fmt (Nat.le_refl _) hfmt

theorem no_blank_of_noSpaces (fmt : Str) (hfmt : fmt.all (fun c => !isPySpace c) = true) : fmt.any isPySpace = false := by
  induction fmt with
  | nil => rfl
  | cons c cs ih =>
    simp only [List.all_cons, Bool.and_eq_true, Bool.not_eq_true'] at hfmt
    simp only [List.any_cons, hfmt.1, Bool.false_or]
    exact ih hfmt.2

end TallyVerif.Strptime
