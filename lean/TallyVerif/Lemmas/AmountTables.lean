import TallyVerif.Model.Csv
import TallyVerif.Gen.AmountTables
/-!
`parse_amount` as a program over its CONSTANTS, and the proof that with the constants regenerated from parsers.py
(`Gen/AmountTables.lean`) it is the hand model `Csv.cleanAmount` the C05 theorems are proved about.
-/
namespace TallyVerif.Csv

/-- the straight-line program of `parse_amount` before `float()`, for arbitrary constants: parenthesis pair, currency class,
the decimal separator of the comma mode with the characters removed before it is turned into the point, the characters removed
in the point mode (`.replace(a, '').replace(b, '')` removes every `a` and every `b`: a filter) -/
def cleanWith (po pc : Char) (cur : List Char) (euSep : Char) (euRem : List Char) (pt : Char) (usRem : List Char)
    (eu : Bool) (cell : Str) : Bool × Str :=
  let s := strip cell
  let paren := s.head? == some po && s.getLast? == some pc
  let s := if paren then (s.drop 1).dropLast else s
  let s := strip (s.filter fun c => !cur.contains c)
  let s := if eu then (s.filter fun c => !euRem.contains c).map (fun c => if c == euSep then pt else c)
           else s.filter fun c => !usRem.contains c
  (paren, s)

open TallyVerif.Gen.AmountTables in
/-- with the constants read from the source on this run, the program IS `cleanAmount` -/
theorem cleanWith_generated (eu : Bool) (cell : Str) :
    cleanWith parenOpen parenClose currencySymbols euSeparator euRemoved decimalPoint usRemoved eu cell = cleanAmount eu cell := by
  have hb : ∀ a b : Char, (a == b) = decide (a = b) := fun a b => by
    cases h : decide (a = b) <;> simp_all
  have hcur : (fun c : Char => !currencySymbols.contains c) = fun c => !isCurrency c := by
    funext c; simp [currencySymbols, isCurrency, hb, Bool.and_assoc]
  have heu : (fun c : Char => !euRemoved.contains c) = fun c => c != '.' && c != ' ' := by
    funext c; simp [euRemoved, bne, hb]
  have hus : (fun c : Char => !usRemoved.contains c) = fun c => c != ',' := by
    funext c; simp [usRemoved, bne, hb]
  simp only [cleanWith, cleanAmount, hcur, heu, hus, parenOpen, parenClose, euSeparator, decimalPoint]
  rfl

end TallyVerif.Csv
