import TallyVerif.Model.Fs
/-! Frame lemmas for C20: `lookup` after the primitive file-system updates, for ARBITRARY file systems. -/
namespace TallyVerif.Fs
variable {κ : Type}

theorem lookup_remove_ne (fs : FS κ) (p q : Path) (h : q ≠ p) : lookup (remove fs p) q = lookup fs q := by
  induction fs with
  | nil => rfl
  | cons e t ih =>
    obtain ⟨r, n⟩ := e
    unfold remove at ih ⊢
    by_cases hr : r = p
    · subst hr
      have hrq : ¬ r = q := fun hq => h hq.symm
      rw [List.filter_cons_of_neg (by simp)]
      simp only [lookup, hrq, if_false]
      exact ih
    · rw [List.filter_cons_of_pos (by simp [hr])]
      by_cases hq : r = q
      · simp only [lookup, hq, if_true]
      · simp only [lookup, hq, if_false]
        exact ih

theorem lookup_setNode_ne (fs : FS κ) (p q : Path) (n : Node κ) (h : q ≠ p) :
    lookup (setNode fs p n) q = lookup fs q := by
  have hp : p ≠ q := fun e => h e.symm
  simp only [setNode, lookup, hp, if_false]
  exact lookup_remove_ne fs p q h

theorem lookup_flushed_ne (fs : FS κ) (fl : Option (InFlight κ)) (q : Path)
    (h : ∀ f, fl = some f → q ≠ f.path) : lookup (flushed fs fl) q = lookup fs q := by
  cases fl with
  | none => rfl
  | some f => exact lookup_setNode_ne fs f.path q _ (h f rfl)

end TallyVerif.Fs
