import TallyVerif.Model.ClassPrelude
namespace TallyVerif

theorem forFirst_contains_eq_any (S ts : List String) :
    forFirst S (fun tag => if (List.contains ts tag) = true then some true else none) false
      = S.any (fun t => ts.contains t) := by
  unfold forFirst
  induction S with
  | nil => simp
  | cons s S ih =>
    simp only [List.findSome?_cons, List.any_cons]
    by_cases h : s ∈ ts
    · simp [h]
    · simpa [h] using ih

theorem setNonempty_setInter (ts S : List String) :
    setNonempty (setInter ts S) = ts.any (fun x => S.contains x) := by
  unfold setNonempty setInter
  induction ts with
  | nil => simp
  | cons t ts ih =>
    simp only [List.filter_cons, List.any_cons]
    by_cases h : t ∈ S
    · simp [h]
    · simpa [h] using ih

theorem any_contains_swap (ts S : List String) :
    ts.any (fun x => S.contains x) = S.any (fun t => ts.contains t) := by
  rw [Bool.eq_iff_iff]
  simp only [List.any_eq_true, List.contains_iff_mem]
  constructor
  · rintro ⟨x, hx, hs⟩; exact ⟨x, hs, hx⟩
  · rintro ⟨x, hx, hs⟩; exact ⟨x, hs, hx⟩

end TallyVerif
