import TallyVerif.Model.Config
/-! Helper lemmas for the settings-resolution theorems of Props/C11: dictionaries, the reads of `resolveSource`, the
list structure of `resolveAll` / `planFrom`, and the shape of a successful `resolveConfig`. -/
namespace TallyVerif.Config
open TallyVerif.Gen

/-! ### dictionaries -/

theorem get_cons (k k' : Str) (v : Y) (d : Dict) : get k' ((k, v) :: d) = if k = k' then some v else get k' d := rfl

theorem has_cons (k k' : Str) (v : Y) (d : Dict) : has k' ((k, v) :: d) = if k = k' then true else has k' d := by
  unfold has; rw [get_cons]; split <;> simp

theorem get_erase (k k' : Str) (d : Dict) : get k' (erase k d) = if k' = k then none else get k' d := by
  induction d with
  | nil => simp [erase, get]
  | cons p r ih =>
    obtain ⟨a, v⟩ := p
    unfold erase at ih ⊢
    simp only [List.filter_cons]
    by_cases h : a = k
    · subst h
      simp only [bne_self_eq_false, Bool.false_eq_true, if_false, ih, get]
      by_cases h2 : k' = a
      · simp [h2]
      · have : ¬ a = k' := fun e => h2 e.symm
        simp [h2, this]
    · have hb : (a != k) = true := by simpa using h
      simp only [hb, if_true, get, ih]
      by_cases h2 : a = k'
      · subst h2; simp [h]
      · simp [h2]

theorem get_erase_self (k : Str) (d : Dict) : get k (erase k d) = none := by simp [get_erase]

theorem get_insert (k k' : Str) (v : Y) (d : Dict) : get k' (insert k v d) = if k' = k then some v else get k' d := by
  unfold insert
  simp only [get, get_erase]
  by_cases h : k = k'
  · subst h; simp
  · have : ¬ k' = k := fun e => h e.symm
    simp [h, this]

theorem has_erase (k k' : Str) (d : Dict) : has k' (erase k d) = if k' = k then false else has k' d := by
  unfold has; rw [get_erase]; split <;> simp

theorem has_insert (k k' : Str) (v : Y) (d : Dict) : has k' (insert k v d) = if k' = k then true else has k' d := by
  unfold has; rw [get_insert]; split <;> simp

/-! ### the keys `resolve_source_format` reads -/

/-- every key `resolveSource` looks up in the source dict -/
def readKeys : List Str :=
  ConfigTables.REMOVED_SOURCE_KEYS ++ [kFormat, kType, kColumns, kDelimiter, kHasHeader, kNegateAmount, kName, kFile, kSupplemental,
    kDecimalSeparator]

/-- `resolveSource` is a function of the values of the keys it reads -/
theorem resolveSource_congr (e : Fmt.Ext) (d d' : Dict) (h : ∀ k ∈ readKeys, get k d = get k d') :
    resolveSource e (.map d) = resolveSource e (.map d') := by
  have h1 := h ['a', 'c', 'c', 'o', 'u', 'n', 't', '_', 't', 'y', 'p', 'e'] (by decide)
  have h2 := h ['s', 'k', 'i', 'p', '_', 'n', 'e', 'g', 'a', 't', 'i', 'v', 'e'] (by decide)
  have h3 := h kFormat (by decide)
  have h4 := h kType (by decide)
  have h5 := h kColumns (by decide)
  have h6 := h kDelimiter (by decide)
  have h7 := h kHasHeader (by decide)
  have h8 := h kNegateAmount (by decide)
  have h9 := h kName (by decide)
  have h10 := h kFile (by decide)
  have h11 := h kSupplemental (by decide)
  have h12 := h kDecimalSeparator (by decide)
  simp only [resolveSource, resolveGeneric, mkSource, templateOf, has, ConfigTables.REMOVED_SOURCE_KEYS, List.find?_cons, List.find?_nil,
    h1, h2, h3, h4, h5, h6, h7, h8, h9, h10, h11, h12]

/-- a key the code does not read can be added, changed or removed freely -/
theorem resolveSource_unread (e : Fmt.Ext) (d : Dict) (k : Str) (v : Y) (hk : k ∉ readKeys) :
    resolveSource e (.map (insert k v d)) = resolveSource e (.map (erase k d)) := by
  apply resolveSource_congr
  intro k' hk'
  have : ¬ k' = k := fun e => hk (e ▸ hk')
  simp [get_insert, get_erase, this]

/-! ### absent = default, per key (stated on `(k, default) :: d`; the erase / insert forms are in Props/C11) -/

theorem resolveSource_absent_delimiter (e : Fmt.Ext) (d : Dict) (h : get kDelimiter d = none) :
    resolveSource e (.map d) = resolveSource e (.map ((kDelimiter, .null) :: d)) := by
  simp [resolveSource, resolveGeneric, mkSource, templateOf, get_cons, has_cons, List.find?_cons,
    ConfigTables.REMOVED_SOURCE_KEYS, kDelimiter, kFormat, kType, kName, kFile, kColumns, kHasHeader, kNegateAmount, kSupplemental,
    kDecimalSeparator] at h ⊢
  simp [h]

theorem resolveSource_absent_has_header (e : Fmt.Ext) (d : Dict) (h : get kHasHeader d = none) :
    resolveSource e (.map d) = resolveSource e (.map ((kHasHeader, .bool true) :: d)) := by
  simp [resolveSource, resolveGeneric, mkSource, templateOf, get_cons, has_cons, List.find?_cons,
    ConfigTables.REMOVED_SOURCE_KEYS, ConfigTables.SPEC_HAS_HEADER_DEFAULT, kDelimiter, kFormat, kType, kName, kFile, kColumns, kHasHeader,
    kNegateAmount, kSupplemental, kDecimalSeparator] at h ⊢
  simp [h]

theorem resolveSource_absent_decimal_separator (e : Fmt.Ext) (d : Dict) (h : get kDecimalSeparator d = none) :
    resolveSource e (.map d) = resolveSource e (.map ((kDecimalSeparator, .str ['.']) :: d)) := by
  simp [resolveSource, resolveGeneric, mkSource, templateOf, get_cons, has_cons, List.find?_cons,
    ConfigTables.REMOVED_SOURCE_KEYS, ConfigTables.DECIMAL_DEFAULT, kDelimiter, kFormat, kType, kName, kFile, kColumns, kHasHeader,
    kNegateAmount, kSupplemental, kDecimalSeparator] at h ⊢
  simp [h]

theorem resolveSource_absent_supplemental (e : Fmt.Ext) (d : Dict) (h : get kSupplemental d = none) :
    resolveSource e (.map d) = resolveSource e (.map ((kSupplemental, .bool false) :: d)) := by
  simp [resolveSource, resolveGeneric, mkSource, templateOf, get_cons, has_cons, List.find?_cons,
    ConfigTables.REMOVED_SOURCE_KEYS, kDelimiter, kFormat, kType, kName, kFile, kColumns, kHasHeader, kNegateAmount, kSupplemental,
    kDecimalSeparator] at h ⊢
  simp [h]

/-- what the source's own format string says about the sign (`{-amount}`); `none`: there is no `format:` or it is rejected -/
def formatFlag (e : Fmt.Ext) (d : Dict) : Option Bool :=
  match get kFormat d with
  | some fmt => (parseFormatY e fmt (templateOf d)).toOption.map (·.negateAmount)
  | none => none

theorem templateOf_cons (k : Str) (v : Y) (d : Dict) (hk : k ≠ kColumns) : templateOf ((k, v) :: d) = templateOf d := by
  simp [templateOf, get_cons, hk]

theorem resolveSource_absent_negate_amount (e : Fmt.Ext) (d : Dict) (v : Y) (h : get kNegateAmount d = none)
    (hv : formatFlag e d = none ∨ ∃ b, formatFlag e d = some b ∧ v = .bool b) :
    resolveSource e (.map d) = resolveSource e (.map ((kNegateAmount, v) :: d)) := by
  have ht : templateOf ((kNegateAmount, v) :: d) = templateOf d := templateOf_cons _ _ _ (by decide)
  unfold formatFlag at hv
  have hrem : ConfigTables.REMOVED_SOURCE_KEYS.find? (fun k => has k ((kNegateAmount, v) :: d)) =
      ConfigTables.REMOVED_SOURCE_KEYS.find? (fun k => has k d) := by
    simp (config := { decide := true }) only [ConfigTables.REMOVED_SOURCE_KEYS, List.find?_cons, List.find?_nil, has_cons, if_false]
  simp (config := { decide := true }) only [resolveSource, hrem, resolveGeneric, mkSource, get_cons, if_false, if_true, ht, h]
  cases ConfigTables.REMOVED_SOURCE_KEYS.find? (fun k => has k d) with
  | some k => rfl
  | none =>
    cases hfmt : get kFormat d with
    | none => rfl
    | some fmt =>
      simp only [hfmt] at hv ⊢
      cases hp : parseFormatY e fmt (templateOf d) with
      | error err => rfl
      | ok spec =>
        rw [hp] at hv
        have hvb : v = .bool spec.negateAmount := by
          rcases hv with hv | ⟨b, hb, rfl⟩
          · simp [Except.toOption] at hv
          · simp [Except.toOption] at hb; simp [hb]
        subst hvb
        simp [Except.map]

/-! ### lists of sources -/

theorem resolveAll_append (e : Fmt.Ext) (a b : List Y) (S : List SourceCfg) (h : resolveAll e (a ++ b) = .ok S) :
    ∃ A B, resolveAll e a = .ok A ∧ resolveAll e b = .ok B ∧ S = A ++ B := by
  induction a generalizing S with
  | nil => exact ⟨[], S, rfl, h, rfl⟩
  | cons x a ih =>
    simp only [List.cons_append, resolveAll] at h ⊢
    cases hx : resolveSource e x with
    | error err => simp [hx] at h
    | ok s =>
      simp only [hx] at h ⊢
      cases hr : resolveAll e (a ++ b) with
      | error err => simp [hr] at h
      | ok S' =>
        simp only [hr, Except.ok.injEq] at h
        obtain ⟨A, B, hA, hB, rfl⟩ := ih S' hr
        exact ⟨s :: A, B, by simp [hA], hB, by simp [← h]⟩

theorem resolveAll_cons (e : Fmt.Ext) (x : Y) (b : List Y) (S : List SourceCfg) (h : resolveAll e (x :: b) = .ok S) :
    ∃ s B, resolveSource e x = .ok s ∧ resolveAll e b = .ok B ∧ S = s :: B := by
  simp only [resolveAll] at h
  cases hx : resolveSource e x with
  | error err => simp [hx] at h
  | ok s =>
    simp only [hx] at h
    cases hr : resolveAll e b with
    | error err => simp [hr] at h
    | ok B =>
      simp only [hr, Except.ok.injEq] at h
      exact ⟨s, B, rfl, rfl, h.symm⟩

theorem resolveAll_length (e : Fmt.Ext) (a : List Y) (A : List SourceCfg) (h : resolveAll e a = .ok A) : A.length = a.length := by
  induction a generalizing A with
  | nil => simp [resolveAll] at h; simp [← h]
  | cons x a ih =>
    obtain ⟨s, B, _, hB, rfl⟩ := resolveAll_cons e x a A h
    simp [ih B hB]

/-- every source of a list that loads is accepted on its own -/
theorem resolveAll_ok_iff (e : Fmt.Ext) (xs : List Y) : (resolveAll e xs).isOk = xs.all (fun x => (resolveSource e x).isOk) := by
  induction xs with
  | nil => rfl
  | cons x xs ih =>
    simp only [resolveAll, List.all_cons]
    cases hx : resolveSource e x with
    | error err => rfl
    | ok s =>
      rw [← ih]
      cases resolveAll e xs <;> rfl

/-! ### the plan, list by list -/

theorem planFrom_append (q : Bool) (env : Env) (i : Nat) (A B : List SourceCfg) (P : List Planned)
    (h : planFrom q env i (A ++ B) = .ok P) :
    ∃ PA PB, planFrom q env i A = .ok PA ∧ planFrom q env (i + A.length) B = .ok PB ∧ P = PA ++ PB := by
  induction A generalizing i P with
  | nil => exact ⟨[], P, rfl, by simpa using h, rfl⟩
  | cons s A ih =>
    simp only [List.cons_append, planFrom] at h ⊢
    cases hs : planOne q env i s with
    | error err => simp [hs] at h
    | ok here =>
      simp only [hs] at h ⊢
      cases hr : planFrom q env (i + 1) (A ++ B) with
      | error err => simp [hr] at h
      | ok rest =>
        simp only [hr, Except.ok.injEq] at h
        obtain ⟨PA, PB, hA, hB, rfl⟩ := ih (i + 1) rest hr
        refine ⟨here.toList ++ PA, PB, by simp [hA], ?_, by simp [← h]⟩
        rw [← hB]
        congr 1
        simp only [List.length_cons]
        omega

theorem planFrom_cons (q : Bool) (env : Env) (i : Nat) (s : SourceCfg) (B : List SourceCfg) (P : List Planned)
    (h : planFrom q env i (s :: B) = .ok P) :
    ∃ here PB, planOne q env i s = .ok here ∧ planFrom q env (i + 1) B = .ok PB ∧ P = here.toList ++ PB := by
  simp only [planFrom] at h
  cases hs : planOne q env i s with
  | error err => simp [hs] at h
  | ok here =>
    simp only [hs] at h
    cases hr : planFrom q env (i + 1) B with
    | error err => simp [hr] at h
    | ok rest =>
      simp only [hr, Except.ok.injEq] at h
      exact ⟨here, rest, rfl, rfl, h.symm⟩

theorem planOne_index (q : Bool) (env : Env) (i : Nat) (s : SourceCfg) (p : Planned) (h : planOne q env i s = .ok (some p)) :
    p.index = i := by
  unfold planOne at h
  repeat' split at h
  all_goals first | (cases h; rfl) | cases h

theorem planFrom_index (q : Bool) (env : Env) (i : Nat) (L : List SourceCfg) (P : List Planned) (h : planFrom q env i L = .ok P) :
    ∀ p ∈ P, i ≤ p.index ∧ p.index < i + L.length := by
  induction L generalizing i P with
  | nil => simp [planFrom] at h; simp [h]
  | cons s L ih =>
    obtain ⟨here, PB, hs, hB, rfl⟩ := planFrom_cons q env i s L P h
    intro p hp
    rcases List.mem_append.mp hp with hp | hp
    · cases here with
      | none => simp at hp
      | some p0 =>
        simp only [Option.toList_some, List.mem_singleton] at hp
        subst hp
        have := planOne_index q env i s p hs
        simp only [List.length_cons]
        omega
    · have := ih (i + 1) PB hB p hp
      simp only [List.length_cons]
      omega

/-! ### the shape of a configuration that loads -/

theorem resolveConfig_ok (env : Env) (c : Dict) (cfg : Config) (h : resolveConfig env (.map c) = .ok cfg) :
    ∃ ss rf wr vf wv,
      resolveSources env.ext (get kDataSources c) = .ok ss ∧ resolveRulesFile env c = .ok (rf, wr) ∧
      resolveViewsFile env c = .ok (vf, wv) ∧
      cfg = { sources := ss, ruleMode := (resolveRuleMode c).1, rulesFile := rf, viewsFile := vf,
              warnings := parserWarnings ss ++ removedWarnings c ++ (resolveRuleMode c).2 ++ wr ++ wv,
              descriptionCleaning := (get kDescriptionCleaning c).getD .null } := by
  simp only [resolveConfig] at h
  cases hs : resolveSources env.ext (get kDataSources c) with
  | error err => simp [hs] at h
  | ok ss =>
    simp only [hs] at h
    cases hr : resolveRulesFile env c with
    | error err => simp [hr] at h
    | ok p =>
      obtain ⟨rf, wr⟩ := p
      simp only [hr] at h
      cases hv : resolveViewsFile env c with
      | error err => simp [hv] at h
      | ok p2 =>
        obtain ⟨vf, wv⟩ := p2
        simp only [hv, Except.ok.injEq] at h
        exact ⟨ss, rf, wr, vf, wv, rfl, rfl, rfl, h.symm⟩

/-- the three blocks of `load_config` that can raise, in the order they run -/
theorem resolveConfig_isOk (env : Env) (c : Dict) :
    (resolveConfig env (.map c)).isOk =
      ((resolveSources env.ext (get kDataSources c)).isOk && (resolveRulesFile env c).isOk && (resolveViewsFile env c).isOk) := by
  simp only [resolveConfig]
  cases resolveSources env.ext (get kDataSources c) with
  | error err => rfl
  | ok ss =>
    cases resolveRulesFile env c with
    | error err => rfl
    | ok p =>
      cases resolveViewsFile env c with
      | error err => rfl
      | ok p2 => rfl

/-! ### `resolveConfig` as a function of its five reads -/

/-- `load_config` after its reads: the first block that raises decides -/
def assemble (ss : Except CfgErr (List SourceCfg)) (m : RuleMode × List Warning) (rf : Except CfgErr (RulesFile × List Warning))
    (vf : Except CfgErr (Option Str × List Warning)) (removed : List Warning) (dc : Y) : Except CfgErr Config :=
  match ss with
  | .error err => .error err
  | .ok ss =>
    match rf with
    | .error err => .error err
    | .ok (rf, wr) =>
      match vf with
      | .error err => .error err
      | .ok (vf, wv) =>
        .ok { sources := ss, ruleMode := m.1, rulesFile := rf, viewsFile := vf,
              warnings := parserWarnings ss ++ removed ++ m.2 ++ wr ++ wv, descriptionCleaning := dc }

theorem resolveConfig_eq_assemble (env : Env) (c : Dict) :
    resolveConfig env (.map c) =
      assemble (resolveSources env.ext (get kDataSources c)) (resolveRuleMode c) (resolveRulesFile env c) (resolveViewsFile env c)
        (removedWarnings c) ((get kDescriptionCleaning c).getD .null) := by
  simp only [resolveConfig, assemble]
  cases resolveSources env.ext (get kDataSources c) with
  | error err => rfl
  | ok ss =>
    cases resolveRulesFile env c with
    | error err => rfl
    | ok p =>
      cases resolveViewsFile env c with
      | error err => rfl
      | ok p2 => rfl

theorem resolveRulesFile_congr (env : Env) (c c' : Dict) (h : get kMerchantsFile c = get kMerchantsFile c') :
    resolveRulesFile env c = resolveRulesFile env c' := by
  unfold resolveRulesFile; rw [h]

theorem resolveViewsFile_congr (env : Env) (c c' : Dict) (h : get kViewsFile c = get kViewsFile c') :
    resolveViewsFile env c = resolveViewsFile env c' := by
  unfold resolveViewsFile; rw [h]

theorem resolveRuleMode_congr (c c' : Dict) (h : get kRuleMode c = get kRuleMode c') : resolveRuleMode c = resolveRuleMode c' := by
  unfold resolveRuleMode; rw [h]

theorem removedWarnings_congr (c c' : Dict) (h : ∀ k ∈ ConfigTables.REMOVED_SETTINGS, get k c = get k c') :
    removedWarnings c = removedWarnings c' := by
  unfold removedWarnings
  have : ConfigTables.REMOVED_SETTINGS.filter (fun k => has k c) = ConfigTables.REMOVED_SETTINGS.filter (fun k => has k c') := by
    apply List.filter_congr
    intro k hk
    simp only [has, h k hk]
  rw [this]

/-- every key `load_config` (and `cmd_run`'s removed-setting test) reads from the settings object -/
def topKeys : List Str :=
  ConfigTables.REMOVED_SETTINGS ++ [kDataSources, kRuleMode, kMerchantsFile, kViewsFile, kDescriptionCleaning]

/-- two settings objects that agree on every top-level key but `k` are loaded alike as soon as the block that reads `k` is -/
theorem resolveConfig_congr (env : Env) (c c' : Dict) (h : ∀ k ∈ topKeys, get k c = get k c') :
    resolveConfig env (.map c) = resolveConfig env (.map c') := by
  rw [resolveConfig_eq_assemble, resolveConfig_eq_assemble]
  rw [h kDataSources (by decide), resolveRuleMode_congr c c' (h kRuleMode (by decide)),
    resolveRulesFile_congr env c c' (h kMerchantsFile (by decide)), resolveViewsFile_congr env c c' (h kViewsFile (by decide)),
    removedWarnings_congr c c' (fun k hk => h k (List.mem_append_left _ hk)), h kDescriptionCleaning (by decide)]

end TallyVerif.Config
