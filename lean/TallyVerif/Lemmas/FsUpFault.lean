import TallyVerif.Model.Fs
/-! Exhaustive kernel-checked evaluation of the C15 safety check on the REPAIRED step order
(`Variants.repaired`): every budget shape of one settings kind × every crash snapshot × every in-flight
state, resp. every single-event fault.  `decide +kernel`: no axioms.  (FsUpFault) -/
namespace TallyVerif.Fs
set_option maxRecDepth 100000
theorem upFault_absent :
    ((shapesOf .absent).all fun s => faultCheck .repaired .upMigrate (s.fs id)) = true := by decide +kernel

theorem upFault_plain :
    ((shapesOf .plain).all fun s => faultCheck .repaired .upMigrate (s.fs id)) = true := by decide +kernel

theorem upFault_commentMF :
    ((shapesOf .commentMF).all fun s => faultCheck .repaired .upMigrate (s.fs id)) = true := by decide +kernel

theorem upFault_keyRules :
    ((shapesOf .keyRules).all fun s => faultCheck .repaired .upMigrate (s.fs id)) = true := by decide +kernel

theorem upFault_keyOther :
    ((shapesOf .keyOther).all fun s => faultCheck .repaired .upMigrate (s.fs id)) = true := by decide +kernel

end TallyVerif.Fs
